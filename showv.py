#!/usr/bin/env python3
# showv.py <replay.json> : print the Go source of the function behind a C01/C02 violation and its emitted definition
import json,sys,re
d=json.load(open(sys.argv[1]))
print(d['what']); det=d['detail']
c=det.get('case',{})
src=det.get('go_source','') or '\n'.join(det.get('source',{}).values())
v=det.get('v','')
name=c.get('Case') or c.get('case') or ''
m=re.search(r'func '+re.escape(name)+r'\(\).*?\n}\n',src,re.S)
callee=None
if m:
    print(m.group(0)); cm=re.search(r'return (\w+)\(',m.group(0)); callee=cm.group(1) if cm else None
for n in ([callee] if callee else []):
    m=re.search(r'func '+n+r'\(.*?\n}\n',src,re.S)
    if m: print(m.group(0))
    m=re.search(r'Definition '+n+r'[ :(].*?\.\n\n',v,re.S)
    if m: print(m.group(0))
if len(sys.argv)>2: print(src)
