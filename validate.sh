#!/bin/bash
# validates MANIFEST.json and every evidence file against the schemas
python3-vt - <<'PY'
import json,glob,jsonschema,sys
ok=True
m=json.load(open('/verif/MANIFEST.json'))
jsonschema.validate(m,json.load(open('/root/.vp/MANIFEST.schema.json')))
props=[json.loads(l)['id'] for l in open('/verif/properties.jsonl')]
claimed={c['property_id'] for c in m['checks']}
na={c['property_id'] for c in m.get('not_applicable',[])}
for p in props:
    if (p in claimed)==(p in na): print('manifest: property',p,'claimed/na mismatch'); ok=False
es=json.load(open('/root/.vp/EVIDENCE.schema.json'))
for f in sorted(glob.glob('/verif/evidence/*.json')):
    try:
        jsonschema.validate(json.load(open(f)),es)
    except Exception as e:
        print('INVALID',f,str(e)[:300]); ok=False
print('validate:', 'ok' if ok else 'FAILED')
sys.exit(0 if ok else 1)
PY
