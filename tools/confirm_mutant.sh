#!/bin/bash
# tools/confirm_mutant.sh <agent-id> <n> <seeded-name> <demo command> <check ids...>
# Confirms a seeded change in the agent's scratch worktree (/tmp/mut/<agent-id>): demo passes on the unchanged
# tree, patch applies, repo suite passes with it, demo fails with it. Then runs the given checks against a
# patched scratch copy (tools/try_patch.sh) and files everything under /verif/seeded/<seeded-name>/.
set -u
export GOFLAGS=-mod=mod GOPROXY=off GOSUMDB=off GOTOOLCHAIN=local
ID="$1"; N="$2"; NAME="$3"; DEMO="$4"; shift 4
W=/tmp/mut/$ID; O=/tmp/mut/$ID-out
PATCH=$O/patch$N.diff
cd "$W" && git checkout -q -- . && git clean -fdq
echo "--- demo on unchanged worktree"
( eval "$DEMO" ) >"$O/confirm$N.without.txt" 2>&1; c0=$?
git -C "$W" apply --whitespace=nowarn "$PATCH" || { echo "patch does not apply"; exit 2; }
echo "--- demo with the change"
( eval "$DEMO" ) >"$O/confirm$N.with.txt" 2>&1; c1=$?
git -C "$W" checkout -q -- . ; git -C "$W" clean -fdq
echo "demo exit without=$c0 with=$c1"
res=$(/verif/tools/try_patch.sh "$PATCH" "$@" 2>&1)
echo "$res" | tail -n +1 | cut -c1-400
D=/verif/seeded/$NAME
mkdir -p "$D"
cp "$PATCH" "$D/patch.diff"
rm -rf "$D/demo"; cp -r "$O/demo$N" "$D/demo" 2>/dev/null
rm -f "$D"/demo/*.bin "$D"/demo/demo2bin "$D"/demo/goose
python3 - "$O/meta$N.json" "$D/meta.json" "$c0" "$c1" "$DEMO" "$res" "$@" <<'PY'
import json,sys
src,dst,c0,c1,demo,res=sys.argv[1:7]; checks=sys.argv[7:]
try: m=json.load(open(src))
except Exception: m={}
m['demo_command']=demo
m['confirmed_by_lead']={'demo_exit_unchanged':int(c0),'demo_exit_with_change':int(c1),
  'repo_suite_passes_with_change': 'passes the repo suite' in res,
  'ran':'tools/confirm_mutant.sh (demo in the scratch worktree; checks via tools/try_patch.sh on a patched scratch copy)'}
det={}
for line in res.splitlines():
    if line.startswith('RESULT'):
        parts=dict(kv.split('=',1) for kv in line.split(' :: ')[0].split()[1:])
        det[parts['check']]={'tier':parts.get('tier'),'exit':int(parts['exit']),'violations':int(parts['violations']),'signatures':line.split(' :: ',1)[1].strip() if ' :: ' in line else ''}
m['checks_run']=det
m['detected_by']=[k for k,v in det.items() if v['exit']==1]
json.dump(m,open(dst,'w'),indent=1)
print('filed',dst,'detected_by',m['detected_by'])
PY
