#!/bin/bash
# tools/try_patch.sh <patch.diff> <check ids...>
# Applies the patch to a scratch copy of /repo (never to /repo itself), confirms that it builds and that the
# repository's own test suite still passes, then runs the given quick checks of a scratch copy of the
# framework linked against the patched copy. Prints one line per check. VCHECK_PKG=./cmd/vcheck-<group> builds
# only that group's driver (for builders working in parallel on different groups).
set -u
export GOFLAGS=-mod=mod GOPROXY=off GOSUMDB=off GOTOOLCHAIN=local
PATCH="$(readlink -f "$1")"; shift
S=$(mktemp -d /tmp/tryp-XXXXXX)
trap 'rm -rf "$S"' EXIT
mkdir "$S/repo" && (cd /repo && git archive HEAD | tar -x -C "$S/repo")
( cd "$S/repo" && git init -q . && { git apply --whitespace=nowarn "$PATCH" 2>/dev/null || patch -p1 -s -F3 --no-backup-if-mismatch < "$PATCH"; } ) || { echo "PATCH does not apply"; exit 2; }
( cd "$S/repo" && go build ./... ) || { echo "PATCHED tree does not build"; exit 2; }
if ! ( cd "$S/repo" && go test -vet=off -count=1 ./... >"$S/test.log" 2>&1 ); then echo "PATCHED tree FAILS the repo tests (invalid seeded change)"; grep -E "^(---|FAIL)" "$S/test.log" | head -5; exit 2; fi
echo "patched tree builds and passes the repo suite"
cp -r /verif/framework "$S/framework"
sed -i "s#=> /repo#=> $S/repo#" "$S/framework/go.mod"
( cd "$S/framework" && go build -tags verif -o "$S/vcheck" "${VCHECK_PKG:-./cmd/vcheck}" ) || { echo "framework does not build against patched tree"; exit 2; }
TIER="${TIER:-quick}"
for id in "$@"; do
  out=$(cd /verif && VERIF_REPO="$S/repo" VERIF_FRAMEWORK="$S/framework" timeout 1800 "$S/vcheck" run "$id" "$TIER" 2>&1)
  code=$?
  nviol=$(echo "$out" | grep -c "^VIOLATION")
  echo "RESULT check=$id tier=$TIER exit=$code violations=$nviol :: $(echo "$out" | grep 'sig:' | head -3 | tr -s ' ' | tr '\n' ' ')"
done
