#!/bin/bash
# tools/try_patch.sh <patch.diff> <check ids...>
# Applies the patch to a scratch copy of /repo (never to /repo itself), confirms that it builds and that the
# repository's own test suite still passes, then runs the given quick checks of a scratch copy of the
# framework linked against the patched copy. Prints one line per check. VCHECK_PKG=./cmd/vcheck-<group> builds
# only that group's driver (for builders working in parallel on different groups).
set -u
export GOFLAGS=-mod=mod GOPROXY=off GOSUMDB=off GOTOOLCHAIN=local
PATCH="$(readlink -f "$1")"; shift
S=$(mktemp -d /tmp/tryp-XXXXXX)
trap 'chmod -R u+w "$S" 2>/dev/null; rm -rf "$S"' EXIT
# a private build cache: every run compiles a copy of /repo and of the framework at a new path, which would
# otherwise add gigabytes to the shared cache (the disk guard then empties it under everybody's feet)
export GOCACHE="$S/gocache"
mkdir "$S/repo" && (cd /repo && git archive HEAD | tar -x -C "$S/repo")
( cd "$S/repo" && git init -q . && { git apply --whitespace=nowarn "$PATCH" 2>/dev/null || patch -p1 -s -F3 --no-backup-if-mismatch < "$PATCH"; } ) || { echo "PATCH does not apply"; exit 2; }
( cd "$S/repo" && go build ./... ) || { echo "PATCHED tree does not build"; exit 2; }
if ! ( cd "$S/repo" && go test -vet=off -count=1 ./... >"$S/test.log" 2>&1 ); then echo "PATCHED tree FAILS the repo tests (invalid seeded change)"; grep -E "^(---|FAIL)" "$S/test.log" | head -5; exit 2; fi
echo "patched tree builds and passes the repo suite"
cp -r /verif/framework "$S/framework"
sed -i "s#=> /repo#=> $S/repo#" "$S/framework/go.mod"
pkg_for() {
  if [ -n "${VCHECK_PKG:-}" ]; then echo "$VCHECK_PKG"; return; fi
  case "$1" in
    C04|C07) echo ./cmd/vcheck-declp;; C06|C08|C17) echo ./cmd/vcheck-clip;; C09|C10) echo ./cmd/vcheck-diskp;;
    C11|C13) echo ./cmd/vcheck-faultp;; C12|C14) echo ./cmd/vcheck-fsp;; C16|C18) echo ./cmd/vcheck-miscp;; *) echo ./cmd/vcheck;;
  esac
}
TIER="${TIER:-quick}"
for id in "$@"; do
  pkg=$(pkg_for "$id"); bin="$S/$(basename "$pkg")"
  if [ ! -x "$bin" ]; then
    ( cd "$S/framework" && go build -tags verif -o "$bin" "$pkg" ) || { echo "RESULT check=$id tier=$TIER exit=2 violations=0 :: framework ($pkg) does not build against patched tree"; continue; }
  fi
  out=$(cd /verif && VERIF_REPO="$S/repo" VERIF_FRAMEWORK="$S/framework" timeout 2400 "$bin" run "$id" "$TIER" 2>&1)
  code=$?
  nviol=$(echo "$out" | grep -c "^VIOLATION")
  echo "RESULT check=$id tier=$TIER exit=$code violations=$nviol :: $(echo "$out" | grep 'sig:' | head -3 | tr -s ' ' | tr '\n' ' ')"
done
