#!/bin/bash
# tools/mkpatch.sh <out.diff> : python edit script on stdin (sys.argv[1] = scratch repo dir) -> unified diff against /repo HEAD
set -eu
OUT="$(readlink -f "$1")"
S=$(mktemp -d /tmp/mkp-XXXXXX)
trap 'rm -rf "$S"' EXIT
mkdir "$S/repo" && (cd /repo && git archive HEAD | tar -x -C "$S/repo")
cd "$S/repo" && git init -q . && git add -A >/dev/null && git -c user.email=a@b -c user.name=x commit -qm base
python3 - "$S/repo"
git diff > "$OUT"
test -s "$OUT" || { echo "empty patch"; exit 1; }
echo "wrote $OUT ($(wc -l < "$OUT") lines)"
