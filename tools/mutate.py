#!/usr/bin/env python3
"""tools/mutate.py <out-dir> <max-mutants> <seed> [file ...]

Systematic confirmation of the monitors (DESIGN.md: "break the property on a scratch copy and confirm the
monitor fires"): generates single-site mutants of /repo's sources with a few syntactic operators, keeps
those that still build AND still pass the repository's own test suite (the others are not realistic
seeded changes: the existing tests settle them), and runs the quick checks named for the mutated file
against each survivor. Writes one JSON line per mutant to <out-dir>/results.jsonl and the surviving diffs to
<out-dir>/<id>.diff. Nothing is written to /repo or to /verif/seeded.

Operators
  drop-guard     remove one `ctx.unsupported(...)` / `ctx.todo(...)` / `ctx.futureWork(...)` / `ctx.nope(...)` statement
  drop-dep       remove one `ctx.dep.addDep(...)` / `ctx.dep.addName(...)` statement
  negate-if      `if cond {` -> `if !(cond) {` for conditions without := and without err
  swap-bool      a `true` / `false` argument literal flipped (needs_paren and similar flags)
  swap-ident     one Gallina identifier string replaced by a sibling ("SliceTake" <-> "SliceSkip", ...)
  drop-stmt      remove one simple statement line (assignment / call) inside a function body
  off-by-one     `+ 1` <-> `- 1`, `<` <-> `<=`, `>=` <-> `>` in one place
"""
import json, os, random, re, shutil, subprocess, sys, tempfile

ENV = dict(os.environ, GOFLAGS='-mod=mod', GOPROXY='off', GOSUMDB='off', GOTOOLCHAIN='local')
CHECKS = {
    'goose.go': ['C02', 'C01', 'C05', 'C04', 'C07'],
    'types.go': ['C02', 'C01', 'C04'],
    'interface.go': ['C04', 'C06', 'C07', 'C08'],
    'ifaceconv.go': ['C02'],
    'internal/coq/coq.go': ['C05', 'C01', 'C08'],
    'cmd/goose/main.go': ['C17', 'C06'],
    'cmd/test_gen/main.go': ['C18'],
    'machine/prims.go': ['C15', 'C16'],
    'machine/disk/mem.go': ['C09', 'C10'],
    'machine/disk/file.go': ['C09', 'C10', 'C11'],
    'machine/disk/disk.go': ['C09'],
    'machine/filesys/mem.go': ['C12', 'C14', 'C13'],
    'machine/filesys/dir.go': ['C12', 'C13', 'C14'],
    'machine/filesys/filesys.go': ['C12'],
    'machine/async_disk/mem.go': ['C09', 'C10'],
    'machine/async_disk/file.go': ['C09', 'C10', 'C11'],
    'machine/async_disk/async_disk.go': ['C09'],
    
}
SIBLINGS = [("SliceTake", "SliceSkip"), ("SliceGet", "SliceRef"), ("MapGet", "MapInsert"), ("struct.loadF", "struct.get"),
            ("struct.storeF", "struct.store"), ("lock.acquire", "lock.release"), ("lock.condSignal", "lock.condBroadcast"),
            ("waitgroup.Add", "waitgroup.Done"), ("to_u64", "to_u32"), ("to_u32", "to_u8"), ("uint64T", "uint32T"),
            ("NewSlice", "NewSliceWithCap"), ("SliceAppend", "SliceAppendSlice"), ("ref_to", "ref"), ("Continue", "Break"),
            ("StringToBytes", "StringFromBytes"), ("UInt64Put", "UInt32Put"), ("UInt64Get", "UInt32Get")]


def sites(path, text):
    out = []
    lines = text.split('\n')
    infunc = False
    for i, l in enumerate(lines):
        s = l.strip()
        if l.startswith('func '):
            infunc = True
        if l.startswith('}'):
            infunc = False
        if not infunc or s.startswith('//'):
            continue
        if re.match(r'ctx\.(unsupported|todo|futureWork|nope|noExample)\(', s) and s.endswith(')'):
            out.append(('drop-guard', i, None))
        if re.match(r'ctx\.dep\.(addDep|addName)\(', s):
            out.append(('drop-dep', i, None))
        m = re.match(r'^(\s*)(?:} else )?if ([^{;]+) \{$', l)
        if m and ':=' not in m.group(2) and 'err' not in m.group(2) and 'ok' != m.group(2).strip():
            out.append(('negate-if', i, None))
        for mm in re.finditer(r'\b(true|false)\b', l):
            if '(' in l[:mm.start()] and 'return' not in s[:7] and ':=' not in l and '= ' not in l.split('(')[0]:
                out.append(('swap-bool', i, mm.start()))
        for a, b in SIBLINGS:
            for x, y in ((a, b), (b, a)):
                k = l.find('"%s"' % x)
                if k >= 0:
                    out.append(('swap-ident', i, (x, y)))
        if re.match(r'^[\w\.\[\]\*]+(, [\w\.\[\]\*]+)* (=|\+=|-=) .+$', s) and not s.endswith('{') and 'err' not in s:
            out.append(('drop-stmt', i, None))
        for pat, rep in ((' + 1', ' - 1'), (' - 1', ' + 1'), (' < ', ' <= '), (' <= ', ' < '), (' >= ', ' > '), (' > ', ' >= ')):
            k = l.find(pat)
            if k >= 0 and '"' not in l[:k] and 'for ' not in s[:4]:
                out.append(('off-by-one', i, (pat, rep)))
    return out


def apply(text, site):
    op, i, arg = site
    lines = text.split('\n')
    l = lines[i]
    if op in ('drop-guard', 'drop-dep', 'drop-stmt'):
        lines[i] = ''
    elif op == 'negate-if':
        m = re.match(r'^(\s*(?:} else )?)if ([^{;]+) \{$', l)
        lines[i] = '%sif !(%s) {' % (m.group(1), m.group(2))
    elif op == 'swap-bool':
        w = 'true' if l[arg:arg + 4] == 'true' else 'false'
        lines[i] = l[:arg] + ('false' if w == 'true' else 'true') + l[arg + len(w):]
    elif op == 'swap-ident':
        lines[i] = l.replace('"%s"' % arg[0], '"%s"' % arg[1], 1)
    elif op == 'off-by-one':
        lines[i] = l.replace(arg[0], arg[1], 1)
    return '\n'.join(lines)


def sh(cmd, cwd, timeout=3600):
    p = subprocess.run(cmd, shell=True, cwd=cwd, env=ENV, stdout=subprocess.PIPE, stderr=subprocess.STDOUT, timeout=timeout)
    return p.returncode, p.stdout.decode('utf8', 'replace')


def main():
    outdir, maxn, seed = sys.argv[1], int(sys.argv[2]), int(sys.argv[3])
    files = sys.argv[4:] or list(CHECKS)
    os.makedirs(outdir, exist_ok=True)
    rng = random.Random(seed)
    allsites = []
    for f in files:
        text = open('/repo/' + f).read()
        for s in sites(f, text):
            allsites.append((f, s))
    ops = os.environ.get('MUT_OPS')
    if ops:
        allsites = [x for x in allsites if x[1][0] in ops.split(',')]
    rng.shuffle(allsites)
    done = set()
    res_path = os.path.join(outdir, 'results.jsonl')
    if os.path.exists(res_path):
        for line in open(res_path):
            done.add(json.loads(line)['id'])
    n = 0
    for f, s in allsites:
        if n >= maxn:
            break
        mid = '%s:%d:%s' % (f.replace('/', '_'), s[1] + 1, s[0])
        if mid in done:
            continue
        n += 1
        tmp = tempfile.mkdtemp(prefix='mutate-')
        try:
            rec = {'id': mid, 'file': f, 'line': s[1] + 1, 'op': s[0]}
            repo = os.path.join(tmp, 'repo')
            os.mkdir(repo)
            sh('git -C /repo archive HEAD | tar -x -C %s' % repo, '/')
            src = open(os.path.join(repo, f)).read()
            rec['original'] = src.split('\n')[s[1]].strip()
            mut = apply(src, s)
            if mut == src:
                continue
            open(os.path.join(repo, f), 'w').write(mut)
            rec['mutated'] = mut.split('\n')[s[1]].strip()
            code, out = sh('go build ./... && go vet ./%s 2>&1 | grep -v "^#" | head -3' % (os.path.dirname(f) or '.'), repo)
            if code != 0 or 'declared and not used' in out or 'imported and not used' in out:
                rec['status'] = 'does-not-build'
                print(json.dumps(rec), file=open(res_path, 'a'))
                continue
            code, out = sh('go test -vet=off -count=1 ./... 2>&1 | tail -30', repo, 1200)
            if 'FAIL' in out or code != 0:
                rec['status'] = 'killed-by-repo-tests'
                sh('find . -name "*.actual.v" -delete', repo)
                print(json.dumps(rec), file=open(res_path, 'a'))
                continue
            # survivor of the repository's own suite: run the monitors
            patch = os.path.join(outdir, mid.replace(':', '_') + '.diff')
            sh('git init -q . && git add -A >/dev/null && git -c user.email=a@b -c user.name=x commit -qm base', repo)
            open(os.path.join(repo, f), 'w').write(src)
            sh('git -c user.email=a@b -c user.name=x commit -qam orig', repo)
            open(os.path.join(repo, f), 'w').write(mut)
            code, diff = sh('git diff', repo)
            open(patch, 'w').write(diff)
            rec['checks'] = {}
            detected = False
            for cid in CHECKS.get(f, []):
                for attempt in range(3):
                    code, out = sh('/verif/tools/try_patch.sh %s %s' % (patch, cid), '/verif', 3600)
                    m = re.search(r'RESULT check=%s tier=\w+ exit=(\d+) violations=(\d+) :: (.*)' % cid, out)
                    if m and m.group(1) in ('0', '1'):
                        break
                    import time
                    time.sleep(60)  # a disturbed environment (build cache being emptied): try again
                if m:
                    rec['checks'][cid] = {'exit': int(m.group(1)), 'violations': int(m.group(2)), 'sigs': m.group(3).strip()[:300]}
                    if m.group(1) == '1':
                        detected = True
                        break
                else:
                    rec['checks'][cid] = {'exit': -1, 'out': out[-300:]}
            rec['status'] = 'detected' if detected else 'SURVIVED'
            print(json.dumps(rec), file=open(res_path, 'a'))
            print(rec['status'], mid, rec.get('mutated', '')[:100], flush=True)
        finally:
            shutil.rmtree(tmp, ignore_errors=True)


if __name__ == '__main__':
    main()
