#!/bin/bash
# tools/sweep_ordered.sh <parallelism> <done-names-file> <prefix order...> : like sweep_seeded.sh with SWEEP_ONE=1, but walks the
# seeded changes in the given order of property prefixes (most recently changed code first) and skips the names listed
# in <done-names-file> as well as obsolete changes.
set -u
PAR="$1"; DONE="$2"; shift 2
cd /verif/seeded
for pre in "$@"; do ls | grep -E "^$pre-"; done | grep -vxF -f "$DONE" | while read n; do
  python3 - "$n" <<'PY'
import json,sys
n=sys.argv[1]
m=json.load(open('/verif/seeded/%s/meta.json'%n))
if m.get('obsolete_since'): sys.exit(0)
p=n.split('-')[0]
det=m.get('detected_by') or []
ids=[p] if (p in det or not det) else [det[0]]
print(n,' '.join(ids))
PY
done | xargs -P "$PAR" -L 1 bash -c '/verif/tools/recheck_seeded.sh "$0" "$@" 2>&1 | grep -a -E "RESULT|updated|does not|FAILS|NOT REC" | sed "s/^/[$0] /" | cut -c1-260'
