#!/bin/bash
# tools/sweep_seeded.sh <parallelism> <name-regex> : re-runs, for every seeded change whose directory name matches
# the regex, the quick check of the property it was filed for and of every check that detected it before, and
# records the outcome in its meta.json (tools/recheck_seeded.sh). Obsolete changes (meta.obsolete_since) are skipped.
set -u
PAR="${1:-3}"; RE="${2:-.}"
cd /verif/seeded
ls | grep -E "$RE" | while read n; do
  python3 - "$n" <<'PY'
import json,sys
n=sys.argv[1]
m=json.load(open('/verif/seeded/%s/meta.json'%n))
if m.get('obsolete_since'): sys.exit(0)
import os
ids=[]
p=n.split('-')[0]
ids.append(p)
for c in (m.get('detected_by') or []):
    if c not in ids: ids.append(c)
if os.environ.get('SWEEP_ONE'):
    # one check per change: the property it was filed for if that check detects it, else its first detector
    det=m.get('detected_by') or []
    ids=[p] if (p in det or not det) else [det[0]]
print(n,' '.join(ids))
PY
done | xargs -P "$PAR" -L 1 bash -c '/verif/tools/recheck_seeded.sh "$0" "$@" 2>&1 | grep -E "RESULT|updated|does not|FAILS" | sed "s/^/[$0] /" | cut -c1-260' 
