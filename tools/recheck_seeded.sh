#!/bin/bash
# tools/recheck_seeded.sh <seeded-name> <check ids...>
# Re-runs the given checks (tier from $TIER, default quick) against the seeded change of /verif/seeded/<name>
# on a patched scratch copy and records the outcome in its meta.json (keeping the first run as
# checks_run_before_strengthening when the change was missed at first).
set -u
NAME="$1"; shift
D=/verif/seeded/$NAME
res=$(/verif/tools/try_patch.sh "$D/patch.diff" "$@" 2>&1)
echo "$res" | grep -E "RESULT|does not|FAILS" | cut -c1-400
REPO_HEAD=$(git -C /repo rev-parse --short HEAD); VERIF_HEAD=$(git -C /verif rev-parse --short HEAD); DIRTY=$(git -C /verif status --porcelain framework | wc -l)
python3 - "$D/meta.json" "$res" "$REPO_HEAD" "$VERIF_HEAD" "$DIRTY" <<'PY'
import json,sys
dst,res,repo_head,verif_head,dirty=sys.argv[1:6]
m=json.load(open(dst))
det={}
for line in res.splitlines():
    if line.startswith('RESULT'):
        parts=dict(kv.split('=',1) for kv in line.split(' :: ')[0].split()[1:])
        det[parts['check']]={'repo_head':repo_head,'verif_head':verif_head,'framework_uncommitted_files':int(dirty),'tier':parts.get('tier'),'exit':int(parts['exit']),'violations':int(parts['violations']),'signatures':line.split(' :: ',1)[1].strip() if ' :: ' in line else ''}
if not m.get('detected_by') and 'checks_run_before_strengthening' not in m:
    m['checks_run_before_strengthening']=m.get('checks_run',{})
cr=m.get('checks_run',{})
for k,v in det.items():
    if v['exit'] in (0,1): cr[k]=v   # a run that could not be made (build failure, interrupt, inconclusive) records nothing
    else: print('NOT RECORDED',k,v)
m['checks_run']=cr
m['detected_by']=sorted(k for k,v in cr.items() if v['exit']==1)
json.dump(m,open(dst,'w'),indent=1)
print('updated',dst,'detected_by',m['detected_by'])
PY
