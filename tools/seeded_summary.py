#!/usr/bin/env python3
"""tools/seeded_summary.py: per property, how many seeded changes are filed, obsolete (neutralised by a later fix), detected by
the recorded re-runs, and not detected; with the /repo commits the latest records were made at."""
import json,glob,collections,os
rows=collections.defaultdict(lambda: collections.Counter()); heads=collections.Counter(); und=[]
for d in sorted(glob.glob('/verif/seeded/*/')):
    n=os.path.basename(d.rstrip('/')); p=n.split('-')[0]
    m=json.load(open(d+'meta.json'))
    rows[p]['filed']+=1
    if m.get('obsolete_since'):
        rows[p]['obsolete']+=1; continue
    det=m.get('detected_by') or []
    if det: rows[p]['detected']+=1
    else:
        rows[p]['undetected']+=1; und.append(n)
    for k,v in (m.get('checks_run') or {}).items():
        if v.get('exit')==1: heads[v.get('repo_head') or 'before-provenance']+=1
tot=collections.Counter()
print('| property | filed | obsolete | detected | not detected |'); print('|---|---|---|---|---|')
for p in sorted(rows):
    r=rows[p]; tot.update(r); print('| %s | %d | %d | %d | %d |'%(p,r['filed'],r['obsolete'],r['detected'],r['undetected']))
print('| all | %d | %d | %d | %d |'%(tot['filed'],tot['obsolete'],tot['detected'],tot['undetected']))
print('\nnot detected:', und)
print('detecting records by /repo commit:', dict(heads.most_common(8)))
