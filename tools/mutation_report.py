#!/usr/bin/env python3
"""tools/mutation_report.py <results-dir>... : merge the results.jsonl files written by tools/mutate.py into
/verif/mutation/results.jsonl (one line per mutant, later runs of the same mutant win), copy the surviving diffs to
/verif/mutation/survivors/, attach the hand-written reason from mutation/equivalent.json to each survivor and print the
summary that DESIGN.md quotes. A survivor without a reason is printed as UNEXPLAINED and makes the exit status 1."""
import json, os, shutil, sys, collections
out = '/verif/mutation'
eq = json.load(open(os.path.join(out, 'equivalent.json')))
recs = {}
# results of earlier runs (their scratch directories are gone) are kept; a mutant that is run again replaces its record
prev = os.path.join(out, 'results.jsonl')
if os.path.exists(prev):
    for line in open(prev):
        r = json.loads(line)
        r['_dir'] = os.path.join(out, 'survivors')
        recs[r['id']] = r
for d in sys.argv[1:]:
    p = os.path.join(d, 'results.jsonl')
    if not os.path.exists(p):
        continue
    for line in open(p):
        r = json.loads(line)
        r['_dir'] = d
        recs[r['id']] = r
os.makedirs(os.path.join(out, 'survivors'), exist_ok=True)
c = collections.Counter()
byfile = collections.defaultdict(collections.Counter)
bad = 0
with open(os.path.join(out, 'results.jsonl'), 'w') as f:
    for mid in sorted(recs):
        r = recs[mid]
        d = r.pop('_dir')
        if r['status'] == 'SURVIVED':
            r['reason'] = eq.get(mid, '')
            src = os.path.join(d, mid.replace(':', '_') + '.diff')
            dst = os.path.join(out, 'survivors', os.path.basename(src))
            if os.path.exists(src) and os.path.abspath(src) != os.path.abspath(dst):
                shutil.copy(src, dst)
            if not r['reason']:
                bad += 1
                print('UNEXPLAINED', mid, '|', r.get('original', '')[:80], '=>', r.get('mutated', '')[:80])
        c[r['status']] += 1
        byfile[r['file']][r['status']] += 1
        f.write(json.dumps(r, sort_keys=True) + '\n')
print('mutants', sum(c.values()), dict(c))
for fn in sorted(byfile):
    print('  %-34s %s' % (fn, dict(byfile[fn])))
sys.exit(1 if bad else 0)
