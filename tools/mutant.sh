#!/bin/bash
# tools/mutant.sh <name> <check ids...>  — reads a python edit script from stdin, applies it to a scratch copy
# of /repo, confirms the copy builds and passes the repo's test suite, then runs the given quick checks against it.
# The python script gets the scratch repo path as sys.argv[1].
set -u
export GOFLAGS=-mod=mod GOPROXY=off GOSUMDB=off GOTOOLCHAIN=local
NAME="$1"; shift
S=$(mktemp -d /tmp/mut-XXXXXX)
trap 'rm -rf "$S"' EXIT
git -C /repo worktree list >/dev/null
cp -r /repo "$S/repo"; rm -rf "$S/repo/.git"
python3 - "$S/repo" || { echo "MUTANT $NAME: edit script failed"; exit 2; }
( cd "$S/repo" && go build ./... ) || { echo "MUTANT $NAME: does not build"; exit 2; }
if ! ( cd "$S/repo" && go test -vet=off -count=1 ./... >"$S/test.log" 2>&1 ); then echo "MUTANT $NAME: repo tests FAIL (not a valid mutant)"; grep -E "^(---|FAIL)" "$S/test.log" | head -5; exit 2; fi
for id in "$@"; do
  out=$(cd /verif && VERIF_REPO="$S/repo" ./bin/vcheck run "$id" quick 2>&1)
  code=$?
  nviol=$(echo "$out" | grep -c "^VIOLATION")
  echo "MUTANT $NAME check=$id exit=$code violations=$nviol $(echo "$out" | grep -m2 'sig:' | tr -s ' ' | tr '\n' ' ')"
done
