package main

import (
	"verif/driver"
	_ "verif/props/clip"
)

func main() { driver.Main("./cmd/vcheck-clip") }
