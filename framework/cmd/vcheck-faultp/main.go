// vcheck-faultp is the driver for the fault-enumeration group (C11, C13).
package main

import (
	"verif/driver"
	_ "verif/props/faultp"
)

func main() { driver.Main("./cmd/vcheck-faultp") }
