// vcheck-miscp is the driver for the miscp group (C16, C18); see verif/driver.
package main

import (
	"verif/driver"
	_ "verif/props/miscp"
)

func main() { driver.Main("./cmd/vcheck-miscp") }
