// vcheck is the driver binary; see verif/driver.
package main

import (
	"verif/driver"
	_ "verif/props"
	_ "verif/props/clip"
	_ "verif/props/declp"
	_ "verif/props/diskp"
	_ "verif/props/faultp"
	_ "verif/props/fsp"
	_ "verif/props/miscp"
)

func main() { driver.Main("./cmd/vcheck") }
