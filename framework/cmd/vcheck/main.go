// vcheck is the driver binary; see verif/driver.
package main

import (
	"verif/driver"
	_ "verif/props"
)

func main() { driver.Main("./cmd/vcheck") }
