// vcheck-fsp is the driver restricted to the filesys properties (C12, C14).
package main

import (
	"verif/driver"
	_ "verif/props/fsp"
)

func main() { driver.Main("./cmd/vcheck-fsp") }
