// vcheck-declp is the driver for the declp group (C04, C07); see verif/driver.
package main

import (
	"verif/driver"
	_ "verif/props/declp"
)

func main() { driver.Main("./cmd/vcheck-declp") }
