// vcheck-diskp is the driver restricted to the disk properties (C09, C10).
package main

import (
	"verif/driver"
	_ "verif/props/diskp"
)

func main() { driver.Main("./cmd/vcheck-diskp") }
