module verif

go 1.22

require (
	github.com/anishathalye/porcupine v1.3.0
	github.com/goose-lang/goose v0.6.1
)

require (
	github.com/goose-lang/primitive v0.1.0 // indirect
	github.com/goose-lang/std v0.3.2 // indirect
	github.com/pkg/errors v0.9.1 // indirect
	github.com/tchajed/marshal v0.6.1 // indirect
	golang.org/x/sys v0.22.0 // indirect
)

replace github.com/goose-lang/goose => /repo
