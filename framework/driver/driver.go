// vcheck is the driver: `vcheck run <ID> <quick|thorough> [--replay path]`
// runs one property's monitors against /repo's working tree; `vcheck child
// <name> args...` is a child-process entry point used by the monitors.
package driver

import (
	"encoding/json"
	"fmt"
	"os"
	"os/signal"
	"syscall"

	"verif/core"
	"verif/props"
)

func Main(selfPkg string) {
	core.SelfPkg = selfPkg
	if len(os.Args) < 3 {
		fmt.Fprintln(os.Stderr, "usage: vcheck run <ID> <tier> [--replay path] | vcheck child <name> args...")
		os.Exit(2)
	}
	switch os.Args[1] {
	case "child":
		f, ok := props.Children[os.Args[2]]
		if !ok {
			fmt.Fprintln(os.Stderr, "unknown child", os.Args[2])
			os.Exit(2)
		}
		os.Exit(f(os.Args[3:]))
	case "run":
		id := os.Args[2]
		tier := "quick"
		if len(os.Args) > 3 {
			tier = os.Args[3]
		}
		p, ok := props.Registry[id]
		if !ok {
			fmt.Fprintln(os.Stderr, "unknown property", id)
			os.Exit(2)
		}
		replay := ""
		for i := 3; i+1 < len(os.Args); i++ {
			if os.Args[i] == "--replay" {
				replay = os.Args[i+1]
			}
		}
		if replay != "" {
			// a replay file records the tier and seed of the run that found the violation: the
			// case list is a function of the seed only, so re-running with them reproduces it
			var rec struct {
				Tier string `json:"tier"`
				Seed int64  `json:"seed"`
				Sig  string `json:"sig"`
			}
			if b, err := os.ReadFile(replay); err == nil && json.Unmarshal(b, &rec) == nil && rec.Tier != "" {
				tier = rec.Tier
				os.Setenv("VERIF_SEED", fmt.Sprint(rec.Seed))
				fmt.Printf("replaying %s: tier=%s seed=%d signature=%s\n", replay, rec.Tier, rec.Seed, rec.Sig)
			}
		}
		r := core.NewRun(id, tier)
		r.Level = p.Level
		r.Replay = replay
		sig := make(chan os.Signal, 1)
		signal.Notify(sig, syscall.SIGINT, syscall.SIGTERM)
		go func() { <-sig; r.Cleanup(); os.Exit(130) }()
		ok2, msg := p.Run(r)
		code := r.Finish(ok2, msg)
		r.Cleanup()
		os.Exit(code)
	default:
		fmt.Fprintln(os.Stderr, "unknown mode", os.Args[1])
		os.Exit(2)
	}
}
