// Package gorun is E4: it writes generated packages into a scratch module,
// builds and runs their closed case functions natively (the Go side of the
// differential oracle) and runs the freshly built goose binary on them.
package gorun

import (
	"fmt"
	"go/ast"
	"go/parser"
	"go/token"
	"os"
	"path/filepath"
	"sort"
	"strings"
	"time"

	"verif/core"
)

const ModPath = "example.com/vb"

// Pkg is one package to be put in the batch module under cases/<Name>/.
type Pkg struct {
	Name  string
	Files map[string]string // file name -> content (goose-visible sources)
}

// CaseResult is what the native run printed for one case function.
type CaseResult struct {
	Type     string
	Value    string
	Panicked bool
}

type Batch struct {
	Dir     string
	Pkgs    []*Pkg
	Results map[string]map[string]CaseResult // pkg -> case -> result (of the last run)
	Cases   map[string][]string              // pkg -> case names in source order
	// Multi counts every value printed for a case over all runs (C03: outcome sets)
	Multi map[string]map[string]map[string]int
	// Elapsed: shortest native running time (ns) observed for a case
	Elapsed map[string]map[string]int64
}

const canonSrc = `//go:build !goose

// Package canon prints Go values in the canonical form the GooseLang decoder produces.
package canon

import (
	"fmt"
	"os"
	"reflect"
	"sort"
	"strconv"
	"strings"
	"time"
)

func repeat() int {
	n, err := strconv.Atoi(os.Getenv("VB_REPEAT"))
	if err != nil || n < 1 {
		return 1
	}
	return n
}

func TypeDesc(t reflect.Type) string {
	switch t.Kind() {
	case reflect.Uint64, reflect.Uint, reflect.Int, reflect.Int64:
		return "u64"
	case reflect.Uint32:
		return "u32"
	case reflect.Uint8:
		return "u8"
	case reflect.Bool:
		return "bool"
	case reflect.String:
		return "string"
	case reflect.Slice:
		return "[]" + TypeDesc(t.Elem())
	case reflect.Ptr:
		return "*" + TypeDesc(t.Elem())
	case reflect.Map:
		return "map[" + TypeDesc(t.Key()) + "]" + TypeDesc(t.Elem())
	case reflect.Func:
		return "fn"
	case reflect.Struct:
		var fs []string
		for i := 0; i < t.NumField(); i++ {
			fs = append(fs, t.Field(i).Name+":"+TypeDesc(t.Field(i).Type))
		}
		return "{" + strings.Join(fs, ",") + "}"
	}
	return "?" + t.Kind().String()
}

func Value(v reflect.Value, depth int) string {
	if depth > 6 {
		return "…"
	}
	switch v.Kind() {
	case reflect.Uint64, reflect.Uint, reflect.Uint32, reflect.Uint8:
		return strconv.FormatUint(v.Uint(), 10)
	case reflect.Int, reflect.Int64:
		return strconv.FormatUint(uint64(v.Int()), 10)
	case reflect.Bool:
		return strconv.FormatBool(v.Bool())
	case reflect.String:
		return strconv.Quote(v.String())
	case reflect.Slice:
		var es []string
		for i := 0; i < v.Len(); i++ {
			es = append(es, Value(v.Index(i), depth+1))
		}
		return "[" + strings.Join(es, " ") + "]"
	case reflect.Ptr:
		if v.IsNil() {
			return "nil"
		}
		return "&" + Value(v.Elem(), depth+1)
	case reflect.Func:
		return "fn"
	case reflect.Map:
		var es []string
		for _, k := range v.MapKeys() {
			es = append(es, Value(k, depth+1)+":"+Value(v.MapIndex(k), depth+1))
		}
		sort.Strings(es)
		return "map[" + strings.Join(es, " ") + "]"
	case reflect.Struct:
		var fs []string
		for i := 0; i < v.NumField(); i++ {
			fs = append(fs, v.Type().Field(i).Name+":"+Value(v.Field(i), depth+1))
		}
		return "{" + strings.Join(fs, " ") + "}"
	}
	return "?"
}

// Emit prints one case: pkg, name, and the tuple of results (VB_REPEAT times).
func Emit(pkg, name string, f func() []interface{}) {
	for i := repeat(); i > 0; i-- {
		emit1(pkg, name, f)
	}
}

func emit1(pkg, name string, f func() []interface{}) {
	var res []interface{}
	panicked := false
	func() {
		defer func() {
			if r := recover(); r != nil {
				panicked = true
			}
		}()
		t0 := time.Now()
		res = f()
		fmt.Printf("#T\t%s\t%s\t%d\n", pkg, name, time.Since(t0).Nanoseconds())
	}()
	if panicked {
		fmt.Printf("%s\t%s\tPANIC\t\n", pkg, name)
		return
	}
	var ts, vs []string
	for _, r := range res {
		rv := reflect.ValueOf(r)
		ts = append(ts, TypeDesc(rv.Type()))
		vs = append(vs, Value(rv, 0))
	}
	switch len(res) {
	case 0:
		fmt.Printf("%s\t%s\tunit\t()\n", pkg, name)
	case 1:
		fmt.Printf("%s\t%s\t%s\t%s\n", pkg, name, ts[0], vs[0])
	default:
		fmt.Printf("%s\t%s\t(%s)\t(%s)\n", pkg, name, strings.Join(ts, ","), strings.Join(vs, ", "))
	}
}
`

// caseFuncs finds the parameterless top-level functions whose name starts with "case"
// (or "test"/"failing_test" when allowTests) and their result counts.
func caseFuncs(src string, prefixes []string) (names []string, arity map[string]int, err error) {
	fset := token.NewFileSet()
	f, err := parser.ParseFile(fset, "x.go", src, 0)
	if err != nil {
		return nil, nil, err
	}
	arity = map[string]int{}
	for _, d := range f.Decls {
		fd, ok := d.(*ast.FuncDecl)
		if !ok || fd.Recv != nil || fd.Type.TypeParams != nil {
			continue
		}
		if fd.Type.Params != nil && len(fd.Type.Params.List) > 0 {
			continue
		}
		match := false
		for _, p := range prefixes {
			if strings.HasPrefix(fd.Name.Name, p) {
				match = true
			}
		}
		if !match {
			continue
		}
		n := 0
		if fd.Type.Results != nil {
			for _, r := range fd.Type.Results.List {
				if len(r.Names) == 0 {
					n++
				} else {
					n += len(r.Names)
				}
			}
		}
		names = append(names, fd.Name.Name)
		arity[fd.Name.Name] = n
	}
	return
}

// Write lays the batch module out on disk.
func Write(dir string, pkgs []*Pkg, casePrefixes []string) (*Batch, error) {
	b := &Batch{Dir: dir, Pkgs: pkgs, Results: map[string]map[string]CaseResult{}, Cases: map[string][]string{}, Multi: map[string]map[string]map[string]int{}, Elapsed: map[string]map[string]int64{}}
	gomod := fmt.Sprintf("module %s\n\ngo 1.22\n\nrequire github.com/goose-lang/goose v0.0.0\n\nreplace github.com/goose-lang/goose => %s\n", ModPath, core.RepoDir)
	if err := core.WriteFile(filepath.Join(dir, "go.mod"), gomod); err != nil {
		return nil, err
	}
	sum, err := os.ReadFile(filepath.Join(core.RepoDir, "go.sum"))
	if err != nil {
		return nil, err
	}
	if err := core.WriteFile(filepath.Join(dir, "go.sum"), string(sum)); err != nil {
		return nil, err
	}
	if err := core.WriteFile(filepath.Join(dir, "canon", "canon.go"), canonSrc); err != nil {
		return nil, err
	}
	var mainImports, mainCalls []string
	for pi, p := range pkgs {
		pdir := filepath.Join(dir, "cases", p.Name)
		var drv strings.Builder
		fmt.Fprintf(&drv, "//go:build !goose\n\npackage %s\n\nimport \"%s/canon\"\n\nvar _ = canon.Emit\n\nfunc RunCases() {\n", p.Name, ModPath)
		var fnames []string
		for fn := range p.Files {
			fnames = append(fnames, fn)
		}
		sort.Strings(fnames)
		for _, fn := range fnames {
			src := p.Files[fn]
			if err := core.WriteFile(filepath.Join(pdir, fn), src); err != nil {
				return nil, err
			}
			if !strings.HasSuffix(fn, ".go") {
				continue
			}
			names, arity, err := caseFuncs(src, casePrefixes)
			if err != nil {
				return nil, fmt.Errorf("%s/%s: %v", p.Name, fn, err)
			}
			for _, n := range names {
				b.Cases[p.Name] = append(b.Cases[p.Name], n)
				switch arity[n] {
				case 0:
					fmt.Fprintf(&drv, "\tcanon.Emit(%q, %q, func() []interface{} { %s(); return nil })\n", p.Name, n, n)
				case 1:
					fmt.Fprintf(&drv, "\tcanon.Emit(%q, %q, func() []interface{} { return []interface{}{%s()} })\n", p.Name, n, n)
				default:
					var vs []string
					for i := 0; i < arity[n]; i++ {
						vs = append(vs, fmt.Sprintf("r%d", i))
					}
					fmt.Fprintf(&drv, "\tcanon.Emit(%q, %q, func() []interface{} { %s := %s(); return []interface{}{%s} })\n",
						p.Name, n, strings.Join(vs, ", "), n, strings.Join(vs, ", "))
				}
			}
		}
		drv.WriteString("}\n")
		if err := core.WriteFile(filepath.Join(pdir, "zz_driver_nogoose.go"), drv.String()); err != nil {
			return nil, err
		}
		// aliased: a generated package may be NAMED like a library package (disk, sync, ...)
		alias := fmt.Sprintf("pk%d", pi)
		mainImports = append(mainImports, fmt.Sprintf("\t%s \"%s/cases/%s\"", alias, ModPath, p.Name))
		mainCalls = append(mainCalls, fmt.Sprintf("\tif only == \"\" || only == %q {\n\t\t%s.RunCases()\n\t}", p.Name, alias))
	}
	mainSrc := "//go:build !goose\n\npackage main\n\nimport (\n\t\"os\"\n\n\t\"github.com/goose-lang/goose/machine/disk\"\n" + strings.Join(mainImports, "\n") +
		"\n)\n\nfunc main() {\n\tdisk.Init(disk.NewMemDisk(30))\n\tonly := os.Getenv(\"VB_ONLY\")\n" + strings.Join(mainCalls, "\n") + "\n}\n"
	if err := core.WriteFile(filepath.Join(dir, "main.go"), mainSrc); err != nil {
		return nil, err
	}
	return b, nil
}

// RunGo builds the batch and runs every case natively. extraBuild may hold e.g. "-race".
func (b *Batch) RunGo(timeout time.Duration, env []string, extraBuild ...string) (buildErr string, runErr string) {
	bin, berr := b.BuildGo(extraBuild...)
	if berr != "" {
		return berr, ""
	}
	_, rerr := b.RunBin(bin, timeout, env)
	if rerr != "" {
		// one case that hangs or kills the process must not cost the results of every later package:
		// run the packages that have missing results one at a time
		rerr = ""
		for _, p := range b.Pkgs {
			complete := true
			for _, cn := range b.Cases[p.Name] {
				if _, ok := b.Results[p.Name][cn]; !ok {
					complete = false
				}
			}
			if complete {
				continue
			}
			_, perr := b.RunBin(bin, timeout/2, append(append([]string{}, env...), "VB_ONLY="+p.Name))
			if perr != "" {
				first := ""
				for _, cn := range b.Cases[p.Name] {
					if _, ok := b.Results[p.Name][cn]; !ok {
						first = cn
						break
					}
				}
				fmt.Fprintf(os.Stderr, "native run of package %s failed (%s); first case without a result: %s\n", p.Name, strings.SplitN(perr, "\n", 2)[0], first)
				rerr = perr
			}
		}
	}
	return "", rerr
}

// BuildGo builds the batch's main package.
func (b *Batch) BuildGo(extraBuild ...string) (bin string, buildErr string) {
	name := "run.bin"
	for _, e := range extraBuild {
		name += e
	}
	bin = filepath.Join(b.Dir, name)
	args := append([]string{"build"}, extraBuild...)
	args = append(args, "-o", bin, ".")
	res := core.Exec(b.Dir, core.GoEnv(), 10*time.Minute, "", "go", args...)
	if res.Code != 0 {
		return "", res.Stdout + res.Stderr
	}
	return bin, ""
}

// RunBin runs a built batch binary, accumulating results; returns stderr.
func (b *Batch) RunBin(bin string, timeout time.Duration, env []string) (stderr string, runErr string) {
	e := core.GoEnv()
	e = append(e, env...)
	r := core.Exec(b.Dir, e, timeout, "", bin)
	b.parse(r.Stdout)
	if r.TimedOut {
		return r.Stderr, "timeout"
	}
	if r.Code != 0 {
		return r.Stderr, fmt.Sprintf("exit %d: %s", r.Code, tail(r.Stderr, 2000))
	}
	return r.Stderr, ""
}

func tail(s string, n int) string {
	if len(s) > n {
		return s[len(s)-n:]
	}
	return s
}

func (b *Batch) parse(out string) {
	for _, line := range strings.Split(out, "\n") {
		f := strings.SplitN(line, "\t", 4)
		if len(f) != 4 {
			continue
		}
		if f[0] == "#T" {
			// native running time of one case (nanoseconds): a hint for the model's step budget only
			var ns int64
			fmt.Sscanf(f[3], "%d", &ns)
			if b.Elapsed[f[1]] == nil {
				b.Elapsed[f[1]] = map[string]int64{}
			}
			if old, ok := b.Elapsed[f[1]][f[2]]; !ok || ns < old {
				b.Elapsed[f[1]][f[2]] = ns
			}
			continue
		}
		m := b.Results[f[0]]
		if m == nil {
			m = map[string]CaseResult{}
			b.Results[f[0]] = m
		}
		if f[2] == "PANIC" {
			m[f[1]] = CaseResult{Panicked: true}
		} else {
			m[f[1]] = CaseResult{Type: f[2], Value: f[3]}
		}
		if b.Multi[f[0]] == nil {
			b.Multi[f[0]] = map[string]map[string]int{}
		}
		if b.Multi[f[0]][f[1]] == nil {
			b.Multi[f[0]][f[1]] = map[string]int{}
		}
		if f[2] == "PANIC" {
			b.Multi[f[0]][f[1]]["PANIC"]++
		} else {
			b.Multi[f[0]][f[1]][f[3]]++
		}
	}
}

// GooseResult is one goose invocation.
type GooseResult struct {
	core.ExecResult
	OutDir string
}

// RunGoose runs goose in the batch module. patterns default to ./cases/...
func (b *Batch) RunGoose(gooseBin string, outDir string, flags []string, patterns ...string) GooseResult {
	if len(patterns) == 0 {
		patterns = []string{"./cases/..."}
	}
	os.MkdirAll(outDir, 0o755)
	args := append([]string{"-out", outDir}, flags...)
	args = append(args, patterns...)
	r := core.Exec(b.Dir, core.GoEnv(), 5*time.Minute, "", gooseBin, args...)
	return GooseResult{ExecResult: r, OutDir: outDir}
}

// VPath is the path goose is documented to write for cases/<pkg>.
func (b *Batch) VPath(outDir, pkg string) string {
	return filepath.Join(outDir, "example_com", "vb", "cases", pkg+".v")
}
