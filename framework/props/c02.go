package props

import (
	"fmt"
	"go/ast"
	"go/parser"
	"go/token"
	"os"
	"path/filepath"
	"regexp"
	"sort"
	"strconv"
	"strings"
	"sync"
	"time"

	"verif/core"
	"verif/gen"
	"verif/gorun"
)

// C02: outside the subset goose rejects instead of mistranslating. For every top-level
// declaration of a type-correct package: either a conversion error located inside it, or a
// translation that reproduces Go on the closed cases (the C01 oracle); never a silent drop.

func init() {
	Registry["C02"] = Prop{Level: "translation_validation", Run: runC02}
}

type funcRange struct {
	Name       string
	Start, End int // lines
}

func funcRanges(src string) []funcRange {
	fset := token.NewFileSet()
	f, err := parser.ParseFile(fset, "x.go", src, 0)
	if err != nil {
		return nil
	}
	var out []funcRange
	for _, d := range f.Decls {
		name := ""
		switch d := d.(type) {
		case *ast.FuncDecl:
			name = d.Name.Name
			if d.Recv != nil {
				name = "method:" + name
			}
		case *ast.GenDecl:
			name = "gen:" + d.Tok.String()
			for _, sp := range d.Specs {
				switch sp := sp.(type) {
				case *ast.TypeSpec:
					name = "type:" + sp.Name.Name
				case *ast.ValueSpec:
					name = "value:" + sp.Names[0].Name
				}
			}
		}
		out = append(out, funcRange{name, fset.Position(d.Pos()).Line, fset.Position(d.End()).Line})
	}
	return out
}

// dropFuncs removes the named top-level functions (and the cases that call them) from src.
func dropFuncs(src string, drop map[string]bool) string {
	fset := token.NewFileSet()
	f, err := parser.ParseFile(fset, "x.go", src, 0)
	if err != nil {
		return src
	}
	type span struct{ a, b int }
	var cuts []span
	for _, d := range f.Decls {
		fd, ok := d.(*ast.FuncDecl)
		if !ok {
			continue
		}
		kill := drop[fd.Name.Name]
		if !kill && strings.HasPrefix(fd.Name.Name, "case_") {
			ast.Inspect(fd, func(n ast.Node) bool {
				if c, ok := n.(*ast.CallExpr); ok {
					if id, ok := c.Fun.(*ast.Ident); ok && drop[id.Name] {
						kill = true
					}
				}
				return true
			})
		}
		if kill {
			cuts = append(cuts, span{fset.Position(fd.Pos()).Offset, fset.Position(fd.End()).Offset})
		}
	}
	sort.Slice(cuts, func(i, j int) bool { return cuts[i].a > cuts[j].a })
	for _, c := range cuts {
		src = src[:c.a] + src[c.b:]
	}
	return src
}

var goErrRe = regexp.MustCompile(`(?m)^cases/([A-Za-z0-9_]+)/[A-Za-z0-9_]+\.go:(\d+):\d+: (.*)$`)

// pruneToCompile drops the host functions the Go compiler rejects (an atom that is not legal
// Go at some position) until the batch compiles. Returns the surviving packages.
func pruneToCompile(r *core.Run, dir string, pkgs []*gen.Package) []*gen.Package {
	for round := 0; round < 6; round++ {
		var gp []*gorun.Pkg
		for _, p := range pkgs {
			gp = append(gp, &gorun.Pkg{Name: p.Name, Files: map[string]string{p.Name + ".go": p.Source}})
		}
		d := filepath.Join(dir, fmt.Sprintf("prune%d", round))
		if _, err := gorun.Write(d, gp, []string{"case"}); err != nil {
			fmt.Println("generated batch cannot be written (generator defect):", err)
			return nil
		}
		res := core.Exec(d, core.GoEnv(), 5*time.Minute, "", "go", "build", "-gcflags=-e", "./cases/...")
		if res.Code == 0 {
			return pkgs
		}
		out := res.Stdout + res.Stderr
		if os.Getenv("VERIF_DEBUG_PRUNE") != "" {
			fmt.Println("prune round", round, ":", firstLines(out, 60))
		}
		bad := map[string]map[string]bool{}
		for _, m := range goErrRe.FindAllStringSubmatch(out, -1) {
			pkg, line := m[1], m[2]
			ln, _ := strconv.Atoi(line)
			for _, p := range pkgs {
				if p.Name != pkg {
					continue
				}
				for _, fr := range funcRanges(p.Source) {
					if ln >= fr.Start && ln <= fr.End {
						if bad[pkg] == nil {
							bad[pkg] = map[string]bool{}
						}
						bad[pkg][fr.Name] = true
					}
				}
			}
		}
		if len(bad) == 0 {
			fmt.Println("C02: batch does not compile and no function could be blamed:", firstLines(out, 10))
			return nil
		}
		var keep []*gen.Package
		for _, p := range pkgs {
			if b := bad[p.Name]; b != nil {
				dropsDecl := false
				for n := range b {
					if strings.Contains(n, ":") {
						dropsDecl = true // a type / value / method declaration is not legal Go
					}
				}
				if dropsDecl {
					r.Count("atoms_not_legal_go", 1)
					continue // a declaration-level atom that is not legal Go: drop the package
				}
				p.Source = dropFuncs(p.Source, b)
				r.Count("atom_positions_not_legal_go", int64(len(b)))
			}
			if strings.Contains(p.Source, "func case_") {
				keep = append(keep, p)
			}
		}
		pkgs = keep
	}
	return nil
}

func runC02(r *core.Run) (bool, string) {
	r.SetRule("programs = one package per catalogue atom (out-of-subset / look-alike construct), each atom inserted at up to 7 positions of a host function (first/middle/last statement, inside if / else / loop / closure) or as its own declaration, in host packages that compile; each host function is judged rejected (a conversion error whose src position lies inside it) or emitted-and-faithful (every closed case agrees with the native run under the reference interpreter); non-trivial and distinct by (atom, position, verdict)")
	r.Assume("the reference interpreter (framework/gl) implements GooseLang's published semantics; calibrated on internal/examples/semantics at every run")
	goose, err := r.BuildGoose()
	if err != nil {
		fmt.Println(err)
		return false, "goose does not build"
	}
	if !calibrate(r, goose) {
		return false, "interpreter calibration failed: no verdicts issued"
	}
	if os.Getenv("VERIF_DEV_ONLY") == "lookalike" {
		// development aid: only the look-alike package layer (never set by a registered command)
		c02Lookalike(r, goose)
		return true, ""
	}
	var pkgs []*gen.Package
	devRound9 := os.Getenv("VERIF_DEV_ONLY") == "round9" // development aid (never set by a registered command)
	for _, a := range gen.OutsideAtoms {
		if !devRound9 {
			pkgs = append(pkgs, gen.OutsidePackage(a))
		}
	}
	frng := core.NewRng(r.Seed, "c02-families")
	fam := gen.FamilyAtoms("C02", r.Quick(), frng.Intn)
	if devRound9 {
		fam = append(gen.Round9Families(), gen.Round10Families()...)
	}
	for _, a := range fam {
		pkgs = append(pkgs, gen.OutsidePackage(a))
	}
	r.Set("family_atoms", len(fam))
	// random surroundings: the statements before and after each atom are drawn from the seed
	vrng := core.NewRng(r.Seed, "c02-variants")
	for v := 0; v < r.Pick(1, 12); v++ {
		for _, a := range gen.OutsideAtoms {
			if a.Kind == "stmt" && !devRound9 {
				pkgs = append(pkgs, gen.AtomPackageVariant("o_", a, vrng, v))
			}
		}
	}
	pkgs = pruneToCompile(r, filepath.Join(r.Scratch, "c02-prune"), pkgs)
	if pkgs == nil {
		return false, "catalogue does not compile (framework defect)"
	}
	var gp []*gorun.Pkg
	for _, p := range pkgs {
		gp = append(gp, &gorun.Pkg{Name: p.Name, Files: map[string]string{p.Name + ".go": p.Source}})
	}
	res, err := tvBatch(r, filepath.Join(r.Scratch, "c02-batch"), goose, gp, tvOptions{PerPackage: true})
	if err != nil {
		fmt.Println(err)
		return false, "catalogue batch failed"
	}
	verdicts := map[string]string{}
	for _, p := range res {
		c02Judge(r, p, verdicts)
	}
	r.Set("verdict_by_atom_position", verdicts)
	r.Set("atoms_rejected_for_an_unrelated_reason", maskedAtoms())
	for _, m := range maskedAtoms() {
		fmt.Println("C02 note: rejected for a reason unrelated to the atom —", m)
	}
	if devRound9 {
		return true, ""
	}
	c02Lookalike(r, goose)
	replayWitnesses(r, goose, "C02", tvOptions{PerPackage: true}, c02Failing)
	r.Set("programs", len(res))
	r.Set("disagreements_checked", r.GetCount("cases_compared"))
	return r.GetCount("functions_judged") >= 100, "fewer than 100 host functions judged"
}

// c02Judge judges every top-level function of an outside-atom package.
func c02Judge(r *core.Run, p *tvPkg, verdicts map[string]string) {
	atom := strings.TrimPrefix(stripVariant(p.Name), "o_")
	judgeRejectedOrFaithful(r, p, verdicts, "c02-", func(fn string) (string, string, bool) {
		if strings.HasPrefix(fn, "host_") {
			return atom, strings.TrimPrefix(fn, "host_"+atom+"_"), true
		}
		if strings.HasSuffix(fn, "_fn") {
			return atom, fn, true
		}
		return "", "", false
	})
}

// judgeRejectedOrFaithful: every judged function of the package is either rejected by a
// conversion error located inside it (or inside a declaration it needs), or emitted and
// faithful on all its closed cases; otherwise a violation sigPrefix+atom+"-mistranslated" /
// "-silently-dropped".
func judgeRejectedOrFaithful(r *core.Run, p *tvPkg, verdicts map[string]string, sigPrefix string, judged func(fn string) (atom, pos string, ok bool)) {
	r.Eval(1)
	atom := stripVariant(p.Name)
	if p.Crashed {
		// a crash is neither a rejection with a located error nor a faithful translation. (C07 is the property
		// about crashes as such, but it does not run these inputs: staying silent here would hide the crash.)
		r.Count("atoms_crashing_goose", 1)
		verdicts[atom] = "goose-crash"
		r.Violate(sigPrefix+strings.TrimPrefix(atom, "o_")+"-goose-crash", fmt.Sprintf("goose aborts on the package of atom %q instead of rejecting or translating it: %s", atom, firstLines(p.Stderr, 6)),
			map[string]interface{}{"atom": atom, "stderr": p.Stderr, "source": p.Source})
		return
	}
	if p.LoadFailed {
		r.Inconclusive("package-does-not-load")
		return
	}
	src := ""
	for _, s := range p.Source {
		src = s
	}
	ranges := funcRanges(src)
	rejected := map[string]string{}
	for _, e := range p.GooseErrs {
		parts := strings.Split(e.Src, ":")
		if len(parts) < 3 {
			continue
		}
		ln, _ := strconv.Atoi(parts[len(parts)-2])
		located := false
		for _, fr := range ranges {
			if ln >= fr.Start && ln <= fr.End {
				rejected[fr.Name] = "[" + e.Category + "] " + e.Message
				located = true
			}
		}
		if !located {
			r.Violate(sigPrefix+"error-outside-any-declaration-"+atom, "conversion error not located inside a declaration: "+e.Raw, map[string]interface{}{"pkg": p.Name, "source": src})
		}
	}
	if p.ParseErr != "" {
		r.Violate(sigPrefix+"unreadable-output-"+strings.TrimPrefix(atom, "o_"), "emitted file cannot be read by Coq's rules: "+p.ParseErr, map[string]interface{}{"pkg": p.Name, "source": src, "v": p.VFile})
		return
	}
	// which function does each case call?
	byFunc := map[string][]tvCase{}
	for _, c := range p.Cases {
		cs := funcSource(src, c.Case)
		callee := ""
		if m := regexp.MustCompile(`return (\w+)\(`).FindStringSubmatch(cs); m != nil {
			callee = m[1]
		}
		byFunc[callee] = append(byFunc[callee], c)
	}
	for _, fr := range ranges {
		atom, pos, ok := judged(fr.Name)
		if !ok {
			continue
		}
		r.Count("functions_judged", 1)
		key := atom + "/" + pos
		if why, ok := rejected[fr.Name]; ok {
			verdicts[key] = "rejected: " + why
			r.Count("functions_rejected", 1)
			r.Distinct(key + "/rejected")
			// a rejection for a reason that has nothing to do with the atom (the host or the atom's scaffolding uses
			// something unsupported) hides the construct the atom is about: such atoms are listed, so that the
			// catalogue can be repaired (append(s, 1, 2) went unexamined this way until round 6)
			if unrelatedRejection(atom, why) {
				r.Count("functions_rejected_for_a_reason_unrelated_to_the_atom", 1)
				maskedMu.Lock()
				masked[atom+": "+why] = true
				maskedMu.Unlock()
			}
			continue
		}
		// a declaration-level atom may be rejected at one of its helper declarations
		helperRejected := ""
		if strings.HasSuffix(fr.Name, "_fn") || strings.HasPrefix(fr.Name, "cell_") {
			// only a rejected declaration this function (transitively) mentions excuses it
			reach := reachableNames(src, fr.Name)
			for n, why := range rejected {
				bare := n
				if i := strings.Index(n, ":"); i >= 0 {
					bare = n[i+1:]
				}
				if !strings.HasPrefix(n, "cell_") && !strings.HasPrefix(n, "host_") && reach[bare] {
					helperRejected = n + ": " + why
				}
			}
		}
		agree, mism, notEmitted, incon := 0, 0, 0, 0
		var firstBad tvCase
		for _, c := range byFunc[fr.Name] {
			switch {
			case c.Verdict == "agree":
				agree++
				r.Count("cases_compared", 1)
			case c.Verdict == "mismatch":
				if mism == 0 {
					firstBad = c
				}
				mism++
				r.Count("cases_compared", 1)
			case c.Verdict == "not-emitted":
				notEmitted++
				firstBad = c
			case c.Verdict == "go-panic":
			default:
				incon++
			}
		}
		switch {
		case helperRejected != "" && (mism > 0 || notEmitted > 0 || incon > 0):
			// the function depends on a rejected declaration of the same atom: rejected as a unit
			verdicts[key] = "rejected (helper): " + helperRejected
			r.Count("functions_rejected", 1)
			r.Distinct(key + "/rejected")
		case mism > 0:
			verdicts[key] = "MISTRANSLATED"
			r.Distinct(key + "/mistranslated")
			r.Violate(sigPrefix+atom+"-mistranslated", fmt.Sprintf("atom %q at position %s is accepted but the emitted GooseLang disagrees with Go: %s returned %s, GooseLang %s", atom, pos, firstBad.Case, firstBad.GoValue, firstBad.GL),
				map[string]interface{}{"atom": atom, "position": pos, "function": funcSource(src, fr.Name), "case": firstBad, "v": p.VFile})
		case notEmitted > 0:
			verdicts[key] = "DROPPED"
			r.Distinct(key + "/dropped")
			r.Violate(sigPrefix+atom+"-silently-dropped", fmt.Sprintf("atom %q at position %s: no error is reported for %s but its definition (or that of %s) is missing from the output", atom, pos, fr.Name, firstBad.Case),
				map[string]interface{}{"atom": atom, "position": pos, "function": funcSource(src, fr.Name), "v": p.VFile, "stderr": p.Stderr})
		case incon > 0 && agree == 0:
			verdicts[key] = "inconclusive"
			r.Inconclusive("model-cannot-evaluate")
		default:
			verdicts[key] = fmt.Sprintf("accepted and faithful on %d cases", agree)
			r.Count("functions_accepted_faithful", 1)
			r.Distinct(key + "/faithful")
			if agree > 0 {
				r.Sample(8, map[string]interface{}{"atom": atom, "position": pos, "verdict": verdicts[key]})
			}
		}
	}
	for n, why := range rejected {
		if len(verdicts) < 100000 {
			r.Sample(8, map[string]interface{}{"atom": atom, "function": n, "verdict": "rejected", "error": why})
		}
		break
	}
}

// c02Failing: a C02 witness still fails if some function is accepted (no located error) and
// mistranslated or dropped.
func c02Failing(p *tvPkg) (bool, string) {
	if p.Crashed {
		return false, ""
	}
	src := ""
	for _, s := range p.Source {
		src = s
	}
	ranges := funcRanges(src)
	rejectedLines := map[string]bool{}
	for _, e := range p.GooseErrs {
		parts := strings.Split(e.Src, ":")
		if len(parts) < 3 {
			continue
		}
		ln, _ := strconv.Atoi(parts[len(parts)-2])
		for _, fr := range ranges {
			if ln >= fr.Start && ln <= fr.End {
				rejectedLines[fr.Name] = true
			}
		}
	}
	if p.ParseErr != "" {
		return true, "unreadable output: " + p.ParseErr
	}
	if len(rejectedLines) > 0 {
		return false, ""
	}
	for _, c := range p.Cases {
		if c.Verdict == "mismatch" || c.Verdict == "not-emitted" {
			return true, fmt.Sprintf("accepted without error but %s: Go %s, GooseLang %s", c.Case, c.GoValue, c.GL)
		}
	}
	return false, ""
}

// reachableNames returns the package-level names transitively mentioned by function fn.
func reachableNames(src, fn string) map[string]bool {
	fset := token.NewFileSet()
	f, err := parser.ParseFile(fset, "x.go", src, 0)
	if err != nil {
		return nil
	}
	uses := map[string]map[string]bool{}
	var declName func(d ast.Decl) []string
	declName = func(d ast.Decl) []string {
		switch d := d.(type) {
		case *ast.FuncDecl:
			return []string{d.Name.Name}
		case *ast.GenDecl:
			var out []string
			for _, sp := range d.Specs {
				switch sp := sp.(type) {
				case *ast.TypeSpec:
					out = append(out, sp.Name.Name)
				case *ast.ValueSpec:
					for _, n := range sp.Names {
						out = append(out, n.Name)
					}
				}
			}
			return out
		}
		return nil
	}
	top := map[string]bool{}
	for _, d := range f.Decls {
		for _, n := range declName(d) {
			top[n] = true
		}
	}
	for _, d := range f.Decls {
		names := declName(d)
		m := map[string]bool{}
		ast.Inspect(d, func(n ast.Node) bool {
			if id, ok := n.(*ast.Ident); ok && id.Name != "_" && top[id.Name] {
				m[id.Name] = true
			}
			return true
		})
		// methods are reachable from their receiver type
		if fd, ok := d.(*ast.FuncDecl); ok && fd.Recv != nil {
			continue
		}
		for _, n := range names {
			uses[n] = m
		}
	}
	seen := map[string]bool{}
	var walk func(n string)
	walk = func(n string) {
		if seen[n] {
			return
		}
		seen[n] = true
		for u := range uses[n] {
			walk(u)
		}
	}
	walk(fn)
	return seen
}

// stripVariant removes the _v<N> suffix of a random-surroundings variant package name.
func stripVariant(name string) string {
	if i := strings.LastIndex(name, "_v"); i > 0 && i+2 < len(name) && strings.Trim(name[i+2:], "0123456789") == "" {
		return name[:i]
	}
	return name
}

var (
	maskedMu sync.Mutex
	masked   = map[string]bool{}
)

// unrelatedRejection: messages that come from scaffolding rather than from the construct an atom exercises.
func unrelatedRejection(atom, why string) bool {
	a := strings.TrimPrefix(atom, "o_")
	switch {
	case strings.Contains(why, "is not assignable"):
		return !strings.Contains(a, "assign") && !strings.HasPrefix(a, "forinit") && !strings.HasPrefix(a, "forpost")
	case strings.Contains(why, "non-var declaration for type"):
		return a != "typelocal"
	case strings.Contains(why, "literal with kind INT"):
		// (the declaration forms of the numeric family need a literal of the type)
		return !strings.HasSuffix(a, "_field") && !strings.HasSuffix(a, "_loopvar") && !strings.HasSuffix(a, "_namedtype")
	case strings.Contains(why, "index update to unexpected target"):
		return !strings.Contains(a, "index") && !strings.Contains(a, "array") && !strings.Contains(a, "named_")
	}
	return false
}

// maskedAtoms lists the atoms whose rejection was classified as unrelated (evidence).
func maskedAtoms() []string {
	maskedMu.Lock()
	defer maskedMu.Unlock()
	var out []string
	for k := range masked {
		out = append(out, k)
	}
	sort.Strings(out)
	return out
}
