package fsp

import (
	"fmt"

	"verif/core"
)

// Further input dimensions of C12 that the random pools keep (nearly)
// constant, each as a generated family whose expected results follow from the
// statement alone.

// readOffsetFamily: ReadAt at offsets around 2^31, 2^32, 2^62, 2^63 and 2^64
// (including offset+length wrapping around 2^64) on files of every small size.
// One ReadAt per history, so that a result is never masked by an earlier
// divergence. Lengths stay small (the statement bounds nothing, but a request
// for 2^40 bytes is a request for memory, not a boundary of ReadAt).
func readOffsetFamily() []c12item {
	var out []c12item
	offs := []uint64{1<<31 - 1, 1 << 31, 1<<31 + 1, 1<<32 - 1, 1 << 32, 1<<32 + 1, 1 << 40, 1 << 62, 1<<63 - 4097, 1<<63 - 4096, 1<<63 - 2, 1<<63 - 1,
		1 << 63, 1<<63 + 1, 1<<64 - 4096, 1<<64 - 2, 1<<64 - 1}
	lens := []uint64{0, 1, 2, 4096, 4097}
	for _, size := range []int{0, 1, 100, 4096} {
		for _, off := range offs {
			for _, l := range lens {
				h := &hb{}
				h.mk("d")
				if size%2 == 0 {
					h.at("d", "a", size)
				} else {
					h.file("d", "a", size)
				}
				r := h.open("d", "a")
				h.rd(r, off, l).rd(r, 0, uint64(size)+1).cl(r)
				out = append(out, c12item{pool: "R", family: "readat-far-offsets", body: h.ops})
			}
		}
	}
	return out
}

// manyFilesFamily: one directory with many entries (List needs several
// getdents chunks on DirFs: 4096-byte buffer, 100 names per parse call),
// sequentially — so the result must be exact — with short, long and mixed
// names, created by Create, AtomicCreate and Link; List after the fill, after
// deleting every other name and after refilling.
func manyFilesFamily(seed int64, quick bool) []c12item {
	rng := core.NewRng(seed, "c12/many-files")
	counts := []int{13, 14, 15, 16, 99, 100, 101, 102, 150, 200, 201, 400}
	if !quick {
		counts = append(counts, 1000, 3000)
	}
	var out []c12item
	for _, n := range counts {
		for _, mix := range []string{"short", "long", "mixed"} {
			if mix != "short" && n > 400 {
				continue
			}
			name := func(i int) string {
				s := fmt.Sprintf("f%05d", i)
				switch {
				case mix == "long", mix == "mixed" && i%3 == 0:
					s = padTo(s+"-", 255, "0123456789")
				case mix == "mixed" && i%3 == 1:
					s = s + ".tmp"
				}
				return s
			}
			h := &hb{}
			h.mk("d").mk("empty").file("d", name(0), 3)
			for i := 1; i < n; i++ {
				switch x := rng.Intn(20); {
				case x == 0 && len(name(i)) < 200:
					h.at("d", name(i), 1)
				case x < 6:
					h.ln("d", name(0), "d", name(i))
				default:
					c := h.cr("d", name(i))
					if x < 10 {
						h.ap(c, 1)
					}
					h.cl(c)
				}
				if i == n/2 {
					h.ls("d")
				}
			}
			h.ls("d", "empty")
			for i := 0; i < n; i += 2 {
				h.del("d", name(i))
			}
			h.ls("d")
			for i := 0; i < n; i += 4 {
				c := h.cr("d", name(i))
				h.cl(c)
			}
			h.ls("d", "empty")
			out = append(out, c12item{pool: "M", family: "many-files-" + mix, body: h.ops})
		}
	}
	// many descriptors open at once: their numbers must all differ
	{
		h := &hb{}
		h.mk("d")
		var fds []int
		for i := 0; i < 120; i++ {
			fds = append(fds, h.cr("d", fmt.Sprintf("o%03d", i)))
		}
		for i := 0; i < 80; i++ {
			fds = append(fds, h.open("d", "o000"))
		}
		h.ls("d")
		for i, fd := range fds {
			if i%2 == 0 {
				h.cl(fd)
			}
		}
		for i := 0; i < 40; i++ {
			fds = append(fds, h.open("d", "o001"))
		}
		h.ls("d")
		out = append(out, c12item{pool: "M", family: "many-open-descriptors", body: h.ops})
	}
	// many directories
	for _, nd := range []int{1, 12, 64} {
		h := &hb{}
		for i := 0; i < nd; i++ {
			h.mk(fmt.Sprintf("dir%02d", i))
		}
		for i := 0; i < nd; i++ {
			d := fmt.Sprintf("dir%02d", i)
			h.at(d, "same", i).ln(d, "same", fmt.Sprintf("dir%02d", (i+1)%nd), fmt.Sprintf("from%02d", i))
			if i%3 == 0 {
				h.file(d, fmt.Sprintf("dir%02d", (i+1)%nd), 2) // a file named like another directory
			}
		}
		for i := 0; i < nd; i++ {
			h.ls(fmt.Sprintf("dir%02d", i))
		}
		for i := 0; i < nd; i += 2 {
			h.del(fmt.Sprintf("dir%02d", i), "same")
		}
		for i := 0; i < nd; i++ {
			h.ls(fmt.Sprintf("dir%02d", i))
		}
		out = append(out, c12item{pool: "M", family: "many-directories", body: h.ops})
	}
	return out
}

func permutations(n int) [][]int {
	if n == 0 {
		return [][]int{{}}
	}
	var out [][]int
	for _, p := range permutations(n - 1) {
		for i := 0; i <= len(p); i++ {
			q := append(append(append([]int(nil), p[:i]...), n-1), p[i:]...)
			out = append(out, q)
		}
	}
	return out
}

// closeInterleavingFamily: several descriptors on one file (the creator's
// append descriptor, kept open or not, and 1–3 readers), a Delete at every
// position of every order of the Closes, optionally the name re-created by
// Create or AtomicCreate right after the Delete; after every step the
// remaining read descriptors read the whole file and the creator appends.
func closeInterleavingFamily() []c12item {
	var out []c12item
	for _, creatorOpen := range []bool{true, false} {
		for _, nr := range []int{1, 2, 3} {
			nd := nr
			if creatorOpen {
				nd++
			}
			if nd < 2 || nd > 3 {
				continue
			}
			for _, order := range permutations(nd) {
				for delPos := 0; delPos <= nd; delPos++ {
					for _, recreate := range []string{"", "create", "atomic"} {
						h := &hb{}
						h.mk("d")
						c := h.cr("d", "F")
						h.ap(c, 10)
						var descs []int // index nd-1 is the creator when it stays open
						var readers []int
						if !creatorOpen {
							h.cl(c)
						}
						for i := 0; i < nr; i++ {
							r := h.open("d", "F")
							readers = append(readers, r)
							descs = append(descs, r)
						}
						if creatorOpen {
							descs = append(descs, c)
						}
						closed := map[int]bool{}
						probe := func() {
							if creatorOpen && !closed[c] {
								h.ap(c, 3)
							}
							for _, r := range readers {
								if !closed[r] {
									h.rd(r, 0, 200)
								}
							}
						}
						del := func() {
							h.del("d", "F").ls("d")
							switch recreate {
							case "create":
								n := h.cr("d", "F")
								h.ap(n, 5).cl(n)
							case "atomic":
								h.at("d", "F", 5)
							}
							probe()
						}
						for step := 0; step < nd; step++ {
							if step == delPos {
								del()
							}
							fd := descs[order[step]]
							h.cl(fd)
							closed[fd] = true
							probe()
						}
						if delPos == nd {
							del()
						}
						h.ls("d")
						out = append(out, c12item{pool: "K", family: "close-order×delete-position×recreate", body: h.ops})
					}
				}
			}
		}
	}
	return out
}

// atomicOverFamily: AtomicCreate of a name whose inode is at that moment open
// for append / open for reading / linked elsewhere / already deleted but still
// open / linked and open; data of 0 (empty and nil), 1 and 100 bytes over old
// contents of 0, 1 and 100 bytes. Then: the old descriptors keep the old inode
// (append more, read), the other link keeps the old contents, the name reads
// the new contents, List is unchanged; finally the new name is deleted and the
// old descriptors are used once more.
func atomicOverFamily() []c12item {
	var out []c12item
	for _, state := range []string{"open-for-append", "open-for-read", "linked-elsewhere", "deleted-but-open", "linked-and-open", "open-twice", "absent"} {
		for _, oldSize := range []int{0, 1, 100} {
			for _, newSize := range []int{-1, 0, 1, 100} { // -1: nil slice
				h := &hb{}
				h.mk("d").mk("e")
				c := h.cr("d", "F")
				h.ap(c, oldSize)
				var rds []int
				switch state {
				case "open-for-append":
				case "open-for-read":
					h.cl(c)
					c = 0
					rds = append(rds, h.open("d", "F"))
				case "linked-elsewhere":
					h.cl(c)
					c = 0
					h.ln("d", "F", "e", "G")
				case "deleted-but-open":
					h.cl(c)
					c = 0
					rds = append(rds, h.open("d", "F"))
					h.del("d", "F")
				case "linked-and-open":
					h.ln("d", "F", "e", "G")
					rds = append(rds, h.open("e", "G"))
				case "open-twice":
					rds = append(rds, h.open("d", "F"), h.open("d", "F"))
				case "absent":
					h.cl(c)
					c = 0
					h.del("d", "F")
				}
				h.ls("d", "e")
				if newSize < 0 {
					h.atNil("d", "F")
				} else {
					h.at("d", "F", newSize)
				}
				h.ls("d", "e")
				if c != 0 {
					h.ap(c, 7)
				}
				for _, r := range rds {
					h.rd(r, 0, 300)
				}
				h.readBack("d", "F")
				h.del("d", "F").ls("d", "e")
				if c != 0 {
					h.ap(c, 2).cl(c)
				}
				for _, r := range rds {
					h.rd(r, 0, 300).cl(r)
				}
				out = append(out, c12item{pool: "O", family: "atomiccreate-over-" + state, body: h.ops})
			}
		}
	}
	return out
}

// tinyFileFamily: files of 0 and 1 bytes made in every way (Create only,
// Create + Append of 0 bytes (empty / nil), + 1 byte, AtomicCreate of 0 / nil /
// 1 byte), read with every small offset/length pair, linked, listed.
func tinyFileFamily() []c12item {
	var out []c12item
	for _, how := range []string{"create-only", "append-empty", "append-nil", "append-1", "append-empty-then-1", "append-1-then-empty", "atomic-empty", "atomic-nil", "atomic-1"} {
		h := &hb{}
		h.mk("d")
		switch how {
		case "create-only":
			h.cl(h.cr("d", "t"))
		case "append-empty":
			c := h.cr("d", "t")
			h.ap(c, 0).cl(c)
		case "append-nil":
			c := h.cr("d", "t")
			h.apNil(c).cl(c)
		case "append-1":
			c := h.cr("d", "t")
			h.ap(c, 1).cl(c)
		case "append-empty-then-1":
			c := h.cr("d", "t")
			h.ap(c, 0).apNil(c).ap(c, 1).cl(c)
		case "append-1-then-empty":
			c := h.cr("d", "t")
			h.ap(c, 1).ap(c, 0).apNil(c).cl(c)
		case "atomic-empty":
			h.at("d", "t", 0)
		case "atomic-nil":
			h.atNil("d", "t")
		case "atomic-1":
			h.at("d", "t", 1)
		}
		h.ls("d").ln("d", "t", "d", "u").ls("d")
		r := h.open("d", "u")
		for _, off := range []uint64{0, 1, 2} {
			for _, l := range []uint64{0, 1, 2, 4096} {
				h.rd(r, off, l)
			}
		}
		h.cl(r)
		out = append(out, c12item{pool: "T", family: "tiny-files", body: h.ops})
	}
	return out
}

// payloadSizeFamily: Append / AtomicCreate of 0, 1, 4 KiB, 64 KiB−1, 64 KiB,
// 64 KiB+1, 256 KiB and 1 MiB (the sizes of the C14 payload dimension), as
// header + body + trailer, with reads of the whole file, of exactly the body,
// and across both of its borders, through one and through two descriptors;
// then the same size again behind it (the file grows across the size twice),
// a link, AtomicCreate of that size over the name, and a read of both.
func payloadSizeFamily() []c12item {
	var out []c12item
	for _, size := range payloadSizes {
		for _, variant := range []string{"append", "append-reader-open-before", "atomic"} {
			h := &hb{}
			h.mk("d")
			S := uint64(size)
			switch variant {
			case "append", "append-reader-open-before":
				c := h.cr("d", "w")
				var r0 int
				if variant == "append-reader-open-before" {
					r0 = h.open("d", "w")
				}
				h.ap(c, 10).ap(c, size).ap(c, 7)
				if r0 != 0 {
					h.rd(r0, 0, S+100).rd(r0, 10, S).rd(r0, 7, 6).rd(r0, 10+S-3, 6)
				}
				r := h.open("d", "w")
				h.rd(r, 0, S+100).rd(r, 10, S).rd(r, 9, S+2).rd(r, 10+S-1, 2).rd(r, 10+S, 7).rd(r, 0, 10+S)
				h.ap(c, size).ap(c, 3)
				h.rd(r, 17+S, S).rd(r, 17+S-2, S+4).rd(r, 0, 2*S+100)
				if r0 != 0 {
					h.rd(r0, 17+S, S+3).cl(r0)
				}
				h.cl(c).rd(r, 0, 2*S+100).cl(r)
				h.ln("d", "w", "d", "l").at("d", "w", size).readBack("d", "l")
				r2 := h.open("d", "w")
				h.rd(r2, 0, S+1).rd(r2, S/2, S).cl(r2)
			case "atomic":
				h.at("d", "t", size)
				r := h.open("d", "t")
				h.rd(r, 0, S+1).rd(r, S/2, S).rd(r, S-1, 2).at("d", "t", size+1).rd(r, 0, S+2).cl(r)
				r2 := h.open("d", "t")
				h.rd(r2, 0, S+2).rd(r2, S, 1).cl(r2).ls("d")
			}
			out = append(out, c12item{pool: "P", family: "payload-size-" + variant, body: h.ops})
		}
	}
	return out
}
