package fsp

import (
	"bufio"
	"bytes"
	"encoding/json"
	"fmt"
	"os"
	"path/filepath"
	"runtime"
	"sort"
	"strconv"
	"strings"
	"sync"
	"sync/atomic"
	"time"

	"verif/core"
	"verif/props"

	"github.com/goose-lang/goose/machine/filesys"
)

// C14, boundary-argument matrix.
//
// Every operation class — an operation together with a boundary argument
// (empty and nil slices, zero lengths, offsets at / beyond / far beyond the end,
// names that exist / are free / are shared by both goroutines, and for MemFs
// the refused calls: closed descriptor, wrong mode, missing name or directory)
// — runs concurrently with every operation class, itself included: for each
// unordered pair (A, B) two goroutines loop, one over A and one over B, on one
// fresh filesystem. Between the start barrier and the final join the harness
// performs NO synchronisation of its own (no atomics, no channels: timestamps
// go to goroutine-private slices), so under -race every pair of conflicting
// accesses inside the library that the library does not order itself is
// visible to the race detector. Decided: race reports with a /repo frame
// (same signatures as the history part), a fatal error of the process, a
// panic inside a call that is valid in every order, and results that no order
// explains (each class checks only what holds in EVERY linearization, e.g. a
// zero-length ReadAt returns nothing, Create of an existing name fails, own
// appends all arrive in order). For the refused classes only race reports and
// process death are decided.
//
// Which pairs really ran concurrently is measured, not assumed: the
// [before, after] monotonic-clock intervals of the calls of the two goroutines
// are intersected after the join, and the evidence lists the pairs with at
// least one intersecting pair of calls.

func init() {
	props.Children["c14-matrix"] = c14MatrixChild
}

type mxCtx struct {
	fs       filesys.Filesys
	g        int
	S        []byte
	afd      filesys.File // own appender file d/a<g>, open for append
	rfd      filesys.File // own read descriptor of d/S
	efd      filesys.File // own read descriptor of the empty file d/E
	closedfd filesys.File // MemFs only: a descriptor of d/S already closed
	tmp      filesys.File
	tmpOK    bool
	appended []byte // what d/a<g> must hold at the end
	lastQ    []byte // last data of the private AtomicCreate name d/q<g>
	hasQ     bool
	lastT    []byte // own last data written to the shared name d/t
	hasT     bool
	seq      int
}

type mxClass struct {
	Name    string
	MemOnly bool
	Refused bool // the model refuses the call: only races / process death are decided
	Cost    int  // DirFs cost units per iteration (MemFs: always 1)
	prep    func(c *mxCtx)
	op      func(c *mxCtx) string // "" or what is wrong with the result in every linearization
	post    func(c *mxCtx)
}

func (c *mxCtx) name(p string) string { return p + strconv.Itoa(c.g) }

func (c *mxCtx) chunk() []byte {
	c.seq++
	return []byte(fmt.Sprintf("<%d.%d>", c.g, c.seq))
}

func wantLen(b []byte, n int, what string) string {
	if len(b) != n {
		return fmt.Sprintf("%s returned %d bytes %q, expected %d", what, len(b), trunc(string(b), 40), n)
	}
	return ""
}

func trunc(s string, n int) string {
	if len(s) > n {
		return s[:n] + "…"
	}
	return s
}

var mxSealed = []string{"E", "L", "S", "a0", "a1"}

func mxClasses() []*mxClass {
	cs := []*mxClass{
		{Name: "append-empty-slice", Cost: 2, op: func(c *mxCtx) string { c.fs.Append(c.afd, []byte{}); return "" }},
		{Name: "append-nil-slice", Cost: 2, op: func(c *mxCtx) string { c.fs.Append(c.afd, nil); return "" }},
		{Name: "append-data", Cost: 2, op: func(c *mxCtx) string {
			d := c.chunk()
			c.fs.Append(c.afd, d)
			c.appended = append(c.appended, d...)
			return ""
		}},
		{Name: "readat-zero-length", Cost: 2, op: func(c *mxCtx) string { return wantLen(c.fs.ReadAt(c.rfd, 0, 0), 0, "ReadAt(S,0,0)") }},
		{Name: "readat-zero-length-mid-file", Cost: 2, op: func(c *mxCtx) string { return wantLen(c.fs.ReadAt(c.rfd, 5, 0), 0, "ReadAt(S,5,0)") }},
		{Name: "readat-offset-at-eof", Cost: 2, op: func(c *mxCtx) string {
			return wantLen(c.fs.ReadAt(c.rfd, uint64(len(c.S)), 16), 0, "ReadAt(S,len,16)")
		}},
		{Name: "readat-offset-beyond-eof", Cost: 2, op: func(c *mxCtx) string {
			return wantLen(c.fs.ReadAt(c.rfd, uint64(len(c.S))+4096, 16), 0, "ReadAt(S,len+4096,16)")
		}},
		{Name: "readat-offset-2^40", Cost: 2, op: func(c *mxCtx) string { return wantLen(c.fs.ReadAt(c.rfd, 1<<40, 1), 0, "ReadAt(S,2^40,1)") }},
		{Name: "readat-whole-file-longer-buffer", Cost: 2, op: func(c *mxCtx) string {
			if b := c.fs.ReadAt(c.rfd, 0, uint64(len(c.S))+64); !bytes.Equal(b, c.S) {
				return fmt.Sprintf("ReadAt(S,0,len+64) returned %d bytes %q, the sealed file holds %d bytes", len(b), trunc(string(b), 40), len(c.S))
			}
			return ""
		}},
		{Name: "readat-crossing-eof", Cost: 2, op: func(c *mxCtx) string {
			if b := c.fs.ReadAt(c.rfd, uint64(len(c.S))-3, 64); !bytes.Equal(b, c.S[len(c.S)-3:]) {
				return fmt.Sprintf("ReadAt(S,len-3,64) returned %q, expected the last 3 bytes %q", trunc(string(b), 40), c.S[len(c.S)-3:])
			}
			return ""
		}},
		{Name: "readat-empty-file", Cost: 2, op: func(c *mxCtx) string { return wantLen(c.fs.ReadAt(c.efd, 0, 16), 0, "ReadAt(E,0,16)") }},
		{Name: "open-name-shared-by-both", Cost: 3,
			op:   func(c *mxCtx) string { c.tmpOK = false; c.tmp = c.fs.Open("d", "S"); c.tmpOK = true; return "" },
			post: func(c *mxCtx) { c.fs.Close(c.tmp) }},
		{Name: "open-empty-file", Cost: 3,
			op:   func(c *mxCtx) string { c.tmpOK = false; c.tmp = c.fs.Open("d", "E"); c.tmpOK = true; return "" },
			post: func(c *mxCtx) { c.fs.Close(c.tmp) }},
		{Name: "close", Cost: 3,
			prep: func(c *mxCtx) { c.tmp = c.fs.Open("d", "S") },
			op:   func(c *mxCtx) string { c.fs.Close(c.tmp); return "" }},
		{Name: "create-existing-name", Cost: 4, op: func(c *mxCtx) string {
			if _, ok := c.fs.Create("d", "S"); ok {
				return "Create(d,S) of a name that exists throughout returned true"
			}
			return ""
		}},
		{Name: "create-free-name-shared-by-both", Cost: 12,
			op: func(c *mxCtx) string { c.tmp, c.tmpOK = c.fs.Create("d", "n"); return "" },
			post: func(c *mxCtx) {
				if c.tmpOK {
					c.fs.Append(c.tmp, nil)
					c.fs.Close(c.tmp)
					c.fs.Delete("d", "n")
				}
			}},
		{Name: "create-private-name", Cost: 12,
			op: func(c *mxCtx) string {
				c.tmp, c.tmpOK = c.fs.Create("d", c.name("p"))
				if !c.tmpOK {
					return "Create of a name only this goroutine uses (deleted after each round) returned false"
				}
				return ""
			},
			post: func(c *mxCtx) {
				if c.tmpOK {
					c.fs.Close(c.tmp)
					c.fs.Delete("d", c.name("p"))
				}
			}},
		{Name: "delete-private-name", Cost: 12,
			prep: func(c *mxCtx) {
				if f, ok := c.fs.Create("d", c.name("x")); ok {
					c.fs.Close(f)
				}
			},
			op: func(c *mxCtx) string { c.fs.Delete("d", c.name("x")); return "" }},
		{Name: "delete-missing-name", MemOnly: true, op: func(c *mxCtx) string { c.fs.Delete("d", c.name("never")); return "" }},
		{Name: "link-onto-existing-name", Cost: 4, op: func(c *mxCtx) string {
			if c.fs.Link("d", "L", "d", "S") {
				return "Link(d,L -> d,S) onto a name that exists throughout returned true"
			}
			return ""
		}},
		{Name: "link-private-name-other-dir", Cost: 10,
			op: func(c *mxCtx) string {
				c.tmpOK = c.fs.Link("d", "L", "e", c.name("k"))
				if !c.tmpOK {
					return "Link onto a name only this goroutine uses (deleted after each round) returned false"
				}
				return ""
			},
			post: func(c *mxCtx) {
				if c.tmpOK {
					c.fs.Delete("e", c.name("k"))
				}
			}},
		{Name: "link-free-name-shared-by-both", Cost: 10,
			op: func(c *mxCtx) string { c.tmpOK = c.fs.Link("d", "L", "d", "m"); return "" },
			post: func(c *mxCtx) {
				if c.tmpOK {
					c.fs.Delete("d", "m")
				}
			}},
		{Name: "atomiccreate-empty-slice", Cost: 300, op: func(c *mxCtx) string {
			c.fs.AtomicCreate("d", c.name("q"), []byte{})
			c.lastQ, c.hasQ = nil, true
			return ""
		}},
		{Name: "atomiccreate-nil-slice", Cost: 300, op: func(c *mxCtx) string {
			c.fs.AtomicCreate("d", c.name("q"), nil)
			c.lastQ, c.hasQ = nil, true
			return ""
		}},
		{Name: "atomiccreate-data-private-name", Cost: 300, op: func(c *mxCtx) string {
			d := c.chunk()
			c.fs.AtomicCreate("d", c.name("q"), d)
			c.lastQ, c.hasQ = d, true
			return ""
		}},
		{Name: "atomiccreate-name-shared-by-both", Cost: 300, op: func(c *mxCtx) string {
			d := c.chunk()
			c.fs.AtomicCreate("d", "t", d)
			c.lastT, c.hasT = d, true
			return ""
		}},
		{Name: "list", Cost: 10, op: func(c *mxCtx) string {
			names := c.fs.List("d")
			have := map[string]bool{}
			for _, n := range names {
				have[n] = true
			}
			for _, n := range mxSealed {
				if !have[n] {
					sort.Strings(names)
					return fmt.Sprintf("List(d) = %q misses %q, which exists throughout", names, n)
				}
			}
			return ""
		}},
		{Name: "list-empty-directory", Cost: 8, op: func(c *mxCtx) string {
			if names := c.fs.List("z"); len(names) != 0 {
				return fmt.Sprintf("List(z) of a directory nothing is ever put in returned %q", names)
			}
			return ""
		}},
		{Name: "mkdir-existing-directory", MemOnly: true, op: func(c *mxCtx) string { c.fs.Mkdir("d"); return "" }},
		{Name: "mkdir-new-directory", Cost: 12, op: func(c *mxCtx) string { c.seq++; c.fs.Mkdir(fmt.Sprintf("w%d_%d", c.g, c.seq)); return "" }},
		// refused calls (MemFs only: a DirFs descriptor number may be re-used by the other goroutine)
		{Name: "refused-close-of-closed-descriptor", MemOnly: true, Refused: true, op: func(c *mxCtx) string { c.fs.Close(c.closedfd); return "" }},
		{Name: "refused-append-empty-to-closed-descriptor", MemOnly: true, Refused: true, op: func(c *mxCtx) string { c.fs.Append(c.closedfd, nil); return "" }},
		{Name: "refused-append-to-read-descriptor", MemOnly: true, Refused: true, op: func(c *mxCtx) string { c.fs.Append(c.rfd, []byte("x")); return "" }},
		{Name: "refused-append-empty-to-read-descriptor", MemOnly: true, Refused: true, op: func(c *mxCtx) string { c.fs.Append(c.rfd, []byte{}); return "" }},
		{Name: "refused-readat-on-append-descriptor", MemOnly: true, Refused: true, op: func(c *mxCtx) string { c.fs.ReadAt(c.afd, 0, 1); return "" }},
		{Name: "refused-open-missing-name", MemOnly: true, Refused: true, op: func(c *mxCtx) string { c.fs.Open("d", "missing"); return "" }},
		{Name: "refused-create-in-missing-directory", MemOnly: true, Refused: true, op: func(c *mxCtx) string { c.fs.Create("nodir", "x"); return "" }},
		{Name: "refused-link-missing-source", MemOnly: true, Refused: true, op: func(c *mxCtx) string { c.fs.Link("d", "missing", "d", c.name("y")); return "" }},
		{Name: "refused-list-missing-directory", MemOnly: true, Refused: true, op: func(c *mxCtx) string { c.fs.List("nodir"); return "" }},
		{Name: "refused-atomiccreate-in-missing-directory", MemOnly: true, Refused: true, op: func(c *mxCtx) string { c.fs.AtomicCreate("nodir", "x", nil); return "" }},
	}
	return cs
}

type mxPair struct {
	Idx  int
	A, B *mxClass
}

func mxPairs(impl string) []mxPair {
	var cs []*mxClass
	for _, c := range mxClasses() {
		if impl == "memfs" || !c.MemOnly {
			cs = append(cs, c)
		}
	}
	var out []mxPair
	for i := range cs {
		for j := i; j < len(cs); j++ {
			out = append(out, mxPair{Idx: len(out), A: cs[i], B: cs[j]})
		}
	}
	return out
}

func mxIters(impl string, c *mxClass, budget int) int {
	cost := 1
	if impl == "dirfs" && c.Cost > 0 {
		cost = c.Cost
	}
	n := budget / cost
	if n < 6 {
		n = 6
	}
	return n
}

type mxAnomaly struct {
	Sig  string `json:"sig"`
	What string `json:"what"`
}

type mxPairResult struct {
	Idx        int         `json:"idx"`
	A          string      `json:"a"`
	B          string      `json:"b"`
	ItersA     int         `json:"iterations_a"`
	ItersB     int         `json:"iterations_b"`
	Attempts   int         `json:"attempts"`
	Overlaps   int64       `json:"call_pairs_with_intersecting_intervals"`
	Refusals   int         `json:"refused_calls_that_panicked"`
	NotRefused int         `json:"refused_class_calls_that_returned_normally"`
	Anomalies  []mxAnomaly `json:"anomalies,omitempty"`
}

// mxRunLoop is the body of one goroutine; no harness synchronisation inside.
func mxRunLoop(c *mxCtx, cls *mxClass, n int, base time.Time, impl string) (iv []int64, anomalies []mxAnomaly, refusals, notRefused int) {
	iv = make([]int64, 0, 2*n)
	seen := map[string]bool{}
	note := func(kind, what string) {
		sig := fmt.Sprintf("matrix-%s-%s-%s", impl, cls.Name, kind)
		if !seen[sig] {
			seen[sig] = true
			anomalies = append(anomalies, mxAnomaly{sig, what})
		}
	}
	for i := 0; i < n; i++ {
		if cls.prep != nil {
			if msg, p := guarded(func() { cls.prep(c) }); p {
				note("panic-in-preparation", fmt.Sprintf("%s: the valid call(s) preparing %s panicked: %s", impl, cls.Name, msg))
				return
			}
		}
		var wrong string
		t0 := int64(time.Since(base))
		msg, p := guarded(func() { wrong = cls.op(c) })
		t1 := int64(time.Since(base))
		iv = append(iv, t0, t1)
		switch {
		case cls.Refused && p:
			refusals++
			continue
		case cls.Refused:
			notRefused++
			continue
		case p:
			note("panic", fmt.Sprintf("%s: %s panicked inside a call that is valid in every order: %s", impl, cls.Name, msg))
			return
		case wrong != "":
			note("wrong-result", fmt.Sprintf("%s: %s", impl, wrong))
		}
		if cls.post != nil {
			if msg, p := guarded(func() { cls.post(c) }); p {
				note("panic-in-follow-up", fmt.Sprintf("%s: the valid call(s) following %s panicked: %s", impl, cls.Name, msg))
				return
			}
		}
	}
	return
}

func mxOverlaps(a, b []int64) int64 {
	// intervals of one goroutine are disjoint and ordered: two-pointer sweep
	var n int64
	j := 0
	for i := 0; i+1 < len(a); i += 2 {
		for j+1 < len(b) && b[j+1] < a[i] {
			j += 2
		}
		for k := j; k+1 < len(b) && b[k] <= a[i+1]; k += 2 {
			if b[k+1] >= a[i] {
				n++
			}
		}
	}
	return n
}

func mxRunPair(fs filesys.Filesys, impl string, p mxPair, budget int) (res mxPairResult) {
	res = mxPairResult{Idx: p.Idx, A: p.A.Name, B: p.B.Name}
	fail := func(kind, what string) {
		res.Anomalies = append(res.Anomalies, mxAnomaly{fmt.Sprintf("matrix-%s-setup-%s", impl, kind), what})
	}
	S := []byte("sealed-file-content-0123456789-abcdefghijklmnopqrstuvwxyz")
	var ctx [2]*mxCtx
	if msg, pn := guarded(func() {
		fs.Mkdir("d")
		fs.Mkdir("e")
		fs.Mkdir("z")
		fs.AtomicCreate("d", "S", S)
		fs.AtomicCreate("d", "L", []byte("link-source"))
		f, _ := fs.Create("d", "E")
		fs.Close(f)
		for g := 0; g < 2; g++ {
			c := &mxCtx{fs: fs, g: g, S: S}
			var ok bool
			if c.afd, ok = fs.Create("d", c.name("a")); !ok {
				panic("Create of the appender file returned false")
			}
			c.rfd = fs.Open("d", "S")
			c.efd = fs.Open("d", "E")
			if impl == "memfs" {
				c.closedfd = fs.Open("d", "S")
				fs.Close(c.closedfd)
			}
			ctx[g] = c
		}
	}); pn {
		fail("panic", impl+": sequential setup of the matrix filesystem panicked: "+msg)
		return
	}
	res.ItersA, res.ItersB = mxIters(impl, p.A, budget), mxIters(impl, p.B, budget)
	for res.Attempts = 1; ; res.Attempts++ {
		base := time.Now()
		var ready int32
		var wg sync.WaitGroup
		var ivs [2][]int64
		var ans [2][]mxAnomaly
		var refs, nrefs [2]int
		for g, cls := range []*mxClass{p.A, p.B} {
			wg.Add(1)
			go func(g int, cls *mxClass, n int) {
				defer wg.Done()
				atomic.AddInt32(&ready, 1)
				for atomic.LoadInt32(&ready) < 2 {
					runtime.Gosched()
				}
				// from here to the return: no synchronisation by the harness
				ivs[g], ans[g], refs[g], nrefs[g] = mxRunLoop(ctx[g], cls, n, base, impl)
			}(g, cls, []int{res.ItersA, res.ItersB}[g])
		}
		wg.Wait()
		res.Overlaps += mxOverlaps(ivs[0], ivs[1])
		res.Refusals += refs[0] + refs[1]
		res.NotRefused += nrefs[0] + nrefs[1]
		res.Anomalies = append(res.Anomalies, ans[0]...)
		res.Anomalies = append(res.Anomalies, ans[1]...)
		if res.Overlaps > 0 || res.Attempts >= 4 || len(res.Anomalies) > 0 {
			break
		}
	}
	if len(res.Anomalies) > 0 {
		return
	}
	// what must hold after the join in every linearization
	read := func(dir, name string) (b []byte, msg string, pn bool) {
		msg, pn = guarded(func() {
			f := fs.Open(dir, name)
			b = fs.ReadAt(f, 0, 1<<22)
			fs.Close(f)
		})
		return
	}
	var lastTs [][]byte
	for g := 0; g < 2; g++ {
		c := ctx[g]
		b, msg, pn := read("d", c.name("a"))
		switch {
		case pn:
			fail("final-read-panic", fmt.Sprintf("%s: reading d/%s after the join panicked: %s", impl, c.name("a"), msg))
		case !bytes.Equal(b, c.appended):
			res.Anomalies = append(res.Anomalies, mxAnomaly{fmt.Sprintf("matrix-%s-appends-lost-or-damaged", impl),
				fmt.Sprintf("%s: goroutine %d appended %d bytes in chunks (empty and nil appends in between) to its own file through its own descriptor while the other goroutine ran %s; the file holds %d bytes %q…, expected %q…",
					impl, g, len(c.appended), []string{p.B.Name, p.A.Name}[g], len(b), trunc(string(b), 60), trunc(string(c.appended), 60))})
		}
		if c.hasQ {
			b, msg, pn := read("d", c.name("q"))
			if pn {
				fail("final-read-panic", fmt.Sprintf("%s: reading d/%s after the join panicked: %s", impl, c.name("q"), msg))
			} else if !bytes.Equal(b, c.lastQ) {
				res.Anomalies = append(res.Anomalies, mxAnomaly{fmt.Sprintf("matrix-%s-atomiccreate-private-name-wrong-final-content", impl),
					fmt.Sprintf("%s: d/%s, written only by goroutine %d with AtomicCreate (last data %q), holds %q after the join", impl, c.name("q"), g, c.lastQ, trunc(string(b), 60))})
			}
		}
		if c.hasT {
			lastTs = append(lastTs, c.lastT)
		}
	}
	if len(lastTs) > 0 {
		b, msg, pn := read("d", "t")
		okT := false
		for _, l := range lastTs {
			okT = okT || bytes.Equal(b, l)
		}
		if pn {
			fail("final-read-panic", fmt.Sprintf("%s: reading d/t after the join panicked: %s", impl, msg))
		} else if !okT {
			res.Anomalies = append(res.Anomalies, mxAnomaly{fmt.Sprintf("matrix-%s-atomiccreate-shared-name-wrong-final-content", impl),
				fmt.Sprintf("%s: d/t holds %q after the join; the last AtomicCreate calls of the goroutines wrote %q", impl, trunc(string(b), 60), lastTs)})
		}
	}
	return
}

// c14MatrixChild: vcheck child c14-matrix <impl> <build> <budget> <gomaxprocs> <first pair> <outfile> <rootdir>
func c14MatrixChild(args []string) int {
	if len(args) != 7 {
		fmt.Fprintln(os.Stderr, "c14-matrix: bad arguments")
		return 2
	}
	impl := args[0]
	budget, _ := strconv.Atoi(args[2])
	procs, _ := strconv.Atoi(args[3])
	first, _ := strconv.Atoi(args[4])
	out, err := os.OpenFile(args[5], os.O_CREATE|os.O_WRONLY|os.O_APPEND, 0o644)
	if err != nil {
		fmt.Fprintln(os.Stderr, err)
		return 2
	}
	defer out.Close()
	root := args[6]
	runtime.GOMAXPROCS(procs)
	w := bufio.NewWriter(out)
	for _, p := range mxPairs(impl) {
		if p.Idx < first {
			continue
		}
		fmt.Fprintf(w, "{\"begin\":%d,\"a\":%q,\"b\":%q}\n", p.Idx, p.A.Name, p.B.Name)
		w.Flush()
		var fs filesys.Filesys
		cleanup := func() {}
		switch impl {
		case "memfs":
			fs = filesys.NewMemFs()
		case "dirfs":
			dir := filepath.Join(root, fmt.Sprintf("m%d", p.Idx))
			if err := os.MkdirAll(dir, 0o755); err != nil {
				fmt.Fprintln(os.Stderr, err)
				return 2
			}
			d := filesys.NewDirFs(dir)
			fs, cleanup = d, func() { guarded(func() { d.CloseFs() }); os.RemoveAll(dir) }
		default:
			return 2
		}
		res := mxRunPair(fs, impl, p, budget)
		cleanup()
		b, _ := json.Marshal(res)
		w.Write(b)
		w.WriteByte('\n')
		w.Flush()
	}
	return 0
}

// ---------------------------------------------------------------- parent

type mxBatch struct {
	impl, build string
	procs       int
	bin         string
}

// c14Matrix runs the matrix children; race logs go to raceDir (parsed by the caller together
// with those of the history part).
func c14Matrix(r *core.Run, self, raceBin, raceDir string, childLog *[]string, mu *sync.Mutex) {
	budgetMem, budgetDir := r.Pick(300, 4000), r.Pick(2400, 30000)
	batches := []mxBatch{{"memfs", "race", 2, raceBin}, {"memfs", "race", 8, raceBin}, {"memfs", "plain", 4, self}, {"dirfs", "plain", 4, self}}
	if !r.Quick() {
		batches = append(batches, mxBatch{"memfs", "plain", 16, self}, mxBatch{"dirfs", "race", 4, raceBin})
	}
	type cell struct {
		overlaps int64
		runs     int
	}
	cells := map[string]*cell{} // impl|A|B
	planned := map[string]int{}
	var refusals, notRefused, opsRun int64
	pends := make([][]c14verdict, len(batches))
	core.Parallel(len(batches), 2, func(bi int) {
		b := batches[bi]
		tag := fmt.Sprintf("matrix-%s-%s-p%d", b.impl, b.build, b.procs)
		out := filepath.Join(r.Scratch, tag+".jsonl")
		root := filepath.Join(r.Scratch, "root-"+tag)
		os.MkdirAll(root, 0o755)
		defer os.RemoveAll(root)
		env := append(os.Environ(), "GORACE=halt_on_error=0 exitcode=0 log_path="+filepath.Join(raceDir, tag))
		budget := budgetMem
		if b.impl == "dirfs" {
			budget = budgetDir
		}
		pairs := mxPairs(b.impl)
		mu.Lock()
		planned[b.impl] = len(pairs)
		mu.Unlock()
		first := 0
		for restart := 0; restart < 5 && first < len(pairs); restart++ {
			args := []string{"child", "c14-matrix", b.impl, b.build, strconv.Itoa(budget), strconv.Itoa(b.procs), strconv.Itoa(first), out, root}
			mu.Lock()
			*childLog = append(*childLog, b.bin+" "+strings.Join(args, " "))
			mu.Unlock()
			res := core.Exec(r.Scratch, env, 20*time.Minute, "", b.bin, args...)
			r.Count("matrix_children_run", 1)
			last, lastA, lastB := -1, "", ""
			f, err := os.Open(out)
			if err == nil {
				sc := bufio.NewScanner(f)
				sc.Buffer(make([]byte, 1<<20), 16<<20)
				for sc.Scan() {
					line := sc.Bytes()
					if bytes.HasPrefix(line, []byte(`{"begin"`)) {
						var bg struct {
							Begin int
							A, B  string
						}
						if json.Unmarshal(line, &bg) == nil && bg.Begin >= first {
							last, lastA, lastB = bg.Begin, bg.A, bg.B
						}
						continue
					}
					var pr mxPairResult
					if json.Unmarshal(line, &pr) != nil || pr.A == "" || pr.Idx < first {
						continue
					}
					n := int64(pr.Attempts) * int64(pr.ItersA+pr.ItersB)
					r.Eval(int(n))
					mu.Lock()
					opsRun += n
					refusals += int64(pr.Refusals)
					notRefused += int64(pr.NotRefused)
					k := b.impl + "|" + pr.A + "|" + pr.B
					if cells[k] == nil {
						cells[k] = &cell{}
					}
					cells[k].overlaps += pr.Overlaps
					cells[k].runs++
					mu.Unlock()
					for _, a := range pr.Anomalies {
						pends[bi] = append(pends[bi], c14verdict{sig: a.Sig, what: fmt.Sprintf("%s [matrix pair %s × %s, %s build, GOMAXPROCS=%d]", a.What, pr.A, pr.B, b.build, b.procs),
							detail: map[string]interface{}{"impl": b.impl, "build": b.build, "gomaxprocs": b.procs, "pair": pr, "command": b.bin + " " + strings.Join(args, " "),
								"replay": "fresh filesystem with d/S, d/L, empty d/E, per goroutine an appender d/a<g> and read descriptors; goroutine 0 loops class a, goroutine 1 loops class b (see mxClasses in c14matrix.go)"}})
					}
				}
				f.Close()
			}
			if res.TimedOut {
				r.Inconclusive("matrix child watchdog fired: " + tag)
				return
			}
			if res.Code == 0 {
				return
			}
			cls := "exit-" + strconv.Itoa(res.Code)
			if m := fatalRe.FindStringSubmatch(res.Stderr); m != nil {
				cls = slug(m[2])
			}
			pends[bi] = append(pends[bi], c14verdict{sig: "child-crash-" + b.impl + "-" + cls,
				what: fmt.Sprintf("the %s %s matrix child (GOMAXPROCS=%d) died while one goroutine looped %s and the other %s: %s", b.impl, b.build, b.procs, lastA, lastB, tail(firstLines(res.Stderr, 3), 300)),
				detail: map[string]interface{}{"impl": b.impl, "build": b.build, "gomaxprocs": b.procs, "pair_index": last, "class_a": lastA, "class_b": lastB, "exit": res.Code,
					"stderr_tail": tail(res.Stderr, 3000), "command": b.bin + " " + strings.Join(args, " ")}})
			r.Count("matrix_children_crashed", 1)
			if last < 0 {
				return
			}
			first = last + 1
		}
	})
	for _, ps := range pends {
		for _, v := range ps {
			r.Count("matrix_violating_pairs/"+v.sig, 1)
			r.Violate(v.sig, v.what, v.detail)
		}
	}
	ran, never := []string{}, []string{}
	for k, c := range cells {
		parts := strings.SplitN(k, "|", 3)
		label := fmt.Sprintf("%s: %s × %s", parts[0], parts[1], parts[2])
		if c.overlaps > 0 {
			ran = append(ran, label)
			r.Distinct("matrix|" + k)
		} else {
			never = append(never, label)
		}
	}
	sort.Strings(ran)
	sort.Strings(never)
	// op-class × op-class by operation name only (boundary arguments folded), for a compact view
	byOp := map[string]int{}
	for k, c := range cells {
		if c.overlaps == 0 {
			continue
		}
		parts := strings.SplitN(k, "|", 3)
		a, b := mxOpOf(parts[1]), mxOpOf(parts[2])
		if a > b {
			a, b = b, a
		}
		byOp[parts[0]+": "+a+" × "+b]++
	}
	r.Set("matrix_pairs_planned_by_impl", planned)
	r.Set("matrix_pairs_observed_running_concurrently", len(ran))
	r.Set("matrix_pairs_never_observed_overlapping", never)
	r.Set("matrix_pairs_that_ran_concurrently", ran)
	r.Set("matrix_operation_by_operation_concurrent_boundary_pairs", byOp)
	r.Set("matrix_calls", opsRun)
	r.Set("matrix_refused_calls_that_panicked", refusals)
	r.Set("matrix_refused_class_calls_that_returned_normally", notRefused)
	var names []string
	for _, c := range mxClasses() {
		names = append(names, c.Name)
	}
	r.Set("matrix_classes", names)
}

func mxOpOf(class string) string {
	class = strings.TrimPrefix(class, "refused-")
	if i := strings.Index(class, "-"); i > 0 {
		return class[:i]
	}
	return class
}
