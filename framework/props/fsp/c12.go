package fsp

import (
	"bytes"
	"encoding/json"
	"fmt"
	"os"
	"path/filepath"
	"sort"
	"strings"
	"sync"
	"time"

	"verif/core"
	"verif/props"

	"github.com/goose-lang/goose/machine/filesys"
)

func init() {
	props.Registry["C12"] = props.Prop{Level: "exploration", Run: runC12}
	props.Registry["C14"] = props.Prop{Level: "exploration", Run: runC14}
	props.Children["c14-client"] = c14Child
}

// ---------------------------------------------------------------- implementations under test

// globalFs reaches an implementation through the package-level wrappers and
// the process-wide filesys.Fs (only used from one goroutine at a time).
type globalFs struct{ target filesys.Filesys }

func (g globalFs) set()                                    { filesys.Fs = g.target }
func (g globalFs) Create(d, n string) (filesys.File, bool) { g.set(); return filesys.Create(d, n) }
func (g globalFs) Append(f filesys.File, b []byte)         { g.set(); filesys.Append(f, b) }
func (g globalFs) Close(f filesys.File)                    { g.set(); filesys.Close(f) }
func (g globalFs) Open(d, n string) filesys.File           { g.set(); return filesys.Open(d, n) }
func (g globalFs) ReadAt(f filesys.File, o, l uint64) []byte {
	g.set()
	return filesys.ReadAt(f, o, l)
}
func (g globalFs) Delete(d, n string)                 { g.set(); filesys.Delete(d, n) }
func (g globalFs) AtomicCreate(d, n string, b []byte) { g.set(); filesys.AtomicCreate(d, n, b) }
func (g globalFs) Link(od, on, nd, nn string) bool    { g.set(); return filesys.Link(od, on, nd, nn) }
func (g globalFs) List(d string) []string             { g.set(); return filesys.List(d) }
func (g globalFs) Mkdir(d string)                     { g.target.Mkdir(d) } // no package-level Mkdir exists

type c12impl struct {
	name  string
	fs    filesys.Filesys
	fds   map[int]filesys.File // logical descriptor -> number handed out by the implementation
	open  map[int]bool         // logical descriptors the implementation still holds open
	dead  bool                 // diverged: its state is no longer comparable
	calls int
}

// guarded runs f and reports a panic by occurrence.
func guarded(f func()) (msg string, panicked bool) {
	defer func() {
		if e := recover(); e != nil {
			msg, panicked = fmt.Sprint(e), true
		}
	}()
	f()
	return "", false
}

func invert(b []byte) {
	for i := range b {
		b[i] ^= 0xFF
	}
}

// c12div is one divergence between an implementation and the model.
type c12div struct {
	Impl     string   `json:"impl"`
	Sig      string   `json:"sig"`
	Base     string   `json:"sig_without_argument_class"`
	ArgClass string   `json:"argument_class,omitempty"`
	Step     int      `json:"step"`
	Op       string   `json:"op"`
	What     string   `json:"what"`
	Expected string   `json:"expected"`
	Observed string   `json:"observed"`
	Pool     string   `json:"pool"`
	Via      string   `json:"via"`
	History  []string `json:"history_prefix"`
	Ops      []Op     `json:"ops"`
	Minimal  []string `json:"minimal_history,omitempty"`
	MinOps   []Op     `json:"minimal_ops,omitempty"`
	Soft     bool     `json:"continues_after"`
}

func summarize(b []byte) string {
	if len(b) <= 24 {
		return fmt.Sprintf("%d bytes %x", len(b), b)
	}
	return fmt.Sprintf("%d bytes %x…%x", len(b), b[:12], b[len(b)-8:])
}

// classifyBytes names how got differs from want.
func classifyBytes(want, got []byte) string {
	if len(want) != len(got) {
		return "wrong-length"
	}
	inverted := true
	for i := range want {
		if want[i] != got[i] && got[i] != want[i]^0xFF {
			inverted = false
			break
		}
	}
	if inverted {
		return "aliased-slice" // exactly the bytes the monitor scribbled over a passed/returned slice
	}
	return "wrong-bytes"
}

type c12stats struct {
	calls, panics, compared int64
	features                map[string]struct{}
	argClasses              map[string]int64 // ops per boundary class of their arguments
}

func newC12stats() c12stats {
	return c12stats{features: map[string]struct{}{}, argClasses: map[string]int64{}}
}

func (t *c12stats) merge(st *c12stats) {
	t.calls += st.calls
	t.panics += st.panics
	t.compared += st.compared
	for f := range st.features {
		t.features[f] = struct{}{}
	}
	for k, v := range st.argClasses {
		t.argClasses[k] += v
	}
}

// execHistory drives every implementation and the model through ops in
// lock-step and returns the divergences (at most one hard divergence per
// implementation; a duplicate descriptor number is reported and the history
// goes on, because every later result is still comparable).
func execHistory(ops []Op, impls []*c12impl, pool, via string, st *c12stats) []c12div {
	m := NewModel()
	var divs []c12div
	diffCls := "" // set before a list divergence is reported
	report := func(im *c12impl, step int, o Op, kind, ctx, what, exp, obs string, soft bool) {
		base := im.name + "-" + kind
		if ctx != "" && strings.HasSuffix(kind, "-panics") { // the sharing context only qualifies panics
			base += "-" + ctx
		}
		// the boundary class of the arguments (shape of the name, region of the
		// offset / length; for List the class of the missing or extra name) is
		// part of the failing input class — unless the same history with plain
		// arguments fails the same way (see generalize)
		cls := opArgClass(o)
		if kind == "list-wrong-names" {
			cls = diffCls
		}
		sig := base
		if cls != "" {
			sig += "-" + cls
		}
		divs = append(divs, c12div{Impl: im.name, Sig: sig, Base: base, ArgClass: cls, Step: step, Op: o.String(), What: what, Expected: exp,
			Observed: obs, Pool: pool, Via: via, History: opStrings(ops[:step+1]), Ops: ops[:step+1], Soft: soft})
		if !soft {
			im.dead = true
		}
	}
	for step, o := range ops {
		ctx := ""
		if o.K == "append" || o.K == "readat" || o.K == "close" {
			ctx = m.SharingContext(o.FD)
		}
		if st != nil {
			st.features[opFeature(m, o)] = struct{}{}
			if cls := opArgClass(o); cls != "" {
				st.features["arg-class/"+o.K+"/"+cls] = struct{}{}
				st.argClasses[cls]++
			}
		}
		var want opResult
		if err := applyModel(m, o, &want); err != nil {
			panic(fmt.Sprintf("invalid history reached the executor: %v: %v", o, err))
		}
		for _, im := range impls {
			if im.dead {
				continue
			}
			im.calls++
			var got opResult
			var gotFD filesys.File
			var passed, passedCopy []byte
			if o.K == "append" || o.K == "atomic" {
				passed = opData(o) // a private copy for this implementation
				passedCopy = append([]byte(nil), passed...)
			}
			msg, panicked := guarded(func() {
				switch o.K {
				case "mkdir":
					im.fs.Mkdir(o.Dir)
				case "create":
					gotFD, got.OK = im.fs.Create(o.Dir, o.Name)
				case "append":
					im.fs.Append(im.fds[o.FD], passed)
				case "close":
					delete(im.open, o.FD)
					im.fs.Close(im.fds[o.FD])
				case "open":
					gotFD = im.fs.Open(o.Dir, o.Name)
				case "readat":
					got.Bytes = im.fs.ReadAt(im.fds[o.FD], o.Off, o.Len)
				case "delete":
					im.fs.Delete(o.Dir, o.Name)
				case "link":
					got.OK = im.fs.Link(o.Dir, o.Name, o.Dir2, o.Name2)
				case "atomic":
					im.fs.AtomicCreate(o.Dir, o.Name, passed)
				case "list":
					got.Names = im.fs.List(o.Dir)
				}
			})
			if st != nil {
				st.calls++
			}
			if panicked {
				if st != nil {
					st.panics++
				}
				report(im, step, o, o.K+"-panics", ctx, "panic where the model has a defined result: "+msg,
					"no panic", "panic: "+msg, false)
				continue
			}
			if st != nil {
				st.compared++
			}
			if o.K == "create" && got.OK && !want.OK {
				im.fds[o.FD], im.open[o.FD] = gotFD, true // only so that the descriptor is returned at cleanup
			}
			switch o.K {
			case "create", "link":
				if got.OK != want.OK {
					report(im, step, o, o.K+"-wrong-ok", ctx, fmt.Sprintf("%s returned %v, the model %v", o.K, got.OK, want.OK),
						fmt.Sprint(want.OK), fmt.Sprint(got.OK), false)
					continue
				}
			case "readat":
				if !bytes.Equal(got.Bytes, want.Bytes) {
					report(im, step, o, "readat-"+classifyBytes(want.Bytes, got.Bytes), ctx,
						"ReadAt returned other bytes than the model", summarize(want.Bytes), summarize(got.Bytes), false)
					continue
				}
				// scribble over the returned slice: later reads must be unaffected
				invert(got.Bytes)
			case "list":
				names := append([]string(nil), got.Names...)
				sort.Strings(names)
				if strings.Join(names, "\x00") != strings.Join(want.Names, "\x00") || len(names) != len(want.Names) {
					diffCls = listDiffClass(want.Names, names)
					report(im, step, o, "list-wrong-names", "", "List returned another set of names than the model",
						fmt.Sprintf("%q", want.Names), fmt.Sprintf("%q", names), false)
					continue
				}
			}
			if passed != nil {
				if !bytes.Equal(passed, passedCopy) {
					report(im, step, o, o.K+"-modifies-passed-slice", "", "the implementation wrote into the caller's slice",
						summarize(passedCopy), summarize(passed), false)
					continue
				}
				// scribble over the passed slice: the file must keep the original bytes
				invert(passed)
			}
			if (o.K == "create" && got.OK) || o.K == "open" {
				for lfd := range im.open {
					if im.fds[lfd] == gotFD {
						kind := "duplicate-descriptor" // two descriptors of one file share a number
						if a, b := m.descs[lfd], m.descs[o.FD]; a == nil || b == nil || a.ino != b.ino {
							kind = "duplicate-descriptor-different-files"
						}
						report(im, step, o, kind, "", fmt.Sprintf("%s returned descriptor number %d which this history still holds open (logical fd%d)", o.K, gotFD, lfd),
							"a number distinct from every open descriptor", fmt.Sprintf("%d twice", gotFD), true)
						break
					}
				}
				im.fds[o.FD] = gotFD
				im.open[o.FD] = true
			}
		}
	}
	return divs
}

// opFeature is the (operation, outcome class, context) tuple used as the
// distinct-case measure.
func opFeature(m *Model, o Op) string {
	sz := func(n int) string {
		switch {
		case n == 0:
			return "0"
		case n < 4096:
			return "<4K"
		case n == 4096:
			return "4K"
		case n < 65536:
			return "<64K"
		case n < 1<<20:
			return "<1M"
		}
		return ">=1M"
	}
	dctx := func(fd int) string {
		d := m.descs[fd]
		if d == nil {
			return ""
		}
		n := m.inodes[d.ino]
		return fmt.Sprintf("nlink%d/%s", min(n.nlink, 2), m.SharingContext(fd))
	}
	switch o.K {
	case "create":
		k := pathKey{o.Dir, o.Name}
		return fmt.Sprintf("create/exists=%v/recreate=%v", m.Exists(o.Dir, o.Name), m.deleted[k])
	case "append":
		return fmt.Sprintf("append/data%s/file%s/%s", sz(o.N), sz(m.SizeOfDesc(o.FD)), dctx(o.FD))
	case "close":
		return fmt.Sprintf("close/mode%d/%s", m.descs[o.FD].mode, dctx(o.FD))
	case "open":
		n := m.inodeOf(o.Dir, o.Name)
		return fmt.Sprintf("open/nlink%d/open%d/file%s", min(n.nlink, 2), min(n.nopen, 2), sz(len(n.data)))
	case "readat":
		s := uint64(m.SizeOfDesc(o.FD))
		oc := "in"
		switch {
		case o.Off == 0:
			oc = "0"
		case o.Off+1 == s:
			oc = "last"
		case o.Off == s:
			oc = "eof"
		case o.Off > s:
			oc = "beyond"
		}
		lc := "short"
		switch {
		case o.Len == 0:
			lc = "0"
		case o.Off+o.Len == s:
			lc = "to-eof"
		case o.Off+o.Len == s+1:
			lc = "eof+1"
		case o.Off+o.Len > s:
			lc = "past-eof"
		case o.Off+o.Len+1 == s:
			lc = "eof-1"
		}
		return fmt.Sprintf("readat/off=%s/len=%s/file%s/%s", oc, lc, sz(int(s)), dctx(o.FD))
	case "delete":
		n := m.inodeOf(o.Dir, o.Name)
		return fmt.Sprintf("delete/nlink%d/open%d", min(n.nlink, 2), min(n.nopen, 2))
	case "link":
		return fmt.Sprintf("link/target-exists=%v/crossdir=%v/self=%v", m.Exists(o.Dir2, o.Name2), o.Dir != o.Dir2,
			o.Dir == o.Dir2 && o.Name == o.Name2)
	case "atomic":
		n := m.inodeOf(o.Dir, o.Name)
		if n == nil {
			return fmt.Sprintf("atomic/new/data%s", sz(o.N))
		}
		return fmt.Sprintf("atomic/replace/nlink%d/open%d/data%s/old%s", min(n.nlink, 2), min(n.nopen, 2), sz(o.N), sz(len(n.data)))
	case "list":
		l, _ := m.List(o.Dir)
		return fmt.Sprintf("list/%d", len(l))
	}
	return o.K
}

// finalOps closes what is still open, then reads every file completely
// through a fresh descriptor and lists every directory.
func finalOps(ops []Op) []Op {
	m := NewModel()
	maxFD := 0
	for _, o := range ops {
		applyModel(m, o, nil)
		if o.FD > maxFD {
			maxFD = o.FD
		}
	}
	var out []Op
	for _, fd := range m.OpenDescs(-1) {
		out = append(out, Op{K: "close", FD: fd})
	}
	for _, k := range m.Files() {
		maxFD++
		size := len(m.inodeOf(k.dir, k.name).data)
		out = append(out, Op{K: "open", Dir: k.dir, Name: k.name, FD: maxFD},
			Op{K: "readat", FD: maxFD, Off: 0, Len: uint64(size + 4096)},
			Op{K: "close", FD: maxFD})
	}
	for _, d := range m.Dirs() {
		out = append(out, Op{K: "list", Dir: d})
	}
	return out
}

// c12env makes fresh implementations for one history.
type c12env struct {
	root   string // DirFs roots are created below it
	global bool
	seq    int
}

func (e *c12env) fresh() ([]*c12impl, func()) {
	e.seq++
	dir := filepath.Join(e.root, fmt.Sprintf("h%d", e.seq))
	if err := os.MkdirAll(dir, 0o755); err != nil {
		panic(err)
	}
	mem := filesys.NewMemFs()
	dfs := filesys.NewDirFs(dir)
	var mfs, dd filesys.Filesys = mem, dfs
	if e.global {
		mfs, dd = globalFs{mem}, globalFs{dfs}
	}
	impls := []*c12impl{
		{name: "memfs", fs: mfs, fds: map[int]filesys.File{}, open: map[int]bool{}},
		{name: "dirfs", fs: dd, fds: map[int]filesys.File{}, open: map[int]bool{}},
	}
	cleanup := func() {
		// descriptors a diverged DirFs still holds are returned to the kernel
		for lfd := range impls[1].open {
			fd := impls[1].fds[lfd]
			guarded(func() { dfs.Close(fd) })
		}
		guarded(func() { dfs.CloseFs() })
		os.RemoveAll(dir)
	}
	return impls, cleanup
}

// runOne executes one history on fresh implementations.
func (e *c12env) runOne(ops []Op, pool, via string, st *c12stats) []c12div {
	impls, cleanup := e.fresh()
	defer cleanup()
	return execHistory(ops, impls, pool, via, st)
}

// shrink removes ops greedily while the same signature still fires for the
// same implementation on fresh instances (each candidate must stay a valid
// history).
func (e *c12env) shrink(d c12div, pool, via string) []Op {
	cur := append([]Op(nil), d.Ops...)
	fires := func(ops []Op) bool {
		if !validHistory(ops) {
			return false
		}
		for _, x := range e.runOne(ops, pool, via, nil) {
			if x.Impl == d.Impl && x.Sig == d.Sig {
				return true
			}
		}
		return false
	}
	if !fires(cur) {
		return cur
	}
	// wall-clock bound on the effort only: it limits how minimal the reported
	// history is, never the verdict
	deadline := time.Now().Add(20 * time.Second)
	// long histories (many-files family): whole chunks first
	for chunk := len(cur) / 2; chunk >= 2 && len(cur) > 40; chunk /= 2 {
		for i := 0; i+chunk <= len(cur) && time.Now().Before(deadline); {
			cand := append(append([]Op(nil), cur[:i]...), cur[i+chunk:]...)
			if fires(cand) {
				cur = cand
			} else {
				i += chunk
			}
		}
	}
	for changed := true; changed && time.Now().Before(deadline); {
		changed = false
		for i := len(cur) - 1; i >= 0 && time.Now().Before(deadline); i-- {
			cand := append(append([]Op(nil), cur[:i]...), cur[i+1:]...)
			if fires(cand) {
				cur, changed = cand, true
			}
		}
	}
	// shrink payloads and read ranges that do not matter
	for i := range cur {
		for _, n := range []int{0, 1, 3} {
			if cur[i].N > n {
				cand := append([]Op(nil), cur...)
				cand[i].N = n
				if fires(cand) {
					cur = cand
					break
				}
			}
		}
	}
	return cur
}

// plainify replaces every shaped name / directory name of a history by a plain
// one (consistently) and every far offset / huge length by an ordinary one.
func plainify(ops []Op) []Op {
	names, dirs := map[string]string{}, map[string]string{}
	ren := func(m map[string]string, prefix, s string) string {
		if s == "" || nameClass(s) == "" {
			return s
		}
		if v, ok := m[s]; ok {
			return v
		}
		m[s] = fmt.Sprintf("%s%d", prefix, len(m))
		return m[s]
	}
	out := append([]Op(nil), ops...)
	for i := range out {
		o := &out[i]
		o.Dir, o.Dir2 = ren(dirs, "zqd", o.Dir), ren(dirs, "zqd", o.Dir2)
		o.Name, o.Name2 = ren(names, "zqn", o.Name), ren(names, "zqn", o.Name2)
		if o.K == "readat" {
			if o.Off >= 1<<31 {
				o.Off = 100000
			}
			if o.Len >= 1<<31 {
				o.Len = 70000
			}
		}
	}
	return out
}

// generalize: a divergence whose signature carries an argument class is
// re-run with plain arguments; when the same implementation fails the same
// way there, the class is not what makes it fail and the plain divergence is
// reported instead.
func (e *c12env) generalize(d c12div, pool, via string) (c12div, bool) {
	if d.ArgClass == "" {
		return d, false
	}
	plain := plainify(d.Ops)
	if !validHistory(plain) {
		return d, false
	}
	for _, x := range e.runOne(plain, pool, via, nil) {
		if x.Impl == d.Impl && x.Base == d.Base && x.ArgClass == "" {
			return x, true
		}
	}
	return d, false
}

func runC12(r *core.Run) (bool, string) {
	r.SetRule("a history is a seeded sequence of ≤40 valid calls over 2–3 directories and 4–6 names (plus closing calls, a complete read-back of every file through a fresh descriptor and a List of every directory), " +
		"executed in lock-step on a fresh MemFs, a fresh DirFs and the reference model; evaluations = API calls whose outcome was compared with the model (per implementation); " +
		"distinct = set of (operation, outcome class, context) tuples reached: create exists/recreate, append data-size × file-size × link-count × descriptor-sharing context, readat offset class × length class × file size × context, delete/open/atomic by link count and open-descriptor count, link target-exists × cross-directory, list by entry count; plus (operation, argument class) for every boundary class of a name / directory name / offset (arg-class/…). " +
		"pool A never has two descriptors open on one inode at once, pool B adds the descriptor-sharing patterns (two Opens, Open while the creator appends, close one then use the other). " +
		"pool N is the same random mix (≤60 calls) over SHAPED names: 1–6 directories (half of them shaped), a stem together with 3–5 shapes of it (reserved-looking suffixes / prefixes / wrappings, the general shapes of staging names <name>.<digits>-<digits>.tmp, <name>.tmp, .<name>.tmp, <dir>.<name>.tmp …, a directory's own name, another case of the same letters, shell / URL / printf / glob characters, control characters, unicode incl. NFC/NFD and case-fold pairs, trailing dots and spaces, option-like names, lengths up to 255 bytes), nil as well as empty payloads, and a List of the directory after 75 % of the calls that add or remove a name. " +
		"name matrix (pool N, seed picks stems and digits): every shape of the catalogue × 13 operation templates (Create/append/read/Delete; AtomicCreate new, replacing, empty, nil; Link to and from the name; the name beside its stem while the stem is written by AtomicCreate; the same name in three directories; the name as a directory name and as a file inside it; a directory of that name beside AtomicCreate of the stem; AtomicCreate over deleted-but-open and over open-for-append; refusals; the name beside its case variant), List after every call that adds or removes a name; every shape also as a directory name. " +
		"further families: R one ReadAt per history at offsets around 2^31, 2^32, 2^40, 2^62, 2^63, 2^64 × lengths 0,1,2,4096,4097 (offset+length crossing 2^63 and wrapping 2^64) × file sizes 0,1,100,4096; K every order of the Closes of 2–3 descriptors of one file × every position of the Delete × name re-created by Create / AtomicCreate / not, all remaining descriptors used after every step; O AtomicCreate over a name that is open for append / open for read / open twice / linked elsewhere / linked and open / deleted but open / absent × old size 0,1,100 × new data nil, 0, 1, 100; T 0- and 1-byte files made in nine ways read at every small offset/length; " +
		"L (in one child process per implementation, every history announced before it runs; a dead child is a violation) one ReadAt per history with length 0, 2^31±1, 2^32, 2^32+1, 2^47, 2^62, 2^63-1, 2^63, 2^64-4096, 2^64-1 at offsets 0 / mid-file / last byte / EOF / EOF+1 / EOF+4096 / 2^32 / 2^62 × file sizes 0,1,100,4096; " +
		"S (child process) the staging scheme of DirFs.AtomicCreate is observed with inotify during three calls, the next staging name is extrapolated, and a directory (staged in the root) or a caller's file (staged in the directory) gets exactly that name before AtomicCreate runs; " +
		"P Append (header + body + trailer, twice) and AtomicCreate of 0, 1, 4 KiB, 64 KiB−1, 64 KiB, 64 KiB+1, 256 KiB, 1 MiB with reads of the whole file, of exactly the body and across both of its borders, through a descriptor opened before and one opened after the appends (the random pools draw 64 KiB−1 / 64 KiB / 64 KiB+1 / 256 KiB payloads once in 60 and 1 MiB once in 150); " +
		"M 13–400 (thorough: 3000) entries in one directory (short, 255-byte and mixed names; Create, Link, AtomicCreate) with List after filling, after deleting every other name and after refilling — sequential, so DirFs's multi-chunk List must be exact —, 200 descriptors open at once, 1 / 12 / 64 directories; " +
		"X (short_transfer_* keys; DirFs in a child process that a ptrace tracer of our own runs: before the call under test the child arms the tracer, which lowers the count argument of the next 1, 2, 3 or of all read/pread64 resp. write/pwrite64 calls on files below the DirFs root to the scheduled sizes at system-call entry, so the kernel performs REAL short transfers and the oracle stays the model in lock-step, byte for byte) ReadAt of whole / over-long / inner / tail / seeded ranges of files of 2 B … 1 MiB, Append of 2 B … 1 MiB to files of 0 / 10 / 4096 bytes followed by an ordinary Append and a read-back (with and without a reader opened before), AtomicCreate of 2 B … 70 000 B over an absent / shorter / longer file × schedules of 1, 2, 3 consecutive transfers cut to 1, 2, 100, 4095, 4096, 65 536, half, all-but-one bytes and every transfer cut to n bytes; a short count is not a failure: a panic or a shorter result is a divergence, and for an Append that panics the file itself says whether nothing, everything or a prefix was appended")
	r.Assume("the DirFs root lives on the filesystem of $TMPDIR (ext4 here: case-sensitive, no unicode normalisation, NAME_MAX 255 bytes, any byte but '/' and NUL in a name); names are legal single path components (no separator, no NUL, not \".\" or \"..\", at most 255 bytes, valid UTF-8) — nothing else is reserved. Generated names never contain this process's id; the exact collision with the next staging name of DirFs.AtomicCreate is the business of the staging probe (family S), which observes the scheme instead of assuming it")
	r.Assume("only precondition-respecting calls are issued: Open/Delete/Link-source exist, descriptors are open and of the right mode, Mkdir only of new directories; offsets and lengths of ReadAt are any uint64 (lengths from 2^31 on only in the child processes of family L, because an implementation that allocates the requested length dies with a fatal error)")
	r.Assume("descriptor numbers are opaque: only distinctness among simultaneously open descriptors of one implementation is checked")
	r.Assume("transfers that FAIL (ENOSPC, EFBIG behind a short count, EIO) are host limits outside the valid histories of the statement: family X cuts transfers short and injects no error; vectored transfers (readv/writev/…) cannot be cut by a count argument and are counted if they occur")

	nA := r.Pick(6000, 150000)
	nB := r.Pick(3000, 75000)
	nG := r.Pick(400, 8000)
	nN := r.Pick(2000, 60000)
	if r.Replay != "" {
		return c12Replay(r)
	}

	var mu sync.Mutex
	total := newC12stats()
	pats := map[string]int{}
	hashes := map[string]struct{}{}
	shrunk := map[string]bool{}
	divCount := map[string]int{}
	generalizes := map[string]bool{} // signature with an argument class -> the plain history fails the same way

	handle := func(env *c12env, ops []Op, pool, via string, divs []c12div) {
		for _, d := range divs {
			if d.ArgClass != "" {
				mu.Lock()
				g, seen := generalizes[d.Sig]
				mu.Unlock()
				if !seen {
					orig := d.Sig
					var x c12div
					if x, g = env.generalize(d, pool, via); g {
						d = x
					}
					mu.Lock()
					generalizes[orig] = g
					mu.Unlock()
				} else if g {
					d.Sig, d.ArgClass = d.Base, ""
				}
			}
			mu.Lock()
			divCount[pool+"/"+d.Sig]++
			first := !shrunk[d.Sig]
			shrunk[d.Sig] = true
			mu.Unlock()
			if first {
				min := env.shrink(d, pool, via)
				d.MinOps, d.Minimal = min, opStrings(min)
				r.Violate(d.Sig, fmt.Sprintf("%s diverges from the model at %s (%s): expected %s, observed %s; minimal history: %s",
					d.Impl, d.Op, d.What, d.Expected, d.Observed, strings.Join(d.Minimal, " ; ")), d)
			}
		}
	}

	// runParallel executes n histories on 16 workers (methods, not the global
	// wrappers: filesys.Fs is process-wide); item(i) yields the pool label and
	// the body of history i.
	runParallel := func(label string, n int, item func(i int) (pool string, body []Op, ps map[string]int), samples int) {
		workers := 16
		var wg sync.WaitGroup
		ch := make(chan int)
		for w := 0; w < workers; w++ {
			wg.Add(1)
			go func(w int) {
				defer wg.Done()
				env := &c12env{root: filepath.Join(r.Scratch, fmt.Sprintf("c12-%s-w%d", label, w))}
				st := newC12stats()
				lp := map[string]int{}
				var lh []string
				for i := range ch {
					pool, body, ps := item(i)
					ops := append(append([]Op(nil), body...), finalOps(body)...)
					divs := env.runOne(ops, pool, "methods", &st)
					for k, v := range ps {
						lp[k] += v
					}
					lh = append(lh, historyHash(ops))
					handle(env, ops, pool, "methods", divs)
					if i < samples {
						r.Sample(14, map[string]interface{}{"pool": pool, "via": "methods", "index": i, "ops": opStrings(ops), "divergences": len(divs)})
					}
				}
				mu.Lock()
				total.merge(&st)
				for k, v := range lp {
					pats[k] += v
				}
				for _, h := range lh {
					hashes[h] = struct{}{}
				}
				mu.Unlock()
			}(w)
		}
		for i := 0; i < n; i++ {
			ch <- i
		}
		close(ch)
		wg.Wait()
	}
	secs := map[string]float64{}
	lap := time.Now()
	mark := func(k string) { secs[k] = time.Since(lap).Seconds(); lap = time.Now() }
	runParallel("A", nA, func(i int) (string, []Op, map[string]int) { b, ps := genHistory(r.Seed, false, i); return "A", b, ps }, 3)
	r.Count("histories_pool_A", int64(nA))
	mark("pool_A")
	runParallel("B", nB, func(i int) (string, []Op, map[string]int) { b, ps := genHistory(r.Seed, true, i); return "B", b, ps }, 3)
	r.Count("histories_pool_B", int64(nB))
	mark("pool_B")
	// pool N: the random mix over shaped names and 1–6 (shaped) directories
	runParallel("N", nN, func(i int) (string, []Op, map[string]int) { b, ps := genNameHistory(r.Seed, i); return "N", b, ps }, 3)
	r.Count("histories_pool_N", int64(nN))
	mark("pool_N")

	// generated families (see c12names.go, c12families.go)
	var famItems []c12item
	{
		nm, dropped := nameMatrix(r.Seed)
		famItems = append(famItems, nm...)
		r.Set("name_matrix_shapes", len(nameShapeCatalogue()))
		r.Set("name_matrix_templates", len(nameTemplates()))
		r.Set("name_matrix_cells_dropped_name_equals_stem_or_invalid", dropped)
		famItems = append(famItems, readOffsetFamily()...)
		famItems = append(famItems, closeInterleavingFamily()...)
		famItems = append(famItems, atomicOverFamily()...)
		famItems = append(famItems, tinyFileFamily()...)
		famItems = append(famItems, payloadSizeFamily()...)
		famItems = append(famItems, manyFilesFamily(r.Seed, r.Quick())...)
		famCount := map[string]int{}
		for _, it := range famItems {
			if !validHistory(it.body) {
				panic("family " + it.family + " produced an invalid history: " + strings.Join(opStrings(it.body), ";"))
			}
			famCount[it.family]++
		}
		r.Set("family_histories", famCount)
		// the big histories first, so that they do not form the tail
		sort.SliceStable(famItems, func(a, b int) bool { return len(famItems[a].body) > len(famItems[b].body) })
		runParallel("F", len(famItems), func(i int) (string, []Op, map[string]int) {
			return famItems[i].pool, famItems[i].body, map[string]int{"family/" + famItems[i].family: 1}
		}, 0)
		r.Count("histories_families", int64(len(famItems)))
		mark("families")
	}

	// directed layer (seed-independent), both ways of reaching the implementations
	{
		dA, dB := directedHistories()
		st := newC12stats()
		for _, global := range []bool{false, true} {
			via := "methods"
			if global {
				via = "global-wrappers"
			}
			env := &c12env{root: filepath.Join(r.Scratch, "c12-directed-"+via), global: global}
			saved := filesys.Fs
			for pi, set := range [][][]Op{dA, dB} {
				pool := []string{"A", "B"}[pi]
				for _, body := range set {
					if !validHistory(body) || sharesDescriptors(body) != (pool == "B") {
						panic("directed history in the wrong pool or invalid: " + strings.Join(opStrings(body), ";"))
					}
					ops := append(append([]Op(nil), body...), finalOps(body)...)
					divs := env.runOne(ops, pool, via, &st)
					hashes[historyHash(ops)] = struct{}{}
					handle(env, ops, pool, via, divs)
					r.Count("histories_directed_pool_"+pool, 1)
				}
			}
			filesys.Fs = saved
		}
		total.merge(&st)
	}

	// the same histories through the process-wide filesys.Fs and the
	// package-level wrappers: one goroutine only
	{
		env := &c12env{root: filepath.Join(r.Scratch, "c12-global"), global: true}
		st := newC12stats()
		saved := filesys.Fs
		for i := 0; i < nG; i++ {
			poolB := i%4 == 3
			pool := "A"
			if poolB {
				pool = "B"
			}
			body, _ := genHistory(r.Seed, poolB, 1_000_000+i)
			ops := append(body, finalOps(body)...)
			divs := env.runOne(ops, pool, "global-wrappers", &st)
			hashes[historyHash(ops)] = struct{}{}
			handle(env, ops, pool, "global-wrappers", divs)
			if i == 0 {
				r.Sample(8, map[string]interface{}{"pool": pool, "via": "global-wrappers", "index": i, "ops": opStrings(ops), "divergences": len(divs)})
			}
		}
		// pool N and a sample of the families through the wrappers too
		nGN := 0
		for i := 0; i < nG/4; i++ {
			body, _ := genNameHistory(r.Seed, 2_000_000+i)
			ops := append(body, finalOps(body)...)
			divs := env.runOne(ops, "N", "global-wrappers", &st)
			hashes[historyHash(ops)] = struct{}{}
			handle(env, ops, "N", "global-wrappers", divs)
			nGN++
		}
		for i, it := range famItems {
			if i%10 != 3 || len(it.body) > 150 {
				continue
			}
			ops := append(append([]Op(nil), it.body...), finalOps(it.body)...)
			divs := env.runOne(ops, it.pool, "global-wrappers", &st)
			handle(env, ops, it.pool, "global-wrappers", divs)
			nGN++
		}
		r.Count("histories_global_wrappers_pool_N_and_families", int64(nGN))
		filesys.Fs = saved
		total.merge(&st)
		r.Count("histories_global_wrappers", int64(nG))
		r.Count("api_calls_through_global_wrappers", st.calls)
	}

	mark("directed_and_global_wrappers")
	{
		// divergences found by the child processes: no shrinking (the histories
		// are a handful of calls), same de-duplication by signature
		childViolate := func(d c12div) {
			mu.Lock()
			divCount[d.Pool+"/"+d.Sig]++
			first := !shrunk[d.Sig]
			shrunk[d.Sig] = true
			mu.Unlock()
			if first {
				r.Violate(d.Sig, fmt.Sprintf("%s diverges from the model at %s (%s): expected %s, observed %s; history: %s",
					d.Impl, d.Op, d.What, d.Expected, d.Observed, strings.Join(d.History, " ; ")), d)
			}
		}
		lenv := &c12env{root: filepath.Join(r.Scratch, "c12-lengths-generalize")}
		st := runLengthFamily(r, func(d c12div) {
			if x, g := lenv.generalize(d, d.Pool, "methods"); g {
				d = x
			}
			childViolate(d)
		})
		total.merge(&st)
		mark("length_family_children")
		total.compared += runStagingProbe(r, childViolate)
		mark("staging_probe_child")
		// family X: real short transfers under DirFs (c12short.go)
		total.compared += runShortTransfers(r)
		mark("short_transfer_child")
	}
	r.Set("section_seconds", secs)
	r.Eval(int(total.compared))
	for f := range total.features {
		r.Distinct(f)
	}
	r.Set("api_calls_issued", total.calls)
	r.Set("panics_observed_and_compared", total.panics)
	r.Set("distinct_histories", len(hashes))
	r.Set("pattern_instances", pats)
	r.Set("calls_by_argument_class", total.argClasses)
	r.Set("divergences_by_pool_and_sig", divCount)
	silentA := true
	for k := range divCount {
		if strings.HasPrefix(k, "A/") {
			silentA = false
		}
	}
	r.Set("pool_A_silent", silentA)
	return total.compared > 50000 && len(total.features) > 120, "too few API calls compared or too few distinct (operation, outcome, context) classes reached"
}

// c12Replay re-runs the history stored in a replay file.
func c12Replay(r *core.Run) (bool, string) {
	ops, pool, via, err := loadC12Replay(r.Replay)
	if err != nil {
		r.Inconclusive("replay file unreadable: " + err.Error())
		return false, "replay file unreadable"
	}
	env := &c12env{root: filepath.Join(r.Scratch, "c12-replay"), global: via == "global-wrappers"}
	st := newC12stats()
	divs := env.runOne(ops, pool, via, &st)
	for _, d := range divs {
		r.Violate(d.Sig, fmt.Sprintf("%s diverges from the model at %s (%s): expected %s, observed %s", d.Impl, d.Op, d.What, d.Expected, d.Observed), d)
	}
	r.Eval(int(st.compared))
	for f := range st.features {
		r.Distinct(f)
	}
	r.Sample(1, map[string]interface{}{"replayed": opStrings(ops), "divergences": len(divs)})
	return true, ""
}

func loadC12Replay(path string) (ops []Op, pool, via string, err error) {
	b, err := os.ReadFile(path)
	if err != nil {
		return nil, "", "", err
	}
	var f struct {
		Detail c12div `json:"detail"`
	}
	if err = json.Unmarshal(b, &f); err != nil {
		return nil, "", "", err
	}
	ops = f.Detail.MinOps
	if len(ops) == 0 {
		ops = f.Detail.Ops
	}
	if len(ops) == 0 || !validHistory(ops) {
		return nil, "", "", fmt.Errorf("no valid history in %s", path)
	}
	return ops, f.Detail.Pool, f.Detail.Via, nil
}
