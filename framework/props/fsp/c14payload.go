package fsp

import (
	"fmt"
	"strings"

	"verif/core"
)

// C14, dimension "payload size". The base programs append and AtomicCreate a
// few dozen bytes. An implementation may treat big data differently (bulk
// paths, chunked writes, copies outside a lock), so the sizes 0, 1, 4 KiB,
// 64 KiB−1, 64 KiB, 64 KiB+1, 256 KiB and 1 MiB are a dimension of their own:
//
//   - histories (this file): 7 % of the programs of every pool carry big
//     payloads — the first appends of every appender file become header + big
//     body + trailer, the first AtomicCreate of every owner writes a big
//     payload — and, in the pools that allow several descriptors per inode
//     (B, C), another client opens each such appender file and polls it with
//     ReadAt while it grows: whole-file reads and reads spanning the borders
//     of the big bodies. The oracle is porcupine with the same model: a read
//     must be a prefix of whole appends.
//   - the payload matrix (c14payloadmx.go): writer × polling reader without
//     any harness synchronisation, for the race detector and for torn reads.
//
// Payloads are self-identifying: a tag naming (history, client, sequence
// number) repeated to the length, so a read shows which call every byte came
// from and an unwritten (zero) or foreign region is visible.

var payloadSizes = []int{0, 1, 4096, 65535, 65536, 65537, 262144, 1 << 20}

func stampedPayload(tag string, n int) string {
	if n <= 0 {
		return ""
	}
	return strings.Repeat(tag, n/len(tag)+1)[:n]
}

func bigPayloadProgram(seed int64, pool string, idx int, p *cProgram) {
	rng := core.NewRng(seed, fmt.Sprintf("c14-payload/%s/%d", pool, idx))
	if !rng.Chance(7) {
		return
	}
	used1M := false
	pick := func() int {
		for {
			s := payloadSizes[rng.Intn(len(payloadSizes))]
			if s == 1<<20 {
				if used1M {
					continue
				}
				used1M = true
			}
			return s
		}
	}
	uid := 0
	stamp := func(c, n int) string {
		uid++
		return stampedPayload(fmt.Sprintf("{%d.%d.B%d}", idx, c, uid), n)
	}
	type region struct{ start, n int }
	regions := map[int][]region{} // appender client -> big bodies in its file
	for c := range p.Conc {
		size := 0
		for _, st := range p.Setup[c] {
			if st.K == "append" && st.Slot == 0 {
				size += len(st.Data)
			}
		}
		var out []cStep
		big, bigAtomic := 0, false
		for _, st := range p.Conc[c] {
			switch {
			case st.K == "append" && st.Slot == 0 && big < 2:
				big++
				body := st
				body.Data, body.Nil, body.Yield = stamp(c, pick()), false, 0
				trailer := st
				trailer.Data, trailer.Nil = stamp(c, 9), false
				out = append(out, st, body, trailer)
				regions[c] = append(regions[c], region{size + len(st.Data), len(body.Data)})
				size += len(st.Data) + len(body.Data) + len(trailer.Data)
				continue
			case st.K == "append" && st.Slot == 0:
				size += len(st.Data)
			case st.K == "atomic" && !bigAtomic:
				bigAtomic = true
				st.Data, st.Nil = stamp(c, pick()), false
			case st.K == "readat" && st.Len == 4096:
				st.Len = 4 << 20
			}
			out = append(out, st)
		}
		p.Conc[c] = out
	}
	// pollers (only where several descriptors per inode are allowed)
	if pool != "A" && p.Clients > 1 {
		for c := 0; c < p.Clients; c++ {
			rs := regions[c]
			if len(rs) == 0 {
				continue
			}
			o := (c + 1 + rng.Intn(p.Clients-1)) % p.Clients
			slot := 200 + c
			st := []cStep{{K: "open", Dir: "d", Name: fmt.Sprintf("a%d", c), Slot: slot}}
			for i, k := 0, 3+rng.Intn(3); i < k; i++ {
				r := rs[rng.Intn(len(rs))]
				off, l := uint64(0), uint64(4<<20)
				switch rng.Intn(5) {
				case 0: // across the start of the body
					if r.start >= 3 {
						off, l = uint64(r.start-3), uint64(r.n+6)
					}
				case 1: // across its end
					if r.start+r.n >= 3 {
						off, l = uint64(r.start+r.n-3), 16
					}
				case 2: // exactly the body
					off, l = uint64(r.start), uint64(r.n)
				}
				y := 0
				if rng.Chance(30) {
					y = 1 + rng.Intn(2)
				}
				st = append(st, cStep{K: "readat", Slot: slot, Off: off, Len: l, Yield: y})
			}
			st = append(st, cStep{K: "close", Slot: slot})
			// spread the polls over the poller's program
			prog := p.Conc[o]
			var merged []cStep
			pi := 0
			for i, s := range st {
				merged = append(merged, s)
				// after each poll, a share of the poller's own steps
				want := (i + 1) * len(prog) / len(st)
				for pi < want {
					merged = append(merged, prog[pi])
					pi++
				}
			}
			merged = append(merged, prog[pi:]...)
			p.Conc[o] = merged
			p.Pattern = append(p.Pattern, "poll-file-while-big-appends")
		}
	}
	p.Pattern = append(p.Pattern, "big-payloads")
}
