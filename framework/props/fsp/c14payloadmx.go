package fsp

import (
	"bufio"
	"bytes"
	"encoding/json"
	"fmt"
	"os"
	"path/filepath"
	"runtime"
	"sort"
	"strconv"
	"strings"
	"sync"
	"sync/atomic"
	"time"

	"verif/core"
	"verif/props"

	"github.com/goose-lang/goose/machine/filesys"
)

// C14, payload-size matrix: for every payload size (0, 1, 4 KiB, 64 KiB−1,
// 64 KiB, 64 KiB+1, 256 KiB, 1 MiB) and both ways of writing data,
//
//	append:  one goroutine appends, round after round, header + body of that
//	         size + trailer to d/w through its descriptor, while two others
//	         poll d/w through descriptors of their own (ReadAt from the offset
//	         they have verified so far);
//	atomic:  one goroutine AtomicCreates d/t with a record of that size, round
//	         after round, while another opens d/t, reads it whole and closes;
//
// and in both a further goroutine lists d all the time (exactly t and w; the
// writer creates d/z after its last round, which ends the listing);
//
// with NO harness synchronisation between the start barrier and the join (as
// in the operation-class matrix: timestamps go to goroutine-private slices),
// so that the race detector sees every pair of accesses the library does not
// order itself. Every payload is self-identifying (round number repeated to the
// length; headers and trailers are bracketed), so a reader decides from its own
// result alone what holds in EVERY linearization: what it reads from its
// verified offset on is a sequence of WHOLE appends in order (never a body
// that is partly there, zero-filled, or of another round), and d/t is exactly
// one whole record of a round not older than the one seen before. After the
// join the file must hold every round completely.

func init() {
	props.Children["c14-payload-matrix"] = c14PayloadMatrixChild
}

type pmCell struct {
	Kind         string   `json:"kind"` // append | atomic
	Size         int      `json:"size"`
	Rounds       int      `json:"rounds"`
	Polls        int64    `json:"polls"`
	NewData      int64    `json:"polls_that_returned_new_data"`
	Overlaps     int64    `json:"call_pairs_with_intersecting_intervals"`
	Lists        int64    `json:"list_calls"`
	ListOverlaps int64    `json:"list_calls_overlapping_writer_calls"`
	Anomalies    []string `json:"anomalies,omitempty"` // "<kind-of-anomaly>: text"
}

func pmBody(k, n int) []byte { return []byte(stampedPayload(fmt.Sprintf("{%d}", k), n)) }

// pmParser verifies a stream of appends incrementally.
type pmParser struct {
	size  int
	k     int // last round whose header was accepted
	state int // 0 header next, 1 body next, 2 trailer next, 3 ended
}

// feed consumes complete appends from b (what exists from the verified offset
// on; capped is true when the read was cut by its length) and returns the
// number of bytes verified, or what is wrong.
func (p *pmParser) feed(b []byte, capped bool) (n int, wrong string) {
	for len(b) > 0 && p.state != 3 {
		switch p.state {
		case 0, 2:
			if b[0] != '<' {
				return n, fmt.Sprintf("torn-append: after %d verified rounds a bracketed record must follow, found %s", p.k, abbr(string(b[:min(len(b), 64)])))
			}
			end := bytes.IndexByte(b, '>')
			if end < 0 {
				if capped {
					return n, ""
				}
				return n, fmt.Sprintf("torn-append: a header / trailer is only partly there: %s", abbr(string(b)))
			}
			rec := string(b[:end+1])
			switch {
			case p.state == 0 && rec == "<E>":
				p.state = 3
			case p.state == 0 && rec == fmt.Sprintf("<H %d %d>", p.k+1, p.size):
				p.k++
				p.state = 1
			case p.state == 2 && rec == fmt.Sprintf("<T %d>", p.k):
				p.state = 0
			default:
				return n, fmt.Sprintf("wrong-order: record %q where round %d (state %d) was expected", rec, p.k+1, p.state)
			}
			b, n = b[end+1:], n+end+1
		case 1:
			if p.size == 0 {
				p.state = 2
				continue
			}
			if len(b) < p.size {
				if capped {
					return n, ""
				}
				zeros := bytes.Count(b, []byte{0})
				return n, fmt.Sprintf("torn-append: the body of round %d (one Append of %d bytes) is only partly there: %d bytes, %d of them zero", p.k, p.size, len(b), zeros)
			}
			if want := pmBody(p.k, p.size); !bytes.Equal(b[:p.size], want) {
				i := 0
				for i < p.size && b[i] == want[i] {
					i++
				}
				zeros := bytes.Count(b[:p.size], []byte{0})
				return n, fmt.Sprintf("torn-append: the body of round %d (one Append of %d bytes) is there with its full length but differs from what was appended from byte %d on (%d zero bytes): %s", p.k, p.size, i, zeros, abbr(string(b[i:min(p.size, i+48)])))
			}
			b, n = b[p.size:], n+p.size
			p.state = 2
		}
	}
	return n, ""
}

func pmAtomicRecord(k, n int) []byte {
	return append(append([]byte(fmt.Sprintf("<A %d %d>", k, n)), pmBody(k, n)...), []byte(fmt.Sprintf("<Z %d>", k))...)
}

func pmRounds(impl, kind string, size int) int {
	total, lo, hi := 8<<20, 8, 300
	if impl == "dirfs" {
		total, hi = 4<<20, 60
		if kind == "atomic" {
			hi, lo = 10, 6
		}
	}
	n := total / max(size, 1)
	return max(lo, min(hi, n))
}

// pmRunCell runs one cell on a fresh filesystem.
func pmRunCell(fs filesys.Filesys, impl, kind string, size int) (cell pmCell) {
	cell = pmCell{Kind: kind, Size: size, Rounds: pmRounds(impl, kind, size)}
	note := func(s string) { cell.Anomalies = append(cell.Anomalies, s) }
	var wfd filesys.File
	nReaders := 2
	if kind == "atomic" {
		nReaders = 1
	}
	rfds := make([]filesys.File, nReaders)
	if msg, pn := guarded(func() {
		fs.Mkdir("d")
		var ok bool
		if wfd, ok = fs.Create("d", "w"); !ok {
			panic("Create(d,w) returned false")
		}
		fs.AtomicCreate("d", "t", pmAtomicRecord(0, size))
		for i := range rfds {
			rfds[i] = fs.Open("d", "w")
		}
	}); pn {
		note("setup-panic: " + msg)
		return
	}
	base := time.Now()
	var ready int32
	var wg sync.WaitGroup
	lister := 1 + nReaders // index of the goroutine that lists d all the time
	ivs := make([][]int64, 2+nReaders)
	notes := make([][]string, 2+nReaders)
	polls := make([]int64, 2+nReaders)
	news := make([]int64, 2+nReaders)
	barrier := func() {
		atomic.AddInt32(&ready, 1)
		for atomic.LoadInt32(&ready) < int32(2+nReaders) {
			runtime.Gosched()
		}
	}
	rounds := cell.Rounds
	// writer
	wg.Add(1)
	go func() {
		defer wg.Done()
		barrier()
		// from here to the return: no synchronisation by the harness
		iv := make([]int64, 0, 8*rounds)
		call := func(f func()) bool {
			t0 := int64(time.Since(base))
			msg, pn := guarded(f)
			iv = append(iv, t0, int64(time.Since(base)))
			if pn {
				notes[0] = append(notes[0], "panic: the writer's valid call panicked: "+msg)
			}
			return !pn
		}
		defer func() { ivs[0] = iv }()
		for k := 1; k <= rounds; k++ {
			if kind == "atomic" {
				rec := pmAtomicRecord(k, size)
				if !call(func() { fs.AtomicCreate("d", "t", rec) }) {
					return
				}
				continue
			}
			hdr, body, trl := []byte(fmt.Sprintf("<H %d %d>", k, size)), pmBody(k, size), []byte(fmt.Sprintf("<T %d>", k))
			if !call(func() { fs.Append(wfd, hdr) }) || !call(func() { fs.Append(wfd, body) }) || !call(func() { fs.Append(wfd, trl) }) {
				return
			}
		}
		if kind == "append" {
			call(func() { fs.Append(wfd, []byte("<E>")) })
		}
		// tells the lister, through the filesystem under test only, that the rounds are over
		call(func() {
			if f, ok := fs.Create("d", "z"); ok {
				fs.Close(f)
			}
		})
	}()
	// readers
	for r := 1; r <= nReaders; r++ {
		wg.Add(1)
		go func(r int) {
			defer wg.Done()
			barrier()
			iv := make([]int64, 0, 1<<12)
			defer func() { ivs[r] = iv }()
			const readLen = 4 << 20
			if kind == "append" {
				p := &pmParser{size: size}
				pos := uint64(0)
				for n := 0; n < 3_000_000 && p.state != 3; n++ {
					var b []byte
					t0 := int64(time.Since(base))
					msg, pn := guarded(func() { b = fs.ReadAt(rfds[r-1], pos, readLen) })
					t1 := int64(time.Since(base))
					polls[r]++
					if pn {
						notes[r] = append(notes[r], "panic: a reader's valid ReadAt panicked: "+msg)
						return
					}
					if len(b) == 0 {
						if n&1023 == 1023 && time.Since(base) > 30*time.Second { // stops the polling only, decides nothing
							return
						}
						runtime.Gosched()
						continue
					}
					if len(iv) < 1<<20 {
						iv = append(iv, t0, t1)
					}
					news[r]++
					used, wrong := p.feed(b, len(b) == readLen)
					if wrong != "" {
						notes[r] = append(notes[r], fmt.Sprintf("%s [ReadAt(fd, %d, %d) returned %d bytes]", wrong, pos, readLen, len(b)))
						return
					}
					pos += uint64(used)
				}
				return
			}
			last := 0
			for n := 0; n < 200_000 && last < rounds; n++ {
				var b []byte
				t0 := int64(time.Since(base))
				msg, pn := guarded(func() {
					f := fs.Open("d", "t")
					b = fs.ReadAt(f, 0, readLen)
					fs.Close(f)
				})
				t1 := int64(time.Since(base))
				polls[r]++
				if pn {
					notes[r] = append(notes[r], "panic: a reader's valid Open/ReadAt/Close of d/t panicked: "+msg)
					return
				}
				if len(iv) < 1<<20 {
					iv = append(iv, t0, t1)
				}
				k := -1
				fmt.Sscanf(string(b[:min(len(b), 40)]), "<A %d ", &k)
				switch {
				case k < last || k > rounds:
					notes[r] = append(notes[r], fmt.Sprintf("torn-atomiccreate: d/t reads as %s after round %d was seen", abbr(string(b)), last))
					return
				case !bytes.Equal(b, pmAtomicRecord(k, size)):
					notes[r] = append(notes[r], fmt.Sprintf("torn-atomiccreate: d/t is not one whole record of round %d (%d bytes expected, %d read, %d zero bytes): %s", k, len(pmAtomicRecord(k, size)), len(b), bytes.Count(b, []byte{0}), abbr(string(b))))
					return
				}
				if k > last {
					news[r]++
				}
				last = k
				if n&255 == 255 && time.Since(base) > 30*time.Second {
					return
				}
			}
		}(r)
	}
	// lister: d holds exactly t and w from the setup on (staging files are not
	// part of any listed state), whatever is being written
	wg.Add(1)
	go func() {
		defer wg.Done()
		barrier()
		iv := make([]int64, 0, 1<<12)
		defer func() { ivs[lister] = iv }()
		for n := 0; n < 2_000_000; n++ {
			var names []string
			t0 := int64(time.Since(base))
			msg, pn := guarded(func() { names = fs.List("d") })
			if len(iv) < 1<<20 {
				iv = append(iv, t0, int64(time.Since(base)))
			}
			polls[lister]++
			if pn {
				notes[lister] = append(notes[lister], "panic: a valid List(d) panicked: "+msg)
				return
			}
			sort.Strings(names)
			if len(names) == 3 && names[0] == "t" && names[1] == "w" && names[2] == "z" {
				return // the writer is done
			}
			if len(names) != 2 || names[0] != "t" || names[1] != "w" {
				notes[lister] = append(notes[lister], fmt.Sprintf("list-wrong-names: List(d) = %q while d holds exactly t and w (and at the very end z)", names))
				return
			}
			if n&63 == 63 && time.Since(base) > 30*time.Second {
				return
			}
			runtime.Gosched()
		}
	}()
	wg.Wait()
	cell.Lists = polls[lister]
	cell.ListOverlaps = mxOverlaps(ivs[0], ivs[lister])
	for r := 1; r <= nReaders; r++ {
		cell.Polls += polls[r]
		cell.NewData += news[r]
		cell.Overlaps += mxOverlaps(ivs[0], ivs[r])
	}
	for _, ns := range notes {
		cell.Anomalies = append(cell.Anomalies, ns...)
	}
	if len(cell.Anomalies) > 0 {
		return
	}
	// after the join: everything is there
	if msg, pn := guarded(func() {
		if kind == "append" {
			f := fs.Open("d", "w")
			p := &pmParser{size: size}
			pos := uint64(0)
			for p.state != 3 {
				b := fs.ReadAt(f, pos, 4<<20)
				used, wrong := p.feed(b, len(b) == 4<<20)
				if wrong != "" {
					note("final-content: after the join d/w is damaged: " + wrong)
					break
				}
				if used == 0 {
					note(fmt.Sprintf("final-content: after the join d/w ends after %d of %d rounds (lost appends)", p.k, rounds))
					break
				}
				pos += uint64(used)
			}
			if len(cell.Anomalies) == 0 && p.k != rounds {
				note(fmt.Sprintf("final-content: after the join d/w holds %d rounds, %d were appended", p.k, rounds))
			}
			fs.Close(f)
		} else {
			f := fs.Open("d", "t")
			if b := fs.ReadAt(f, 0, 4<<20); !bytes.Equal(b, pmAtomicRecord(rounds, size)) {
				note("final-content: after the join d/t is not the record of the last round: " + abbr(string(b)))
			}
			fs.Close(f)
		}
	}); pn {
		note("final-read-panic: " + msg)
	}
	return
}

// c14PayloadMatrixChild: vcheck child c14-payload-matrix <impl> <build> <gomaxprocs> <outfile> <rootdir>
func c14PayloadMatrixChild(args []string) int {
	if len(args) != 5 {
		fmt.Fprintln(os.Stderr, "c14-payload-matrix: bad arguments")
		return 2
	}
	impl := args[0]
	procs, _ := strconv.Atoi(args[2])
	out, err := os.Create(args[3])
	if err != nil {
		fmt.Fprintln(os.Stderr, err)
		return 2
	}
	defer out.Close()
	runtime.GOMAXPROCS(procs)
	w := bufio.NewWriter(out)
	idx := 0
	for _, kind := range []string{"append", "atomic"} {
		for _, size := range payloadSizes {
			idx++
			fmt.Fprintf(w, "{\"begin\":%d,\"kind\":%q,\"size\":%d}\n", idx, kind, size)
			w.Flush()
			var fs filesys.Filesys
			cleanup := func() {}
			switch impl {
			case "memfs":
				fs = filesys.NewMemFs()
			case "dirfs":
				dir := filepath.Join(args[4], fmt.Sprintf("p%d", idx))
				if err := os.MkdirAll(dir, 0o755); err != nil {
					fmt.Fprintln(os.Stderr, err)
					return 2
				}
				d := filesys.NewDirFs(dir)
				fs, cleanup = d, func() { guarded(func() { d.CloseFs() }); os.RemoveAll(dir) }
			default:
				return 2
			}
			cell := pmRunCell(fs, impl, kind, size)
			cleanup()
			b, _ := json.Marshal(cell)
			w.Write(b)
			w.WriteByte('\n')
			w.Flush()
		}
	}
	return 0
}

func sizeLabel(n int) string {
	switch {
	case n >= 1<<20 && n%(1<<20) == 0:
		return fmt.Sprintf("%dMiB", n>>20)
	case n >= 1024 && n%1024 == 0:
		return fmt.Sprintf("%dKiB", n>>10)
	case n > 1024 && (n+1)%1024 == 0:
		return fmt.Sprintf("%dKiB-1", (n+1)>>10)
	case n > 1024 && (n-1)%1024 == 0:
		return fmt.Sprintf("%dKiB+1", (n-1)>>10)
	}
	return strconv.Itoa(n)
}

// c14PayloadMatrix runs the payload matrix children (race logs go to raceDir
// and are parsed by the caller with all the others).
func c14PayloadMatrix(r *core.Run, self, raceBin, raceDir string, childLog *[]string, mu *sync.Mutex) {
	batches := []mxBatch{{"memfs", "plain", 4, self}, {"memfs", "race", 4, raceBin}, {"dirfs", "plain", 4, self}, {"dirfs", "race", 2, raceBin}}
	type agg struct {
		sizes map[string]bool
		first string
		cell  pmCell
		b     mxBatch
	}
	found := map[string]*agg{} // sig -> failing sizes
	cellsRun, cellsOverlapped := 0, 0
	var polls, news, lists, listOverlaps int64
	overlapBy := map[string]int64{}
	core.Parallel(len(batches), 2, func(bi int) {
		b := batches[bi]
		tag := fmt.Sprintf("payload-%s-%s-p%d", b.impl, b.build, b.procs)
		out := filepath.Join(r.Scratch, tag+".jsonl")
		root := filepath.Join(r.Scratch, "root-"+tag)
		os.MkdirAll(root, 0o755)
		defer os.RemoveAll(root)
		env := append(os.Environ(), "GORACE=halt_on_error=0 exitcode=0 log_path="+filepath.Join(raceDir, tag))
		args := []string{"child", "c14-payload-matrix", b.impl, b.build, strconv.Itoa(b.procs), out, root}
		mu.Lock()
		*childLog = append(*childLog, b.bin+" "+strings.Join(args, " "))
		mu.Unlock()
		res := core.Exec(r.Scratch, env, 10*time.Minute, "", b.bin, args...)
		r.Count("payload_matrix_children_run", 1)
		lastKind, lastSize := "", 0
		if f, err := os.Open(out); err == nil {
			sc := bufio.NewScanner(f)
			sc.Buffer(make([]byte, 1<<20), 16<<20)
			for sc.Scan() {
				line := sc.Bytes()
				if bytes.HasPrefix(line, []byte(`{"begin"`)) {
					var bg struct {
						Kind string
						Size int
					}
					if json.Unmarshal(line, &bg) == nil {
						lastKind, lastSize = bg.Kind, bg.Size
					}
					continue
				}
				var c pmCell
				if json.Unmarshal(line, &c) != nil || c.Kind == "" {
					continue
				}
				r.Eval(int(c.NewData) + 3*c.Rounds + int(c.Lists))
				mu.Lock()
				cellsRun++
				polls += c.Polls
				lists += c.Lists
				listOverlaps += c.ListOverlaps
				news += c.NewData
				if c.Overlaps > 0 {
					cellsOverlapped++
					r.Distinct(fmt.Sprintf("payload-matrix|%s|%s|%s", b.impl, c.Kind, sizeLabel(c.Size)))
				}
				overlapBy[fmt.Sprintf("%s/%s/%s/%s", b.impl, b.build, c.Kind, sizeLabel(c.Size))] += c.Overlaps
				for _, a := range c.Anomalies {
					kind := a
					if i := strings.Index(a, ":"); i > 0 {
						kind = a[:i]
					}
					sig := fmt.Sprintf("payload-matrix-%s-%s-%s", b.impl, c.Kind, kind)
					if found[sig] == nil {
						found[sig] = &agg{sizes: map[string]bool{}, first: a, cell: c, b: b}
					}
					found[sig].sizes[sizeLabel(c.Size)] = true
				}
				mu.Unlock()
			}
			f.Close()
		}
		os.Remove(out)
		switch {
		case res.TimedOut:
			r.Inconclusive("payload-matrix child watchdog fired: " + tag)
		case res.Code != 0:
			cls := "exit-" + strconv.Itoa(res.Code)
			if m := fatalRe.FindStringSubmatch(res.Stderr); m != nil {
				cls = slug(m[2])
			}
			r.Violate("child-crash-"+b.impl+"-"+cls, fmt.Sprintf("the %s %s payload-matrix child (GOMAXPROCS=%d) died in the cell %s of %s: %s", b.impl, b.build, b.procs, lastKind, sizeLabel(lastSize), tail(firstLines(res.Stderr, 3), 300)),
				map[string]interface{}{"impl": b.impl, "build": b.build, "gomaxprocs": b.procs, "kind": lastKind, "size": lastSize, "exit": res.Code, "stderr_tail": tail(res.Stderr, 3000), "command": b.bin + " " + strings.Join(args, " ")})
		}
	})
	var sigs []string
	for s := range found {
		sigs = append(sigs, s)
	}
	sort.Strings(sigs)
	for _, sig := range sigs {
		a := found[sig]
		var sz []string
		for s := range a.sizes {
			sz = append(sz, s)
		}
		sort.Strings(sz)
		r.Count("payload_matrix_violating_cells/"+sig, int64(len(sz)))
		r.Violate(sig, fmt.Sprintf("%s, payload sizes %s: %s [first seen: %s build, GOMAXPROCS=%d, size %s, %d rounds]", a.b.impl, strings.Join(sz, " "), a.first, a.b.build, a.b.procs, sizeLabel(a.cell.Size), a.cell.Rounds),
			map[string]interface{}{"impl": a.b.impl, "failing_sizes": sz, "cell": a.cell,
				"replay": "fresh filesystem; writer appends <H k size> + body + <T k> per round to d/w (or AtomicCreates d/t), readers poll with ReadAt from their verified offset (see c14payloadmx.go)"})
	}
	r.Set("payload_matrix_cells_run", cellsRun)
	r.Set("payload_matrix_cells_with_overlapping_writer_and_reader_calls", cellsOverlapped)
	r.Set("payload_matrix_reader_polls", polls)
	r.Set("payload_matrix_list_calls", lists)
	r.Set("payload_matrix_list_calls_overlapping_writer_calls", listOverlaps)
	r.Set("payload_matrix_polls_that_returned_new_data", news)
	r.Set("payload_matrix_overlapping_call_pairs_by_cell", overlapBy)
}
