package fsp

import (
	"bufio"
	"encoding/json"
	"fmt"
	"os"
	"path/filepath"
	"regexp"
	"strconv"
	"strings"
	"syscall"
	"time"
	"unsafe"

	"verif/core"
	"verif/props"

	"github.com/goose-lang/goose/machine/filesys"
)

// C12, the sharpest member of the name-shape family: a user name that is
// EXACTLY the private name the implementation is about to use.
//
// DirFs.AtomicCreate stages its data in a file of its own choosing and renames
// it. Whatever the scheme, that name lives in a namespace the caller can also
// write to (Mkdir creates entries in the root, Create / Link / AtomicCreate in
// the directories). The scheme is not read from the source: a child process
// OBSERVES it (inotify on the root and on the directory while three
// AtomicCreate calls run), extrapolates the next staging name from the
// observed ones (decimal fields that moved by a constant step keep moving, the
// target's name and directory are substituted where they occurred), and then
// runs, in lock-step with the model as always, the histories
//
//	staged in the root:       Mkdir(<predicted>) ; AtomicCreate(d, f, data) ; List ; read back
//	staged in the directory:  Create(d, <predicted>) + contents ; AtomicCreate(d, f, data) ; List ; read both back
//
// If no staging name shows up, or the names are not predictable (random), the
// probe records that and decides nothing. The child is a fresh process, so the
// prediction does not depend on what the parent did before.

func init() {
	props.Children["c12-staging"] = c12StagingChild
}

type inoWatch struct {
	fd  int
	wds map[int32]string
}

func newInoWatch(dirs map[string]string) (*inoWatch, error) {
	fd, err := syscall.InotifyInit1(syscall.IN_NONBLOCK | syscall.IN_CLOEXEC)
	if err != nil {
		return nil, err
	}
	w := &inoWatch{fd: fd, wds: map[int32]string{}}
	for label, p := range dirs {
		wd, err := syscall.InotifyAddWatch(fd, p, syscall.IN_CREATE|syscall.IN_MOVED_FROM|syscall.IN_MOVED_TO|syscall.IN_DELETE)
		if err != nil {
			syscall.Close(fd)
			return nil, err
		}
		w.wds[int32(wd)] = label
	}
	return w, nil
}

type inoEvent struct {
	where string // label of the watched directory
	mask  uint32
	name  string
}

func (w *inoWatch) drain() []inoEvent {
	var out []inoEvent
	buf := make([]byte, 1<<16)
	for {
		n, err := syscall.Read(w.fd, buf)
		if n <= 0 || err != nil {
			return out
		}
		for off := 0; off+syscall.SizeofInotifyEvent <= n; {
			ev := (*syscall.InotifyEvent)(unsafe.Pointer(&buf[off]))
			nameBytes := buf[off+syscall.SizeofInotifyEvent : off+syscall.SizeofInotifyEvent+int(ev.Len)]
			name := strings.TrimRight(string(nameBytes), "\x00")
			out = append(out, inoEvent{where: w.wds[ev.Wd], mask: ev.Mask, name: name})
			off += syscall.SizeofInotifyEvent + int(ev.Len)
		}
	}
}

func (w *inoWatch) close() { syscall.Close(w.fd) }

var digitRunRe = regexp.MustCompile(`[0-9]+`)

// extrapolate predicts the element after a, b, c: the three must have the
// same non-digit skeleton, and every decimal field must move by the same
// step from a to b and from b to c.
func extrapolate(a, b, c string) (string, bool) {
	sk := func(s string) string { return digitRunRe.ReplaceAllString(s, "#") }
	if sk(a) != sk(b) || sk(b) != sk(c) {
		return "", false
	}
	fa, fb, fc := digitRunRe.FindAllString(a, -1), digitRunRe.FindAllString(b, -1), digitRunRe.FindAllString(c, -1)
	next := make([]string, len(fc))
	moved := false
	for i := range fc {
		x, e1 := strconv.ParseInt(fa[i], 10, 64)
		y, e2 := strconv.ParseInt(fb[i], 10, 64)
		z, e3 := strconv.ParseInt(fc[i], 10, 64)
		if e1 != nil || e2 != nil || e3 != nil || y-x != z-y {
			return "", false
		}
		if z != y {
			moved = true
		}
		next[i] = strconv.FormatInt(z+(z-y), 10)
	}
	_ = moved // a constant name (all steps 0) is predictable too
	i := 0
	return digitRunRe.ReplaceAllStringFunc(c, func(string) string { i++; return next[i-1] }), true
}

type stagingReport struct {
	Observed    []string `json:"staging_names_observed"`
	Where       string   `json:"staged_in"` // root | dir | "" (none seen)
	Predicted   string   `json:"predicted_next"`
	Predictable bool     `json:"predictable"`
	Note        string   `json:"note,omitempty"`
	History     []string `json:"history,omitempty"`
	Divs        []c12div `json:"divs,omitempty"`
	Compared    int64    `json:"compared"`
}

// c12StagingChild: vcheck child c12-staging <outfile> <rootdir>
func c12StagingChild(args []string) int {
	if len(args) != 2 {
		fmt.Fprintln(os.Stderr, "c12-staging: bad arguments")
		return 2
	}
	out, err := os.Create(args[0])
	if err != nil {
		fmt.Fprintln(os.Stderr, err)
		return 2
	}
	defer out.Close()
	w := bufio.NewWriter(out)
	defer w.Flush()
	rep := stagingReport{}
	write := func() {
		b, _ := json.Marshal(rep)
		w.Write(b)
		w.WriteByte('\n')
		w.Flush()
	}
	const dirName, target = "qdirq", "qtargetq"
	// observation
	obsRoot := filepath.Join(args[1], "observe")
	os.MkdirAll(obsRoot, 0o755)
	dfs := filesys.NewDirFs(obsRoot)
	dfs.Mkdir(dirName)
	iw, err := newInoWatch(map[string]string{"root": obsRoot, "dir": filepath.Join(obsRoot, dirName)})
	if err != nil {
		rep.Note = "inotify unavailable: " + err.Error()
		write()
		return 0
	}
	var names, wheres []string
	for i := 0; i < 3; i++ {
		dfs.AtomicCreate(dirName, target, []byte{byte(i)})
		for _, ev := range iw.drain() {
			if ev.mask&syscall.IN_CREATE != 0 && !(ev.where == "dir" && ev.name == target) {
				names = append(names, ev.name)
				wheres = append(wheres, ev.where)
			}
		}
	}
	iw.close()
	dfs.CloseFs()
	rep.Observed = names
	if len(names) != 3 || wheres[0] != wheres[1] || wheres[1] != wheres[2] {
		rep.Note = "no single staging file per call was observed"
		write()
		return 0
	}
	rep.Where = wheres[0]
	pred, ok := extrapolate(names[0], names[1], names[2])
	if !ok {
		rep.Note = "the observed staging names are not predictable"
		write()
		return 0
	}
	// the hostile history uses another directory and target: substitute them
	// where the observed names mention the observed ones
	const dir2, target2 = "d", "f"
	pred = strings.ReplaceAll(strings.ReplaceAll(pred, target, target2), dirName, dir2)
	rep.Predicted, rep.Predictable = pred, true
	if !simpleName(pred) || pred == target2 || pred == dir2 {
		rep.Note = "the predicted name is not a name a caller can use"
		write()
		return 0
	}
	h := &hb{}
	h.mk(dir2)
	if rep.Where == "root" {
		h.mk(pred)
	} else {
		h.file(dir2, pred, 33)
	}
	h.ls(dir2).at(dir2, target2, 10).ls(dir2).readBack(dir2, target2)
	if rep.Where == "root" {
		h.ls(pred)
	} else {
		h.readBack(dir2, pred)
	}
	ops := append(append([]Op(nil), h.ops...), finalOps(h.ops)...)
	rep.History = opStrings(ops)
	env := &c12env{root: filepath.Join(args[1], "probe")}
	impls, cleanup := env.fresh()
	st := newC12stats()
	var sel []*c12impl
	for _, im := range impls {
		if im.name == "dirfs" {
			sel = append(sel, im)
		}
	}
	rep.Divs = execHistory(ops, sel, "S", "methods", &st)
	cleanup()
	rep.Compared = st.compared
	write()
	return 0
}

// runStagingProbe runs the child and reports what it found.
func runStagingProbe(r *core.Run) (compared int64) {
	self, err := os.Executable()
	if err != nil {
		r.Inconclusive("cannot find own binary (staging probe)")
		return 0
	}
	out := filepath.Join(r.Scratch, "c12-staging.jsonl")
	root := filepath.Join(r.Scratch, "c12-staging-root")
	os.MkdirAll(root, 0o755)
	res := core.Exec(r.Scratch, nil, 2*time.Minute, "", self, "child", "c12-staging", out, root)
	defer os.RemoveAll(root)
	defer os.Remove(out)
	b, _ := os.ReadFile(out)
	var rep stagingReport
	if res.TimedOut {
		r.Inconclusive("staging-probe child watchdog fired")
		return 0
	}
	if res.Code != 0 || json.Unmarshal([]byte(strings.TrimSpace(string(b))), &rep) != nil {
		r.Inconclusive("staging-probe child failed: " + tail(firstLines(res.Stderr, 3), 200))
		return 0
	}
	r.Set("staging_probe", map[string]interface{}{"observed": rep.Observed, "staged_in": rep.Where, "predicted_next": rep.Predicted,
		"predictable": rep.Predictable, "note": rep.Note, "history": rep.History, "divergences": len(rep.Divs)})
	for _, d := range rep.Divs {
		what := "a directory in the root"
		if rep.Where == "dir" {
			what = "a file of the caller in the same directory"
		}
		sig := d.Base + "-while-the-predicted-staging-name-is-taken"
		r.Violate(sig, fmt.Sprintf("%s diverges from the model at %s (%s) when %s has exactly the name the implementation stages under (observed staging names %q in the %s, predicted next %q): expected %s, observed %s; history: %s",
			d.Impl, d.Op, d.What, what, rep.Observed, rep.Where, rep.Predicted, d.Expected, d.Observed, strings.Join(d.History, " ; ")), d)
	}
	return rep.Compared
}
