package fsp

import (
	"bufio"
	"encoding/json"
	"fmt"
	"os"
	"path/filepath"
	"regexp"
	"strconv"
	"strings"
	"syscall"
	"time"
	"unsafe"

	"verif/core"
	"verif/props"

	"github.com/goose-lang/goose/machine/filesys"
)

// C12, the sharpest member of the name-shape family: a user name that is
// EXACTLY the private name the implementation is about to use.
//
// DirFs.AtomicCreate stages its data in a file of its own choosing and renames
// it. Whatever the scheme, that name lives in a namespace the caller can also
// write to (Mkdir creates entries in the root, Create / Link / AtomicCreate in
// the directories). The scheme is not read from the source: a child process
// OBSERVES it (inotify on the root and on the directory while three
// AtomicCreate calls run), extrapolates the next staging name from the
// observed ones (decimal fields that moved by a constant step keep moving, the
// target's name and directory are substituted where they occurred), and then
// runs, in lock-step with the model as always, the histories
//
//	a directory in the root has the predicted name
//	a file with contents in the target directory / in another directory has it
//	the next TWO predicted names are taken (directories in the root, files in
//	  the target directory and inside the directory of that name)
//	a file with that name is open for append and appended to afterwards
//
// each followed by two AtomicCreate calls of another name, List, and a
// read-back of everything: the caller's files keep their contents, the new
// file has exactly its data, List shows exactly the names.
//
// If no staging name shows up, or the names are not predictable (random), the
// probe records that and decides nothing. The child is a fresh process, so the
// prediction does not depend on what the parent did before.

func init() {
	props.Children["c12-staging"] = c12StagingChild
}

type inoWatch struct {
	fd  int
	wds map[int32]string
}

func newInoWatch(dirs map[string]string) (*inoWatch, error) {
	fd, err := syscall.InotifyInit1(syscall.IN_NONBLOCK | syscall.IN_CLOEXEC)
	if err != nil {
		return nil, err
	}
	w := &inoWatch{fd: fd, wds: map[int32]string{}}
	for label, p := range dirs {
		wd, err := syscall.InotifyAddWatch(fd, p, syscall.IN_CREATE|syscall.IN_MOVED_FROM|syscall.IN_MOVED_TO|syscall.IN_DELETE)
		if err != nil {
			syscall.Close(fd)
			return nil, err
		}
		w.wds[int32(wd)] = label
	}
	return w, nil
}

type inoEvent struct {
	where string // label of the watched directory
	mask  uint32
	name  string
}

func (w *inoWatch) drain() []inoEvent {
	var out []inoEvent
	buf := make([]byte, 1<<16)
	for {
		n, err := syscall.Read(w.fd, buf)
		if n <= 0 || err != nil {
			return out
		}
		for off := 0; off+syscall.SizeofInotifyEvent <= n; {
			ev := (*syscall.InotifyEvent)(unsafe.Pointer(&buf[off]))
			nameBytes := buf[off+syscall.SizeofInotifyEvent : off+syscall.SizeofInotifyEvent+int(ev.Len)]
			name := strings.TrimRight(string(nameBytes), "\x00")
			out = append(out, inoEvent{where: w.wds[ev.Wd], mask: ev.Mask, name: name})
			off += syscall.SizeofInotifyEvent + int(ev.Len)
		}
	}
}

func (w *inoWatch) close() { syscall.Close(w.fd) }

var digitRunRe = regexp.MustCompile(`[0-9]+`)

// extrapolate predicts the element after a, b, c: the three must have the
// same non-digit skeleton, and every decimal field must move by the same
// step from a to b and from b to c.
func extrapolate(a, b, c string) (string, bool) {
	sk := func(s string) string { return digitRunRe.ReplaceAllString(s, "#") }
	if sk(a) != sk(b) || sk(b) != sk(c) {
		return "", false
	}
	fa, fb, fc := digitRunRe.FindAllString(a, -1), digitRunRe.FindAllString(b, -1), digitRunRe.FindAllString(c, -1)
	next := make([]string, len(fc))
	moved := false
	for i := range fc {
		x, e1 := strconv.ParseInt(fa[i], 10, 64)
		y, e2 := strconv.ParseInt(fb[i], 10, 64)
		z, e3 := strconv.ParseInt(fc[i], 10, 64)
		if e1 != nil || e2 != nil || e3 != nil || y-x != z-y {
			return "", false
		}
		if z != y {
			moved = true
		}
		next[i] = strconv.FormatInt(z+(z-y), 10)
	}
	_ = moved // a constant name (all steps 0) is predictable too
	i := 0
	return digitRunRe.ReplaceAllStringFunc(c, func(string) string { i++; return next[i-1] }), true
}

type stagingVariant struct {
	Variant   string   `json:"variant"`
	Observed  []string `json:"staging_names_observed"`
	Where     string   `json:"staged_in"` // root | dir
	Predicted []string `json:"predicted_next"`
	History   []string `json:"history,omitempty"`
	Divs      []c12div `json:"divs,omitempty"`
}

type stagingReport struct {
	Note     string           `json:"note,omitempty"`
	Variants []stagingVariant `json:"variants"`
	Compared int64            `json:"compared"`
}

// c12StagingChild: vcheck child c12-staging <outfile> <rootdir>
func c12StagingChild(args []string) int {
	if len(args) != 2 {
		fmt.Fprintln(os.Stderr, "c12-staging: bad arguments")
		return 2
	}
	out, err := os.Create(args[0])
	if err != nil {
		fmt.Fprintln(os.Stderr, err)
		return 2
	}
	defer out.Close()
	w := bufio.NewWriter(out)
	defer w.Flush()
	rep := stagingReport{}
	write := func() {
		b, _ := json.Marshal(rep)
		w.Write(b)
		w.WriteByte('\n')
		w.Flush()
	}
	const dirName, target = "qdirq", "qtargetq"
	seq := 0
	// observe: three AtomicCreate calls on a fresh DirFs under inotify; returns
	// the staging names, where they appeared, and the next two predicted names
	// for a call AtomicCreate(dir2, target2, …)
	const dir2, target2 = "d", "f"
	observe := func() (names []string, where string, pred []string, note string) {
		seq++
		obsRoot := filepath.Join(args[1], fmt.Sprintf("observe%d", seq))
		os.MkdirAll(obsRoot, 0o755)
		defer os.RemoveAll(obsRoot)
		dfs := filesys.NewDirFs(obsRoot)
		defer dfs.CloseFs()
		dfs.Mkdir(dirName)
		iw, err := newInoWatch(map[string]string{"root": obsRoot, "dir": filepath.Join(obsRoot, dirName)})
		if err != nil {
			return nil, "", nil, "inotify unavailable: " + err.Error()
		}
		defer iw.close()
		var wheres []string
		for i := 0; i < 3; i++ {
			dfs.AtomicCreate(dirName, target, []byte{byte(i)})
			for _, ev := range iw.drain() {
				if ev.mask&syscall.IN_CREATE != 0 && !(ev.where == "dir" && ev.name == target) {
					names = append(names, ev.name)
					wheres = append(wheres, ev.where)
				}
			}
		}
		if len(names) != 3 || wheres[0] != wheres[1] || wheres[1] != wheres[2] {
			return names, "", nil, "no single staging file per call was observed"
		}
		p1, ok1 := extrapolate(names[0], names[1], names[2])
		p2, ok2 := extrapolate(names[1], names[2], p1)
		if !ok1 || !ok2 {
			return names, wheres[0], nil, "the observed staging names are not predictable"
		}
		// the hostile history uses another directory and target: substitute them
		// where the observed names mention the observed ones
		for _, p := range []string{p1, p2} {
			p = strings.ReplaceAll(strings.ReplaceAll(p, target, target2), dirName, dir2)
			if !simpleName(p) || p == target2 || p == dir2 || p == "e" {
				return names, wheres[0], nil, "a predicted name is not a name a caller can use"
			}
			pred = append(pred, p)
		}
		return names, wheres[0], pred, ""
	}
	variants := []struct {
		label string
		build func(h *hb, p []string)
		after func(h *hb, p []string)
	}{
		{"directory-in-the-root-has-the-name",
			func(h *hb, p []string) { h.mk(p[0]) },
			func(h *hb, p []string) { h.ls(p[0]) }},
		{"file-in-the-target-directory-has-the-name",
			func(h *hb, p []string) { h.file(dir2, p[0], 33) },
			func(h *hb, p []string) { h.readBack(dir2, p[0]) }},
		{"file-in-another-directory-has-the-name",
			func(h *hb, p []string) { h.mk("e").file("e", p[0], 33) },
			func(h *hb, p []string) { h.ls("e").readBack("e", p[0]) }},
		{"the-next-two-names-are-taken-by-a-directory-and-files",
			func(h *hb, p []string) {
				h.mk(p[0]).mk(p[1]).file(dir2, p[0], 33).file(dir2, p[1], 34).file(p[0], p[1], 35)
			},
			func(h *hb, p []string) {
				h.ls(p[0], p[1]).readBack(dir2, p[0]).readBack(dir2, p[1]).readBack(p[0], p[1])
			}},
		{"open-append-descriptor-on-a-file-with-the-name",
			func(h *hb, p []string) {
				c := h.cr(dir2, p[0])
				h.ap(c, 5)
			},
			func(h *hb, p []string) { h.ap(1, 6).cl(1).readBack(dir2, p[0]) }},
	}
	st := newC12stats()
	for _, v := range variants {
		names, where, pred, note := observe()
		if note != "" {
			rep.Note = note
			rep.Variants = append(rep.Variants, stagingVariant{Variant: v.label, Observed: names, Where: where})
			break
		}
		h := &hb{}
		h.mk(dir2)
		v.build(h, pred)
		// every directory is listed before the AtomicCreate too, so that a
		// divergence that has nothing to do with staging (names hidden from List
		// …) shows up before it, under its ordinary signature
		{
			m := NewModel()
			for _, o := range h.ops {
				applyModel(m, o, nil)
			}
			h.ls(m.Dirs()...)
		}
		h.at(dir2, target2, 10).ls(dir2).readBack(dir2, target2).at(dir2, target2, 20).ls(dir2).readBack(dir2, target2)
		v.after(h, pred)
		if !validHistory(h.ops) {
			panic("staging probe built an invalid history: " + strings.Join(opStrings(h.ops), ";"))
		}
		ops := append(append([]Op(nil), h.ops...), finalOps(h.ops)...)
		env := &c12env{root: filepath.Join(args[1], "probe")}
		impls, cleanup := env.fresh()
		var sel []*c12impl
		for _, im := range impls {
			if im.name == "dirfs" {
				sel = append(sel, im)
			}
		}
		divs := execHistory(ops, sel, "S", "methods", &st)
		cleanup()
		rep.Variants = append(rep.Variants, stagingVariant{Variant: v.label, Observed: names, Where: where, Predicted: pred, History: opStrings(ops), Divs: divs})
	}
	rep.Compared = st.compared
	write()
	return 0
}

// runStagingProbe runs the child and reports what it found.
func runStagingProbe(r *core.Run, violate func(d c12div)) (compared int64) {
	self, err := os.Executable()
	if err != nil {
		r.Inconclusive("cannot find own binary (staging probe)")
		return 0
	}
	out := filepath.Join(r.Scratch, "c12-staging.jsonl")
	root := filepath.Join(r.Scratch, "c12-staging-root")
	os.MkdirAll(root, 0o755)
	res := core.Exec(r.Scratch, nil, 2*time.Minute, "", self, "child", "c12-staging", out, root)
	defer os.RemoveAll(root)
	defer os.Remove(out)
	b, _ := os.ReadFile(out)
	var rep stagingReport
	if res.TimedOut {
		r.Inconclusive("staging-probe child watchdog fired")
		return 0
	}
	if res.Code != 0 || json.Unmarshal([]byte(strings.TrimSpace(string(b))), &rep) != nil {
		r.Inconclusive("staging-probe child failed: " + tail(firstLines(res.Stderr, 3), 200))
		return 0
	}
	var summary []map[string]interface{}
	for _, v := range rep.Variants {
		summary = append(summary, map[string]interface{}{"variant": v.Variant, "observed": v.Observed, "staged_in": v.Where, "predicted_next": v.Predicted,
			"calls": len(v.History), "divergences": len(v.Divs)})
		for _, d := range v.Divs {
			// at the AtomicCreate itself, or later (a clobbered file of the caller,
			// a wrong List): the taken staging name is the failing input class; a
			// divergence BEFORE any AtomicCreate has nothing to do with staging and
			// keeps its ordinary signature
			atomicBefore := false
			for _, o := range d.Ops[:len(d.Ops)-1] {
				if o.K == "atomic" {
					atomicBefore = true
				}
			}
			switch {
			case strings.HasPrefix(d.Op, "atomiccreate("):
				d.Sig = d.Base + "-while-the-predicted-staging-name-is-taken"
			case atomicBefore:
				d.Sig = d.Base + "-after-atomiccreate-while-the-predicted-staging-name-is-taken"
			}
			d.What = fmt.Sprintf("%s [staging probe, variant %q: observed staging names %q in the %s, predicted next %q, held by the caller]", d.What, v.Variant, v.Observed, v.Where, v.Predicted)
			violate(d)
		}
	}
	r.Set("staging_probe", map[string]interface{}{"note": rep.Note, "variants": summary})
	if rep.Note != "" {
		r.Count("staging_probe_decided_nothing", 1)
	}
	return rep.Compared
}
