package fsp

import (
	"bufio"
	"crypto/sha256"
	"encoding/hex"
	"encoding/json"
	"fmt"
	"os"
	"path/filepath"
	"regexp"
	"sort"
	"strconv"
	"strings"
	"sync"
	"time"

	"verif/core"

	"github.com/anishathalye/porcupine"
)

// ---------------------------------------------------------------- sequential model for porcupine

// c14state wraps an immutable Model value; canon is computed once.
type c14state struct {
	m *Model
	// phantom: descriptors of Creates that reported success while the model
	// (result made a wildcard by the culprit search) says the name existed;
	// calls through them are accepted without effect.
	phantom map[int]bool
	canon   string
}

func (s *c14state) key() string {
	if s.canon == "" {
		s.canon = s.m.Canon()
		if len(s.phantom) > 0 {
			var ids []int
			for id := range s.phantom {
				ids = append(ids, id)
			}
			sort.Ints(ids)
			s.canon += fmt.Sprint("P", ids)
		}
	}
	return s.canon
}

func (s *c14state) withPhantom(id int, add bool) *c14state {
	n := &c14state{m: s.m, phantom: map[int]bool{}}
	for k := range s.phantom {
		n.phantom[k] = true
	}
	if add {
		n.phantom[id] = true
	} else {
		delete(n.phantom, id)
	}
	return n
}

func sameNames(a, b []string) bool {
	if len(a) != len(b) {
		return false
	}
	for i := range a {
		if a[i] != b[i] {
			return false
		}
	}
	return true
}

// c14step: does the model, in this state, allow the call with the observed
// result? A call whose precondition does not hold in this state is not
// allowed here (the workload only issues calls that are valid in every order
// consistent with real time).
func c14step(state, input, _ interface{}) (bool, interface{}) {
	s := state.(*c14state)
	ev := input.(*cEvent)
	switch ev.K {
	case "readat":
		b, err := s.m.ReadAt(ev.FD, ev.Off, ev.Len)
		return err == nil && (ev.Wild || string(b) == ev.Bytes), s
	case "list":
		n, err := s.m.List(ev.Dir)
		return err == nil && (ev.Wild || sameNames(n, ev.Names)), s
	}
	if (ev.K == "append" || ev.K == "close") && s.phantom[ev.FD] {
		if ev.K == "close" {
			return true, s.withPhantom(ev.FD, false)
		}
		return true, s
	}
	m := s.m.Clone()
	var err error
	ok := true
	switch ev.K {
	case "mkdir":
		err = m.Mkdir(ev.Dir)
	case "create":
		var r bool
		r, err = m.Create(ev.Dir, ev.Name, ev.ID)
		ok = ev.Wild || r == ev.OK
		if err == nil && ev.Wild && r && !ev.OK { // the real call handed out no descriptor
			m.Close(ev.ID)
		}
		if err == nil && ev.Wild && !r && ev.OK { // the real call handed one out
			return true, s.withPhantom(ev.ID, true)
		}
	case "append":
		err = m.Append(ev.FD, []byte(ev.Data))
	case "close":
		err = m.Close(ev.FD)
	case "open":
		err = m.Open(ev.Dir, ev.Name, ev.ID)
	case "delete":
		err = m.Delete(ev.Dir, ev.Name)
	case "link":
		var r bool
		r, err = m.Link(ev.Dir, ev.Name, ev.Dir2, ev.Name2)
		ok = ev.Wild || r == ev.OK
	case "atomic":
		err = m.AtomicCreate(ev.Dir, ev.Name, []byte(ev.Data))
	default:
		return false, s
	}
	if err != nil || !ok {
		return false, s
	}
	return true, &c14state{m: m, phantom: s.phantom}
}

var c14model = porcupine.Model{
	Init:  func() interface{} { return &c14state{m: NewModel()} },
	Step:  c14step,
	Equal: func(a, b interface{}) bool { return a.(*c14state).key() == b.(*c14state).key() },
	DescribeOperation: func(in, _ interface{}) string {
		return describeEvent(in.(*cEvent))
	},
}

func describeEvent(ev *cEvent) string {
	var s string
	switch ev.K {
	case "mkdir", "list":
		s = fmt.Sprintf("%s(%q)", ev.K, ev.Dir)
	case "create":
		s = fmt.Sprintf("create(%q,%q)", ev.Dir, ev.Name)
	case "open":
		s = fmt.Sprintf("open(%q,%q)", ev.Dir, ev.Name)
	case "append":
		s = fmt.Sprintf("append(fd#%d,%s)", ev.FD, abbr(ev.Data))
		if ev.Nil {
			s = fmt.Sprintf("append(fd#%d,nil)", ev.FD)
		}
	case "close":
		s = fmt.Sprintf("close(fd#%d)", ev.FD)
	case "readat":
		s = fmt.Sprintf("readat(fd#%d,%d,%d)", ev.FD, ev.Off, ev.Len)
	case "delete":
		s = fmt.Sprintf("delete(%q,%q)", ev.Dir, ev.Name)
	case "link":
		s = fmt.Sprintf("link(%q,%q->%q,%q)", ev.Dir, ev.Name, ev.Dir2, ev.Name2)
	case "atomic":
		s = fmt.Sprintf("atomiccreate(%q,%q,%s)", ev.Dir, ev.Name, abbr(ev.Data))
	}
	switch {
	case ev.Panic != "":
		s += " PANIC " + ev.Panic
	case ev.K == "create" || ev.K == "link":
		s += fmt.Sprintf(" = %v", ev.OK)
	case ev.K == "readat":
		s += " = " + abbr(ev.Bytes)
	case ev.K == "list":
		s += fmt.Sprintf(" = %q", ev.Names)
	}
	if ev.K == "create" && ev.OK || ev.K == "open" {
		s += fmt.Sprintf(" -> fd#%d (number %d)", ev.ID, ev.Real)
	}
	return fmt.Sprintf("c%d[%d,%d] %s", ev.Client, ev.Call, ev.Ret, s)
}

func describeHistory(evs []cEvent) []string {
	idx := make([]int, len(evs))
	for i := range idx {
		idx[i] = i
	}
	sort.Slice(idx, func(a, b int) bool { return evs[idx[a]].Call < evs[idx[b]].Call })
	out := make([]string, len(evs))
	for i, k := range idx {
		out[i] = describeEvent(&evs[k])
	}
	return out
}

func checkLinearizable(evs []cEvent, timeout time.Duration) porcupine.CheckResult {
	ops := make([]porcupine.Operation, len(evs))
	for i := range evs {
		ops[i] = porcupine.Operation{ClientId: evs[i].Client, Input: &evs[i], Output: &evs[i], Call: evs[i].Call, Return: evs[i].Ret}
	}
	return porcupine.CheckOperationsTimeout(c14model, ops, timeout)
}

// culprits: make the result of one observing call after another a wildcard;
// a call whose wildcarding keeps the history non-linearizable is not needed to
// explain the failure. What remains names the failing class.
func culprits(evs []cEvent) (kinds []string, kept []string) {
	work := append([]cEvent(nil), evs...)
	for i := range work {
		switch work[i].K {
		case "create", "link", "readat", "list":
			work[i].Wild = true
			if checkLinearizable(work, 20*time.Second) != porcupine.Illegal {
				work[i].Wild = false
			}
		}
	}
	set := map[string]bool{}
	for i := range work {
		switch work[i].K {
		case "create", "link", "readat", "list":
			if !work[i].Wild {
				set[work[i].K] = true
				kept = append(kept, describeEvent(&work[i]))
			}
		}
	}
	for k := range set {
		kinds = append(kinds, k)
	}
	sort.Strings(kinds)
	if len(kinds) == 0 {
		kinds = []string{"calls-without-results"}
	}
	return
}

// ---------------------------------------------------------------- monitors on one history

type c14life struct {
	lfd, real, client int
	openCall, openRet int64
	closeCall         int64 // call stamp of the Close (max int64 if never closed)
	closeRet          int64
	what              string
	path              string // dir/name the descriptor was obtained for
}

const never = int64(1) << 62

func lifetimes(evs []cEvent) []c14life {
	byLfd := map[int]*c14life{}
	var order []int
	for i := range evs {
		ev := &evs[i]
		if ev.Panic == "" && ((ev.K == "create" && ev.OK) || ev.K == "open") {
			byLfd[ev.ID] = &c14life{lfd: ev.ID, real: ev.Real, client: ev.Client, openCall: ev.Call, openRet: ev.Ret,
				closeCall: never, closeRet: never, what: describeEvent(ev), path: ev.Dir + "/" + ev.Name}
			order = append(order, ev.ID)
		}
	}
	for i := range evs {
		if ev := &evs[i]; ev.K == "close" {
			if l := byLfd[ev.FD]; l != nil {
				l.closeCall, l.closeRet = ev.Call, ev.Ret
			}
		}
	}
	out := make([]c14life, 0, len(order))
	for _, id := range order {
		out = append(out, *byLfd[id])
	}
	return out
}

type c14verdict struct {
	sig, what string
	detail    map[string]interface{}
}

// monitorHistory applies the descriptor, panic and linearizability monitors.
func monitorHistory(h *cHistory, timeout time.Duration) (vs []c14verdict, lin string, pairs int, pairKeys map[string]struct{}) {
	evs := h.Events
	detail := func() map[string]interface{} {
		return map[string]interface{}{"impl": h.Impl, "pool": h.Pool, "build": h.Build, "gomaxprocs": h.Procs, "index": h.Idx,
			"patterns": h.Pattern, "history": describeHistory(evs), "events": packedEvents(evs)}
	}
	// overlapping pairs (different clients, intervals intersect on the logical clock)
	pairKeys = map[string]struct{}{}
	for i := range evs {
		for j := i + 1; j < len(evs); j++ {
			a, b := &evs[i], &evs[j]
			if a.Client != b.Client && a.Phase == "concurrent" && b.Phase == "concurrent" && a.Call < b.Ret && b.Call < a.Ret {
				pairs++
				ka, kb := eventClass(a), eventClass(b)
				if ka > kb {
					ka, kb = kb, ka
				}
				same := a.Dir != "" && ((a.Dir == b.Dir && a.Name == b.Name && a.Name != "") || (a.Dir2 == b.Dir && a.Name2 == b.Name && a.Name2 != "") ||
					(b.Dir2 == a.Dir && b.Name2 == a.Name && b.Name2 != "") || (a.Dir2 != "" && a.Dir2 == b.Dir2 && a.Name2 == b.Name2))
				pairKeys[fmt.Sprintf("%s|%s|%s|same-name=%v", h.Impl, ka, kb, same)] = struct{}{}
			}
		}
	}
	// (1) two simultaneously open descriptors with the same number
	lifes := lifetimes(evs)
	// The signature separates two input classes: both descriptors were
	// obtained for the same dir/name (several descriptors of one file), or for
	// different names (numbers of unrelated files collide).
	dupReal := map[int]string{}  // number held twice at a moment both were certainly open -> class
	maybeDup := map[int]string{} // number handed to two opens whose possible lifetimes intersect -> class
	dupWhat := map[string]string{}
	for i := range lifes {
		for j := i + 1; j < len(lifes); j++ {
			a, b := lifes[i], lifes[j]
			if a.real != b.real {
				continue
			}
			cls := ""
			if a.path != b.path {
				cls = "-different-files"
			}
			if a.openRet < b.closeCall && b.openRet < a.closeCall {
				if _, seen := dupWhat[cls]; !seen {
					dupWhat[cls] = fmt.Sprintf("%s and %s hold the same descriptor number %d at the same time", a.what, b.what, a.real)
				}
				if old, ok := dupReal[a.real]; !ok || old == "" {
					dupReal[a.real] = cls
				}
			}
			if a.openCall < b.closeRet && b.openCall < a.closeRet {
				if old, ok := maybeDup[a.real]; !ok || old == "" {
					maybeDup[a.real] = cls
				}
			}
		}
	}
	// (2) panics inside valid calls
	var panics []string
	dupPanics := map[string][]string{}
	npanics := 0
	for i := range evs {
		ev := &evs[i]
		if ev.Panic == "" {
			continue
		}
		npanics++
		usesFD := ev.K == "append" || ev.K == "readat" || ev.K == "close"
		cls, certain := dupReal[ev.Real]
		if !certain {
			cls, certain = maybeDup[ev.Real]
		}
		if usesFD && certain {
			dupPanics[cls] = append(dupPanics[cls], describeEvent(ev))
			continue
		}
		panics = append(panics, describeEvent(ev))
		d := detail()
		d["panic"] = describeEvent(ev)
		vs = append(vs, c14verdict{sig: "panic-" + h.Impl + "-" + ev.K,
			what: fmt.Sprintf("%s panicked inside a valid concurrent call: %s", h.Impl, describeEvent(ev)), detail: d})
	}
	for _, cls := range []string{"", "-different-files"} {
		w, certain := dupWhat[cls]
		if !certain && len(dupPanics[cls]) == 0 {
			continue
		}
		d := detail()
		d["consequent_panics"] = dupPanics[cls]
		if !certain {
			w = "a call on a descriptor whose number was handed to two overlapping opens panicked: " + strings.Join(dupPanics[cls], "; ")
		} else if len(dupPanics[cls]) > 0 {
			w += "; then: " + strings.Join(dupPanics[cls], "; ")
		}
		vs = append(vs, c14verdict{sig: "duplicate-descriptor-" + h.Impl + cls, what: w, detail: d})
	}
	// (3) linearizability of the recorded results (not meaningful once a call
	// panicked: the panicking call has no result and its client stopped)
	if npanics > 0 {
		return vs, "skipped-after-panic", pairs, pairKeys
	}
	switch checkLinearizable(evs, timeout) {
	case porcupine.Ok:
		lin = "ok"
	case porcupine.Unknown:
		lin = "unknown"
	default:
		lin = "illegal"
		kinds, kept := culprits(evs)
		d := detail()
		d["results_needed_for_the_contradiction"] = kept
		suffix := ""
		if len(kinds) == 1 && kinds[0] == "readat" {
			if w := partialBigAppend(evs); w != "" {
				suffix = "-partial-big-append"
				d["partial_big_append"] = w
			}
		}
		vs = append(vs, c14verdict{sig: "nonlinearizable-" + h.Impl + "-" + strings.Join(kinds, "+") + suffix,
			what: fmt.Sprintf("%s: no sequential order of the calls consistent with real time explains the results %s", h.Impl, strings.Join(kept, " ; ")), detail: d})
	}
	return vs, lin, pairs, pairKeys
}

// partialBigAppend looks for the input class "a ReadAt overlapping one big
// Append / AtomicCreate returned part of its data": a concurrent read whose
// result ends inside the payload (≥ 4 KiB, self-identifying) of a call that
// overlapped it in time — as a proper part of it, or with zero bytes where it
// belongs.
func partialBigAppend(evs []cEvent) string {
	for i := range evs {
		rd := &evs[i]
		if rd.K != "readat" || rd.Panic != "" || len(rd.Bytes) == 0 || uint64(len(rd.Bytes)) >= rd.Len { // cut by its own length: says nothing
			continue
		}
		for j := range evs {
			w := &evs[j]
			if (w.K != "append" && w.K != "atomic") || len(w.Data) < 4096 || !(w.Call < rd.Ret && rd.Call < w.Ret) {
				continue
			}
			tag := w.Data[:strings.IndexByte(w.Data, '}')+1] // the stamp that is repeated
			if tag == "" {
				continue
			}
			at := strings.Index(rd.Bytes, tag)
			zeros := strings.Count(rd.Bytes, "\x00")
			switch {
			case at >= 0 && !strings.Contains(rd.Bytes, w.Data):
				return fmt.Sprintf("%s returned %d of the %d bytes of the overlapping %s", describeEvent(rd), len(rd.Bytes)-at, len(w.Data), describeEvent(w))
			case at < 0 && zeros >= 4096:
				return fmt.Sprintf("%s returned %d zero bytes while %s was in flight", describeEvent(rd), zeros, describeEvent(w))
			}
		}
	}
	return ""
}

func eventClass(ev *cEvent) string {
	switch ev.K {
	case "create", "link":
		return fmt.Sprintf("%s=%v", ev.K, ev.OK)
	case "readat":
		if ev.Len == 0 {
			return "readat=zero-length"
		}
		if ev.Bytes == "" {
			return "readat=empty"
		}
		return "readat=data"
	case "append", "atomic":
		if ev.Data == "" {
			return ev.K + "=empty-data"
		}
	case "list":
		return fmt.Sprintf("list=%d", len(ev.Names))
	}
	return ev.K
}

// outcomeHash identifies a history by what was called and what came back
// (timestamps and descriptor numbers left out).
func outcomeHash(h *cHistory) string {
	s := sha256.New()
	evs := append([]cEvent(nil), h.Events...)
	sort.SliceStable(evs, func(i, j int) bool {
		if evs[i].Client != evs[j].Client {
			return evs[i].Client < evs[j].Client
		}
		return evs[i].Call < evs[j].Call
	})
	for _, ev := range evs {
		fmt.Fprintf(s, "%d %s %s %s %s %s %d:", ev.Client, ev.K, ev.Dir, ev.Name, ev.Dir2, ev.Name2, len(ev.Data))
		s.Write([]byte(ev.Data))
		fmt.Fprintf(s, " %d %d %v %d:", ev.Off, ev.Len, ev.OK, len(ev.Bytes))
		s.Write([]byte(ev.Bytes))
		fmt.Fprintf(s, " %q %q\n", ev.Names, ev.Panic)
	}
	return hex.EncodeToString(s.Sum(nil)[:8])
}

// ---------------------------------------------------------------- race reports

var raceFrameRe = regexp.MustCompile(`^\s+(\S+)\(`)

type raceReport struct {
	key   string
	text  string
	repo  bool
	funcs []string
}

func isRepoFile(line string) bool {
	return strings.Contains(line, "/repo/") || strings.Contains(line, "goose-lang/goose/") || strings.Contains(line, "/machine/filesys/")
}

// parseRaceLogs returns the DATA RACE blocks found in files named prefix.*
func parseRaceLogs(prefix string) []raceReport {
	files, _ := filepath.Glob(prefix + ".*")
	var out []raceReport
	for _, f := range files {
		b, err := os.ReadFile(f)
		if err != nil {
			continue
		}
		for _, blk := range strings.Split(string(b), "==================") {
			if !strings.Contains(blk, "WARNING: DATA RACE") {
				continue
			}
			rr := raceReport{text: blk}
			// stacks are separated by blank lines; the first two are the racing accesses
			stacks := strings.Split(strings.TrimSpace(blk), "\n\n")
			for si, st := range stacks {
				if si >= 2 {
					break
				}
				lines := strings.Split(st, "\n")
				outer := ""
				for i := 0; i+1 < len(lines); i++ {
					if m := raceFrameRe.FindStringSubmatch(lines[i]); m != nil && isRepoFile(lines[i+1]) {
						outer = m[1] // keeps the outermost /repo frame of this stack
					}
				}
				if outer != "" {
					rr.repo = true
					if k := strings.LastIndex(outer, "."); k >= 0 {
						outer = outer[k+1:]
					}
					rr.funcs = append(rr.funcs, outer)
				}
			}
			sort.Strings(rr.funcs)
			rr.key = strings.Join(rr.funcs, "+")
			out = append(out, rr)
		}
	}
	return out
}

// ---------------------------------------------------------------- the run

type c14batch struct {
	impl, pool, build string
	procs             int
	start, count      int
	bin               string
}

var fatalRe = regexp.MustCompile(`(?m)^(fatal error|panic): (.*)$`)

func slug(s string) string {
	var b strings.Builder
	for _, c := range strings.ToLower(s) {
		switch {
		case c >= 'a' && c <= 'z', c >= '0' && c <= '9':
			b.WriteRune(c)
		default:
			if b.Len() > 0 && !strings.HasSuffix(b.String(), "-") {
				b.WriteByte('-')
			}
		}
		if b.Len() > 48 {
			break
		}
	}
	return strings.Trim(b.String(), "-")
}

func tail(s string, n int) string {
	if len(s) > n {
		return "…" + s[len(s)-n:]
	}
	return s
}

func runC14(r *core.Run) (bool, string) {
	r.SetRule("a history is 2–4 client goroutines × 3–8 calls on one fresh filesystem (shared directory d, sometimes e; sealed files L,S1,S2; one appender file per client; churn names n1,n2,m1 with Create/Link/AtomicCreate/Delete/List conflicts), preceded by a sequential setup and followed by a sequential read-back of every listed file; " +
		"every call is stamped at the client boundary from one atomic counter (call stamp taken before the invocation, return stamp after the reply). evaluations = recorded calls in histories that were checked; " +
		"distinct = set of (implementation, class of call A, class of call B, same target name?) over pairs of calls of different clients whose intervals overlapped, class = operation + outcome (create/link ok or not, readat empty or data, list size); " +
		"in 40 % of the programs of every pool the role names are replaced by SHAPED names (pattern shaped-names; same structure, names from the C12 catalogue: the churn names become a stem and a reserved-looking shape of it — n and n.tmp, n.<digits>-<digits>.tmp, .n.tmp, #n#, n~ … — in one directory, the second directory's churn name repeats one of them, a sealed file is named like its directory, directories are shaped / differ only by case / are called <d>.tmp; all below 120 bytes); " +
		"in 7 % of the programs of every pool (pattern big-payloads) the first appends of every appender file become header + body + trailer with a body of 0, 1, 4 KiB, 64 KiB−1, 64 KiB, 64 KiB+1, 256 KiB or 1 MiB, the first AtomicCreate of every owner writes such a payload, and in pools B and C another client polls each such file (whole-file reads and reads across the borders of the bodies) while it grows; payloads are a tag (history, client, sequence number) repeated to the length; " +
		"payload matrix (payload_matrix_* keys): for each of those sizes a writer appends header + body + trailer round after round (or AtomicCreates a record of that size) while readers poll through their own descriptors from the offset they have verified, with no harness synchronisation; each reader checks that what it reads is a sequence of whole appends in order / one whole record of a round not older than the last one seen; plain and -race builds of both implementations; " +
		"pool A keeps at most one open descriptor per inode, pool B adds 'several clients open one sealed file' and 'open while another client appends', pool C is pool B's mix with boundary arguments (empty and nil data for Append / AtomicCreate, zero-length ReadAt, offsets at / beyond / far beyond the end, reads crossing the end). " +
		"Boundary-argument matrix (matrix_* keys): every operation class = operation + boundary argument (empty / nil slices for Append and AtomicCreate, zero-length ReadAt, offsets at / beyond / far beyond EOF, reads crossing EOF, empty files and directories, names that exist / are free / are used by both goroutines, Mkdir, and on MemFs the refused calls: closed descriptor, wrong mode, missing name or directory) is looped by one goroutine while a second goroutine loops every class (itself included) on one fresh filesystem, with no harness synchronisation between start barrier and join; plain and -race builds; " +
		"a pair counts as 'ran concurrently' when the monotonic-clock [before,after] intervals of at least one call of each goroutine intersect; each class checks only what holds in every linearization, refused classes decide only races and process death; " +
		"namespace-invariant family (list_invariant_* keys): a directory of 0 / 300 / 1000 short or 120 200-byte static names (1 … 20 getdents buffers) that nobody touches, 1 or 3 mutator goroutines that each run a chain of tokens over fresh names — at-least-one: appear(t i+1) then Delete(t i); at-most-one: Delete(t i) then appear(t i+1); created-in-order: appear(t 1), appear(t 2), … (the tokens are always t0 … tm); deleted-in-order: Delete(t 0), Delete(t 1), … of 300 tokens (always tm … t299), chains of ONE kind of operation so that a single operation that is not atomic with respect to List shows; appear = Create+Close / AtomicCreate / Link; plus one directory of 12 000 names with an AtomicCreate chain (a List there spans several AtomicCreates) — and 1 or 2 listers looping List, no harness synchronisation besides two atomic counters per chain (operations started / completed): a List invoked after lo operations of a chain had completed and returned before operation hi started must show the chain's token set of SOME instant in [lo, hi] (closed form), every static name exactly once and nothing else; MemFs and DirFs, plain and -race builds")
	r.Assume("every issued call is valid in every order consistent with real time (names that are deleted are only touched by Create, Link-target, List and their single owner; AtomicCreate of a name only by its owner; concurrent AtomicCreates of different names, also of a name and of its reserved-looking shapes, do happen); names are legal single path components, nothing else is reserved")
	r.Assume("in the history layers and the matrices directories hold at most 8 entries, so DirFs.List needs one getdents call there; Lists that need several calls while other names of the directory come and go are the namespace-invariant family, whose 0-static-name cells stay within one buffer")
	r.Assume("the logical clock is sound for real-time order: if ret(A) < call(B) on the counter then A returned before B was invoked")
	r.Assume("schedules are whatever the Go runtime produces under GOMAXPROCS 1,2,4,16 with Gosched salting; the race detector reports only races on accesses that actually happened")

	if r.Replay != "" {
		return c14Replay(r)
	}
	self, err := os.Executable()
	if err != nil {
		r.Inconclusive("cannot find own binary")
		return false, "cannot find own binary"
	}
	raceBin, err := r.BuildSelf("-race")
	if err != nil {
		r.Inconclusive("race build failed: " + err.Error())
		fmt.Println("race build failed:", err)
		return false, "the -race child could not be built"
	}
	perA := r.Pick(400, 10000) // histories per (impl, build, gomaxprocs) in pool A
	perB := r.Pick(120, 2500)
	perC := r.Pick(120, 2500)
	var batches []c14batch
	for _, impl := range []string{"memfs", "dirfs"} {
		for _, build := range []string{"plain", "race"} {
			bin := self
			if build == "race" {
				bin = raceBin
			}
			for pi, procs := range []int{1, 2, 4, 16} {
				batches = append(batches, c14batch{impl, "A", build, procs, pi * perA, perA, bin})
				batches = append(batches, c14batch{impl, "B", build, procs, pi * perB, perB, bin})
				batches = append(batches, c14batch{impl, "C", build, procs, pi * perC, perC, bin})
			}
		}
	}
	raceDir := filepath.Join(r.Scratch, "race")
	os.MkdirAll(raceDir, 0o755)
	var mu sync.Mutex
	childLog := []string{}
	lin := map[string]int{}
	poolCount := map[string]int{}
	var pairsTotal int64
	nHist := 0
	pairsBy := map[string]int64{}
	outcomes := map[string]struct{}{}
	check := func(h *cHistory, sample bool) {
		vs, l, pairs, keys := monitorHistory(h, 60*time.Second)
		if l == "unknown" {
			r.Inconclusive("porcupine timeout (60 s)")
		}
		r.Eval(len(h.Events))
		for k := range keys {
			r.Distinct(k)
		}
		oh := outcomeHash(h)
		np := 0
		for i := range h.Events {
			if h.Events[i].Panic != "" {
				np++
			}
		}
		r.Count("panics_recorded_inside_calls", int64(np))
		for _, pat := range h.Pattern {
			if pat == "big-payloads" {
				r.Count("histories_with_big_payloads/"+h.Impl, 1)
				for i := range h.Events {
					ev := &h.Events[i]
					if ev.Phase == "concurrent" && (ev.K == "append" || ev.K == "atomic") && len(ev.Data) >= 4096 {
						r.Count(fmt.Sprintf("concurrent_big_payload_calls/%s/%d", ev.K, len(ev.Data)), 1)
					}
					if ev.Phase == "concurrent" && ev.K == "readat" && len(ev.Bytes) >= 4096 {
						r.Count("concurrent_reads_returning_4KiB_or_more", 1)
					}
				}
			}
			if pat == "shaped-names" {
				r.Count("histories_with_shaped_names/"+h.Impl, 1)
				cls := map[string]int64{}
				for i := range h.Events {
					if h.Events[i].Phase != "concurrent" {
						continue
					}
					for _, n := range []string{h.Events[i].Name, h.Events[i].Name2} {
						if c := nameClass(n); c != "" {
							cls[c]++
						}
					}
				}
				for c, n := range cls {
					r.Count("concurrent_calls_by_name_class/"+c, n)
				}
			}
		}
		mu.Lock()
		nHist++
		lin[h.Impl+"/"+h.Pool+"/"+l]++
		poolCount[h.Impl+"/"+h.Pool+"/"+h.Build]++
		pairsTotal += int64(pairs)
		pairsBy[fmt.Sprintf("%s/gomaxprocs=%d", h.Impl, h.Procs)] += int64(pairs)
		outcomes[oh] = struct{}{}
		mu.Unlock()
		for _, v := range vs {
			r.Count("violating_histories/"+h.Pool+"/"+v.sig, 1)
			r.Violate(v.sig, v.what, v.detail)
		}
		if sample {
			r.Sample(10, map[string]interface{}{"impl": h.Impl, "pool": h.Pool, "build": h.Build, "gomaxprocs": h.Procs, "index": h.Idx,
				"porcupine": l, "overlapping_pairs": pairs, "history": describeHistory(h.Events)})
		}
	}
	// children: a few at a time so that a GOMAXPROCS=16 child really has
	// cores; the histories of a batch are checked as soon as it returns
	core.Parallel(len(batches), 3, func(bi int) {
		b := batches[bi]
		tag := fmt.Sprintf("%s-%s-%s-p%d", b.impl, b.pool, b.build, b.procs)
		out := filepath.Join(r.Scratch, "hist-"+tag+".jsonl")
		root := filepath.Join(r.Scratch, "root-"+tag)
		os.MkdirAll(root, 0o755)
		racePrefix := filepath.Join(raceDir, tag)
		env := append(os.Environ(), "GORACE=halt_on_error=0 exitcode=0 log_path="+racePrefix)
		args := []string{"child", "c14-client", b.impl, b.pool, b.build, strconv.FormatInt(r.Seed, 10), strconv.Itoa(b.start), strconv.Itoa(b.count), strconv.Itoa(b.procs), out, root}
		mu.Lock()
		childLog = append(childLog, b.bin+" "+strings.Join(args, " "))
		mu.Unlock()
		res := core.Exec(r.Scratch, env, 20*time.Minute, "", b.bin, args...)
		hs, last := readHistories(out)
		os.Remove(out)
		os.RemoveAll(root)
		r.Count("children_run", 1)
		switch {
		case res.TimedOut:
			r.Inconclusive("child watchdog fired: " + tag)
		case res.Code != 0:
			cls := "exit-" + strconv.Itoa(res.Code)
			if m := fatalRe.FindStringSubmatch(res.Stderr); m != nil {
				cls = slug(m[2])
			}
			p := genProgram(r.Seed, b.pool, last)
			r.Violate("child-crash-"+b.impl+"-"+cls, fmt.Sprintf("the %s %s child (GOMAXPROCS=%d, pool %s) died while running history %d: %s", b.impl, b.build, b.procs, b.pool, last, tail(firstLines(res.Stderr, 3), 300)),
				map[string]interface{}{"impl": b.impl, "build": b.build, "pool": b.pool, "gomaxprocs": b.procs, "index": last, "exit": res.Code, "program": p, "stderr_tail": tail(res.Stderr, 3000), "command": b.bin + " " + strings.Join(args, " ")})
			r.Count("children_crashed", 1)
		}
		core.Parallel(len(hs), 6, func(i int) { check(hs[i], i == 1 && b.procs == 4) })
	})
	var listInvOverlaps int64
	{
		var pwg sync.WaitGroup
		pwg.Add(1)
		go func() {
			defer pwg.Done()
			c14PayloadMatrix(r, self, raceBin, raceDir, &childLog, &mu)
		}()
		// namespace-invariant family: multi-buffer Lists during churn (c14listinv.go)
		pwg.Add(1)
		go func() {
			defer pwg.Done()
			listInvOverlaps = c14ListInvariant(r, self, raceBin, raceDir, &childLog, &mu)
		}()
		// payload size × short transfers, under the tracer of c12short.go (c14shortpayload.go)
		pwg.Add(1)
		go func() {
			defer pwg.Done()
			c14ShortPayload(r, self, &childLog, &mu)
		}()
		c14Matrix(r, self, raceBin, raceDir, &childLog, &mu)
		pwg.Wait()
	}
	r.Set("child_commands", childLog)
	r.Set("histories", nHist)
	r.Set("histories_by_impl_pool_build", poolCount)
	r.Set("porcupine_verdicts_by_impl_pool", lin)
	r.Set("overlapping_call_pairs", pairsTotal)
	r.Set("overlapping_call_pairs_by_impl_and_gomaxprocs", pairsBy)
	r.Set("distinct_history_outcomes", len(outcomes))

	// race reports
	reports := parseRaceLogs(filepath.Join(raceDir, "*"))
	repoReports := 0
	seen := map[string]bool{}
	for _, rr := range reports {
		if !rr.repo {
			r.Count("race_reports_without_repo_frame", 1)
			continue
		}
		repoReports++
		impl := "memfs"
		if strings.Contains(rr.text, "filesys.DirFs") {
			impl = "dirfs"
		}
		sig := "race-" + impl + "-" + rr.key
		if !seen[sig] {
			seen[sig] = true
			r.Violate(sig, "the race detector reports a data race inside /repo: "+tail(firstLines(rr.text, 12), 900), map[string]interface{}{"report": rr.text})
		}
	}
	r.Set("race_reports_total", len(reports))
	r.Set("race_reports_with_repo_frame", repoReports)
	r.Set("race_reports_distinct", len(seen))

	if nHist < len(batches) {
		return false, "almost no history came back from the children"
	}
	if listInvOverlaps < 200 && r.NumViolations() == 0 {
		return false, fmt.Sprintf("only %d Lists of a multi-buffer directory overlapped a mutation of that directory", listInvOverlaps)
	}
	return pairsTotal >= 1000, fmt.Sprintf("only %d overlapping call pairs were observed", pairsTotal)
}

func firstLines(s string, n int) string {
	l := strings.Split(strings.TrimSpace(s), "\n")
	if len(l) > n {
		l = l[:n]
	}
	return strings.Join(l, " | ")
}

// readHistories parses the child's output; last is the index announced last.
func readHistories(path string) (hs []*cHistory, last int) {
	f, err := os.Open(path)
	if err != nil {
		return nil, -1
	}
	defer f.Close()
	last = -1
	sc := bufio.NewScanner(f)
	sc.Buffer(make([]byte, 1<<20), 64<<20)
	for sc.Scan() {
		line := sc.Bytes()
		if strings.HasPrefix(string(line[:min(len(line), 10)]), `{"begin"`) {
			var b struct{ Begin int }
			if json.Unmarshal(line, &b) == nil {
				last = b.Begin
			}
			continue
		}
		var h cHistory
		if json.Unmarshal(line, &h) == nil && len(h.Events) > 0 {
			for i := range h.Events {
				h.Events[i].unpack()
			}
			hs = append(hs, &h)
		}
	}
	return hs, last
}

// c14Replay re-applies the monitors to the recorded history of a replay file
// (a schedule cannot be replayed; the recorded calls and results can be
// re-judged).
func c14Replay(r *core.Run) (bool, string) {
	b, err := os.ReadFile(r.Replay)
	if err != nil {
		r.Inconclusive("replay file unreadable")
		return false, "replay file unreadable"
	}
	var f struct {
		Detail struct {
			Impl   string   `json:"impl"`
			Pool   string   `json:"pool"`
			Build  string   `json:"build"`
			Procs  int      `json:"gomaxprocs"`
			Idx    int      `json:"index"`
			Events []cEvent `json:"events"`
		} `json:"detail"`
	}
	if err := json.Unmarshal(b, &f); err != nil || len(f.Detail.Events) == 0 {
		r.Inconclusive("replay file holds no recorded history")
		return false, "replay file holds no recorded history"
	}
	for i := range f.Detail.Events {
		f.Detail.Events[i].unpack()
	}
	h := &cHistory{Idx: f.Detail.Idx, Impl: f.Detail.Impl, Pool: f.Detail.Pool, Build: f.Detail.Build, Procs: f.Detail.Procs, Events: f.Detail.Events}
	vs, l, pairs, keys := monitorHistory(h, 60*time.Second)
	r.Eval(len(h.Events))
	for k := range keys {
		r.Distinct(k)
	}
	for _, v := range vs {
		r.Violate(v.sig, v.what, v.detail)
	}
	r.Set("overlapping_call_pairs", int64(pairs))
	r.Sample(1, map[string]interface{}{"replayed": describeHistory(h.Events), "porcupine": l})
	return true, ""
}
