package fsp

import (
	"bufio"
	"bytes"
	"encoding/json"
	"fmt"
	"os"
	"path/filepath"
	"runtime"
	"sort"
	"strconv"
	"strings"
	"sync"
	"sync/atomic"
	"time"

	"verif/core"
	"verif/props"

	"github.com/goose-lang/goose/machine/filesys"
)

// C14, dimension "how much of the directory a List has to read while OTHER
// names of it come and go". The statement: "Link/Delete/List/ReadAt observe
// states consistent with one sequential order respecting real time". The
// history layers keep directories below 8 entries, where one getdents call
// returns everything; a directory that needs several calls is read piece by
// piece, and a name created or deleted between two pieces is seen or missed
// depending on where the host file system keeps it.
//
// Family: a directory holds N static files (N and the name length chosen so
// that the entries fill 1 … 20 getdents buffers of 4096 bytes: 0, 300 and
// 1000 short names, 120 names of 200 bytes) that nobody touches. 1 or 3
// mutator goroutines each move a TOKEN through fresh names t<chain>-<i>,
//
//	at-least-one:      appear(t i+1) then Delete(t i)   — one or two consecutive tokens exist at every instant
//	at-most-one:       Delete(t i) then appear(t i+1)   — one or none
//	created-in-order:  appear(t 1), appear(t 2), …      — the tokens that exist are always t0 … tm
//	deleted-in-order:  Delete(t 0), Delete(t 1), …      — the tokens that exist are always tm … tK-1
//
// where `appear` is Create+Close, AtomicCreate or Link from a static file,
// while 1 or 2 listers loop List(d). The first two need two changes inside
// one List to show anything, an appearance and a disappearance; the in-order
// chains (K = 300 tokens; 40 in all beside 0 static names, so that those
// cells stay within one buffer) consist of ONE kind of operation each, so that a single
// operation that is not atomic with respect to List shows by itself. One
// more directory holds 12 000 names under an AtomicCreate chain: an
// AtomicCreate ends with an fsync and takes as long as several Lists of the
// other directories, there one List spans several of them. There is no
// harness synchronisation besides two atomic counters per chain (operations
// started / completed).
//
// Oracle, exact for the tokens and cheap: the state of chain j after m of its
// operations is known in closed form. A List that was invoked after `lo`
// operations had completed and returned before more than `hi` had started
// must show, for every chain, the token set of SOME m in [lo, hi] (any
// linearization point of the List lies in that window; chains are
// independent goroutines, so every combination is allowed: sound). And every
// List must contain each static name exactly once, nothing else, no name
// twice. MemFs and DirFs, plain and -race builds. The N = 0 cells hold a
// few dozen names at most, one getdents buffer; they are NOT a control that
// has to pass on a DirFs whose List is a loop of getdents calls: that loop
// always makes a second call to see the end, and on ext4 a directory that is
// converted from its small in-inode form to a block between the two calls
// has that second call return the entries behind the old position (seen
// once: t0 t3…t12 without t1 t2, in the first List of a cell). What shows
// that the oracle is not too strict is MemFs, and DirFs once List excludes
// the mutators: silent in every cell at every seed.

func init() {
	props.Children["c14-list-invariant"] = c14ListInvChild
}

type liSpec struct {
	N       int    `json:"static_names"`
	NameLen int    `json:"static_name_bytes"`
	Mode    string `json:"invariant"` // at-least-one | at-most-one | created-in-order | deleted-in-order
	K       int    `json:"tokens_of_an_in_order_chain,omitempty"`
	Chains  int    `json:"token_chains"`
	Appear  string `json:"appear_by"` // create | atomiccreate | link
	Listers int    `json:"listers"`
	Lists   int    `json:"lists_per_lister"`
	Salt    uint64 `json:"name_salt"`
}

func (s liSpec) label() string {
	return fmt.Sprintf("%d static names of %d bytes, %d chain(s) %s by %s, %d lister(s)", s.N, s.NameLen, s.Chains, s.Mode, s.Appear, s.Listers)
}

type liAnomaly struct {
	Kind   string `json:"kind"`
	List   int64  `json:"list_number"`
	Detail string `json:"detail"`
}

type liCell struct {
	Spec        liSpec         `json:"spec"`
	Lists       int64          `json:"lists"`
	Overlapping int64          `json:"lists_overlapping_a_mutation"`
	Steps       int64          `json:"mutator_operations"`
	TwoTokens   int64          `json:"lists_showing_two_tokens_of_a_chain"`
	NoToken     int64          `json:"lists_showing_no_token_of_a_chain"`
	Count       map[string]int `json:"anomaly_count,omitempty"`
	Anomalies   []liAnomaly    `json:"anomalies,omitempty"`
}

// liSpecs is a function of the seed only.
func liSpecs(seed int64, impl, build string, quick bool) []liSpec {
	rng := core.NewRng(seed, "c14-list-invariant")
	salt := rng.U64()
	type dirShape struct{ n, l int }
	shapes := []dirShape{{0, 5}, {300, 5}, {1000, 5}, {120, 200}}
	if !quick {
		shapes = append(shapes, dirShape{600, 12}, dirShape{3000, 5}, dirShape{40, 255})
	}
	lists := 60
	if impl == "memfs" {
		lists = 400
	}
	if !quick {
		lists *= 8
	}
	if build == "race" {
		lists /= 2
	}
	var out []liSpec
	k := 0
	if impl == "dirfs" && build == "plain" {
		// an AtomicCreate ends with an fsync and so takes as long as several
		// Lists of the directories below; a directory big enough that one List
		// spans several AtomicCreates of one chain
		out = append(out, liSpec{N: 12000, NameLen: 5, Mode: "created-in-order", K: 300, Chains: 1, Appear: "atomiccreate", Listers: 1, Lists: 40, Salt: salt})
	}
	for _, sh := range shapes {
		for _, mode := range []string{"at-least-one", "at-most-one", "created-in-order", "deleted-in-order"} {
			for _, ap := range []string{"create", "atomiccreate", "link"} {
				if mode == "deleted-in-order" && ap != "create" {
					continue // nothing appears in it
				}
				chains, listers := 1, 1
				// the 3-chain / 2-lister variants rotate through the grid
				k++
				if k%4 == 1 {
					chains = 3
				}
				if k%5 == 2 {
					listers = 2
				}
				if build == "race" && quick && sh.n != 0 && sh.n != 300 {
					continue
				}
				nl := lists
				if ap == "atomiccreate" && impl == "dirfs" {
					// an AtomicCreate (fsync) takes several Lists: more Lists, so that a
					// comparable number of renames lands inside one
					nl *= 4
				}
				K := 0
				if strings.HasSuffix(mode, "-in-order") {
					K = 300
					if sh.n == 0 {
						K = 40 / chains
					}
				}
				out = append(out, liSpec{N: sh.n, NameLen: sh.l, Mode: mode, K: K, Chains: chains, Appear: ap, Listers: listers, Lists: nl, Salt: salt})
			}
		}
	}
	return out
}

func liStaticName(s liSpec, i int) string {
	n := fmt.Sprintf("s%04d", i)
	if len(n) >= s.NameLen {
		return n
	}
	var b strings.Builder
	b.WriteString(n)
	x := s.Salt + uint64(i)*0x9E3779B97F4A7C15
	for b.Len() < s.NameLen {
		x = x*6364136223846793005 + 1442695040888963407
		b.WriteByte("abcdefghijklmnopqrstuvwxyz0123456789"[(x>>33)%36])
	}
	return b.String()
}

func liToken(s liSpec, chain, i int) string {
	return fmt.Sprintf("t%d-%d-%x", chain, i, (s.Salt+uint64(i)*2654435761)&0xfff)
}

func liParseToken(n string) (chain, i int, ok bool) {
	if !strings.HasPrefix(n, "t") {
		return
	}
	f := strings.Split(n[1:], "-")
	if len(f) != 3 {
		return
	}
	c, e1 := strconv.Atoi(f[0])
	k, e2 := strconv.Atoi(f[1])
	return c, k, e1 == nil && e2 == nil
}

// liState: the tokens (indexes) of a chain after m of its operations.
func liState(s liSpec, m int64) []int {
	mode := s.Mode
	switch mode {
	case "created-in-order":
		out := make([]int, 0, m+1)
		for i := 0; i <= int(m); i++ {
			out = append(out, i)
		}
		return out
	case "deleted-in-order":
		out := make([]int, 0, s.K)
		for i := int(m); i < s.K; i++ {
			out = append(out, i)
		}
		return out
	}
	i := int(m / 2)
	if m%2 == 0 {
		return []int{i}
	}
	if mode == "at-least-one" {
		return []int{i, i + 1}
	}
	return []int{}
}

// intRanges renders a sorted list of indexes as ranges: "0…17 19…40".
func intRanges(a []int) string {
	if len(a) == 0 {
		return "(none)"
	}
	var parts []string
	for i := 0; i < len(a); {
		j := i
		for j+1 < len(a) && a[j+1] == a[j]+1 {
			j++
		}
		if j > i {
			parts = append(parts, fmt.Sprintf("%d…%d", a[i], a[j]))
		} else {
			parts = append(parts, fmt.Sprint(a[i]))
		}
		i = j + 1
		if len(parts) >= 12 {
			parts = append(parts, "…")
			break
		}
	}
	return strings.Join(parts, " ")
}

func sameInts(a, b []int) bool {
	if len(a) != len(b) {
		return false
	}
	for i := range a {
		if a[i] != b[i] {
			return false
		}
	}
	return true
}

func liRunCell(fs filesys.Filesys, s liSpec) (cell liCell) {
	cell.Spec = s
	cell.Count = map[string]int{}
	var mu sync.Mutex
	anomaly := func(kind string, list int64, detail string) {
		mu.Lock()
		cell.Count[kind]++
		if cell.Count[kind] <= 3 {
			cell.Anomalies = append(cell.Anomalies, liAnomaly{kind, list, detail})
		}
		mu.Unlock()
	}
	call := func(f func()) (p string) {
		defer func() {
			if e := recover(); e != nil {
				p = fmt.Sprint(e)
				if p == "" {
					p = "panic"
				}
			}
		}()
		f()
		return ""
	}
	const d = "d"
	staticIdx := map[string]int{}
	if p := call(func() {
		fs.Mkdir(d)
		for i := 0; i < s.N; i++ {
			n := liStaticName(s, i)
			staticIdx[n] = i
			f, ok := fs.Create(d, n)
			if !ok {
				panic("setup: Create of a fresh static name refused")
			}
			fs.Close(f)
		}
		// the link source is a static file of its own
		staticIdx["src"] = s.N
		fs.AtomicCreate(d, "src", []byte("x"))
		for j := 0; j < s.Chains; j++ {
			fs.AtomicCreate(d, liToken(s, j, 0), []byte("t"))
			if s.Mode == "deleted-in-order" {
				for i := 1; i < s.K; i++ {
					f, ok := fs.Create(d, liToken(s, j, i))
					if !ok {
						panic("setup: Create of a fresh token name refused")
					}
					fs.Close(f)
				}
			}
		}
	}); p != "" {
		anomaly("setup-failed", -1, p)
		return
	}
	nStatic := s.N + 1
	started := make([]int64, s.Chains)
	done := make([]int64, s.Chains)
	var stop int32
	var lwg, mwg sync.WaitGroup
	var start sync.WaitGroup
	start.Add(1)
	appear := func(name string) string {
		return call(func() {
			switch s.Appear {
			case "create":
				f, ok := fs.Create(d, name)
				if !ok {
					panic("Create of a name that never existed returned false")
				}
				fs.Close(f)
			case "atomiccreate":
				fs.AtomicCreate(d, name, []byte("t"))
			case "link":
				if !fs.Link(d, "src", d, name) {
					panic("Link to a name that never existed returned false")
				}
			}
		})
	}
	const maxSteps = 1 << 20
	for j := 0; j < s.Chains; j++ {
		mwg.Add(1)
		go func(j int) {
			defer mwg.Done()
			start.Wait()
			steps := int64(maxSteps)
			switch s.Mode {
			case "created-in-order":
				steps = int64(s.K - 1)
			case "deleted-in-order":
				steps = int64(s.K)
			}
			for m := int64(0); m < steps && atomic.LoadInt32(&stop) == 0; m++ {
				i := int(m / 2)
				first := m%2 == 0
				atomic.AddInt64(&started[j], 1)
				var p string
				switch {
				case s.Mode == "created-in-order":
					p = appear(liToken(s, j, int(m)+1))
				case s.Mode == "deleted-in-order":
					p = call(func() { fs.Delete(d, liToken(s, j, int(m))) })
				case first == (s.Mode == "at-least-one"):
					p = appear(liToken(s, j, i+1))
				default:
					p = call(func() { fs.Delete(d, liToken(s, j, i)) })
				}
				if p != "" {
					// the chain's state is no longer known: stop it, and the listers
					// stop judging (stop is set)
					anomaly("mutator-call-failed", m, fmt.Sprintf("chain %d, operation %d: %s", j, m, p))
					atomic.StoreInt32(&stop, 2)
					return
				}
				atomic.AddInt64(&done[j], 1)
				atomic.AddInt64(&cell.Steps, 1)
			}
		}(j)
	}
	for l := 0; l < s.Listers; l++ {
		lwg.Add(1)
		go func(l int) {
			defer lwg.Done()
			start.Wait()
			lo := make([]int64, s.Chains)
			hi := make([]int64, s.Chains)
			seen := make([]uint8, nStatic)
			for it := 0; it < s.Lists && atomic.LoadInt32(&stop) != 2; it++ {
				for j := range lo {
					lo[j] = atomic.LoadInt64(&done[j])
				}
				var names []string
				p := call(func() { names = fs.List(d) })
				for j := range hi {
					hi[j] = atomic.LoadInt64(&started[j])
				}
				if atomic.LoadInt32(&stop) == 2 {
					return
				}
				ln := atomic.AddInt64(&cell.Lists, 1)
				if p != "" {
					anomaly("list-panics", ln, p)
					continue
				}
				over := false
				for j := range lo {
					if hi[j] > lo[j] {
						over = true
					}
				}
				if over {
					atomic.AddInt64(&cell.Overlapping, 1)
				}
				for i := range seen {
					seen[i] = 0
				}
				toks := make([][]int, s.Chains)
				for _, n := range names {
					if i, ok := staticIdx[n]; ok {
						if seen[i] < 200 {
							seen[i]++
						}
						continue
					}
					if j, i, ok := liParseToken(n); ok && j < s.Chains {
						toks[j] = append(toks[j], i)
						continue
					}
					anomaly("name-nobody-created", ln, fmt.Sprintf("List returned %q", abbr(n)))
				}
				missing, twice := 0, 0
				ex := ""
				for i, c := range seen {
					if c == 0 {
						missing++
					} else if c > 1 {
						twice++
					}
					if c != 1 && ex == "" {
						ex = fmt.Sprintf("static name #%d listed %d times", i, c)
					}
				}
				if missing > 0 {
					anomaly("static-name-missing", ln, fmt.Sprintf("%d of the %d names nobody touches are missing (%s); the List returned %d names", missing, nStatic, ex, len(names)))
				}
				if twice > 0 {
					anomaly("static-name-listed-twice", ln, fmt.Sprintf("%d of the %d names nobody touches are listed more than once (%s)", twice, nStatic, ex))
				}
				for j := range toks {
					sort.Ints(toks[j])
					switch len(toks[j]) {
					case 0:
						atomic.AddInt64(&cell.NoToken, 1)
					case 2:
						atomic.AddInt64(&cell.TwoTokens, 1)
					}
					if s.K > 0 {
						// in-order chain: the tokens are t0 … tm resp. tm … tK-1 for
						// one m of the window
						x, shape := int64(-1), true
						switch {
						case s.Mode == "created-in-order":
							x = int64(len(toks[j])) - 1
							for i, t := range toks[j] {
								shape = shape && t == i
							}
						default:
							x = int64(s.K - len(toks[j]))
							for i, t := range toks[j] {
								shape = shape && t == int(x)+i
							}
						}
						if !shape || x < lo[j] || x > hi[j] {
							want := fmt.Sprintf("t0 … tm for one m in [%d, %d]", lo[j], hi[j])
							if s.Mode == "deleted-in-order" {
								want = fmt.Sprintf("tm … t%d for one m in [%d, %d]", s.K-1, lo[j], hi[j])
							}
							anomaly("tokens-of-no-instant", ln, fmt.Sprintf("chain %d (%s): the List shows the tokens %s (and %d other names); it was invoked after %d operations of the chain had completed and returned before operation %d started, so they must be %s",
								j, s.Mode, intRanges(toks[j]), len(names)-len(toks[j]), lo[j], hi[j], want))
						}
						continue
					}
					ok := false
					minLen, maxLen := 1<<30, -1
					for m := lo[j]; m <= hi[j]; m++ {
						st := liState(s, m)
						if sameInts(st, toks[j]) {
							ok = true
							break
						}
						if len(st) < minLen {
							minLen = len(st)
						}
						if len(st) > maxLen {
							maxLen = len(st)
						}
					}
					if ok {
						continue
					}
					// one signature for the one defect; the text says which way
					kind := "tokens-of-no-instant"
					how := "a mixture of generations"
					switch {
					case len(toks[j]) < minLen:
						how = "FEWER tokens than exist at any of those instants"
					case len(toks[j]) > maxLen:
						how = "MORE tokens than exist at any of those instants"
					}
					var allowed []string
					for m := lo[j]; m <= hi[j] && len(allowed) < 6; m++ {
						allowed = append(allowed, fmt.Sprint(liState(s, m)))
					}
					anomaly(kind, ln, fmt.Sprintf("chain %d: the List shows the tokens %v (and %d other names); it was invoked after %d operations of the chain had completed and returned before operation %d started: the token sets of those instants are %s — %s",
						j, toks[j], len(names)-len(toks[j]), lo[j], hi[j], strings.Join(allowed, " "), how))
				}
			}
		}(l)
	}
	start.Done()
	lwg.Wait()
	if atomic.LoadInt32(&stop) == 0 {
		atomic.StoreInt32(&stop, 1)
	}
	mwg.Wait()
	return
}

// c14ListInvChild: vcheck child c14-list-invariant <impl> <build> <gomaxprocs> <seed> <tier> <outfile> <rootdir>
func c14ListInvChild(args []string) int {
	if len(args) != 7 {
		fmt.Fprintln(os.Stderr, "c14-list-invariant: bad arguments")
		return 2
	}
	impl, build := args[0], args[1]
	procs, _ := strconv.Atoi(args[2])
	seed, _ := strconv.ParseInt(args[3], 10, 64)
	out, err := os.Create(args[5])
	if err != nil {
		fmt.Fprintln(os.Stderr, err)
		return 2
	}
	defer out.Close()
	runtime.GOMAXPROCS(procs)
	w := bufio.NewWriter(out)
	for idx, s := range liSpecs(seed, impl, build, args[4] != "thorough") {
		fmt.Fprintf(w, "{\"begin\":%d}\n", idx)
		w.Flush()
		var fs filesys.Filesys
		cleanup := func() {}
		switch impl {
		case "memfs":
			fs = filesys.NewMemFs()
		case "dirfs":
			dir := filepath.Join(args[6], fmt.Sprintf("l%d", idx))
			if err := os.MkdirAll(dir, 0o755); err != nil {
				fmt.Fprintln(os.Stderr, err)
				return 2
			}
			dd := filesys.NewDirFs(dir)
			fs, cleanup = dd, func() { guarded(func() { dd.CloseFs() }); os.RemoveAll(dir) }
		default:
			return 2
		}
		cell := liRunCell(fs, s)
		cleanup()
		b, _ := json.Marshal(cell)
		w.Write(b)
		w.WriteByte('\n')
		w.Flush()
	}
	return 0
}

// c14ListInvariant runs the children (race logs go to raceDir and are parsed
// by the caller with all the others) and reports, per signature, the cell
// with the fewest static names that fails.
func c14ListInvariant(r *core.Run, self, raceBin, raceDir string, childLog *[]string, mu *sync.Mutex) (multiBufferOverlaps int64) {
	batches := []mxBatch{{"memfs", "plain", 4, self}, {"memfs", "race", 4, raceBin}, {"dirfs", "plain", 4, self}, {"dirfs", "race", 4, raceBin}}
	type agg struct {
		cells []liCell
		b     mxBatch
	}
	found := map[string]*agg{}
	var lists, overl, multi, multiOver, steps, two, none int64
	cellsRun := 0
	overBy := map[string]int64{}
	core.Parallel(len(batches), 2, func(bi int) {
		b := batches[bi]
		tag := fmt.Sprintf("listinv-%s-%s-p%d", b.impl, b.build, b.procs)
		out := filepath.Join(r.Scratch, tag+".jsonl")
		root := filepath.Join(r.Scratch, "root-"+tag)
		os.MkdirAll(root, 0o755)
		defer os.RemoveAll(root)
		env := append(os.Environ(), "GORACE=halt_on_error=0 exitcode=0 log_path="+filepath.Join(raceDir, tag))
		args := []string{"child", "c14-list-invariant", b.impl, b.build, strconv.Itoa(b.procs), strconv.FormatInt(r.Seed, 10), r.Tier, out, root}
		mu.Lock()
		*childLog = append(*childLog, b.bin+" "+strings.Join(args, " "))
		mu.Unlock()
		res := core.Exec(r.Scratch, env, 10*time.Minute, "", b.bin, args...)
		r.Count("list_invariant_children_run", 1)
		last := -1
		if f, err := os.Open(out); err == nil {
			sc := bufio.NewScanner(f)
			sc.Buffer(make([]byte, 1<<20), 16<<20)
			for sc.Scan() {
				line := sc.Bytes()
				if bytes.HasPrefix(line, []byte(`{"begin"`)) {
					var bg struct{ Begin int }
					if json.Unmarshal(line, &bg) == nil {
						last = bg.Begin
					}
					continue
				}
				var c liCell
				if json.Unmarshal(line, &c) != nil || c.Spec.Mode == "" {
					continue
				}
				r.Eval(int(c.Lists))
				mu.Lock()
				cellsRun++
				lists += c.Lists
				overl += c.Overlapping
				steps += c.Steps
				two += c.TwoTokens
				none += c.NoToken
				if c.Spec.N > 0 {
					multi += c.Lists
					multiOver += c.Overlapping
				}
				overBy[fmt.Sprintf("%s/%s/%dx%dB/%s/%s", b.impl, b.build, c.Spec.N, c.Spec.NameLen, c.Spec.Mode, c.Spec.Appear)] += c.Overlapping
				if c.Overlapping > 0 {
					r.Distinct(fmt.Sprintf("list-invariant|%s|%dx%d|%s|%s|c%d|l%d", b.impl, c.Spec.N, c.Spec.NameLen, c.Spec.Mode, c.Spec.Appear, c.Spec.Chains, c.Spec.Listers))
				}
				for kind := range c.Count {
					sig := fmt.Sprintf("list-during-churn-%s-%s", b.impl, kind)
					if found[sig] == nil {
						found[sig] = &agg{b: b}
					}
					found[sig].cells = append(found[sig].cells, c)
				}
				mu.Unlock()
			}
			f.Close()
		}
		os.Remove(out)
		switch {
		case res.TimedOut:
			r.Inconclusive("list-invariant child watchdog fired: " + tag)
		case res.Code != 0:
			cls := "exit-" + strconv.Itoa(res.Code)
			if m := fatalRe.FindStringSubmatch(res.Stderr); m != nil {
				cls = slug(m[2])
			}
			lab := "?"
			if sp := liSpecs(r.Seed, b.impl, b.build, r.Quick()); last >= 0 && last < len(sp) {
				lab = sp[last].label()
			}
			r.Violate("child-crash-"+b.impl+"-"+cls, fmt.Sprintf("the %s %s list-invariant child (GOMAXPROCS=%d) died in the cell (%s): %s", b.impl, b.build, b.procs, lab, tail(firstLines(res.Stderr, 3), 300)),
				map[string]interface{}{"impl": b.impl, "build": b.build, "gomaxprocs": b.procs, "cell": lab, "exit": res.Code, "stderr_tail": tail(res.Stderr, 3000), "command": b.bin + " " + strings.Join(args, " ")})
		}
	})
	var sigs []string
	for s := range found {
		sigs = append(sigs, s)
	}
	sort.Strings(sigs)
	for _, sig := range sigs {
		a := found[sig]
		kind := sig[strings.Index(sig, a.b.impl)+len(a.b.impl)+1:]
		sort.SliceStable(a.cells, func(x, y int) bool {
			sx, sy := a.cells[x].Spec, a.cells[y].Spec
			if sx.N*sx.NameLen != sy.N*sy.NameLen {
				return sx.N*sx.NameLen < sy.N*sy.NameLen
			}
			return sx.Chains+sx.Listers < sy.Chains+sy.Listers
		})
		m := a.cells[0]
		first := ""
		for _, an := range m.Anomalies {
			if an.Kind == kind {
				first = fmt.Sprintf("List #%d: %s", an.List, an.Detail)
				break
			}
		}
		var cellsL []string
		for _, c := range a.cells {
			cellsL = append(cellsL, fmt.Sprintf("%s: %d of %d Lists", c.Spec.label(), c.Count[kind], c.Lists))
		}
		r.Count("list_invariant_violating_cells/"+sig, int64(len(a.cells)))
		r.Violate(sig, fmt.Sprintf("%s, smallest failing cell: %s — %d of %d Lists (%d overlapped a mutation). %s [%d cells fail this way]", a.b.impl, m.Spec.label(), m.Count[kind], m.Lists, m.Overlapping, first, len(a.cells)),
			map[string]interface{}{"impl": a.b.impl, "smallest_failing_cell": m, "failing_cells": cellsL,
				"replay": "fresh filesystem; N static files in d; each chain: appear(t i+1) then Delete(t i) (at-least-one) or Delete(t i) then appear(t i+1) (at-most-one); listers loop List(d) (see c14listinv.go)"})
	}
	r.Set("list_invariant_cells_run", cellsRun)
	r.Set("list_invariant_lists", lists)
	r.Set("list_invariant_lists_overlapping_a_mutation", overl)
	r.Set("list_invariant_lists_of_multi_buffer_directories", multi)
	r.Set("list_invariant_lists_of_multi_buffer_directories_overlapping_a_mutation", multiOver)
	r.Set("list_invariant_mutator_operations", steps)
	r.Set("list_invariant_lists_showing_two_tokens_of_a_chain", two)
	r.Set("list_invariant_lists_showing_no_token_of_a_chain", none)
	r.Set("list_invariant_overlapping_lists_by_cell", overBy)
	return multiOver
}
