// Package fsp holds the checks of machine/filesys: C12 (sequential lock-step
// of MemFs, DirFs and a reference model on the same valid history) and C14
// (concurrent histories: linearizability against the same model, descriptor
// distinctness, panics, race detector).
package fsp

import (
	"errors"
	"fmt"
	"sort"
	"strings"
)

// The reference model. Directories are a set of names; dirents map
// (dir,name) to an inode; an inode has contents that survive unlink while a
// descriptor refers to it; every Create/Open yields a fresh independent
// descriptor {mode, inode}. Descriptors are named by logical ids chosen by the
// caller of the model (the history), never by numbers of an implementation.

const (
	modeRead   = 0
	modeAppend = 1
)

type mInode struct {
	data  []byte
	nlink int
	nopen int
	// sum is FNV-1a over data, maintained incrementally (Canon names big
	// contents by length and sum instead of spelling them out)
	sum uint64
}

const fnvOffset64, fnvPrime64 = 14695981039346656037, 1099511628211

func fnvAdd(h uint64, b []byte) uint64 {
	if h == 0 {
		h = fnvOffset64
	}
	for _, c := range b {
		h ^= uint64(c)
		h *= fnvPrime64
	}
	return h
}

type mDesc struct {
	mode int
	ino  int
	open bool
	// overlap lists the logical ids of other descriptors on the same inode
	// that were open at some moment while this one was open.
	overlap []int
}

type pathKey struct{ dir, name string }

type Model struct {
	dirs    map[string]bool
	dirents map[pathKey]int
	inodes  map[int]*mInode
	descs   map[int]*mDesc
	nextIno int
	// deleted remembers names that existed and were unlinked (only used to
	// describe cases for the evidence).
	deleted map[pathKey]bool
}

func NewModel() *Model {
	return &Model{dirs: map[string]bool{}, dirents: map[pathKey]int{}, inodes: map[int]*mInode{},
		descs: map[int]*mDesc{}, nextIno: 1, deleted: map[pathKey]bool{}}
}

var errPre = errors.New("precondition")

func pre(format string, a ...interface{}) error {
	return fmt.Errorf("%w: %s", errPre, fmt.Sprintf(format, a...))
}

// simpleName: a legal single path component of the host filesystem (no
// separator, no NUL, not "." or "..", at most NAME_MAX = 255 bytes). Nothing
// else is reserved: names ending in ".tmp", beginning with '.', etc. are
// ordinary names.
func simpleName(s string) bool {
	return s != "" && s != "." && s != ".." && !strings.ContainsAny(s, "/\x00") && len(s) <= 255
}

func (m *Model) Mkdir(dir string) error {
	if !simpleName(dir) {
		return pre("mkdir %q: not a simple name", dir)
	}
	if m.dirs[dir] {
		return pre("mkdir %q: exists", dir)
	}
	m.dirs[dir] = true
	return nil
}

func (m *Model) checkPath(dir, name string) error {
	if !m.dirs[dir] {
		return pre("directory %q does not exist", dir)
	}
	if !simpleName(name) {
		return pre("name %q is not simple", name)
	}
	return nil
}

func (m *Model) newDesc(lfd, mode, ino int) {
	d := &mDesc{mode: mode, ino: ino, open: true}
	for id, o := range m.descs {
		if o.open && o.ino == ino {
			o.overlap = append(o.overlap, lfd)
			d.overlap = append(d.overlap, id)
		}
	}
	sort.Ints(d.overlap)
	m.descs[lfd] = d
	m.inodes[ino].nopen++
}

func (m *Model) gc(ino int) {
	if n := m.inodes[ino]; n != nil && n.nlink == 0 && n.nopen == 0 {
		delete(m.inodes, ino)
	}
}

// Create: (true, fresh empty inode, append descriptor lfd) iff the name is
// free; otherwise false and no effect.
func (m *Model) Create(dir, name string, lfd int) (bool, error) {
	if err := m.checkPath(dir, name); err != nil {
		return false, err
	}
	if _, used := m.descs[lfd]; used {
		return false, pre("logical descriptor %d reused", lfd)
	}
	k := pathKey{dir, name}
	if _, ok := m.dirents[k]; ok {
		return false, nil
	}
	ino := m.nextIno
	m.nextIno++
	m.inodes[ino] = &mInode{nlink: 1}
	m.dirents[k] = ino
	m.newDesc(lfd, modeAppend, ino)
	return true, nil
}

func (m *Model) desc(lfd, mode int) (*mDesc, error) {
	d := m.descs[lfd]
	if d == nil || !d.open {
		return nil, pre("descriptor %d is not open", lfd)
	}
	if mode >= 0 && d.mode != mode {
		return nil, pre("descriptor %d has the wrong mode", lfd)
	}
	return d, nil
}

func (m *Model) Append(lfd int, data []byte) error {
	d, err := m.desc(lfd, modeAppend)
	if err != nil {
		return err
	}
	n := m.inodes[d.ino]
	n.data = append(n.data, data...)
	n.sum = fnvAdd(n.sum, data)
	return nil
}

func (m *Model) Close(lfd int) error {
	d, err := m.desc(lfd, -1)
	if err != nil {
		return err
	}
	d.open = false
	m.inodes[d.ino].nopen--
	m.gc(d.ino)
	return nil
}

func (m *Model) Open(dir, name string, lfd int) error {
	if err := m.checkPath(dir, name); err != nil {
		return err
	}
	if _, used := m.descs[lfd]; used {
		return pre("logical descriptor %d reused", lfd)
	}
	ino, ok := m.dirents[pathKey{dir, name}]
	if !ok {
		return pre("open %s/%s: does not exist", dir, name)
	}
	m.newDesc(lfd, modeRead, ino)
	return nil
}

// ReadAt: the bytes of [off, off+length) ∩ [0,size).
func (m *Model) ReadAt(lfd int, off, length uint64) ([]byte, error) {
	d, err := m.desc(lfd, modeRead)
	if err != nil {
		return nil, err
	}
	data := m.inodes[d.ino].data
	if off >= uint64(len(data)) {
		return nil, nil
	}
	end := off + length
	if end > uint64(len(data)) || end < off {
		end = uint64(len(data))
	}
	return data[off:end], nil
}

func (m *Model) Delete(dir, name string) error {
	if err := m.checkPath(dir, name); err != nil {
		return err
	}
	k := pathKey{dir, name}
	ino, ok := m.dirents[k]
	if !ok {
		return pre("delete %s/%s: does not exist", dir, name)
	}
	delete(m.dirents, k)
	m.deleted[k] = true
	m.inodes[ino].nlink--
	m.gc(ino)
	return nil
}

func (m *Model) Link(oldDir, oldName, newDir, newName string) (bool, error) {
	if err := m.checkPath(oldDir, oldName); err != nil {
		return false, err
	}
	if err := m.checkPath(newDir, newName); err != nil {
		return false, err
	}
	ino, ok := m.dirents[pathKey{oldDir, oldName}]
	if !ok {
		return false, pre("link source %s/%s does not exist", oldDir, oldName)
	}
	k := pathKey{newDir, newName}
	if _, ok := m.dirents[k]; ok {
		return false, nil
	}
	m.dirents[k] = ino
	m.inodes[ino].nlink++
	return true, nil
}

// AtomicCreate installs a fresh inode holding a copy of data under the name;
// an inode previously under that name stays reachable through its open
// descriptors and other links.
func (m *Model) AtomicCreate(dir, name string, data []byte) error {
	if err := m.checkPath(dir, name); err != nil {
		return err
	}
	k := pathKey{dir, name}
	if old, ok := m.dirents[k]; ok {
		m.inodes[old].nlink--
		m.gc(old)
	}
	ino := m.nextIno
	m.nextIno++
	m.inodes[ino] = &mInode{nlink: 1, data: append([]byte(nil), data...), sum: fnvAdd(0, data)}
	m.dirents[k] = ino
	return nil
}

// List: the set of names of the directory (sorted).
func (m *Model) List(dir string) ([]string, error) {
	if !m.dirs[dir] {
		return nil, pre("list %q: no such directory", dir)
	}
	var out []string
	for k := range m.dirents {
		if k.dir == dir {
			out = append(out, k.name)
		}
	}
	sort.Strings(out)
	return out, nil
}

// ---------------------------------------------------------------- queries

func (m *Model) Exists(dir, name string) bool { _, ok := m.dirents[pathKey{dir, name}]; return ok }

func (m *Model) Files() []pathKey {
	var out []pathKey
	for k := range m.dirents {
		out = append(out, k)
	}
	sort.Slice(out, func(i, j int) bool {
		if out[i].dir != out[j].dir {
			return out[i].dir < out[j].dir
		}
		return out[i].name < out[j].name
	})
	return out
}

func (m *Model) Dirs() []string {
	var out []string
	for d := range m.dirs {
		out = append(out, d)
	}
	sort.Strings(out)
	return out
}

// OpenDescs lists the open logical descriptors of a mode (-1: any), sorted.
func (m *Model) OpenDescs(mode int) []int {
	var out []int
	for id, d := range m.descs {
		if d.open && (mode < 0 || d.mode == mode) {
			out = append(out, id)
		}
	}
	sort.Ints(out)
	return out
}

func (m *Model) inodeOf(dir, name string) *mInode {
	if ino, ok := m.dirents[pathKey{dir, name}]; ok {
		return m.inodes[ino]
	}
	return nil
}

// OpenCount is the number of open descriptors on the inode a name refers to.
func (m *Model) OpenCount(dir, name string) int {
	if n := m.inodeOf(dir, name); n != nil {
		return n.nopen
	}
	return 0
}

func (m *Model) SizeOfDesc(lfd int) int {
	if d := m.descs[lfd]; d != nil && m.inodes[d.ino] != nil {
		return len(m.inodes[d.ino].data)
	}
	return 0
}

// SharingContext describes, for an operation on descriptor lfd, whether
// another descriptor on the same inode was open at the same time as lfd:
// "" (never), "while-other-descriptor-open" (all of them still open) or
// "after-close-of-other-descriptor" (at least one of them closed since).
func (m *Model) SharingContext(lfd int) string {
	d := m.descs[lfd]
	if d == nil || len(d.overlap) == 0 {
		return ""
	}
	for _, o := range d.overlap {
		if od := m.descs[o]; od != nil && !od.open {
			return "after-close-of-other-descriptor"
		}
	}
	return "while-other-descriptor-open"
}

// ---------------------------------------------------------------- value semantics (C14)

func (m *Model) Clone() *Model {
	c := NewModel()
	c.nextIno = m.nextIno
	for k, v := range m.dirs {
		c.dirs[k] = v
	}
	for k, v := range m.dirents {
		c.dirents[k] = v
	}
	for k, v := range m.inodes {
		c.inodes[k] = &mInode{data: v.data[:len(v.data):len(v.data)], nlink: v.nlink, nopen: v.nopen, sum: v.sum}
	}
	for k, v := range m.descs {
		if v.open { // closed descriptors carry no state the C14 model needs
			c.descs[k] = &mDesc{mode: v.mode, ino: v.ino, open: true}
		}
	}
	return c
}

// Canon is a canonical rendering of the observable state: inode numbers are
// renamed in order of first appearance (sorted dirents, then sorted open
// descriptors), so two states that differ only in allocation order are equal.
func (m *Model) Canon() string {
	var b strings.Builder
	ren := map[int]int{}
	name := func(ino int) int {
		if v, ok := ren[ino]; ok {
			return v
		}
		ren[ino] = len(ren) + 1
		return ren[ino]
	}
	for _, d := range m.Dirs() {
		fmt.Fprintf(&b, "D%q;", d)
	}
	for _, k := range m.Files() {
		fmt.Fprintf(&b, "E%q/%q=%d;", k.dir, k.name, name(m.dirents[k]))
	}
	for _, id := range m.OpenDescs(-1) {
		d := m.descs[id]
		fmt.Fprintf(&b, "F%d:%d:%d;", id, d.mode, name(d.ino))
	}
	inv := make([]int, len(ren)+1)
	for ino, v := range ren {
		inv[v] = ino
	}
	for v := 1; v < len(inv); v++ {
		if n := m.inodes[inv[v]]; len(n.data) > 256 {
			fmt.Fprintf(&b, "I%d=#%d:%x;", v, len(n.data), n.sum)
		} else {
			fmt.Fprintf(&b, "I%d=%q;", v, n.data)
		}
	}
	return b.String()
}
