package fsp

import (
	"fmt"

	"verif/core"
)

// C14, dimension "shape of the names": 40 % of the programs of every pool have
// their role names (directories d, e; sealed files L, S1, S2; appender files
// a<c>; churn names n1, n2, m1) replaced by shaped names from the C12
// catalogue. The structure of the program — who calls what when — is
// unchanged, and the choice comes from a random stream of its own, so the
// other 60 % are exactly the programs generated before. The replacement is
// conflict-seeking: the churn names become a stem and a reserved-looking shape
// of the same stem (n and n.tmp, n and n.<digits>-<digits>.tmp, …) in one
// directory, and the churn name of the second directory gets the same text as
// one of them, so an implementation that derives private names (staging
// files, locks) from the caller's names, or treats some names specially, meets
// exactly those names under concurrency.
//
// Names stay below 120 bytes (a directory still fits one getdents buffer) (DirFs.AtomicCreate appends its staging suffix to
// the name; the NAME_MAX boundary is a sequential matter decided by C12).
func shapeProgramNames(seed int64, pool string, idx int, p *cProgram) {
	rng := core.NewRng(seed, fmt.Sprintf("c14-names/%s/%d", pool, idx))
	if !rng.Chance(40) {
		return
	}
	shapes := nameShapeCatalogue()
	pq := shapeCtx{p: 100 + rng.Intn(99900), q: 1 + rng.Intn(40)}
	shape := func(stem, dir string) string {
		for try := 0; try < 20; try++ {
			c := pq
			c.stem, c.dir = stem, dir
			c.q += try
			n := shapes[rng.Intn(len(shapes))].F(c)
			if simpleName(n) && len(n) < 120 {
				return n
			}
		}
		return stem
	}
	m := map[string]string{} // role -> name
	used := map[string]bool{}
	set := func(role, name string) {
		for used[name] { // names of one history stay pairwise distinct (they may share a directory)
			name += "_"
		}
		used[name] = true
		m[role] = name
	}
	// directories
	dstem := []string{"d", "db", "dir"}[rng.Intn(3)]
	if rng.Bool() {
		set("d", shape(dstem, "e"))
	} else {
		set("d", dstem)
	}
	switch rng.Intn(3) {
	case 0:
		set("e", swapCase(m["d"]))
	case 1:
		set("e", shape("e", m["d"]))
	default:
		set("e", m["d"]+".tmp")
	}
	// churn names: a stem and a shape of it
	stem := []string{"n", "f", "log", "k"}[rng.Intn(4)]
	set("n1", stem)
	set("n2", shape(stem, m["d"]))
	if rng.Bool() {
		m["n1"], m["n2"] = m["n2"], m["n1"]
	}
	// the churn name of the other directory repeats one of them (different directory: no clash)
	m["m1"] = m[[]string{"n1", "n2"}[rng.Intn(2)]]
	// sealed files and appender files
	switch rng.Intn(3) {
	case 0:
		set("L", m["d"]) // a file named like its directory
	case 1:
		set("L", shape(stem, m["d"])) // another shape of the churn stem
	default:
		set("L", shape("L", m["d"]))
	}
	set("S1", shape("S1", m["d"]))
	set("S2", shape(stem, m["d"]))
	for c := 0; c < p.Clients; c++ {
		role := fmt.Sprintf("a%d", c)
		if rng.Bool() {
			set(role, shape(role, m["d"]))
		} else {
			set(role, role)
		}
	}
	ren := func(s string) string {
		if v, ok := m[s]; ok {
			return v
		}
		return s
	}
	fix := func(steps []cStep) {
		for i := range steps {
			st := &steps[i]
			st.Dir, st.Dir2 = ren(st.Dir), ren(st.Dir2)
			if st.Name != "" {
				st.Name = ren(st.Name)
			}
			if st.Name2 != "" {
				st.Name2 = ren(st.Name2)
			}
		}
	}
	for c := range p.Conc {
		fix(p.Setup[c])
		fix(p.Conc[c])
	}
	for i := range p.Dirs {
		p.Dirs[i] = ren(p.Dirs[i])
	}
	p.Pattern = append(p.Pattern, "shaped-names")
}
