package fsp

import (
	"bufio"
	"encoding/json"
	"fmt"
	"os"
	"path/filepath"
	"strconv"
	"strings"
	"time"

	"verif/core"
	"verif/props"
)

// C12, dimension "requested LENGTH of a ReadAt". The statement bounds nothing:
// ReadAt returns the bytes of [offset, offset+length) that exist, whatever the
// length. An implementation that allocates the requested length dies with a
// FATAL runtime error (out of memory) for 2^47 and panics in makeslice from
// 2^48 on, so this family runs in child processes (one per implementation,
// every history announced before it runs): a dead child is a violation that
// names the call it died in.

func init() {
	props.Children["c12-lengths"] = c12LengthChild
}

// readLengthFamily: lengths 0, around 2^31 and 2^32, 2^47, 2^62, 2^63, 2^64-1
// at offsets 0 / mid-file / last byte / EOF / beyond EOF of files of 0, 1, 100
// and 4096 bytes; one such ReadAt per history, followed by an ordinary read.
func readLengthFamily() []c12item {
	var out []c12item
	lens := []uint64{0, 1<<31 - 1, 1 << 31, 1<<31 + 1, 1 << 32, 1<<32 + 1, 1 << 47, 1 << 62, 1<<63 - 1, 1 << 63, 1<<64 - 4096, 1<<64 - 1}
	for _, size := range []int{0, 1, 100, 4096} {
		offs := map[uint64]bool{0: true, uint64(size / 2): true, uint64(size): true, uint64(size) + 1: true, uint64(size) + 4096: true, 1 << 32: true, 1 << 62: true}
		if size > 0 {
			offs[uint64(size-1)] = true
		}
		for off := range offs {
			for _, l := range lens {
				h := &hb{}
				h.mk("d")
				if size%2 == 0 {
					h.at("d", "a", size)
				} else {
					h.file("d", "a", size)
				}
				r := h.open("d", "a")
				h.rd(r, off, l).rd(r, 0, uint64(size)+1).cl(r)
				out = append(out, c12item{pool: "L", family: "readat-huge-lengths", body: h.ops})
			}
		}
	}
	// deterministic order (the offsets came out of a map)
	sortItems(out)
	return out
}

func sortItems(items []c12item) {
	key := func(it c12item) string { return strings.Join(opStrings(it.body), ";") }
	for i := 1; i < len(items); i++ {
		for j := i; j > 0 && key(items[j]) < key(items[j-1]); j-- {
			items[j], items[j-1] = items[j-1], items[j]
		}
	}
}

type c12childLine struct {
	Begin    *int             `json:"begin,omitempty"`
	Idx      int              `json:"idx"`
	Divs     []c12div         `json:"divs,omitempty"`
	Done     bool             `json:"done,omitempty"`
	Calls    int64            `json:"calls,omitempty"`
	Compared int64            `json:"compared,omitempty"`
	Panics   int64            `json:"panics,omitempty"`
	Features []string         `json:"features,omitempty"`
	Classes  map[string]int64 `json:"classes,omitempty"`
}

// c12LengthChild: vcheck child c12-lengths <impl> <outfile> <rootdir>
func c12LengthChild(args []string) int {
	if len(args) != 3 {
		fmt.Fprintln(os.Stderr, "c12-lengths: bad arguments")
		return 2
	}
	want := args[0]
	out, err := os.Create(args[1])
	if err != nil {
		fmt.Fprintln(os.Stderr, err)
		return 2
	}
	defer out.Close()
	w := bufio.NewWriter(out)
	emit := func(l c12childLine) {
		b, _ := json.Marshal(l)
		w.Write(b)
		w.WriteByte('\n')
		w.Flush()
	}
	env := &c12env{root: args[2]}
	st := newC12stats()
	for i, it := range readLengthFamily() {
		i := i
		emit(c12childLine{Begin: &i, Idx: i})
		ops := append(append([]Op(nil), it.body...), finalOps(it.body)...)
		impls, cleanup := env.fresh()
		var sel []*c12impl
		for _, im := range impls {
			if im.name == want {
				sel = append(sel, im)
			}
		}
		divs := execHistory(ops, sel, it.pool, "methods", &st)
		cleanup()
		if len(divs) > 0 {
			emit(c12childLine{Idx: i, Divs: divs})
		}
	}
	var fs []string
	for f := range st.features {
		fs = append(fs, f)
	}
	emit(c12childLine{Done: true, Calls: st.calls, Compared: st.compared, Panics: st.panics, Features: fs, Classes: st.argClasses})
	return 0
}

// runLengthFamily runs the family in one child per implementation and reports
// divergences and child deaths. It returns the merged statistics.
func runLengthFamily(r *core.Run, violate func(d c12div)) c12stats {
	total := newC12stats()
	self, err := os.Executable()
	if err != nil {
		r.Inconclusive("cannot find own binary (length family)")
		return total
	}
	items := readLengthFamily()
	r.Count("histories_family_readat_huge_lengths_per_implementation", int64(len(items)))
	var cmds []string
	for _, impl := range []string{"memfs", "dirfs"} {
		out := filepath.Join(r.Scratch, "c12-lengths-"+impl+".jsonl")
		root := filepath.Join(r.Scratch, "c12-lengths-root-"+impl)
		os.MkdirAll(root, 0o755)
		args := []string{"child", "c12-lengths", impl, out, root}
		cmds = append(cmds, self+" "+strings.Join(args, " "))
		res := core.Exec(r.Scratch, nil, 5*time.Minute, "", self, args...)
		last, done := -1, false
		if f, err := os.Open(out); err == nil {
			sc := bufio.NewScanner(f)
			sc.Buffer(make([]byte, 1<<20), 64<<20)
			for sc.Scan() {
				var l c12childLine
				if json.Unmarshal(sc.Bytes(), &l) != nil {
					continue
				}
				switch {
				case l.Begin != nil:
					last = *l.Begin
				case l.Done:
					done = true
					total.calls += l.Calls
					total.compared += l.Compared
					total.panics += l.Panics
					for _, f := range l.Features {
						total.features[f] = struct{}{}
					}
					for k, v := range l.Classes {
						total.argClasses[k] += v
					}
				default:
					for _, d := range l.Divs {
						violate(d)
					}
				}
			}
			f.Close()
		}
		os.Remove(out)
		os.RemoveAll(root)
		switch {
		case res.TimedOut:
			r.Inconclusive("length-family child watchdog fired: " + impl)
		case res.Code != 0 || !done:
			what := "exit " + strconv.Itoa(res.Code)
			if m := fatalRe.FindStringSubmatch(res.Stderr); m != nil {
				what = m[1] + ": " + m[2]
			}
			var hist []string
			var culprit Op
			if last >= 0 && last < len(items) {
				hist = opStrings(items[last].body)
				for _, o := range items[last].body {
					if o.K == "readat" {
						culprit = o
						break
					}
				}
			}
			sig := impl + "-readat-kills-process"
			if cls := opArgClass(culprit); cls != "" {
				sig += "-" + cls
			}
			r.Violate(sig, fmt.Sprintf("the %s child process died (%s) while running the history %s", impl, what, strings.Join(hist, " ; ")),
				map[string]interface{}{"impl": impl, "history": hist, "exit": res.Code, "stderr_tail": tail(res.Stderr, 2000), "command": cmds[len(cmds)-1]})
		}
	}
	r.Set("length_family_child_commands", cmds)
	return total
}
