package fsp

import (
	"crypto/sha256"
	"encoding/hex"
	"encoding/json"
	"fmt"

	"verif/core"
)

// Op is one API call of a sequential history. Descriptors are logical ids
// (FD) chosen by the generator: a Create/Open op names the id its descriptor
// gets, later ops refer to it.
type Op struct {
	K     string `json:"op"` // mkdir create append close open readat delete link atomic list
	Dir   string `json:"dir,omitempty"`
	Name  string `json:"name,omitempty"`
	Dir2  string `json:"dir2,omitempty"`
	Name2 string `json:"name2,omitempty"`
	FD    int    `json:"fd,omitempty"`
	N     int    `json:"datalen,omitempty"`
	DS    uint64 `json:"dataseed,omitempty"`
	Off   uint64 `json:"off,omitempty"`
	Len   uint64 `json:"len,omitempty"`
	Nil   bool   `json:"nil_slice,omitempty"` // append/atomic: pass a nil slice (N must be 0)
}

func (o Op) String() string {
	switch o.K {
	case "mkdir", "list":
		return fmt.Sprintf("%s(%q)", o.K, o.Dir)
	case "create", "open":
		return fmt.Sprintf("%s(%q,%q)->fd%d", o.K, o.Dir, o.Name, o.FD)
	case "append":
		if o.Nil {
			return fmt.Sprintf("append(fd%d,nil)", o.FD)
		}
		return fmt.Sprintf("append(fd%d,%dB#%x)", o.FD, o.N, o.DS&0xffff)
	case "close":
		return fmt.Sprintf("close(fd%d)", o.FD)
	case "readat":
		return fmt.Sprintf("readat(fd%d,%d,%d)", o.FD, o.Off, o.Len)
	case "delete":
		return fmt.Sprintf("delete(%q,%q)", o.Dir, o.Name)
	case "link":
		return fmt.Sprintf("link(%q,%q->%q,%q)", o.Dir, o.Name, o.Dir2, o.Name2)
	case "atomic":
		if o.Nil {
			return fmt.Sprintf("atomiccreate(%q,%q,nil)", o.Dir, o.Name)
		}
		return fmt.Sprintf("atomiccreate(%q,%q,%dB#%x)", o.Dir, o.Name, o.N, o.DS&0xffff)
	}
	return o.K
}

func opStrings(ops []Op) []string {
	out := make([]string, len(ops))
	for i, o := range ops {
		out[i] = o.String()
	}
	return out
}

func historyHash(ops []Op) string {
	b, _ := json.Marshal(ops)
	h := sha256.Sum256(b)
	return hex.EncodeToString(h[:8])
}

// opData regenerates the payload of an append/atomic op from its seed.
func opData(o Op) []byte {
	if o.Nil {
		return nil
	}
	if o.N == 0 {
		return []byte{}
	}
	return core.NewRng(int64(o.DS), "d").Bytes(o.N)
}

// Name pools of the random pools A and B: a few ordinary names, so that
// collisions, re-creation after Delete and links across directories are
// frequent. The dimension "shape of the name" is pool N and the name matrix
// (c12names.go).
var c12DirPool = []string{"d0", "d1", "d2", "dir.A", "D0", "long-directory-name-0123456789"}
var c12NamePool = []string{"a", "b", "c", "A", "log", "f.txt", "x y", ".h", "é", "tmp", "a.tmp.x", "0",
	"n-0123456789-0123456789-0123456789-0123456789-0123456789-0123456789-0123456789-0123456789-0123456789-0123456789"}

var c12Sizes = []int{0, 1, 100, 4096, 70000}

type c12gen struct {
	rng    *core.Rng
	m      *Model
	ops    []Op
	poolB  bool // descriptor-sharing patterns allowed
	dirs   []string
	names  []string
	nextFD int
	max    int
	pats   map[string]int
	// pool N: after a call that adds or removes a name, List its directory
	// with this probability (percent); nilData: empty payloads are sometimes nil
	listAfter int
	nilData   bool
	inList    bool
}

func (g *c12gen) full() bool { return len(g.ops) >= g.max }

// emit applies the op to the model; an op that violates a precondition is a
// generator bug and is dropped (never sent to an implementation).
func (g *c12gen) emit(o Op) bool {
	if g.full() {
		return false
	}
	if err := applyModel(g.m, o, nil); err != nil {
		panic(fmt.Sprintf("generator emitted an invalid op %v: %v", o, err))
	}
	g.ops = append(g.ops, o)
	if g.listAfter > 0 && !g.inList {
		switch o.K {
		case "create", "atomic", "link", "delete":
			g.inList = true
			if g.rng.Chance(g.listAfter) {
				d := o.Dir
				if o.K == "link" {
					d = o.Dir2
				}
				g.emit(Op{K: "list", Dir: d})
			}
			g.inList = false
		}
	}
	return true
}

// applyModel runs op on the model; res receives the model's result.
type opResult struct {
	OK    bool
	Bytes []byte
	Names []string
}

func applyModel(m *Model, o Op, res *opResult) error {
	var r opResult
	var err error
	switch o.K {
	case "mkdir":
		err = m.Mkdir(o.Dir)
	case "create":
		r.OK, err = m.Create(o.Dir, o.Name, o.FD)
	case "append":
		err = m.Append(o.FD, opData(o))
	case "close":
		err = m.Close(o.FD)
	case "open":
		err = m.Open(o.Dir, o.Name, o.FD)
	case "readat":
		r.Bytes, err = m.ReadAt(o.FD, o.Off, o.Len)
	case "delete":
		err = m.Delete(o.Dir, o.Name)
	case "link":
		r.OK, err = m.Link(o.Dir, o.Name, o.Dir2, o.Name2)
	case "atomic":
		err = m.AtomicCreate(o.Dir, o.Name, opData(o))
	case "list":
		r.Names, err = m.List(o.Dir)
	default:
		err = pre("unknown op %q", o.K)
	}
	if res != nil {
		*res = r
	}
	return err
}

func (g *c12gen) fd() int { g.nextFD++; return g.nextFD }

func (g *c12gen) dir() string  { return g.dirs[g.rng.Intn(len(g.dirs))] }
func (g *c12gen) name() string { return g.names[g.rng.Intn(len(g.names))] }

func (g *c12gen) size() int {
	if g.rng.Intn(150) == 0 {
		return 1 << 20
	}
	if g.rng.Intn(60) == 0 { // around a 64 KiB bulk threshold, and 256 KiB
		return []int{65535, 65536, 65537, 262144}[g.rng.Intn(4)]
	}
	s := c12Sizes[g.rng.Intn(len(c12Sizes))]
	if g.rng.Chance(15) {
		s += g.rng.Intn(3) - 1 // one off the boundary
		if s < 0 {
			s = 0
		}
	}
	return s
}

func (g *c12gen) data() (int, uint64) { return g.size(), g.rng.U64() | 1 }

// canOpen: pool A never holds two descriptors on one inode at the same time.
func (g *c12gen) canOpen(dir, name string) bool {
	if !g.m.Exists(dir, name) {
		return false
	}
	return g.poolB || g.m.OpenCount(dir, name) == 0
}

func (g *c12gen) existing(filter func(pathKey) bool) (pathKey, bool) {
	var c []pathKey
	for _, k := range g.m.Files() {
		if filter == nil || filter(k) {
			c = append(c, k)
		}
	}
	if len(c) == 0 {
		return pathKey{}, false
	}
	return c[g.rng.Intn(len(c))], true
}

func (g *c12gen) free() (pathKey, bool) {
	var c []pathKey
	for _, d := range g.dirs {
		for _, n := range g.names {
			if !g.m.Exists(d, n) {
				c = append(c, pathKey{d, n})
			}
		}
	}
	if len(c) == 0 {
		return pathKey{}, false
	}
	return c[g.rng.Intn(len(c))], true
}

// readArgs picks an offset/length around the boundaries of a file of size s.
func (g *c12gen) readArgs(s int) (uint64, uint64) {
	offs := []int{0, 0, s - 1, s, s + 1, s / 2, 4095, 4096, 4097, s + 4096, s - 4096, g.rng.Intn(s + 10)}
	off := offs[g.rng.Intn(len(offs))]
	if off < 0 {
		off = 0
	}
	rem := s - off
	lens := []int{0, 1, rem, rem - 1, rem + 1, s, s + 1, 4096, 65536, 70000, s + 70000, g.rng.Intn(s + 10)}
	l := lens[g.rng.Intn(len(lens))]
	if l < 0 {
		l = 0
	}
	return uint64(off), uint64(l)
}

func (g *c12gen) readWhole(fd int) bool {
	s := g.m.SizeOfDesc(fd)
	return g.emit(Op{K: "readat", FD: fd, Off: 0, Len: uint64(s + 1 + g.rng.Intn(5000))})
}

func (g *c12gen) read(fd int) bool {
	off, l := g.readArgs(g.m.SizeOfDesc(fd))
	return g.emit(Op{K: "readat", FD: fd, Off: off, Len: l})
}

func (g *c12gen) appendTo(fd int) bool {
	n, ds := g.data()
	if g.nilData && n == 0 && g.rng.Bool() {
		return g.emit(Op{K: "append", FD: fd, Nil: true})
	}
	return g.emit(Op{K: "append", FD: fd, N: n, DS: ds})
}

// ---------------------------------------------------------------- single ops

func (g *c12gen) opCreate() bool {
	d, n := g.dir(), g.name() // collisions with existing names are wanted
	return g.emit(Op{K: "create", Dir: d, Name: n, FD: g.fd()})
}

func (g *c12gen) opAppend() bool {
	c := g.m.OpenDescs(modeAppend)
	if len(c) == 0 {
		return false
	}
	return g.appendTo(c[g.rng.Intn(len(c))])
}

func (g *c12gen) opClose() bool {
	c := g.m.OpenDescs(-1)
	if len(c) == 0 {
		return false
	}
	return g.emit(Op{K: "close", FD: c[g.rng.Intn(len(c))]})
}

func (g *c12gen) opOpen() bool {
	k, ok := g.existing(func(k pathKey) bool { return g.canOpen(k.dir, k.name) })
	if !ok {
		return false
	}
	return g.emit(Op{K: "open", Dir: k.dir, Name: k.name, FD: g.fd()})
}

func (g *c12gen) opRead() bool {
	c := g.m.OpenDescs(modeRead)
	if len(c) == 0 {
		return false
	}
	return g.read(c[g.rng.Intn(len(c))])
}

func (g *c12gen) opDelete() bool {
	k, ok := g.existing(nil)
	if !ok {
		return false
	}
	return g.emit(Op{K: "delete", Dir: k.dir, Name: k.name})
}

func (g *c12gen) opLink() bool {
	src, ok := g.existing(nil)
	if !ok {
		return false
	}
	d, n := g.dir(), g.name() // may exist: Link must then return false
	if g.rng.Chance(50) {
		if f, ok := g.free(); ok {
			d, n = f.dir, f.name
		}
	}
	return g.emit(Op{K: "link", Dir: src.dir, Name: src.name, Dir2: d, Name2: n})
}

func (g *c12gen) opAtomic() bool {
	n, ds := g.data()
	if g.nilData && n == 0 && g.rng.Bool() {
		return g.emit(Op{K: "atomic", Dir: g.dir(), Name: g.name(), Nil: true})
	}
	return g.emit(Op{K: "atomic", Dir: g.dir(), Name: g.name(), N: n, DS: ds})
}

func (g *c12gen) opList() bool { return g.emit(Op{K: "list", Dir: g.dir()}) }

func (g *c12gen) opMkdir() bool {
	for _, d := range c12DirPool {
		if !g.m.dirs[d] && g.rng.Chance(50) {
			if g.emit(Op{K: "mkdir", Dir: d}) {
				g.dirs = append(g.dirs, d)
				return true
			}
		}
	}
	return false
}

// ---------------------------------------------------------------- patterns

// fresh append descriptor on a new file (deleting the name first if needed)
func (g *c12gen) newFile() (pathKey, int, bool) {
	k, ok := g.free()
	if !ok {
		if k, ok = g.existing(nil); !ok {
			return k, 0, false
		}
		if !g.emit(Op{K: "delete", Dir: k.dir, Name: k.name}) {
			return k, 0, false
		}
	}
	fd := g.fd()
	if !g.emit(Op{K: "create", Dir: k.dir, Name: k.name, FD: fd}) {
		return k, 0, false
	}
	return k, fd, true
}

// pool B: two Opens of one file; close one, keep using the other.
func (g *c12gen) patTwoOpens() bool {
	k, ok := g.existing(nil)
	if !ok {
		return false
	}
	r1, r2 := g.fd(), g.fd()
	g.emit(Op{K: "open", Dir: k.dir, Name: k.name, FD: r1})
	g.emit(Op{K: "open", Dir: k.dir, Name: k.name, FD: r2})
	g.read(r1)
	g.read(r2)
	first, second := r1, r2
	if g.rng.Bool() {
		first, second = r2, r1
	}
	g.emit(Op{K: "close", FD: first})
	g.readWhole(second)
	if g.rng.Chance(70) {
		g.emit(Op{K: "close", FD: second})
	}
	return true
}

// pool B: Open while the creator still appends; the creator appends again,
// the reader must see it.
func (g *c12gen) patOpenWhileAppending() bool {
	k, c, ok := g.newFile()
	if !ok {
		return false
	}
	g.appendTo(c)
	r := g.fd()
	g.emit(Op{K: "open", Dir: k.dir, Name: k.name, FD: r})
	g.appendTo(c)
	g.readWhole(r)
	switch g.rng.Intn(3) {
	case 0: // reader goes first, the creator keeps working
		g.emit(Op{K: "close", FD: r})
		g.appendTo(c)
		g.emit(Op{K: "close", FD: c})
	case 1: // creator goes first, the reader keeps working
		g.emit(Op{K: "close", FD: c})
		g.read(r)
		g.emit(Op{K: "close", FD: r})
	default:
		g.appendTo(c)
		g.read(r)
	}
	return true
}

// pool B: an existing appender's file is opened by a reader.
func (g *c12gen) patOpenExistingAppender() bool {
	k, ok := g.existing(func(k pathKey) bool { return g.m.OpenCount(k.dir, k.name) > 0 })
	if !ok {
		return false
	}
	r := g.fd()
	g.emit(Op{K: "open", Dir: k.dir, Name: k.name, FD: r})
	g.read(r)
	if g.rng.Bool() {
		g.emit(Op{K: "close", FD: r})
	}
	return true
}

// read after unlink: Delete while a read descriptor is open.
func (g *c12gen) patReadAfterUnlink() bool {
	k, ok := g.existing(func(k pathKey) bool { return g.canOpen(k.dir, k.name) })
	if !ok {
		return false
	}
	r := g.fd()
	g.emit(Op{K: "open", Dir: k.dir, Name: k.name, FD: r})
	g.emit(Op{K: "delete", Dir: k.dir, Name: k.name})
	g.read(r)
	if g.rng.Bool() { // re-create the name: the old descriptor keeps the old contents
		if g.rng.Bool() {
			c := g.fd()
			g.emit(Op{K: "create", Dir: k.dir, Name: k.name, FD: c})
			g.appendTo(c)
			g.emit(Op{K: "close", FD: c})
		} else {
			n, ds := g.data()
			g.emit(Op{K: "atomic", Dir: k.dir, Name: k.name, N: n, DS: ds})
		}
	}
	g.readWhole(r)
	g.emit(Op{K: "close", FD: r})
	return true
}

// append after unlink: the creator deletes its own name and keeps appending.
func (g *c12gen) patAppendAfterUnlink() bool {
	k, c, ok := g.newFile()
	if !ok {
		return false
	}
	g.appendTo(c)
	var alias pathKey
	linked := false
	if g.rng.Bool() {
		if f, ok := g.free(); ok {
			alias, linked = f, g.emit(Op{K: "link", Dir: k.dir, Name: k.name, Dir2: f.dir, Name2: f.name})
		}
	}
	g.emit(Op{K: "delete", Dir: k.dir, Name: k.name})
	g.appendTo(c)
	g.emit(Op{K: "close", FD: c})
	if linked && g.canOpen(alias.dir, alias.name) {
		r := g.fd()
		g.emit(Op{K: "open", Dir: alias.dir, Name: alias.name, FD: r})
		g.readWhole(r)
		g.emit(Op{K: "close", FD: r})
	}
	return true
}

// link, then overwrite the source by AtomicCreate: the link keeps the old
// contents, the name gets the new ones.
func (g *c12gen) patLinkThenOverwrite() bool {
	src, ok := g.existing(nil)
	if !ok {
		return false
	}
	dst, ok := g.free()
	if !ok {
		return false
	}
	g.emit(Op{K: "link", Dir: src.dir, Name: src.name, Dir2: dst.dir, Name2: dst.name})
	n, ds := g.data()
	over := src
	if g.rng.Chance(30) {
		over = dst // overwrite the new name instead
	}
	g.emit(Op{K: "atomic", Dir: over.dir, Name: over.name, N: n, DS: ds})
	for _, k := range []pathKey{dst, src} {
		if g.canOpen(k.dir, k.name) {
			r := g.fd()
			g.emit(Op{K: "open", Dir: k.dir, Name: k.name, FD: r})
			g.readWhole(r)
			g.emit(Op{K: "close", FD: r})
		}
	}
	return true
}

// Create after Delete of the same name.
func (g *c12gen) patCreateAfterDelete() bool {
	k, ok := g.existing(nil)
	if !ok {
		return false
	}
	g.emit(Op{K: "delete", Dir: k.dir, Name: k.name})
	c := g.fd()
	g.emit(Op{K: "create", Dir: k.dir, Name: k.name, FD: c})
	g.appendTo(c)
	g.emit(Op{K: "close", FD: c})
	if g.canOpen(k.dir, k.name) {
		r := g.fd()
		g.emit(Op{K: "open", Dir: k.dir, Name: k.name, FD: r})
		g.readWhole(r)
		g.emit(Op{K: "close", FD: r})
	}
	return true
}

// write a file completely, close, reopen and probe every boundary.
func (g *c12gen) patWriteReadBoundaries() bool {
	k, c, ok := g.newFile()
	if !ok {
		return false
	}
	for i := 0; i < 1+g.rng.Intn(3); i++ {
		g.appendTo(c)
	}
	g.emit(Op{K: "close", FD: c})
	r := g.fd()
	g.emit(Op{K: "open", Dir: k.dir, Name: k.name, FD: r})
	for i := 0; i < 2+g.rng.Intn(4); i++ {
		g.read(r)
	}
	g.emit(Op{K: "close", FD: r})
	return true
}

// Create / Link onto a name that exists: both must refuse without effect.
func (g *c12gen) patRefusals() bool {
	k, ok := g.existing(nil)
	if !ok {
		return false
	}
	g.emit(Op{K: "create", Dir: k.dir, Name: k.name, FD: g.fd()})
	if src, ok := g.existing(nil); ok {
		g.emit(Op{K: "link", Dir: src.dir, Name: src.name, Dir2: k.dir, Name2: k.name})
	}
	if g.canOpen(k.dir, k.name) {
		r := g.fd()
		g.emit(Op{K: "open", Dir: k.dir, Name: k.name, FD: r})
		g.readWhole(r)
		g.emit(Op{K: "close", FD: r})
	}
	return true
}

type c12pat struct {
	name   string
	weight int
	poolB  bool
	f      func(*c12gen) bool
}

var c12pats = []c12pat{
	{"create", 8, false, (*c12gen).opCreate},
	{"append", 10, false, (*c12gen).opAppend},
	{"close", 5, false, (*c12gen).opClose},
	{"open", 8, false, (*c12gen).opOpen},
	{"readat", 12, false, (*c12gen).opRead},
	{"delete", 4, false, (*c12gen).opDelete},
	{"link", 6, false, (*c12gen).opLink},
	{"atomic", 6, false, (*c12gen).opAtomic},
	{"list", 5, false, (*c12gen).opList},
	{"mkdir", 1, false, (*c12gen).opMkdir},
	{"read-after-unlink", 4, false, (*c12gen).patReadAfterUnlink},
	{"append-after-unlink", 3, false, (*c12gen).patAppendAfterUnlink},
	{"link-then-overwrite", 4, false, (*c12gen).patLinkThenOverwrite},
	{"create-after-delete", 3, false, (*c12gen).patCreateAfterDelete},
	{"write-read-boundaries", 4, false, (*c12gen).patWriteReadBoundaries},
	{"refusals", 3, false, (*c12gen).patRefusals},
	{"two-opens", 7, true, (*c12gen).patTwoOpens},
	{"open-while-appending", 7, true, (*c12gen).patOpenWhileAppending},
	{"open-existing-appender", 4, true, (*c12gen).patOpenExistingAppender},
}

// genHistory builds one valid history as a function of (seed, pool, index).
// Pool A never has two descriptors open on one inode at the same time; pool B
// adds the descriptor-sharing patterns. The trailing ops close every
// descriptor that is still open.
func genHistory(seed int64, poolB bool, idx int) ([]Op, map[string]int) {
	pool := "A"
	if poolB {
		pool = "B"
	}
	rng := core.NewRng(seed, fmt.Sprintf("c12/%s/%d", pool, idx))
	g := &c12gen{rng: rng, m: NewModel(), poolB: poolB, pats: map[string]int{}}
	g.max = 12 + rng.Intn(29) // 12..40 ops
	nd := 2 + rng.Intn(2)
	perm := permute(rng, len(c12DirPool))
	for i := 0; i < nd; i++ {
		g.dirs = append(g.dirs, c12DirPool[perm[i]])
	}
	nn := 4 + rng.Intn(3)
	perm = permute(rng, len(c12NamePool))
	for i := 0; i < nn; i++ {
		g.names = append(g.names, c12NamePool[perm[i]])
	}
	for _, d := range g.dirs {
		g.emit(Op{K: "mkdir", Dir: d})
	}
	g.runMix(nil)
	return g.ops, g.pats
}

// runMix draws weighted patterns until the history is full, then closes most
// of the descriptors that are still open.
func (g *c12gen) runMix(extra []c12pat) {
	rng, poolB := g.rng, g.poolB
	pats := append(append([]c12pat(nil), c12pats...), extra...)
	total := 0
	for _, p := range pats {
		if !p.poolB || poolB {
			total += p.weight
		}
	}
	stuck := 0
	for !g.full() && stuck < 50 {
		x := rng.Intn(total)
		for _, p := range pats {
			if p.poolB && !poolB {
				continue
			}
			if x < p.weight {
				if p.f(g) {
					g.pats[p.name]++
					stuck = 0
				} else {
					stuck++
				}
				break
			}
			x -= p.weight
		}
	}
	// leave room for nothing: the closing ops are appended past the cap
	g.max = 1 << 30
	for _, fd := range g.m.OpenDescs(-1) {
		if rng.Chance(85) {
			g.emit(Op{K: "close", FD: fd})
		}
	}
}

func permute(rng *core.Rng, n int) []int {
	p := make([]int, n)
	for i := range p {
		p[i] = i
	}
	for i := n - 1; i > 0; i-- {
		j := rng.Intn(i + 1)
		p[i], p[j] = p[j], p[i]
	}
	return p
}

// validHistory reports whether ops respect every precondition (used by the
// shrinker after removing ops).
func validHistory(ops []Op) bool {
	m := NewModel()
	for _, o := range ops {
		if err := applyModel(m, o, nil); err != nil {
			return false
		}
	}
	return true
}

// sharesDescriptors reports whether some inode ever has two descriptors open
// at once (the pool B atom).
func sharesDescriptors(ops []Op) bool {
	m := NewModel()
	for _, o := range ops {
		if applyModel(m, o, nil) != nil {
			return false
		}
		for _, d := range m.descs {
			if len(d.overlap) > 0 {
				return true
			}
		}
	}
	return false
}

// directedHistories is the seed-independent layer: the shortest histories of
// each descriptor pattern (pool B: two descriptors on one file) and of each
// documented clause, so that every run exercises them whatever the seed.
func directedHistories() (poolA, poolB [][]Op) {
	mk := Op{K: "mkdir", Dir: "d0"}
	mk2 := Op{K: "mkdir", Dir: "d1"}
	cr := func(n string, fd int) Op { return Op{K: "create", Dir: "d0", Name: n, FD: fd} }
	op := func(n string, fd int) Op { return Op{K: "open", Dir: "d0", Name: n, FD: fd} }
	ap := func(fd, n int) Op { return Op{K: "append", FD: fd, N: n, DS: uint64(2*n + 1)} }
	cl := func(fd int) Op { return Op{K: "close", FD: fd} }
	rd := func(fd int, off, l uint64) Op { return Op{K: "readat", FD: fd, Off: off, Len: l} }
	poolB = [][]Op{
		{mk, cr("a", 1), op("a", 2)},
		{mk, cr("a", 1), ap(1, 10), op("a", 2), ap(1, 10), rd(2, 0, 100), cl(2), ap(1, 5), cl(1)},
		{mk, cr("a", 1), ap(1, 10), cl(1), op("a", 2), op("a", 3), rd(2, 0, 5), cl(2), rd(3, 5, 100), cl(3)},
		{mk, cr("a", 1), op("a", 2), cl(2), cl(1)},
		{mk, cr("a", 1), op("a", 2), cl(2), ap(1, 7), cl(1)},
		{mk, cr("a", 1), ap(1, 3), op("a", 2), cl(1), rd(2, 0, 3), cl(2)},
		{mk, mk2, cr("a", 1), ap(1, 4), {K: "link", Dir: "d0", Name: "a", Dir2: "d1", Name2: "b"}, {K: "open", Dir: "d1", Name: "b", FD: 2}, ap(1, 4), rd(2, 0, 8), cl(1), rd(2, 4, 8), cl(2)},
	}
	poolA = [][]Op{
		{mk, cr("a", 1), ap(1, 4096), ap(1, 1), cl(1), op("a", 2), rd(2, 0, 4097), rd(2, 4096, 1), rd(2, 4097, 1), rd(2, 4095, 0), rd(2, 1, 4095), cl(2)},
		{mk, cr("a", 1), cr("a", 2), cl(1), {K: "delete", Dir: "d0", Name: "a"}, cr("a", 3), ap(3, 2), cl(3)},
		{mk, mk2, {K: "atomic", Dir: "d0", Name: "a", N: 100, DS: 5}, {K: "link", Dir: "d0", Name: "a", Dir2: "d1", Name2: "a"},
			{K: "link", Dir: "d0", Name: "a", Dir2: "d1", Name2: "a"}, {K: "atomic", Dir: "d0", Name: "a", N: 7, DS: 9},
			{K: "open", Dir: "d1", Name: "a", FD: 1}, rd(1, 0, 200), cl(1), op("a", 2), rd(2, 0, 200), cl(2)},
		{mk, {K: "atomic", Dir: "d0", Name: "a", N: 50, DS: 3}, op("a", 1), {K: "delete", Dir: "d0", Name: "a"}, rd(1, 0, 50),
			{K: "atomic", Dir: "d0", Name: "a", N: 20, DS: 11}, rd(1, 10, 50), cl(1), {K: "list", Dir: "d0"}},
		{mk, cr("a", 1), {K: "delete", Dir: "d0", Name: "a"}, ap(1, 9), cl(1), {K: "list", Dir: "d0"}},
	}
	return
}
