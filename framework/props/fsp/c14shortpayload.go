//go:build linux && amd64

package fsp

import (
	"bufio"
	"bytes"
	"encoding/json"
	"fmt"
	"os"
	"path/filepath"
	"runtime"
	"sort"
	"strconv"
	"strings"
	"sync"
	"time"

	"verif/core"
	"verif/props"

	"github.com/goose-lang/goose/machine/filesys"
)

// C14, the cross of two dimensions: payload size × SHORT TRANSFERS, under
// concurrency. "Appends through distinct descriptors are applied atomically":
// a reader polling the file must see whole appends only, also when the kernel
// takes an append in pieces (short writes) and hands a read out in pieces
// (short preads). The cells of the payload matrix (c14payloadmx.go: one
// writer appending header + body + trailer round after round, two pollers, a
// lister; self-identifying payloads) run on DirFs in a child that the
// short-transfer tracer of c12short.go runs PRE-ARMED: every read and write
// on a file below the DirFs root is cut to n bytes (n from the seed: 4 KiB …
// 68 KiB) at system-call entry, so a 1 MiB append needs 16 … 256 writes.
// The child knows nothing of the tracer; its oracle is the payload parser.

func init() {
	props.Children["c14-short-payload"] = c14ShortPayloadChild
}

var shortPayloadSizes = []int{65537, 262144, 1 << 20}

// c14ShortPayloadChild: vcheck child c14-short-payload <gomaxprocs> <outfile> <rootdir> <size index>
func c14ShortPayloadChild(args []string) int {
	if len(args) != 4 {
		fmt.Fprintln(os.Stderr, "c14-short-payload: bad arguments")
		return 2
	}
	procs, _ := strconv.Atoi(args[0])
	out, err := os.Create(args[1])
	if err != nil {
		fmt.Fprintln(os.Stderr, err)
		return 2
	}
	defer out.Close()
	runtime.GOMAXPROCS(procs)
	w := bufio.NewWriter(out)
	only, _ := strconv.Atoi(args[3])
	for idx, size := range shortPayloadSizes {
		if idx != only {
			continue
		}
		fmt.Fprintf(w, "{\"begin\":%d,\"size\":%d}\n", idx, size)
		w.Flush()
		dir := filepath.Join(args[2], fmt.Sprintf("p%d", idx))
		if err := os.MkdirAll(dir, 0o755); err != nil {
			fmt.Fprintln(os.Stderr, err)
			return 2
		}
		d := filesys.NewDirFs(dir)
		cell := pmRunCell(d, "dirfs", "append", size)
		guarded(func() { d.CloseFs() })
		os.RemoveAll(dir)
		b, _ := json.Marshal(cell)
		w.Write(b)
		w.WriteByte('\n')
		w.Flush()
	}
	return 0
}

func c14ShortPayload(r *core.Run, self string, childLog *[]string, mu *sync.Mutex) {
	rng := core.NewRng(r.Seed, "c14-short-payload")
	cutTo := []int{4096, 16384, 65536}[rng.Intn(3)] + rng.Intn(4096)
	type agg struct {
		sizes []string
		first string
		cell  pmCell
	}
	found := map[string]*agg{}
	cuts := map[string]int64{}
	cells := 0
	var amu sync.Mutex
	// one traced child per payload size, side by side: a cell whose writer dies
	// keeps its pollers busy until their own 30 s limit
	core.Parallel(len(shortPayloadSizes), len(shortPayloadSizes), func(si int) {
		out := filepath.Join(r.Scratch, fmt.Sprintf("short-payload-%d.jsonl", si))
		logPath := filepath.Join(r.Scratch, fmt.Sprintf("short-payload-tracer-%d.log", si))
		root := filepath.Join(r.Scratch, fmt.Sprintf("root-short-payload-%d", si))
		os.MkdirAll(root, 0o755)
		defer os.RemoveAll(root)
		args := []string{"child", "c12-short-tracer", root, logPath, fmt.Sprintf("prearm=3:%d", cutTo), self, "child", "c14-short-payload", "4", out, root, strconv.Itoa(si)}
		mu.Lock()
		*childLog = append(*childLog, self+" "+strings.Join(args, " "))
		mu.Unlock()
		res := core.Exec(r.Scratch, nil, 10*time.Minute, "", self, args...)
		defer os.Remove(out)
		defer os.Remove(logPath)
		if res.TimedOut {
			r.Inconclusive("short-payload child watchdog fired")
			return
		}
		if res.Code == 97 {
			r.Inconclusive("short-payload tracer could not trace: " + tail(firstLines(res.Stderr, 2), 200))
			return
		}
		amu.Lock()
		defer amu.Unlock()
		if b, err := os.ReadFile(logPath); err == nil {
			for _, l := range strings.Split(string(b), "\n") {
				if f := strings.Fields(l); len(f) >= 2 {
					cuts[f[1]]++
				}
			}
		}
		lastSize := shortPayloadSizes[si]
		if res.Code != 0 {
			cls := "exit-" + strconv.Itoa(res.Code)
			if m := fatalRe.FindStringSubmatch(res.Stderr); m != nil {
				cls = slug(m[2])
			}
			r.Violate("child-crash-dirfs-"+cls, fmt.Sprintf("the dirfs short-payload child (every transfer cut to %d bytes) died in the cell append of %s: %s", cutTo, sizeLabel(lastSize), tail(firstLines(res.Stderr, 3), 300)),
				map[string]interface{}{"size": lastSize, "exit": res.Code, "stderr_tail": tail(res.Stderr, 3000), "command": self + " " + strings.Join(args, " ")})
		}
		f, err := os.Open(out)
		if err != nil {
			return
		}
		sc := bufio.NewScanner(f)
		sc.Buffer(make([]byte, 1<<20), 16<<20)
		for sc.Scan() {
			line := sc.Bytes()
			if bytes.HasPrefix(line, []byte(`{"begin"`)) {
				var bg struct{ Size int }
				if json.Unmarshal(line, &bg) == nil {
					lastSize = bg.Size
				}
				continue
			}
			var c pmCell
			if json.Unmarshal(line, &c) != nil || c.Kind == "" {
				continue
			}
			cells++
			r.Eval(int(c.NewData) + 3*c.Rounds)
			r.Count("short_payload_reader_polls", c.Polls)
			r.Count("short_payload_polls_that_returned_new_data", c.NewData)
			r.Count("short_payload_overlapping_call_pairs", c.Overlaps)
			if c.Overlaps > 0 {
				r.Distinct(fmt.Sprintf("short-payload|%s|%d", sizeLabel(c.Size), cutTo))
			}
			for _, a := range c.Anomalies {
				kind := a
				if i := strings.Index(a, ":"); i > 0 {
					kind = a[:i]
				}
				sig := fmt.Sprintf("payload-matrix-dirfs-append-%s-under-short-transfers", kind)
				if found[sig] == nil {
					found[sig] = &agg{first: a, cell: c}
				}
				if l := sizeLabel(c.Size); !strings.Contains(" "+strings.Join(found[sig].sizes, " ")+" ", " "+l+" ") {
					found[sig].sizes = append(found[sig].sizes, l)
				}
			}
		}
		f.Close()
	})
	r.Set("short_payload_every_transfer_cut_to_bytes", cutTo)
	r.Set("short_payload_transfers_cut_by_syscall", cuts)
	r.Set("short_payload_cells_run", cells)
	var sigs []string
	for s := range found {
		sigs = append(sigs, s)
	}
	sort.Strings(sigs)
	for _, sig := range sigs {
		a := found[sig]
		sort.Strings(a.sizes)
		r.Violate(sig, fmt.Sprintf("dirfs, every read and write on the files cut to %d bytes by the tracer, payload sizes %s: %s [first seen at size %s, %d rounds; transfers cut: %v]", cutTo, strings.Join(a.sizes, " "), a.first, sizeLabel(a.cell.Size), a.cell.Rounds, cuts),
			map[string]interface{}{"failing_sizes": a.sizes, "cell": a.cell, "every_transfer_cut_to": cutTo,
				"replay": "payload-matrix cell `append` (c14payloadmx.go) on DirFs in a child run by `vcheck child c12-short-tracer <root> <log> prearm=3:<n> …`"})
	}
}
