package fsp

import (
	"fmt"
	"regexp"
	"strings"
	"unicode"

	"verif/core"
)

// The dimension "shape of a file or directory NAME".
//
// Nothing in the statements of C12 / C14 reserves any name: every legal single
// path component (no '/', no NUL, not "." or "..", at most NAME_MAX bytes) is an
// ordinary name for Mkdir, Create, AtomicCreate, Link, Open, Delete and must
// appear in List. An implementation, on the other hand, is tempted to reserve
// names for itself (staging files of AtomicCreate, lock files, backups) and to
// treat them specially (hide them from List, clobber them, refuse them). The
// catalogue below holds every suffix / prefix / wrapping such an implementation
// might pick, the general shapes of staging names, names related to other names
// of the same history (a directory's name, another case of the same letters),
// names with characters that are special to some layer (shell, URL, printf,
// glob), unicode, dots, and lengths up to NAME_MAX.

type shapeCtx struct {
	stem string // the plain name the shape is derived from
	dir  string // the directory the name will live in
	p, q int    // digits (a process-id-like and a counter-like number)
}

type nameShape struct {
	Label string
	F     func(c shapeCtx) string
}

func padTo(s string, n int, fill string) string {
	for len(s)+len(fill) <= n {
		s += fill
	}
	for len(s) < n {
		s += "x"
	}
	return s
}

func swapCase(s string) string {
	var b strings.Builder
	for _, r := range s {
		switch {
		case unicode.IsUpper(r):
			b.WriteRune(unicode.ToLower(r))
		case unicode.IsLower(r):
			b.WriteRune(unicode.ToUpper(r))
		default:
			b.WriteRune(r)
		}
	}
	return b.String()
}

func nameShapeCatalogue() []nameShape {
	var out []nameShape
	add := func(label string, f func(c shapeCtx) string) { out = append(out, nameShape{label, f}) }
	// suffixes an implementation might reserve
	for _, suf := range []string{".tmp", ".temp", ".new", ".bak", ".lock", ".swp", ".swo", ".part", ".partial", ".old", ".orig", ".stage",
		"~", ".tmp~", ".TMP", ".Tmp", ".tmp.tmp", ".tmp.", ".tmp ", "-tmp", "_tmp", ".tmp0", ".t", ".~"} {
		suf := suf
		add("suffix:"+suf, func(c shapeCtx) string { return c.stem + suf })
	}
	// prefixes
	for _, pre := range []string{".", "_", "-", "--", "~", "#", ".#", "._", "~$", "tmp.", "tmp-", "tmp_", ".tmp.", ".tmp-", ".~", "..", "...", ",", "="} {
		pre := pre
		add("prefix:"+pre, func(c shapeCtx) string { return pre + c.stem })
	}
	// wrappings
	for _, w := range [][2]string{{"#", "#"}, {".", ".swp"}, {".", ".tmp"}, {".", ".lock"}, {".", "~"}, {".", ".new"}, {"_", ".tmp"}, {"~", ".tmp"}, {".#", ".tmp"}, {"(", ")"}, {"[", "]"}, {"{", "}"}, {"<", ">"}, {"\"", "\""}, {"'", "'"}} {
		w := w
		add("wrap:"+w[0]+"…"+w[1], func(c shapeCtx) string { return w[0] + c.stem + w[1] })
	}
	// staging-name shapes (general forms, digits from the seed — never this
	// process's id: an exact collision with a live staging file is a matter of
	// the C13 scenarios and of the dedicated probe, not of chance)
	add("staging:<name>.<p>-<q>.tmp", func(c shapeCtx) string { return fmt.Sprintf("%s.%d-%d.tmp", c.stem, c.p, c.q) })
	add("staging:<name>.<p>-<q+1>.tmp", func(c shapeCtx) string { return fmt.Sprintf("%s.%d-%d.tmp", c.stem, c.p, c.q+1) })
	add("staging:<name>.<p>-1.tmp", func(c shapeCtx) string { return fmt.Sprintf("%s.%d-1.tmp", c.stem, c.p) })
	add("staging:<name>.1-1.tmp", func(c shapeCtx) string { return c.stem + ".1-1.tmp" })
	add("staging:<name>.0-0.tmp", func(c shapeCtx) string { return c.stem + ".0-0.tmp" })
	add("staging:<name>.<p>.<q>.tmp", func(c shapeCtx) string { return fmt.Sprintf("%s.%d.%d.tmp", c.stem, c.p, c.q) })
	add("staging:<name>.<p>.tmp", func(c shapeCtx) string { return fmt.Sprintf("%s.%d.tmp", c.stem, c.p) })
	add("staging:<name>.<q>.tmp", func(c shapeCtx) string { return fmt.Sprintf("%s.%d.tmp", c.stem, c.q) })
	add("staging:<name>-<p>-<q>.tmp", func(c shapeCtx) string { return fmt.Sprintf("%s-%d-%d.tmp", c.stem, c.p, c.q) })
	add("staging:<name>.<p>-<q>", func(c shapeCtx) string { return fmt.Sprintf("%s.%d-%d", c.stem, c.p, c.q) })
	add("staging:<name>.tmp.<q>", func(c shapeCtx) string { return fmt.Sprintf("%s.tmp.%d", c.stem, c.q) })
	add("staging:<name>.tmp-<q>", func(c shapeCtx) string { return fmt.Sprintf("%s.tmp-%d", c.stem, c.q) })
	add("staging:<name>.tmp<6 digits>", func(c shapeCtx) string { return fmt.Sprintf("%s.tmp%06d", c.stem, c.p) })
	add("staging:<name>.<p>-<q>.tmp.tmp", func(c shapeCtx) string { return fmt.Sprintf("%s.%d-%d.tmp.tmp", c.stem, c.p, c.q) })
	add("staging:.<name>.<p>-<q>.tmp", func(c shapeCtx) string { return fmt.Sprintf(".%s.%d-%d.tmp", c.stem, c.p, c.q) })
	add("staging:<dir>.<name>.tmp", func(c shapeCtx) string { return c.dir + "." + c.stem + ".tmp" })
	add("staging:<dir>-<name>.tmp", func(c shapeCtx) string { return c.dir + "-" + c.stem + ".tmp" })
	add("staging:<dir>_<name>.tmp", func(c shapeCtx) string { return c.dir + "_" + c.stem + ".tmp" })
	add("staging:<dir>%2F<name>.tmp", func(c shapeCtx) string { return c.dir + "%2F" + c.stem + ".tmp" })
	add("staging:<dir>.<name>.<p>-<q>.tmp", func(c shapeCtx) string { return fmt.Sprintf("%s.%s.%d-%d.tmp", c.dir, c.stem, c.p, c.q) })
	add("staging:<p>-<q>.tmp", func(c shapeCtx) string { return fmt.Sprintf("%d-%d.tmp", c.p, c.q) })
	add("staging:.<p>-<q>.tmp", func(c shapeCtx) string { return fmt.Sprintf(".%d-%d.tmp", c.p, c.q) })
	add("staging:tmp<q>", func(c shapeCtx) string { return fmt.Sprintf("tmp%d", c.q) })
	add("staging:.tmp<q>", func(c shapeCtx) string { return fmt.Sprintf(".tmp%d", c.q) })
	add("staging:.tmp", func(c shapeCtx) string { return ".tmp" })
	add("staging:tmp", func(c shapeCtx) string { return "tmp" })
	add("staging:temp", func(c shapeCtx) string { return "temp" })
	add("staging:.lock", func(c shapeCtx) string { return ".lock" })
	add("staging:LOCK", func(c shapeCtx) string { return "LOCK" })
	// related to other names of the history
	add("rel:equals-directory-name", func(c shapeCtx) string { return c.dir })
	add("rel:directory-name.tmp", func(c shapeCtx) string { return c.dir + ".tmp" })
	add("rel:swapped-case", func(c shapeCtx) string { return swapCase(c.stem) })
	add("rel:upper-case", func(c shapeCtx) string { return strings.ToUpper(c.stem) + "" })
	add("rel:title-case", func(c shapeCtx) string { return strings.ToUpper(c.stem[:1]) + c.stem[1:] + "" })
	add("rel:trailing-space", func(c shapeCtx) string { return c.stem + " " })
	add("rel:leading-space", func(c shapeCtx) string { return " " + c.stem })
	add("rel:inner-space", func(c shapeCtx) string { return c.stem[:1] + " " + c.stem[1:] + "" })
	add("rel:doubled", func(c shapeCtx) string { return c.stem + c.stem })
	add("rel:stem.stem", func(c shapeCtx) string { return c.stem + "." + c.stem })
	// characters that are special to some layer
	for _, ch := range []string{"%", "%2F", "%00", "%s", "%d", "%!", "+", "=", ",", ";", ":", "*", "?", "\\", "\\x", "&", "|", "$", "$HOME", "!", "@", "^", "`", "\t", "\n", "\r", "\x7f", "\x01", "\x1b[0m"} {
		ch := ch
		add(fmt.Sprintf("char:%q-inside", ch), func(c shapeCtx) string { return c.stem + ch + "x" })
		add(fmt.Sprintf("char:%q-trailing", ch), func(c shapeCtx) string { return c.stem + ch })
	}
	for _, ch := range []string{"%", "+", "=", ",", "*", "?", "\\", "$", "!", "@", " ", "\t", "\n"} {
		ch := ch
		add(fmt.Sprintf("char:%q-alone", ch), func(c shapeCtx) string { return ch })
	}
	// unicode
	for _, u := range []string{"\u00e9", "e\u0301", "\u65e5\u672c\u8a9e", "\u0444\u0430\u0439\u043b", "\U0001F600", "\u00df", "\u017f", "\u0130", "\u0131", "\u212a", "\u200d", "\u202e", "\ufeff", "\u00a0", "\u2215", "\u2024", "\u3000"} {
		u := u
		add(fmt.Sprintf("unicode:%q-alone", u), func(c shapeCtx) string { return u })
		add(fmt.Sprintf("unicode:%q-appended", u), func(c shapeCtx) string { return c.stem + u })
	}
	// dots
	for _, d := range []string{".", "..", "..."} {
		d := d
		add("dots:trailing"+d, func(c shapeCtx) string { return c.stem + d })
	}
	add("dots:...", func(c shapeCtx) string { return "..." })
	add("dots:....", func(c shapeCtx) string { return "...." })
	add("dots:.. ", func(c shapeCtx) string { return ".. " })
	add("dots:. ", func(c shapeCtx) string { return ". " })
	add("dots: .", func(c shapeCtx) string { return " ." })
	add("dots:..x", func(c shapeCtx) string { return ".." + c.stem })
	add("dots:.-.", func(c shapeCtx) string { return ".-." })
	// lengths
	add("len:1", func(c shapeCtx) string { return "z" })
	add("len:128", func(c shapeCtx) string { return padTo(c.stem+"-", 128, "0123456789") })
	add("len:200", func(c shapeCtx) string { return padTo(c.stem+"-", 200, "0123456789") })
	add("len:236", func(c shapeCtx) string { return padTo(c.stem+"-", 236, "0123456789") })
	add("len:250", func(c shapeCtx) string { return padTo(c.stem+"-", 250, "0123456789") })
	add("len:251-ending-.tmp", func(c shapeCtx) string { return padTo(c.stem+"-", 247, "0123456789") + ".tmp" })
	add("len:254", func(c shapeCtx) string { return padTo(c.stem+"-", 254, "0123456789") })
	add("len:255", func(c shapeCtx) string { return padTo(c.stem+"-", 255, "0123456789") })
	add("len:255-ending-.tmp", func(c shapeCtx) string { return padTo(c.stem+"-", 251, "0123456789") + ".tmp" })
	add("len:255-multibyte", func(c shapeCtx) string { return padTo(c.stem, 255, "\u00e9") })
	add("len:255-dots", func(c shapeCtx) string { return strings.Repeat(".", 255) })
	// numbers and option-like names
	for _, s := range []string{"0", "1", "-1", "00", "1e9", "0x10", "-", "--", "-rf", "--help", "-n"} {
		s := s
		add("optlike:"+s, func(c shapeCtx) string { return s })
	}
	return out
}

var (
	reservedSuffixes = []string{".tmp", ".temp", ".new", ".bak", ".lock", ".swp", ".swo", ".part", ".partial", ".old", ".orig", ".stage"}
	stagingTailRe    = regexp.MustCompile(`[.-][0-9]+([.-][0-9]+)?$`)
)

// nameClass classifies a name by its own text only (used in signatures and in
// the distinct-case measure, so it must not depend on the generator): "" is a
// plain name.
func nameClass(n string) string {
	if len(n) >= 230 {
		return "near-name-max"
	}
	return nameTextClass(n)
}

// nameTextClass: the class by spelling alone, whatever the length.
func nameTextClass(n string) string {
	low := strings.ToLower(n)
	if n == "" {
		return ""
	}
	for _, s := range reservedSuffixes {
		if strings.HasSuffix(low, s) {
			return "suffix-" + s
		}
	}
	for _, s := range reservedSuffixes {
		if strings.Contains(low, s) {
			return "contains-" + s
		}
	}
	for _, r := range n {
		if r < 0x20 || r == 0x7f {
			return "control-character"
		}
	}
	for _, r := range n {
		if r >= 0x80 {
			return "non-ascii"
		}
	}
	switch {
	case strings.HasSuffix(n, "~"):
		return "trailing-tilde"
	case strings.HasPrefix(n, "#") && strings.HasSuffix(n, "#") && len(n) > 1:
		return "hash-wrapped"
	case strings.Trim(n, ".") == "":
		return "only-dots"
	case strings.HasPrefix(n, "."):
		return "leading-dot"
	case strings.HasPrefix(n, "_"):
		return "leading-underscore"
	case strings.HasPrefix(n, "-"):
		return "leading-dash"
	case strings.HasPrefix(n, "~"), strings.HasPrefix(n, "#"):
		return "leading-" + map[byte]string{'~': "tilde", '#': "hash"}[n[0]]
	case strings.HasSuffix(n, "."):
		return "trailing-dot"
	case strings.Contains(n, " "):
		return "space"
	case strings.ContainsAny(n, "%+=,;:*?\\&|$!@^`()[]{}<>\"'"):
		return "punctuation"
	case stagingTailRe.MatchString(n) || low == "tmp" || low == "temp" || strings.HasPrefix(low, "tmp"):
		return "staging-like"
	case strings.Trim(n, "0123456789") == "":
		return "numeric"
	case low != n:
		return "upper-case"
	}
	return ""
}

// opArgClass names the boundary class of an op's arguments ("" = ordinary):
// the shape of the name (else of the directory) it addresses, or the region of
// a ReadAt offset.
func opArgClass(o Op) string {
	switch o.K {
	case "readat":
		switch {
		case o.Off >= 1<<63:
			return "offset-ge-2^63"
		case o.Len >= 1<<31:
			return "length-ge-2^31"
		case o.Off+o.Len >= 1<<63:
			return "offset+length-ge-2^63"
		}
		return ""
	case "append", "close":
		return ""
	}
	for _, n := range []string{o.Name2, o.Name} {
		if c := nameClass(n); c != "" {
			return "name-" + c
		}
	}
	for _, d := range []string{o.Dir2, o.Dir} {
		if c := nameClass(d); c != "" {
			return "dir-" + c
		}
	}
	return ""
}

// listDiffClass names how an observed List differs from the expected one: the
// class of the first missing (else first extra) name.
func listDiffClass(want, got []string) string {
	w, g := map[string]bool{}, map[string]bool{}
	for _, n := range want {
		w[n] = true
	}
	for _, n := range got {
		g[n] = true
	}
	cls := func(n string) string {
		if c := nameTextClass(n); c != "" {
			return c
		}
		return nameClass(n)
	}
	for _, n := range want {
		if !g[n] {
			if c := cls(n); c != "" {
				return "missing-name-" + c
			}
			return ""
		}
	}
	for _, n := range got {
		if !w[n] {
			if c := cls(n); c != "" {
				return "extra-name-" + c
			}
			return ""
		}
	}
	return ""
}

// ---------------------------------------------------------------- name × operation matrix

type c12item struct {
	pool   string
	family string
	body   []Op
}

// hb builds a history; descriptors are numbered by the builder.
type hb struct {
	ops []Op
	fd  int
	ds  uint64
}

func (h *hb) mk(d string) *hb { h.ops = append(h.ops, Op{K: "mkdir", Dir: d}); return h }
func (h *hb) ls(ds ...string) *hb {
	for _, d := range ds {
		h.ops = append(h.ops, Op{K: "list", Dir: d})
	}
	return h
}
func (h *hb) cr(d, n string) int {
	h.fd++
	h.ops = append(h.ops, Op{K: "create", Dir: d, Name: n, FD: h.fd})
	return h.fd
}
func (h *hb) open(d, n string) int {
	h.fd++
	h.ops = append(h.ops, Op{K: "open", Dir: d, Name: n, FD: h.fd})
	return h.fd
}
func (h *hb) ap(fd, n int) *hb {
	h.ds += 2
	h.ops = append(h.ops, Op{K: "append", FD: fd, N: n, DS: h.ds + 1})
	return h
}
func (h *hb) apNil(fd int) *hb { h.ops = append(h.ops, Op{K: "append", FD: fd, Nil: true}); return h }
func (h *hb) cl(fd int) *hb    { h.ops = append(h.ops, Op{K: "close", FD: fd}); return h }
func (h *hb) rd(fd int, off, l uint64) *hb {
	h.ops = append(h.ops, Op{K: "readat", FD: fd, Off: off, Len: l})
	return h
}
func (h *hb) del(d, n string) *hb { h.ops = append(h.ops, Op{K: "delete", Dir: d, Name: n}); return h }
func (h *hb) ln(d, n, d2, n2 string) *hb {
	h.ops = append(h.ops, Op{K: "link", Dir: d, Name: n, Dir2: d2, Name2: n2})
	return h
}
func (h *hb) at(d, n string, size int) *hb {
	h.ds += 2
	h.ops = append(h.ops, Op{K: "atomic", Dir: d, Name: n, N: size, DS: h.ds + 1})
	return h
}
func (h *hb) atNil(d, n string) *hb {
	h.ops = append(h.ops, Op{K: "atomic", Dir: d, Name: n, Nil: true})
	return h
}

// whole file through a fresh descriptor
func (h *hb) readBack(d, n string) *hb {
	r := h.open(d, n)
	return h.rd(r, 0, 5000).cl(r)
}

// file with contents, closed
func (h *hb) file(d, n string, size int) *hb {
	c := h.cr(d, n)
	return h.ap(c, size).cl(c)
}

type nameTemplate struct {
	Label string
	// d, e: two plain directory names; n: the shaped name; stem: the plain name it was derived from
	F func(h *hb, d, e, n, stem string)
}

// nameTemplates: the operation mixes every shaped name goes through. After
// every call that adds or removes a name the directory is listed.
func nameTemplates() []nameTemplate {
	return []nameTemplate{
		{"create-append-read-delete", func(h *hb, d, e, n, stem string) {
			h.mk(d).ls(d)
			c := h.cr(d, n)
			h.ls(d).ap(c, 100).cl(c).ls(d).readBack(d, n).del(d, n).ls(d)
		}},
		{"atomiccreate-new-then-replace", func(h *hb, d, e, n, stem string) {
			h.mk(d).at(d, n, 50).ls(d).readBack(d, n).at(d, n, 7).ls(d).readBack(d, n).del(d, n).ls(d).at(d, n, 0).ls(d).atNil(d, n).ls(d).at(d, n, 1).ls(d)
		}},
		{"link-to-the-name", func(h *hb, d, e, n, stem string) {
			h.mk(d).mk(e).at(d, "src", 30).ln(d, "src", d, n).ls(d).ln(d, "src", e, n).ls(e).del(d, "src").ls(d).readBack(d, n).readBack(e, n)
		}},
		{"link-from-the-name", func(h *hb, d, e, n, stem string) {
			h.mk(d).mk(e).file(d, n, 1).ln(d, n, e, "plain").ln(d, n, e, n).ls(d, e).del(d, n).ls(d, e).readBack(e, n).readBack(e, "plain")
		}},
		{"beside-its-stem-atomiccreate-of-the-stem", func(h *hb, d, e, n, stem string) {
			// a staging file named after the stem must not touch the user's file n
			h.mk(d).file(d, n, 40).ls(d).at(d, stem, 10).ls(d).at(d, stem, 20).ls(d).readBack(d, n)
			h.cr(d, stem) // refused
			h.del(d, stem).ls(d).readBack(d, n)
		}},
		{"beside-its-stem-both-by-atomiccreate", func(h *hb, d, e, n, stem string) {
			h.mk(d).at(d, stem, 10).at(d, n, 15).ls(d).at(d, stem, 5).ls(d).readBack(d, n).del(d, n).ls(d).readBack(d, stem)
		}},
		{"same-name-in-three-directories", func(h *hb, d, e, n, stem string) {
			h.mk(d).mk(e).mk("d2").at(d, n, 10).file(e, n, 11).ls(d, e, "d2").ln(d, n, "d2", n).ls("d2").at(e, n, 3).del(d, n).ls(d, e, "d2").readBack(e, n).readBack("d2", n)
		}},
		{"as-directory-name", func(h *hb, d, e, n, stem string) {
			h.mk(n).ls(n).file(n, "a", 9).at(n, "b", 9).ln(n, "a", n, "c").ls(n)
			c := h.cr(n, n) // a file named like its directory
			h.cl(c).ls(n).at(n, stem, 4).ls(n).del(n, "a").ls(n).readBack(n, "c").readBack(n, n)
		}},
		{"directory-of-that-name-beside-atomiccreate-of-the-stem", func(h *hb, d, e, n, stem string) {
			// a staging file in the root named after the stem must not hit the directory n
			h.mk(d).mk(n).at(d, stem, 10).ls(d, n).file(d, n, 3).ls(d).at(n, stem, 5).ls(n).at(d, stem, 6).readBack(d, stem).readBack(n, stem)
		}},
		{"atomiccreate-over-deleted-but-open", func(h *hb, d, e, n, stem string) {
			h.mk(d).file(d, n, 20)
			r := h.open(d, n)
			h.del(d, n).ls(d).at(d, n, 8).ls(d).rd(r, 0, 50).cl(r).readBack(d, n)
		}},
		{"refusals", func(h *hb, d, e, n, stem string) {
			h.mk(d)
			c := h.cr(d, n)
			h.cr(d, n)
			h.at(d, "src", 3).ln(d, "src", d, n).ls(d).cl(c)
		}},
		{"beside-its-case-variant", func(h *hb, d, e, n, stem string) {
			v := swapCase(n)
			if v == n {
				v = n + "X"
			}
			if len(v) > 255 {
				v = v[:255]
			}
			h.mk(d).file(d, n, 10).at(d, v, 20).ls(d).readBack(d, n).readBack(d, v).del(d, n).ls(d).readBack(d, v)
		}},
		{"atomiccreate-over-name-open-for-append", func(h *hb, d, e, n, stem string) {
			h.mk(d)
			c := h.cr(d, n)
			h.ap(c, 10).at(d, n, 5).ls(d).ap(c, 10).readBack(d, n).cl(c).ls(d)
		}},
	}
}

// nameMatrix: every shape × every template (plain directories d0/d1), plus
// every shape as a directory name.
func nameMatrix(seed int64) (items []c12item, dropped int) {
	rng := core.NewRng(seed, "c12/name-matrix")
	stems := []string{"f", "a", "log", "notes", "data"}
	shapes := nameShapeCatalogue()
	tmpls := nameTemplates()
	for _, sh := range shapes {
		stem := stems[rng.Intn(len(stems))]
		ctx := shapeCtx{stem: stem, dir: "d0", p: 100 + rng.Intn(99900), q: 1 + rng.Intn(40)}
		n := sh.F(ctx)
		for _, t := range tmpls {
			h := &hb{}
			t.F(h, "d0", "d1", n, stem)
			if n == stem || !validHistory(h.ops) {
				dropped++
				continue
			}
			items = append(items, c12item{pool: "N", family: "name-shape×" + t.Label, body: h.ops})
		}
		// the shape as a directory name (derived from the stem "d")
		dctx := ctx
		dctx.stem, dctx.dir = "d", "d1"
		D := sh.F(dctx)
		h := &hb{}
		h.mk(D).mk("d1").ls(D).file(D, "a", 5).ls(D).at(D, "b", 6).ls(D).ln(D, "a", "d1", "a").ln("d1", "a", D, "c").ls(D, "d1")
		c := h.cr(D, D)
		h.cl(c).ls(D).at("d1", D, 3).ls("d1").del(D, "a").ls(D).readBack(D, "b").readBack(D, "c").at(D, "b", 0).ls(D)
		if D == "d1" || !validHistory(h.ops) {
			dropped++
			continue
		}
		items = append(items, c12item{pool: "N", family: "directory-name-shape", body: h.ops})
	}
	return
}

// ---------------------------------------------------------------- random histories over shaped names (pool N)

// genNameHistory: the random op mix of genHistory over a name pool made of
// stems and shapes of them (so that a name and its reserved-looking variants
// coexist), 1–6 directories whose names are shaped too; every call that adds
// or removes a name is followed by a List of its directory most of the time.
func genNameHistory(seed int64, idx int) ([]Op, map[string]int) {
	rng := core.NewRng(seed, fmt.Sprintf("c12/N/%d", idx))
	poolB := idx%3 == 2
	g := &c12gen{rng: rng, m: NewModel(), poolB: poolB, pats: map[string]int{}, listAfter: 75, nilData: true}
	g.max = 20 + rng.Intn(41) // 20..60 ops
	shapes := nameShapeCatalogue()
	p, q := 100+rng.Intn(99900), 1+rng.Intn(40)
	// directories: 1, 2, 3 or 6; some of them shaped
	nd := []int{1, 2, 2, 3, 3, 6}[rng.Intn(6)]
	dstems := []string{"d", "dir", "e", "db", "x", "D"}
	seenD := map[string]bool{}
	for len(g.dirs) < nd {
		d := dstems[len(g.dirs)%len(dstems)]
		if rng.Chance(50) {
			d = shapes[rng.Intn(len(shapes))].F(shapeCtx{stem: d, dir: dstems[rng.Intn(len(dstems))], p: p, q: q})
		}
		if seenD[d] || !simpleName(d) {
			continue
		}
		seenD[d] = true
		g.dirs = append(g.dirs, d)
	}
	// names: two stems, three to five shapes of them, a directory's name, a case variant
	stems := []string{"f", "a", "log", "notes", "data", "x"}
	perm := permute(rng, len(stems))
	s0, s1 := stems[perm[0]], stems[perm[1]]
	seenN := map[string]bool{}
	addName := func(n string) {
		if simpleName(n) && !seenN[n] {
			seenN[n] = true
			g.names = append(g.names, n)
		}
	}
	addName(s0)
	if rng.Bool() {
		addName(s1)
	}
	for i, k := 0, 3+rng.Intn(3); i < k; i++ {
		st := s0
		if rng.Chance(30) {
			st = s1
		}
		addName(shapes[rng.Intn(len(shapes))].F(shapeCtx{stem: st, dir: g.dirs[rng.Intn(len(g.dirs))], p: p, q: q + i}))
	}
	if rng.Chance(40) {
		addName(g.dirs[rng.Intn(len(g.dirs))])
	}
	if rng.Chance(30) {
		addName(swapCase(g.names[rng.Intn(len(g.names))]))
	}
	for _, d := range g.dirs {
		g.emit(Op{K: "mkdir", Dir: d})
	}
	g.runMix(nameMixExtra)
	return g.ops, g.pats
}

// patterns only pool N uses
var nameMixExtra = []c12pat{
	{"atomic-over-open-name", 4, false, (*c12gen).patAtomicOverOpen},
	{"list-every-directory", 3, false, (*c12gen).patListAll},
	{"read-far-offsets", 2, false, (*c12gen).patReadFar},
}

// AtomicCreate over a name whose inode is open for append: the descriptor keeps
// the old inode, the name gets the new contents.
func (g *c12gen) patAtomicOverOpen() bool {
	k, c, ok := g.newFile()
	if !ok {
		return false
	}
	g.appendTo(c)
	n, ds := g.data()
	g.emit(Op{K: "atomic", Dir: k.dir, Name: k.name, N: n, DS: ds})
	g.appendTo(c)
	if g.canOpen(k.dir, k.name) {
		r := g.fd()
		g.emit(Op{K: "open", Dir: k.dir, Name: k.name, FD: r})
		g.readWhole(r)
		g.emit(Op{K: "close", FD: r})
	}
	if g.rng.Bool() {
		g.emit(Op{K: "close", FD: c})
	}
	return true
}

func (g *c12gen) patListAll() bool {
	for _, d := range g.dirs {
		g.emit(Op{K: "list", Dir: d})
	}
	return true
}

// offsets far beyond any file, below the region where offset+length leaves
// the signed 64-bit range (that region has its own directed family)
func (g *c12gen) patReadFar() bool {
	c := g.m.OpenDescs(modeRead)
	if len(c) == 0 {
		return false
	}
	offs := []uint64{1<<31 - 1, 1 << 31, 1<<32 - 1, 1 << 32, 1<<32 + 1, 1 << 40, 1 << 62, 1<<63 - 70000}
	lens := []uint64{0, 1, 4096}
	return g.emit(Op{K: "readat", FD: c[g.rng.Intn(len(c))], Off: offs[g.rng.Intn(len(offs))], Len: lens[g.rng.Intn(len(lens))]})
}
