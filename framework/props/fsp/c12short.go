//go:build linux && amd64

package fsp

import (
	"bufio"
	"bytes"
	"encoding/json"
	"fmt"
	"os"
	"path/filepath"
	"runtime"
	"sort"
	"strconv"
	"strings"
	"syscall"
	"time"

	"verif/core"
	"verif/props"

	"github.com/goose-lang/goose/machine/filesys"
)

// C12, dimension "how much of a transfer the kernel performs in ONE system
// call". read(2)/pread(2)/write(2) may transfer fewer bytes than asked for
// and say so in their return value; that is not an error, the caller is meant
// to go on. Linux does it for every request above 0x7ffff000 bytes, at a file
// size limit, on a nearly full disk, on network and FUSE file systems and
// after a signal. The statement knows nothing of it: ReadAt returns exactly
// the bytes of the range that exist, Append appends exactly data.
//
// The family produces REAL short transfers of any size at any call: the DirFs
// histories run in a child process that is traced (ptrace, PTRACE_SYSCALL) by
// a tracer process of our own (`vcheck child c12-short-tracer`). Before the
// call under test the child ARMS the tracer with a schedule (a system call
// that is meaningless without the tracer: pread64 on descriptor 0xffffef6e);
// the tracer then lowers the count argument of the next 1, 2, 3 (or of all)
// read-class or write-class system calls on files below the DirFs root to the
// scheduled sizes, at system-call entry. The kernel performs the transfer
// with the smaller count: the data moved and the return value are genuine, so
// the oracle stays what it always is — the reference model in lock-step,
// byte for byte, followed by a read-back of every file — and no result is
// "tainted". After the call the child disarms the tracer and learns from the
// reply how many transfers were really cut (evidence; a schedule that did
// not bite decides nothing less: the results are still compared).
//
// Cases (a function of the seed only): ReadAt of whole / over-long / inner /
// tail / seeded ranges of files of 2 B … 1 MiB; Append of 2 B … 1 MiB to a
// file of 0 / 10 / 4096 bytes followed by an ordinary Append (the file
// position afterwards) and a read-back, with and without a reader opened
// before; AtomicCreate of 2 B … 70 000 B over an absent / shorter / longer
// file (its write loop is expected to cope) × schedules of 1, 2 and 3
// consecutive short transfers of 1, 2, 100, 4095, 4096, 65 536, half and
// all-but-one of the request, and "every transfer cut to n bytes".
//
// What is allowed. A short count is the kernel saying "go on", not a
// failure: the model has a defined result for the call, so a panic is a
// divergence ("a panic where the model has a defined result"), and so is a
// shorter ReadAt result. For an Append that panics the child also looks at
// the file itself and the signature says whether nothing, everything or a
// proper PREFIX of the data was appended (a torn append: neither of the two
// outcomes any sequential history of the model has). Transfers that FAIL
// (ENOSPC, EFBIG after the short count, EIO) are host limits outside the
// valid histories the statement quantifies over; this family injects none.

func init() {
	props.Children["c12-short-tracer"] = c12ShortTracer
	props.Children["c12-short-child"] = c12ShortChild
}

// ---------------------------------------------------------------- tracer protocol

const (
	shortMagicFD   = ^uintptr(0x1091) // 0x…ffffef6e: as an `unsigned int fd` no process has it, EBADF without the tracer
	shortCmdArm    = 1                // a3 = class | case<<8, a4..a6 = sizes (0 = none)
	shortCmdArmAll = 2                // a3 = class | case<<8, a4 = size for every transfer
	shortCmdDisarm = 3                // reply: transfers cut | vectored transfers seen << 32
	shortAck       = 4242
	shortRead      = 1
	shortWrite     = 2
)

type shortSched struct {
	Class string `json:"class"`           // read | write
	Sizes []int  `json:"sizes,omitempty"` // the j-th transfer of the class is cut to Sizes[j] bytes
	All   int    `json:"all,omitempty"`   // > 0: every transfer of the class is cut to All bytes
}

func (s shortSched) String() string {
	if s.All > 0 {
		return fmt.Sprintf("every %s cut to %d", s.Class, s.All)
	}
	return fmt.Sprintf("%s cut to %v", s.Class, s.Sizes)
}

func (s shortSched) classBits() uintptr {
	if s.Class == "read" {
		return shortRead
	}
	return shortWrite
}

// shortArm / shortDisarm are the child's side.
func shortArm(id int, s shortSched) bool {
	a3 := s.classBits() | uintptr(id)<<8
	var r uintptr
	var e syscall.Errno
	if s.All > 0 {
		r, _, e = syscall.Syscall6(syscall.SYS_PREAD64, shortMagicFD, shortCmdArmAll, a3, uintptr(s.All), 0, 0)
	} else {
		var z [3]uintptr
		for i := 0; i < len(s.Sizes) && i < 3; i++ {
			z[i] = uintptr(s.Sizes[i])
		}
		r, _, e = syscall.Syscall6(syscall.SYS_PREAD64, shortMagicFD, shortCmdArm, a3, z[0], z[1], z[2])
	}
	return e == 0 && r == shortAck
}

func shortDisarm() (cut, vectored int, ok bool) {
	r, _, e := syscall.Syscall6(syscall.SYS_PREAD64, shortMagicFD, shortCmdDisarm, 0, 0, 0, 0)
	if e != 0 {
		return 0, 0, false
	}
	return int(r & 0xffffffff), int(r >> 32), true
}

// ---------------------------------------------------------------- tracer

const (
	ptraceOTraceSysGood = 1
	ptraceOTraceFork    = 2
	ptraceOTraceVfork   = 4
	ptraceOTraceClone   = 8
	ptraceOExitKill     = 0x100000
)

var shortSysClass = map[uint64]int{
	syscall.SYS_READ: shortRead, syscall.SYS_PREAD64: shortRead,
	syscall.SYS_WRITE: shortWrite, syscall.SYS_PWRITE64: shortWrite,
}
var shortSysName = map[uint64]string{syscall.SYS_READ: "read", syscall.SYS_PREAD64: "pread64", syscall.SYS_WRITE: "write", syscall.SYS_PWRITE64: "pwrite64"}

// transfers whose size is not one count argument: seen while armed they are
// counted (the schedule could not be applied to them)
var shortVectored = map[uint64]int{
	syscall.SYS_READV: shortRead, syscall.SYS_PREADV: shortRead, 327 /* preadv2 */ : shortRead,
	syscall.SYS_WRITEV: shortWrite, syscall.SYS_PWRITEV: shortWrite, 328 /* pwritev2 */ : shortWrite,
	syscall.SYS_SENDFILE: shortWrite, 326 /* copy_file_range */ : shortWrite, syscall.SYS_SPLICE: shortWrite,
}

// c12ShortTracer: vcheck child c12-short-tracer <root> <logfile> [prearm=<class bits>:<n>] <program> args...
// runs the program under ptrace and serves its arm/disarm requests; with
// prearm every transfer of the classes (1 read, 2 write, 3 both) on files
// below root is cut to n bytes from the start, for programs that know nothing
// of the tracer. Exit status: the program's; 97 when tracing could not be set up.
func c12ShortTracer(args []string) int {
	if len(args) < 3 {
		fmt.Fprintln(os.Stderr, "c12-short-tracer: bad arguments")
		return 2
	}
	root, logPath, argv := strings.TrimSuffix(args[0], "/")+"/", args[1], args[2:]
	preClass, preAll := 0, uint64(0)
	if strings.HasPrefix(argv[0], "prearm=") {
		f := strings.SplitN(strings.TrimPrefix(argv[0], "prearm="), ":", 2)
		if len(f) == 2 {
			preClass, _ = strconv.Atoi(f[0])
			preAll, _ = strconv.ParseUint(f[1], 10, 64)
		}
		argv = argv[1:]
	}
	logf, err := os.Create(logPath)
	if err != nil {
		fmt.Fprintln(os.Stderr, err)
		return 2
	}
	defer logf.Close()
	logw := bufio.NewWriter(logf)
	defer logw.Flush()
	// every ptrace request has to come from the thread that is the tracer
	runtime.LockOSThread()
	pid, err := syscall.ForkExec(argv[0], argv, &syscall.ProcAttr{Env: os.Environ(), Files: []uintptr{0, 1, 2}, Sys: &syscall.SysProcAttr{Ptrace: true}})
	if err != nil {
		fmt.Fprintln(os.Stderr, "c12-short-tracer: cannot start the traced program:", err)
		return 97
	}
	var ws syscall.WaitStatus
	if _, err := syscall.Wait4(pid, &ws, 0, nil); err != nil || !ws.Stopped() {
		fmt.Fprintln(os.Stderr, "c12-short-tracer: the traced program did not stop after exec:", err)
		return 97
	}
	if err := syscall.PtraceSetOptions(pid, ptraceOTraceSysGood|ptraceOTraceFork|ptraceOTraceVfork|ptraceOTraceClone|ptraceOExitKill); err != nil {
		fmt.Fprintln(os.Stderr, "c12-short-tracer: PTRACE_SETOPTIONS:", err)
		syscall.Kill(pid, syscall.SIGKILL)
		return 97
	}
	if err := syscall.PtraceSyscall(pid, 0); err != nil {
		fmt.Fprintln(os.Stderr, "c12-short-tracer: PTRACE_SYSCALL:", err)
		syscall.Kill(pid, syscall.SIGKILL)
		return 97
	}
	const negENOSYS = ^uint64(37) // -38
	type cutInfo struct {
		name       string
		asked, cap uint64
	}
	var (
		known    = map[int]bool{pid: true}
		inSys    = map[int]bool{}
		reply    = map[int]uint64{} // tid -> value to return from the magic call in progress
		hasReply = map[int]bool{}
		cutting  = map[int]cutInfo{}
		armed    bool
		class    int
		caseID   int
		sizes    []uint64
		all      uint64
		idx      int
		cut, vec uint64
	)
	if preClass != 0 && preAll > 0 {
		armed, class, all = true, preClass, preAll
	}
	underRoot := func(tid int, fd uint64) bool {
		p, err := os.Readlink(fmt.Sprintf("/proc/%d/fd/%d", tid, fd))
		return err == nil && strings.HasPrefix(p, root)
	}
	for {
		tid, err := syscall.Wait4(-1, &ws, syscall.WALL, nil)
		if err == syscall.EINTR {
			continue
		}
		if err != nil {
			fmt.Fprintln(os.Stderr, "c12-short-tracer: wait4:", err)
			return 97
		}
		if ws.Exited() || ws.Signaled() {
			delete(known, tid)
			delete(inSys, tid)
			if tid == pid {
				logw.Flush()
				if ws.Exited() {
					return ws.ExitStatus()
				}
				return 128 + int(ws.Signal())
			}
			continue
		}
		if !ws.Stopped() {
			continue
		}
		sig := ws.StopSignal()
		deliver := 0
		switch {
		case sig == syscall.SIGTRAP|0x80: // system-call stop
			var regs syscall.PtraceRegs
			if err := syscall.PtraceGetRegs(tid, &regs); err != nil {
				break
			}
			if !inSys[tid] && regs.Rax == negENOSYS {
				// entry
				inSys[tid] = true
				nr := regs.Orig_rax
				if nr == syscall.SYS_PREAD64 && uintptr(regs.Rdi) == shortMagicFD {
					hasReply[tid] = true
					switch regs.Rsi {
					case shortCmdArm, shortCmdArmAll:
						armed, class, caseID, idx, cut, vec = true, int(regs.Rdx&0xff), int(regs.Rdx>>8), 0, 0, 0
						sizes, all = nil, 0
						if regs.Rsi == shortCmdArmAll {
							all = regs.R10
						} else {
							for _, v := range []uint64{regs.R10, regs.R8, regs.R9} {
								if v > 0 {
									sizes = append(sizes, v)
								}
							}
						}
						reply[tid] = shortAck
					case shortCmdDisarm:
						armed = false
						reply[tid] = cut | vec<<32
					default:
						reply[tid] = 0
					}
					break
				}
				if !armed {
					break
				}
				if c, ok := shortVectored[nr]; ok && c&class != 0 && underRoot(tid, regs.Rdi) {
					vec++
					break
				}
				if c, ok := shortSysClass[nr]; ok && c&class != 0 && underRoot(tid, regs.Rdi) {
					var limit uint64
					switch {
					case all > 0:
						limit = all
					case idx < len(sizes):
						limit = sizes[idx]
					}
					idx++
					if limit > 0 && regs.Rdx > limit {
						cutting[tid] = cutInfo{shortSysName[nr], regs.Rdx, limit}
						regs.Rdx = limit
						if err := syscall.PtraceSetRegs(tid, &regs); err == nil {
							cut++
						} else {
							delete(cutting, tid)
						}
					}
				}
			} else if inSys[tid] {
				// exit
				inSys[tid] = false
				if hasReply[tid] {
					regs.Rax = reply[tid]
					syscall.PtraceSetRegs(tid, &regs)
					delete(hasReply, tid)
					delete(reply, tid)
				}
				if ci, ok := cutting[tid]; ok {
					fmt.Fprintf(logw, "%d %s asked=%d cut-to=%d returned=%d\n", caseID, ci.name, ci.asked, ci.cap, int64(regs.Rax))
					delete(cutting, tid)
				}
			}
		case sig == syscall.SIGTRAP && ws.TrapCause() > 0: // PTRACE_EVENT_* stop
		case sig == syscall.SIGSTOP && !known[tid]: // first stop of an auto-attached thread
		default:
			deliver = int(sig) // signal-delivery stop: pass the signal on
		}
		known[tid] = true
		syscall.PtraceSyscall(tid, deliver)
	}
}

// ---------------------------------------------------------------- cases

type shortCase struct {
	Idx   int        `json:"idx"`
	Op    string     `json:"operation"` // readat | append | atomic
	Label string     `json:"case"`
	Req   int        `json:"request_bytes"` // bytes the call under test has to move
	Sched shortSched `json:"schedule"`
	At    int        `json:"armed_step"`
	Body  []Op       `json:"-"`
}

// shortSchedules: the schedules for a request of req bytes.
func shortSchedules(class string, req int, rng *core.Rng) []shortSched {
	var cand []int
	seen := map[int]bool{}
	for _, c := range []int{1, 2, 100, 4095, 4096, 65536, req / 2, req - 1} {
		if c >= 1 && c < req && !seen[c] {
			seen[c] = true
			cand = append(cand, c)
		}
	}
	if len(cand) == 0 {
		return nil
	}
	pick := func() int { return cand[rng.Intn(len(cand))] }
	var out []shortSched
	for _, c := range cand {
		out = append(out, shortSched{Class: class, Sizes: []int{c}})
	}
	out = append(out,
		shortSched{Class: class, Sizes: []int{1, 1}},
		shortSched{Class: class, Sizes: []int{cand[len(cand)/2], 1}},
		shortSched{Class: class, Sizes: []int{pick(), pick()}},
		shortSched{Class: class, Sizes: []int{1, 1, 1}},
		shortSched{Class: class, Sizes: []int{1, pick(), 1}},
		shortSched{Class: class, Sizes: []int{pick(), pick(), pick()}})
	switch {
	case req <= 64:
		out = append(out, shortSched{Class: class, All: 1})
	case req <= 8192:
		out = append(out, shortSched{Class: class, All: 1 + rng.Intn(req/16+1) + req/32})
	default:
		out = append(out, shortSched{Class: class, All: 4096}, shortSched{Class: class, All: 4096 + 1 + rng.Intn(60000)})
	}
	return out
}

// shortCases is a function of the seed only.
func shortCases(seed int64, quick bool) []shortCase {
	rng := core.NewRng(seed, "c12-short-transfers")
	var out []shortCase
	add := func(op, label string, req int, h *hb, at int, ss []shortSched) {
		for _, s := range ss {
			out = append(out, shortCase{Op: op, Label: label, Req: req, Sched: s, At: at, Body: h.ops})
		}
	}
	thin := func(ss []shortSched, keep int) []shortSched {
		// big payloads: a seeded subset (the full grid at the small sizes)
		if !quick || len(ss) <= keep {
			return ss
		}
		p := permute(rng, len(ss))[:keep]
		sort.Ints(p)
		var o []shortSched
		for _, i := range p {
			o = append(o, ss[i])
		}
		return o
	}
	// ReadAt
	fileSizes, dataSizes := []int{2, 100, 4096, 70000, 1 << 20}, []int{2, 100, 4096, 70000, 1 << 20}
	if !quick {
		fileSizes, dataSizes = append(fileSizes, 65536, 4<<20), append(dataSizes, 65537, 4<<20)
	}
	for _, S := range fileSizes {
		type rg struct {
			name     string
			off, len uint64
		}
		s := uint64(S)
		ranges := []rg{{"whole", 0, s}, {"over-long", 0, s + 4096}, {"tail", s / 2, s}}
		if S >= 4 {
			ranges = append(ranges, rg{"inner", 1, s - 2})
			for k := 0; k < 2; k++ {
				off := uint64(rng.Intn(S - 2))
				ranges = append(ranges, rg{"seeded", off, 2 + uint64(rng.Intn(S-int(off)))})
			}
		}
		for ri, g := range ranges {
			req := int(g.len)
			if g.off+g.len > s {
				req = int(s - g.off)
			}
			if req < 2 {
				continue
			}
			h := &hb{}
			h.mk("d")
			how := "append"
			if (ri+S)%2 == 0 {
				h.at("d", "a", S)
				how = "atomiccreate"
			} else {
				h.file("d", "a", S)
			}
			r := h.open("d", "a")
			at := len(h.ops)
			h.rd(r, g.off, g.len).rd(r, 0, s+1).cl(r)
			ss := shortSchedules("read", req, rng)
			if S > 70000 {
				ss = thin(ss, 6)
			}
			add("readat", fmt.Sprintf("ReadAt(off %d, len %d) of a %d-byte file made by %s (%s range)", g.off, g.len, S, how, g.name), req, h, at, ss)
		}
	}
	// Append
	for _, P := range []int{0, 10, 4096} {
		for _, D := range dataSizes {
			for _, reader := range []bool{false, true} {
				if reader && (P == 10) {
					continue
				}
				h := &hb{}
				h.mk("d")
				c := h.cr("d", "a")
				r0 := 0
				if reader {
					r0 = h.open("d", "a")
				}
				if P > 0 {
					h.ap(c, P)
				}
				at := len(h.ops)
				h.ap(c, D).ap(c, 7)
				if reader {
					h.rd(r0, 0, uint64(P+D+100)).rd(r0, uint64(P), uint64(D)).cl(r0)
				}
				h.cl(c)
				ss := shortSchedules("write", D, rng)
				if D > 70000 {
					ss = thin(ss, 5)
				}
				lab := fmt.Sprintf("Append(%d bytes) to a file of %d bytes", D, P)
				if reader {
					lab += ", a reader opened before"
				}
				add("append", lab, D, h, at, ss)
			}
		}
	}
	// AtomicCreate (its write loop is expected to cope)
	for _, D := range []int{2, 100, 4096, 70000} {
		for _, dest := range []string{"absent", "shorter", "longer"} {
			h := &hb{}
			h.mk("d")
			switch dest {
			case "shorter":
				h.file("d", "a", D/2)
			case "longer":
				h.file("d", "a", D+7)
			}
			at := len(h.ops)
			h.at("d", "a", D).ls("d")
			ss := shortSchedules("write", D, rng)
			if dest != "absent" {
				ss = thin(ss, 6)
			}
			add("atomic", fmt.Sprintf("AtomicCreate(%d bytes) over %s destination", D, dest), D, h, at, ss)
		}
	}
	for i := range out {
		out[i].Idx = i
	}
	return out
}

// ---------------------------------------------------------------- child

// shortFs counts the calls made through it and arms the tracer around call
// number `at` (execHistory makes exactly one call per step).
type shortFs struct {
	in               filesys.Filesys
	n, at, id        int
	sched            shortSched
	armedOK, disarmd bool
	cut, vectored    int
}

func (s *shortFs) around(f func()) {
	i := s.n
	s.n++
	if i == s.at {
		s.armedOK = shortArm(s.id, s.sched)
		defer func() { s.cut, s.vectored, s.disarmd = shortDisarm() }()
	}
	f()
}
func (s *shortFs) Create(d, n string) (f filesys.File, ok bool) {
	s.around(func() { f, ok = s.in.Create(d, n) })
	return
}
func (s *shortFs) Append(f filesys.File, b []byte) { s.around(func() { s.in.Append(f, b) }) }
func (s *shortFs) Close(f filesys.File)            { s.around(func() { s.in.Close(f) }) }
func (s *shortFs) Open(d, n string) (f filesys.File) {
	s.around(func() { f = s.in.Open(d, n) })
	return
}
func (s *shortFs) ReadAt(f filesys.File, o, l uint64) (b []byte) {
	s.around(func() { b = s.in.ReadAt(f, o, l) })
	return
}
func (s *shortFs) Delete(d, n string) { s.around(func() { s.in.Delete(d, n) }) }
func (s *shortFs) AtomicCreate(d, n string, b []byte) {
	s.around(func() { s.in.AtomicCreate(d, n, b) })
}
func (s *shortFs) Link(od, on, nd, nn string) (ok bool) {
	s.around(func() { ok = s.in.Link(od, on, nd, nn) })
	return
}
func (s *shortFs) List(d string) (l []string) { s.around(func() { l = s.in.List(d) }); return }
func (s *shortFs) Mkdir(d string)             { s.around(func() { s.in.Mkdir(d) }) }

type shortLine struct {
	Begin    *int     `json:"begin,omitempty"`
	Idx      int      `json:"idx"`
	Result   bool     `json:"result,omitempty"`
	Armed    bool     `json:"armed,omitempty"`
	Cut      int      `json:"transfers_cut,omitempty"`
	Vectored int      `json:"vectored_transfers_seen,omitempty"`
	Divs     []c12div `json:"divs,omitempty"`
	OnDisk   string   `json:"file_after_the_failed_call,omitempty"`
	Done     bool     `json:"done,omitempty"`
	Compared int64    `json:"compared,omitempty"`
	Calls    int64    `json:"calls,omitempty"`
}

// c12ShortChild: vcheck child c12-short-child <outfile> <root> <seed> <quick|thorough>
func c12ShortChild(args []string) int {
	if len(args) != 4 {
		fmt.Fprintln(os.Stderr, "c12-short-child: bad arguments")
		return 2
	}
	out, err := os.Create(args[0])
	if err != nil {
		fmt.Fprintln(os.Stderr, err)
		return 2
	}
	defer out.Close()
	w := bufio.NewWriter(out)
	emit := func(l shortLine) {
		b, _ := json.Marshal(l)
		w.Write(b)
		w.WriteByte('\n')
		w.Flush()
	}
	seed, _ := strconv.ParseInt(args[2], 10, 64)
	st := newC12stats()
	for _, c := range shortCases(seed, args[3] != "thorough") {
		i := c.Idx
		emit(shortLine{Begin: &i, Idx: i})
		dir := filepath.Join(args[1], fmt.Sprintf("s%d", i))
		if err := os.MkdirAll(dir, 0o755); err != nil {
			fmt.Fprintln(os.Stderr, err)
			return 2
		}
		dfs := filesys.NewDirFs(dir)
		sfs := &shortFs{in: dfs, at: c.At, id: i, sched: c.Sched}
		im := &c12impl{name: "dirfs", fs: sfs, fds: map[int]filesys.File{}, open: map[int]bool{}}
		ops := append(append([]Op(nil), c.Body...), finalOps(c.Body)...)
		divs := execHistory(ops, []*c12impl{im}, "X", "methods", &st)
		line := shortLine{Idx: i, Result: true, Armed: sfs.armedOK && sfs.disarmd, Cut: sfs.cut, Vectored: sfs.vectored, Divs: divs}
		// a call under test that panicked: what did it leave in the file?
		for _, d := range divs {
			if d.Step != c.At || !strings.Contains(d.Base, "-panics") {
				continue
			}
			m := NewModel()
			for _, o := range ops[:c.At] {
				applyModel(m, o, nil)
			}
			var before []byte
			had := false
			if ino := m.inodeOf("d", "a"); ino != nil {
				before, had = append([]byte(nil), ino.data...), true
			}
			data := opData(ops[c.At])
			got, err := os.ReadFile(filepath.Join(dir, "d", "a"))
			switch {
			case err != nil && !had:
				line.OnDisk = "unchanged"
			case err != nil:
				line.OnDisk = "missing"
			case had && bytes.Equal(got, before):
				line.OnDisk = "unchanged"
			case c.Op == "append" && bytes.Equal(got, append(append([]byte(nil), before...), data...)):
				line.OnDisk = "all-written"
			case c.Op == "atomic" && bytes.Equal(got, data):
				line.OnDisk = "all-written"
			case c.Op == "append" && len(got) > len(before) && len(got) < len(before)+len(data) && bytes.Equal(got, append(append([]byte(nil), before...), data[:len(got)-len(before)]...)):
				line.OnDisk = fmt.Sprintf("torn: the first %d of %d bytes were appended", len(got)-len(before), len(data))
			default:
				line.OnDisk = fmt.Sprintf("other: %d bytes", len(got))
			}
		}
		emit(line)
		for lfd := range im.open {
			fd := im.fds[lfd]
			guarded(func() { dfs.Close(fd) })
		}
		guarded(func() { dfs.CloseFs() })
		os.RemoveAll(dir)
	}
	emit(shortLine{Done: true, Compared: st.compared, Calls: st.calls})
	return 0
}

// ---------------------------------------------------------------- parent

// shortSymptom names what went wrong, independent of sizes and seeds.
func shortSymptom(c shortCase, d c12div, onDisk string) string {
	kind := strings.TrimPrefix(d.Base, "dirfs-")
	for _, sfx := range []string{"-while-other-descriptor-open", "-after-close-of-other-descriptor"} {
		kind = strings.TrimSuffix(kind, sfx)
	}
	if d.Step != c.At {
		return "then-" + kind
	}
	if strings.Contains(kind, "-panics") {
		what := onDisk
		if i := strings.IndexByte(what, ':'); i >= 0 {
			what = what[:i]
		}
		if what != "" {
			return "panics-file-" + what
		}
		return "panics"
	}
	return strings.TrimPrefix(kind, c.Op+"-")
}

// runShortTransfers runs the family and reports per signature the smallest
// failing case. It returns the number of compared calls.
func runShortTransfers(r *core.Run) (compared int64) {
	self, err := os.Executable()
	if err != nil {
		r.Inconclusive("cannot find own binary (short-transfer family)")
		return 0
	}
	cases := shortCases(r.Seed, r.Quick())
	r.Count("short_transfer_cases", int64(len(cases)))
	out := filepath.Join(r.Scratch, "c12-short.jsonl")
	logPath := filepath.Join(r.Scratch, "c12-short-tracer.log")
	root := filepath.Join(r.Scratch, "c12-short-root")
	os.MkdirAll(root, 0o755)
	defer os.RemoveAll(root)
	args := []string{"child", "c12-short-tracer", root, logPath, self, "child", "c12-short-child", out, root, fmt.Sprint(r.Seed), r.Tier}
	r.Set("short_transfer_command", self+" "+strings.Join(args, " "))
	res := core.Exec(r.Scratch, nil, 10*time.Minute, "", self, args...)
	if res.TimedOut {
		r.Inconclusive("short-transfer child watchdog fired")
		return 0
	}
	if res.Code == 97 {
		r.Inconclusive("short-transfer tracer could not trace: " + tail(firstLines(res.Stderr, 2), 200))
		return 0
	}
	// the tracer's own record of the transfers it cut, by case
	cuts := map[int][]string{}
	if b, err := os.ReadFile(logPath); err == nil {
		for _, l := range strings.Split(string(b), "\n") {
			if f := strings.SplitN(l, " ", 2); len(f) == 2 {
				if id, err := strconv.Atoi(f[0]); err == nil {
					cuts[id] = append(cuts[id], f[1])
				}
			}
		}
	}
	type failing struct {
		c      shortCase
		d      c12div
		onDisk string
		cut    int
	}
	bySig := map[string][]failing{}
	last, done := -1, false
	results := 0
	if f, err := os.Open(out); err == nil {
		sc := bufio.NewScanner(f)
		sc.Buffer(make([]byte, 1<<20), 64<<20)
		for sc.Scan() {
			var l shortLine
			if json.Unmarshal(sc.Bytes(), &l) != nil {
				continue
			}
			switch {
			case l.Begin != nil:
				last = *l.Begin
			case l.Done:
				done = true
				compared = l.Compared
				r.Count("short_transfer_api_calls", l.Calls)
			case l.Result && l.Idx < len(cases):
				c := cases[l.Idx]
				results++
				if !l.Armed {
					r.Count("short_transfer_cases_tracer_did_not_answer", 1)
					continue
				}
				k := len(c.Sched.Sizes)
				sk := fmt.Sprint(k)
				if c.Sched.All > 0 {
					sk = "every"
				}
				if l.Cut > 0 {
					r.Count("short_transfer_cases_with_a_transfer_cut", 1)
					r.Count("short_transfers_cut", int64(l.Cut))
					r.Count("short_transfer_cases_cut_"+c.Op+"_schedule_"+sk, 1)
					r.Distinct(fmt.Sprintf("short/%s/%s/%d", c.Op, sk, l.Cut))
					if l.Cut >= 2 {
						r.Count("short_transfer_cases_with_consecutive_cuts_"+c.Op, 1)
					}
				}
				if l.Vectored > 0 {
					r.Count("short_transfer_cases_with_vectored_transfers_not_cut", 1)
				}
				if len(l.Divs) == 0 {
					r.Count("short_transfer_cases_equal_to_model_"+c.Op, 1)
					if l.Cut > 0 {
						r.Sample(40, map[string]interface{}{"short_transfer_case": c.Label, "schedule": c.Sched.String(), "transfers_cut": cuts[c.Idx], "result": "equal to the model"})
					}
				}
				for _, d := range l.Divs {
					sig := fmt.Sprintf("dirfs-short-%s-%s-%s", c.Sched.Class, c.Op, shortSymptom(c, d, l.OnDisk))
					if l.Cut == 0 {
						// nothing was cut: the divergence is not about short transfers
						sig = d.Sig
					}
					bySig[sig] = append(bySig[sig], failing{c, d, l.OnDisk, l.Cut})
				}
			}
		}
		f.Close()
	}
	os.Remove(out)
	var sigs []string
	for s := range bySig {
		sigs = append(sigs, s)
	}
	sort.Strings(sigs)
	for _, sig := range sigs {
		fs := bySig[sig]
		// the smallest failing case: fewest bytes, then fewest cuts, then order
		sort.SliceStable(fs, func(a, b int) bool {
			if fs[a].c.Req != fs[b].c.Req {
				return fs[a].c.Req < fs[b].c.Req
			}
			return fs[a].cut < fs[b].cut
		})
		m := fs[0]
		what := fmt.Sprintf("%s with %s (%d transfer(s) really cut: %s): at %s %s — expected %s, observed %s", m.c.Label, m.c.Sched.String(), m.cut, strings.Join(cuts[m.c.Idx], "; "),
			m.d.Op, m.d.What, m.d.Expected, m.d.Observed)
		if m.onDisk != "" {
			what += "; the file afterwards: " + m.onDisk
		}
		what += fmt.Sprintf("; history: %s [%d of %d cases fail this way]", strings.Join(m.d.History, " ; "), len(fs), len(cases))
		var others []string
		for i, f := range fs {
			if i > 0 && i <= 8 {
				others = append(others, fmt.Sprintf("%s with %s", f.c.Label, f.c.Sched.String()))
			}
		}
		r.Count("short_transfer_failing_cases", int64(len(fs)))
		r.Violate(sig, what, map[string]interface{}{"case": m.c, "divergence": m.d, "transfers_cut_by_the_tracer": cuts[m.c.Idx], "file_after_the_failed_call": m.onDisk,
			"failing_cases": len(fs), "other_failing_cases": others})
	}
	switch {
	case !done || res.Code != 0:
		what := "exit " + strconv.Itoa(res.Code)
		if m := fatalRe.FindStringSubmatch(res.Stderr); m != nil {
			what = m[1] + ": " + m[2]
		}
		lab, sched, op, class := "?", "?", "call", "transfer"
		if last >= 0 && last < len(cases) {
			lab, sched, op, class = cases[last].Label, cases[last].Sched.String(), cases[last].Op, cases[last].Sched.Class
		}
		r.Violate(fmt.Sprintf("dirfs-short-%s-%s-kills-process", class, op), fmt.Sprintf("the child process died (%s) in the case %s with %s", what, lab, sched),
			map[string]interface{}{"exit": res.Code, "stderr_tail": tail(res.Stderr, 2000)})
	}
	r.Count("short_transfer_cases_judged", int64(results))
	if r.GetCount("short_transfer_cases_with_a_transfer_cut") < int64(len(cases))/10 {
		r.Inconclusive("short-transfer family: the tracer cut a transfer in fewer than a tenth of the cases")
	}
	return compared
}
