package fsp

import (
	"bufio"
	"bytes"
	"compress/gzip"
	"encoding/base64"
	"encoding/json"
	"fmt"
	"io"
	"os"
	"path/filepath"
	"runtime"
	"sort"
	"strconv"
	"strings"
	"sync"
	"sync/atomic"
	"time"

	"verif/core"

	"github.com/goose-lang/goose/machine/filesys"
)

// ---------------------------------------------------------------- programs

// cStep is one call of a client program. Descriptors live in per-client
// slots: create (when ok) and open fill Slot, append/readat/close use it and
// are skipped when the slot is empty (a Create that returned !ok).
type cStep struct {
	K     string `json:"op"`
	Dir   string `json:"dir,omitempty"`
	Name  string `json:"name,omitempty"`
	Dir2  string `json:"dir2,omitempty"`
	Name2 string `json:"name2,omitempty"`
	Slot  int    `json:"slot,omitempty"`
	Data  string `json:"data,omitempty"`
	Off   uint64 `json:"off,omitempty"`
	Len   uint64 `json:"len,omitempty"`
	Yield int    `json:"yield,omitempty"`     // 1: Gosched before the call is stamped, 2: between stamp and call
	Nil   bool   `json:"nil_slice,omitempty"` // append/atomic with empty data: pass a nil slice instead of an empty one
}

type cProgram struct {
	Clients int       `json:"clients"`
	Setup   [][]cStep `json:"setup"` // per client, run sequentially by the main goroutine (client 0 first)
	Conc    [][]cStep `json:"concurrent"`
	Dirs    []string  `json:"dirs"`
	Pattern []string  `json:"patterns"`
}

type churn struct {
	dir, name string
	owner     int
}

// genProgram builds the program of one concurrent history from (seed, pool,
// index).
//
// Roles of the names (all in the shared directory "d", one also in "e"):
//
//	L        sealed link source; never opened, deleted or overwritten
//	S1,S2    sealed files; base mix: each read by at most one designated client
//	a<x>     appender file of client x: created by x during setup, x appends
//	         stamped chunks and closes; nobody deletes it
//	n1,n2,m1 churn names: anyone may Create (then append and close), Link L
//	         onto them, List; only the owner may AtomicCreate and Delete, and
//	         Delete only after an own Create/Link/AtomicCreate on that name has
//	         returned (so the name exists in every order consistent with
//	         real time); only the owner opens a churn name, and only right after
//	         its own AtomicCreate
//
// With these roles every call is valid in every linearization, and (base mix,
// pool A) no inode ever has two descriptors open at once. Pool B adds the two
// descriptor-sharing patterns: several clients open the same sealed file, and
// a client opens another client's appender file while it is being appended.
func genProgram(seed int64, pool string, idx int) cProgram {
	rng := core.NewRng(seed, fmt.Sprintf("c14/%s/%d", pool, idx))
	nc := 2 + rng.Intn(3)
	p := cProgram{Clients: nc, Setup: make([][]cStep, nc), Conc: make([][]cStep, nc), Dirs: []string{"d"}}
	twoDirs := rng.Chance(50)
	if twoDirs {
		p.Dirs = append(p.Dirs, "e")
	}
	// pool C: pool B's mixes with boundary arguments (empty and nil data for Append and
	// AtomicCreate, zero-length reads, offsets at / beyond / far beyond the end, reads crossing
	// the end); its choices come from a stream of their own, so pools A and B are unchanged
	boundary := pool == "C"
	brng := core.NewRng(seed, fmt.Sprintf("c14-boundary/%d", idx))
	uid := 0
	chunk := func(c int) string {
		if boundary && brng.Chance(35) {
			return ""
		}
		uid++
		tag := fmt.Sprintf("<%d.%d.%d>", idx, c, uid)
		n := 1 + rng.Intn(3)
		s := ""
		for i := 0; i < n; i++ {
			s += tag
		}
		return s
	}
	sealed := func(tag string) string {
		n := rng.Intn(40)
		s := ""
		for i := 0; i < n; i++ {
			s += fmt.Sprintf("[%s%d]", tag, i)
		}
		return s
	}
	// setup by client 0: sealed files
	p.Setup[0] = append(p.Setup[0], cStep{K: "atomic", Dir: "d", Name: "L", Data: sealed("L")})
	sfiles := []string{"S1"}
	if rng.Chance(50) {
		sfiles = append(sfiles, "S2")
	}
	scontent := map[string]string{}
	for _, s := range sfiles {
		scontent[s] = sealed(s)
		if rng.Bool() {
			p.Setup[0] = append(p.Setup[0], cStep{K: "atomic", Dir: "d", Name: s, Data: scontent[s]})
		} else {
			p.Setup[0] = append(p.Setup[0], cStep{K: "create", Dir: "d", Name: s, Slot: 99},
				cStep{K: "append", Slot: 9, Data: scontent[s]}, cStep{K: "close", Slot: 99})
		}
	}
	// appender files
	appender := make([]bool, nc)
	for c := 0; c < nc; c++ {
		if rng.Chance(60) {
			appender[c] = true
			p.Setup[c] = append(p.Setup[c], cStep{K: "create", Dir: "d", Name: fmt.Sprintf("a%d", c), Slot: 0})
			if rng.Bool() {
				p.Setup[c] = append(p.Setup[c], cStep{K: "append", Slot: 0, Data: chunk(c)})
			}
		}
	}
	churns := []churn{{"d", "n1", rng.Intn(nc)}, {"d", "n2", rng.Intn(nc)}}
	if twoDirs {
		churns = append(churns, churn{"e", "m1", rng.Intn(nc)})
	}
	if rng.Chance(30) { // a churn name that already exists when the clients start
		k := churns[rng.Intn(len(churns))]
		p.Setup[k.owner] = append(p.Setup[k.owner], cStep{K: "link", Dir: "d", Name: "L", Dir2: k.dir, Name2: k.name})
	}
	// designated readers of the sealed files (base mix: one client per file)
	readerOf := map[string]int{}
	for _, s := range sfiles {
		readerOf[s] = rng.Intn(nc)
	}
	// pool B patterns
	dup := pool != "A" && rng.Chance(60)
	readA := pool != "A" && (!dup || rng.Chance(40))
	if dup {
		p.Pattern = append(p.Pattern, "several-clients-open-one-sealed-file")
	}
	yield := func() int {
		if rng.Chance(25) {
			return 1 + rng.Intn(2)
		}
		return 0
	}
	readSteps := func(dir, name string, size int, slot int) []cStep {
		st := []cStep{{K: "open", Dir: dir, Name: name, Slot: slot, Yield: yield()}}
		for i := 0; i < 1+rng.Intn(2); i++ {
			off, l := uint64(0), uint64(size+64)
			if rng.Chance(40) {
				off = uint64(rng.Intn(size + 2))
				l = uint64(rng.Intn(size + 8))
			}
			if boundary && brng.Chance(60) {
				switch brng.Intn(6) {
				case 0:
					off, l = 0, 0
				case 1:
					off, l = uint64(size), 8
				case 2:
					off, l = uint64(size)+1+uint64(brng.Intn(5000)), 8
				case 3:
					off, l = 1<<40, 1
				case 4:
					off, l = uint64(size/2), 0
				default:
					if size > 0 {
						off, l = uint64(size-1), 64
					}
				}
			}
			st = append(st, cStep{K: "readat", Slot: slot, Off: off, Len: l, Yield: yield()})
		}
		return append(st, cStep{K: "close", Slot: slot, Yield: yield()})
	}
	for c := 0; c < nc; c++ {
		budget := 3 + rng.Intn(4)
		var prog []cStep
		knows := map[string]bool{} // own Create/Link/AtomicCreate on the name returned, no own Delete since
		slot := 1
		var pendingClose []int
		if dup && (c < 2 || rng.Bool()) {
			prog = append(prog, readSteps("d", "S1", len(scontent["S1"]), slot)...)
			slot++
		}
		if readA {
			// open the appender file of another client while it is appended
			for o := 0; o < nc; o++ {
				if o != c && appender[o] && rng.Chance(60) {
					st := []cStep{{K: "open", Dir: "d", Name: fmt.Sprintf("a%d", o), Slot: slot, Yield: yield()}}
					for i := 0; i < 1+rng.Intn(3); i++ {
						st = append(st, cStep{K: "readat", Slot: slot, Off: 0, Len: 4096, Yield: yield()})
					}
					st = append(st, cStep{K: "close", Slot: slot})
					prog = append(prog, st...)
					slot++
					p.Pattern = append(p.Pattern, "open-while-another-client-appends")
					break
				}
			}
		}
		for len(prog) < budget {
			k := churns[rng.Intn(len(churns))]
			key := k.dir + "/" + k.name
			switch x := rng.Intn(100); {
			case x < 28: // Create, append stamped chunks, close (sometimes only at the end)
				prog = append(prog, cStep{K: "create", Dir: k.dir, Name: k.name, Slot: slot, Yield: yield()})
				for i := 0; i < 1+rng.Intn(2); i++ {
					prog = append(prog, cStep{K: "append", Slot: slot, Data: chunk(c), Yield: yield()})
				}
				if rng.Chance(70) {
					prog = append(prog, cStep{K: "close", Slot: slot})
				} else {
					pendingClose = append(pendingClose, slot)
				}
				slot++
				if k.owner == c {
					knows[key] = true
				}
			case x < 42:
				prog = append(prog, cStep{K: "link", Dir: "d", Name: "L", Dir2: k.dir, Name2: k.name, Yield: yield()})
				if k.owner == c {
					knows[key] = true
				}
			case x < 56:
				prog = append(prog, cStep{K: "list", Dir: p.Dirs[rng.Intn(len(p.Dirs))], Yield: yield()})
			case x < 68:
				if k.owner != c {
					continue
				}
				data := chunk(c)
				prog = append(prog, cStep{K: "atomic", Dir: k.dir, Name: k.name, Data: data, Yield: yield()})
				knows[key] = true
				if rng.Chance(50) { // read it back; optionally unlink it while the descriptor is open
					prog = append(prog, cStep{K: "open", Dir: k.dir, Name: k.name, Slot: slot, Yield: yield()},
						cStep{K: "readat", Slot: slot, Off: 0, Len: 4096})
					if rng.Chance(40) {
						prog = append(prog, cStep{K: "delete", Dir: k.dir, Name: k.name},
							cStep{K: "readat", Slot: slot, Off: uint64(rng.Intn(4)), Len: 4096})
						knows[key] = false
					}
					prog = append(prog, cStep{K: "close", Slot: slot})
					slot++
				}
			case x < 80:
				if k.owner != c || !knows[key] {
					continue
				}
				prog = append(prog, cStep{K: "delete", Dir: k.dir, Name: k.name, Yield: yield()})
				knows[key] = false
			case x < 92:
				if !appender[c] {
					continue
				}
				prog = append(prog, cStep{K: "append", Slot: 0, Data: chunk(c), Yield: yield()})
			default:
				var mine []string
				for _, s := range sfiles {
					if readerOf[s] == c && !(dup && s == "S1") {
						mine = append(mine, s)
					}
				}
				if len(mine) == 0 {
					continue
				}
				s := mine[rng.Intn(len(mine))]
				prog = append(prog, readSteps("d", s, len(scontent[s]), slot)...)
				slot++
			}
		}
		for _, s := range pendingClose {
			prog = append(prog, cStep{K: "close", Slot: s})
		}
		if appender[c] {
			prog = append(prog, cStep{K: "close", Slot: 0})
		}
		p.Conc[c] = prog
	}
	if boundary {
		fix := func(steps []cStep) {
			for i := range steps {
				st := &steps[i]
				switch {
				case (st.K == "append" || st.K == "atomic") && st.Data == "":
					st.Nil = brng.Bool()
				case st.K == "readat" && st.Len == 4096 && brng.Chance(40):
					// reads of files whose size is not known here: boundary pairs that are such for any small file
					pairs := [][2]uint64{{0, 0}, {3, 0}, {1 << 40, 1}, {1 << 20, 16}, {0, 1 << 20}}
					pr := pairs[brng.Intn(len(pairs))]
					st.Off, st.Len = pr[0], pr[1]
				}
			}
		}
		for c := range p.Conc {
			fix(p.Setup[c])
			fix(p.Conc[c])
		}
		p.Pattern = append(p.Pattern, "boundary-arguments")
	}
	bigPayloadProgram(seed, pool, idx, &p)
	shapeProgramNames(seed, pool, idx, &p)
	sort.Strings(p.Pattern)
	return p
}

// ---------------------------------------------------------------- recording

// cEvent is one completed call as seen at the client boundary.
type cEvent struct {
	ID     int      `json:"id"` // unique in the history; the logical descriptor of a create/open
	Client int      `json:"client"`
	Phase  string   `json:"phase"` // setup | concurrent | post
	K      string   `json:"op"`
	Dir    string   `json:"dir,omitempty"`
	Name   string   `json:"name,omitempty"`
	Dir2   string   `json:"dir2,omitempty"`
	Name2  string   `json:"name2,omitempty"`
	FD     int      `json:"fd,omitempty"`   // logical descriptor used (id of the create/open that returned it)
	Real   int      `json:"real,omitempty"` // descriptor number handed out / used
	Data   string   `json:"data,omitempty"`
	Off    uint64   `json:"off,omitempty"`
	Len    uint64   `json:"len,omitempty"`
	Call   int64    `json:"call"` // one logical clock (atomic counter) for all clients
	Ret    int64    `json:"ret"`
	CallNs int64    `json:"call_ns"`
	RetNs  int64    `json:"ret_ns"`
	OK     bool     `json:"ok,omitempty"`
	Bytes  string   `json:"bytes,omitempty"`
	Names  []string `json:"names,omitempty"`
	Panic  string   `json:"panic,omitempty"`
	Nil    bool     `json:"nil_slice,omitempty"`
	Wild   bool     `json:"-"` // checker only: accept whatever result the model gives
	// big payloads travel compressed (gzip + base64); pack / unpack move them
	DataZ  string `json:"data_gz,omitempty"`
	BytesZ string `json:"bytes_gz,omitempty"`
}

func gzString(s string) string {
	var b bytes.Buffer
	w, _ := gzip.NewWriterLevel(&b, gzip.BestSpeed)
	w.Write([]byte(s))
	w.Close()
	return base64.StdEncoding.EncodeToString(b.Bytes())
}

func gunzipString(z string) string {
	raw, err := base64.StdEncoding.DecodeString(z)
	if err != nil {
		return ""
	}
	r, err := gzip.NewReader(bytes.NewReader(raw))
	if err != nil {
		return ""
	}
	out, _ := io.ReadAll(r)
	return string(out)
}

// pack replaces big Data / Bytes by their compressed form (for transport and
// for replay files); unpack restores them.
func (ev *cEvent) pack() {
	if len(ev.Data) > 2048 {
		ev.DataZ, ev.Data = gzString(ev.Data), ""
	}
	if len(ev.Bytes) > 2048 {
		ev.BytesZ, ev.Bytes = gzString(ev.Bytes), ""
	}
}

func (ev *cEvent) unpack() {
	if ev.DataZ != "" {
		ev.Data, ev.DataZ = gunzipString(ev.DataZ), ""
	}
	if ev.BytesZ != "" {
		ev.Bytes, ev.BytesZ = gunzipString(ev.BytesZ), ""
	}
}

func packedEvents(evs []cEvent) []cEvent {
	out := append([]cEvent(nil), evs...)
	for i := range out {
		out[i].pack()
	}
	return out
}

// abbr renders a payload for humans: short ones quoted in full, long ones by
// head, tail, length and the number of zero bytes (an unwritten region).
func abbr(s string) string {
	if len(s) <= 96 {
		return fmt.Sprintf("%q", s)
	}
	zeros := strings.Count(s, "\x00")
	z := ""
	if zeros > 0 {
		z = fmt.Sprintf(", %d zero bytes from offset %d", zeros, strings.IndexByte(s, 0))
	}
	return fmt.Sprintf("%q…(%d bytes%s)…%q", s[:40], len(s), z, s[len(s)-24:])
}

type cHistory struct {
	Idx     int      `json:"idx"`
	Impl    string   `json:"impl"`
	Pool    string   `json:"pool"`
	Build   string   `json:"build"`
	Procs   int      `json:"gomaxprocs"`
	Clients int      `json:"clients"`
	Pattern []string `json:"patterns,omitempty"`
	Events  []cEvent `json:"events"`
	Posted  bool     `json:"post_phase_ran"`
}

type cSlot struct {
	lfd  int
	real filesys.File
	ok   bool
}

type cRunner struct {
	fs    filesys.Filesys
	clock *int64
	ids   *int64
	start time.Time
}

// do performs one step for a client and appends the event; it returns false
// when the call panicked (the client stops: later steps could be invalid).
func (cr *cRunner) do(client int, phase string, st cStep, slots map[int]*cSlot, out *[]cEvent) bool {
	ev := cEvent{Client: client, Phase: phase, K: st.K, Dir: st.Dir, Name: st.Name, Dir2: st.Dir2, Name2: st.Name2,
		Data: st.Data, Off: st.Off, Len: st.Len, Nil: st.Nil}
	var sl *cSlot
	switch st.K {
	case "append", "readat", "close":
		sl = slots[st.Slot]
		if sl == nil || !sl.ok {
			return true // no descriptor: the Create returned !ok
		}
		ev.FD, ev.Real = sl.lfd, int(sl.real)
	}
	ev.ID = int(atomic.AddInt64(cr.ids, 1))
	if st.Yield == 1 {
		runtime.Gosched()
	}
	ev.CallNs = int64(time.Since(cr.start))
	ev.Call = atomic.AddInt64(cr.clock, 1)
	if st.Yield == 2 {
		runtime.Gosched()
	}
	var f filesys.File
	msg, panicked := guarded(func() {
		switch st.K {
		case "mkdir":
			cr.fs.Mkdir(st.Dir)
		case "create":
			f, ev.OK = cr.fs.Create(st.Dir, st.Name)
		case "append":
			data := []byte(st.Data)
			if st.Nil {
				data = nil
			}
			cr.fs.Append(sl.real, data)
		case "close":
			sl.ok = false
			cr.fs.Close(sl.real)
		case "open":
			f = cr.fs.Open(st.Dir, st.Name)
		case "readat":
			ev.Bytes = string(cr.fs.ReadAt(sl.real, st.Off, st.Len))
		case "delete":
			cr.fs.Delete(st.Dir, st.Name)
		case "link":
			ev.OK = cr.fs.Link(st.Dir, st.Name, st.Dir2, st.Name2)
		case "atomic":
			data := []byte(st.Data)
			if st.Nil {
				data = nil
			}
			cr.fs.AtomicCreate(st.Dir, st.Name, data)
		case "list":
			ev.Names = cr.fs.List(st.Dir)
			sort.Strings(ev.Names)
		}
	})
	ev.Ret = atomic.AddInt64(cr.clock, 1)
	ev.RetNs = int64(time.Since(cr.start))
	if panicked {
		ev.Panic = msg
		if ev.Panic == "" {
			ev.Panic = "panic"
		}
	} else if (st.K == "create" && ev.OK) || st.K == "open" {
		ev.Real = int(f)
		slots[st.Slot] = &cSlot{lfd: ev.ID, real: f, ok: true}
	}
	*out = append(*out, ev)
	return !panicked
}

// runProgram executes one program on a fresh filesystem and returns the
// recorded history.
func runProgram(fs filesys.Filesys, p cProgram) (events []cEvent, posted bool) {
	var clock, ids int64
	cr := &cRunner{fs: fs, clock: &clock, ids: &ids, start: time.Now()}
	slots := make([]map[int]*cSlot, p.Clients)
	for c := range slots {
		slots[c] = map[int]*cSlot{}
	}
	var setup []cEvent
	clean := true
	for _, d := range p.Dirs {
		clean = cr.do(0, "setup", cStep{K: "mkdir", Dir: d}, slots[0], &setup) && clean
	}
	for c := 0; c < p.Clients && clean; c++ {
		for _, st := range p.Setup[c] {
			if !cr.do(c, "setup", st, slots[c], &setup) {
				clean = false
				break
			}
		}
	}
	events = setup
	if !clean {
		return events, false
	}
	per := make([][]cEvent, p.Clients)
	oks := make([]bool, p.Clients)
	var ready int32
	var wg sync.WaitGroup
	for c := 0; c < p.Clients; c++ {
		wg.Add(1)
		go func(c int) {
			defer wg.Done()
			// start barrier: everybody spins until all clients are running
			atomic.AddInt32(&ready, 1)
			for atomic.LoadInt32(&ready) < int32(p.Clients) {
				runtime.Gosched()
			}
			oks[c] = true
			for _, st := range p.Conc[c] {
				if !cr.do(c, "concurrent", st, slots[c], &per[c]) {
					oks[c] = false
					return
				}
			}
		}(c)
	}
	wg.Wait()
	for c := range per {
		events = append(events, per[c]...)
		clean = clean && oks[c]
	}
	if !clean {
		return events, false
	}
	// post phase: one goroutine lists every directory and reads every listed
	// file completely through a fresh descriptor
	var post []cEvent
	ps := map[int]*cSlot{}
	for _, d := range p.Dirs {
		if !cr.do(0, "post", cStep{K: "list", Dir: d}, ps, &post) {
			return append(events, post...), false
		}
		names := post[len(post)-1].Names
		for _, n := range names {
			for _, st := range []cStep{{K: "open", Dir: d, Name: n, Slot: 1}, {K: "readat", Slot: 1, Off: 0, Len: 4 << 20}, {K: "close", Slot: 1}} {
				if !cr.do(0, "post", st, ps, &post) {
					return append(events, post...), false
				}
			}
		}
	}
	return append(events, post...), true
}

// c14Child: vcheck child c14-client <impl> <pool> <build> <seed> <start> <count> <gomaxprocs> <outfile> <rootdir>
// Each history is announced with a {"begin":idx} line before it runs, so that
// the parent knows which program was running if the process dies.
func c14Child(args []string) int {
	if len(args) != 9 {
		fmt.Fprintln(os.Stderr, "c14-client: bad arguments")
		return 2
	}
	impl, pool, build := args[0], args[1], args[2]
	seed, _ := strconv.ParseInt(args[3], 10, 64)
	start, _ := strconv.Atoi(args[4])
	count, _ := strconv.Atoi(args[5])
	procs, _ := strconv.Atoi(args[6])
	out, err := os.Create(args[7])
	if err != nil {
		fmt.Fprintln(os.Stderr, err)
		return 2
	}
	defer out.Close()
	root := args[8]
	runtime.GOMAXPROCS(procs)
	w := bufio.NewWriter(out)
	for i := start; i < start+count; i++ {
		fmt.Fprintf(w, "{\"begin\":%d}\n", i)
		w.Flush()
		p := genProgram(seed, pool, i)
		var fs filesys.Filesys
		var cleanup func()
		switch impl {
		case "memfs":
			fs, cleanup = filesys.NewMemFs(), func() {}
		case "dirfs":
			dir := filepath.Join(root, fmt.Sprintf("h%d", i))
			if err := os.MkdirAll(dir, 0o755); err != nil {
				fmt.Fprintln(os.Stderr, err)
				return 2
			}
			d := filesys.NewDirFs(dir)
			fs, cleanup = d, func() { guarded(func() { d.CloseFs() }); os.RemoveAll(dir) }
		default:
			return 2
		}
		evs, posted := runProgram(fs, p)
		cleanup()
		h := cHistory{Idx: i, Impl: impl, Pool: pool, Build: build, Procs: procs, Clients: p.Clients, Pattern: p.Pattern, Events: packedEvents(evs), Posted: posted}
		b, _ := json.Marshal(h)
		w.Write(b)
		w.WriteByte('\n')
		w.Flush()
	}
	return 0
}
