package props

import (
	"fmt"
	"path/filepath"
	"regexp"
	"strconv"
	"strings"

	"verif/core"
	"verif/gen"
	"verif/gorun"
)

// c02look.go: packages NAMED like the packages the translator treats specially (gen/lookalike.go).
// Every Use* function of package N (uses inside the package) and of package use_N (uses through the
// qualified name N.X from an importing package) is judged rejected-or-faithful.

func c02Lookalike(r *core.Run, goose string) {
	c02LookalikeBatch(r, goose, "c02-lookalike", gen.LookalikePackages(gorun.ModPath))
	c02LookalikeBatch(r, goose, "c02-lookalike-values", gen.LookalikeValuePackages(gorun.ModPath))
}

func c02LookalikeBatch(r *core.Run, goose string, batch string, gps []*gen.Package) {
	var gp []*gorun.Pkg
	for _, p := range gps {
		gp = append(gp, &gorun.Pkg{Name: p.Name, Files: map[string]string{p.Name + ".go": p.Source}})
	}
	res, err := tvBatch(r, filepath.Join(r.Scratch, batch), goose, gp, tvOptions{PerPackage: true})
	if err != nil {
		fmt.Println("look-alike packages:", err)
		r.Inconclusive("lookalike-batch-failed")
		return
	}
	// declarations rejected per package (by bare name)
	rejectedIn := map[string]map[string]string{}
	byName := map[string]*tvPkg{}
	for _, p := range res {
		byName[p.Name] = p
		src := onlySource(p)
		rej := map[string]string{}
		for _, e := range p.GooseErrs {
			parts := strings.Split(e.Src, ":")
			if len(parts) < 3 {
				continue
			}
			ln, _ := strconv.Atoi(parts[len(parts)-2])
			if il := importLines(src); ln >= il[0] && ln <= il[1] {
				// an import declaration was refused: every function of the package that uses the import is refused with it
				rej["import"] = "[" + e.Category + "] " + e.Message
				continue
			}
			located := false
			for _, fr := range funcRanges(src) {
				if ln >= fr.Start && ln <= fr.End {
					located = true
					bare := fr.Name
					if i := strings.Index(bare, ":"); i >= 0 {
						bare = bare[i+1:]
					}
					rej[bare] = "[" + e.Category + "] " + e.Message
					rej[fr.Name] = rej[bare]
				}
			}
			if !located {
				r.Violate("c02-lookalike-error-outside-any-declaration-"+p.Name, "conversion error not located inside a declaration: "+e.Raw, map[string]interface{}{"pkg": p.Name, "source": src})
			}
		}
		rejectedIn[p.Name] = rej
	}
	verdicts := map[string]string{}
	callee := regexp.MustCompile(`return (\w+)\(`)
	for _, p := range res {
		r.Eval(1)
		src := onlySource(p)
		lib := strings.TrimPrefix(p.Name, "use_")
		if strings.HasPrefix(p.Name, "useas_") {
			lib = "std"
		}
		if p.Crashed {
			r.Violate("c02-lookalike-"+p.Name+"-goose-crash", fmt.Sprintf("goose aborts on a package named %s: %s", p.Name, firstLines(p.Stderr, 6)), map[string]interface{}{"pkg": p.Name, "stderr": p.Stderr, "source": src})
			continue
		}
		if p.LoadFailed {
			r.Inconclusive("package-does-not-load")
			continue
		}
		if p.ParseErr != "" {
			r.Violate("c02-lookalike-unreadable-output-"+p.Name, "emitted file cannot be read by Coq's rules: "+p.ParseErr, map[string]interface{}{"pkg": p.Name, "source": src, "v": p.VFile})
			continue
		}
		byFunc := map[string][]tvCase{}
		for _, c := range p.Cases {
			if m := callee.FindStringSubmatch(funcSource(src, c.Case)); m != nil {
				byFunc[m[1]] = append(byFunc[m[1]], c)
			}
		}
		for _, fr := range funcRanges(src) {
			if !strings.HasPrefix(fr.Name, "Use") || len(byFunc[fr.Name]) == 0 {
				continue
			}
			r.Count("functions_judged", 1)
			r.Count("lookalike_functions_judged", 1)
			key := batch + "/" + p.Name + "/" + fr.Name
			why := rejectedIn[p.Name][fr.Name]
			if why == "" && p.Name != lib && rejectedIn[p.Name]["import"] != "" {
				why = "import declaration: " + rejectedIn[p.Name]["import"]
			}
			if why == "" {
				// a rejected declaration this function (transitively) mentions, in this package or in the imported one
				for n := range reachableNames(src, fr.Name) {
					if w := rejectedIn[p.Name][n]; w != "" {
						why = n + ": " + w
					}
				}
				if p.Name != lib {
					body := funcSource(src, fr.Name)
					libSrc := ""
					if lp := byName[lib]; lp != nil {
						libSrc = onlySource(lp)
					}
					qual := lib
					if strings.HasPrefix(p.Name, "useas_") {
						qual = strings.TrimPrefix(p.Name, "useas_")
					}
					for _, m := range regexp.MustCompile(regexp.QuoteMeta(qual)+`\.(\w+)`).FindAllStringSubmatch(body, -1) {
						if w := rejectedIn[lib][m[1]]; w != "" {
							why = lib + "." + m[1] + ": " + w
						}
						// methods of an imported type that was rejected, and declarations the mentioned one needs
						for n := range reachableNames(libSrc, m[1]) {
							if w := rejectedIn[lib][n]; w != "" {
								why = lib + "." + n + ": " + w
							}
						}
					}
				}
			}
			if why != "" {
				verdicts[key] = "rejected: " + why
				r.Count("functions_rejected", 1)
				r.Distinct(key + "/rejected")
				continue
			}
			agree, mism, notEmitted, incon := 0, 0, 0, 0
			var firstBad tvCase
			for _, c := range byFunc[fr.Name] {
				switch {
				case c.Verdict == "agree":
					agree++
					r.Count("cases_compared", 1)
				case c.Verdict == "mismatch":
					if mism == 0 {
						firstBad = c
					}
					mism++
					r.Count("cases_compared", 1)
				case c.Verdict == "not-emitted":
					notEmitted++
					firstBad = c
				case c.Verdict == "go-panic":
				default:
					incon++
					if firstBad.Case == "" {
						firstBad = c
					}
				}
			}
			sig := "c02-lookalike-" + p.Name + "-" + fr.Name
			switch {
			case mism > 0:
				verdicts[key] = "MISTRANSLATED"
				r.Violate(sig+"-mistranslated", fmt.Sprintf("%s of the package NAMED %s (a user package, not the library) is accepted but the emitted GooseLang disagrees with Go: %s returned %s, GooseLang %s", fr.Name, p.Name, firstBad.Case, firstBad.GoValue, firstBad.GL),
					map[string]interface{}{"package": p.Name, "function": funcSource(src, fr.Name), "case": firstBad, "v": p.VFile})
			case notEmitted > 0:
				verdicts[key] = "DROPPED"
				r.Violate(sig+"-silently-dropped", fmt.Sprintf("package %s: no error is reported for %s but its definition is missing from the output", p.Name, fr.Name),
					map[string]interface{}{"package": p.Name, "function": funcSource(src, fr.Name), "v": p.VFile, "stderr": p.Stderr})
			case incon > 0 && agree == 0 && strings.Contains(firstBad.GL, "unknown global") && p.Name != "alias_real":
				// the look-alike packages use no library at all: a mention of a library name the model does not
				// implement (FS.create, ...) is the library's meaning given to the user's package
				verdicts[key] = "GIVEN-LIBRARY-MEANING"
				r.Violate(sig+"-given-library-meaning", fmt.Sprintf("%s of package %s uses only the user package %s, but the emitted GooseLang refers to the library: %s", fr.Name, p.Name, lib, firstBad.GL),
					map[string]interface{}{"package": p.Name, "function": funcSource(src, fr.Name), "case": firstBad, "v": p.VFile})
			case incon > 0 && agree == 0:
				verdicts[key] = "inconclusive: " + firstBad.GL
				r.Inconclusive("model-cannot-evaluate")
			default:
				verdicts[key] = fmt.Sprintf("accepted and faithful on %d cases", agree)
				r.Count("functions_accepted_faithful", 1)
				r.Distinct(key + "/faithful")
			}
		}
	}
	r.Set(strings.ReplaceAll(batch, "-", "_")+"_verdicts", verdicts)
	r.Count("lookalike_packages", int64(len(res)))
}

func onlySource(p *tvPkg) string {
	for _, s := range p.Source {
		return s
	}
	return ""
}

// importLines gives the first and last line of the import declarations of a source file.
func importLines(src string) [2]int {
	lo, hi := 0, -1
	in := false
	for i, l := range strings.Split(src, "\n") {
		t := strings.TrimSpace(l)
		switch {
		case strings.HasPrefix(t, "import ("):
			in = true
			if lo == 0 {
				lo = i + 1
			}
			hi = i + 1
		case in:
			hi = i + 1
			if t == ")" {
				in = false
			}
		case strings.HasPrefix(t, "import "):
			if lo == 0 {
				lo = i + 1
			}
			hi = i + 1
		}
	}
	return [2]int{lo, hi}
}
