package miscp

import (
	"encoding/json"
	"fmt"
	"os"
	"regexp"
	"sort"
	"strconv"
	"strings"
	"sync"
	"time"

	"verif/core"
	"verif/props"

	"github.com/goose-lang/goose/machine"
)

// WaitTimeout, schedule class "signal-held-across-expiry": an ordinary
// producer takes the Cond's lock shortly before the waiter's timeout expires,
// Signals (or Broadcasts) at once, keeps the lock across the expiry instant
// and only then unlocks. WaitTimeout must return, with the lock held.
//
// "Never returns" is not decided by a clock. The schedules run in a child
// process in which the only goroutines are the caller of WaitTimeout, the
// signaller (which ends after its Unlock) and whatever WaitTimeout itself
// starts; nothing else arms a timer. If the call can never return, every
// goroutine of that process ends up blocked and the Go runtime itself reports
// "fatal error: all goroutines are asleep - deadlock!" — that report is the
// refuting observation. The parent's wall-clock watchdog (minutes) only ever
// yields "inconclusive".

func init() {
	props.Children["c16-wt-hold"] = c16WtHoldChild
}

type wtHold struct {
	Idx       int    `json:"idx"`
	TimeoutMs uint64 `json:"timeout_ms"`
	OffsetUs  int64  `json:"signaller_locks_at_us_relative_to_expiry"`
	HoldUs    int64  `json:"signaller_holds_lock_us_after_signal"`
	Broadcast bool   `json:"uses_broadcast"`
	Earlier   int    `json:"earlier_timed_out_calls_on_this_cond"`
}

func (h wtHold) state() string {
	if h.Earlier == 0 {
		return "fresh"
	}
	return "reused"
}

// wtHoldCombos is a function of (tier, seed) only: the sweep is a full grid,
// the seed permutes which grid points use Broadcast / a reused Cond.
func wtHoldCombos(quick bool, seed int64) []wtHold {
	timeouts := []uint64{20, 60}
	stepUs := int64(2500)
	holds := []int64{0, 2000, 10000, 25000, 40000}
	if !quick {
		timeouts = []uint64{10, 20, 30, 60, 120}
		stepUs = 1000
		holds = []int64{0, 1000, 2000, 5000, 10000, 20000, 40000}
	}
	rng := core.NewRng(seed, "c16-wt-hold")
	var out []wtHold
	for _, t := range timeouts {
		for off := int64(-20000); off <= 5000; off += stepUs {
			for _, h := range holds {
				c := wtHold{Idx: len(out), TimeoutMs: t, OffsetUs: off, HoldUs: h, Broadcast: rng.Intn(3) == 0}
				if rng.Intn(3) == 0 {
					c.Earlier = 1 + rng.Intn(2)
				}
				out = append(out, c)
			}
		}
	}
	return out
}

type wtHoldEnd struct {
	Idx             int     `json:"idx"`
	HeldFlag        bool    `json:"held_flag_at_return"`
	TryLockRefused  bool    `json:"caller_trylock_refused_at_return"`
	ElapsedMs       float64 `json:"returned_ms_after_entry"`
	LockedRelExpMs  float64 `json:"signaller_locked_ms_relative_to_expiry"`
	UnlockRelExpMs  float64 `json:"signaller_unlocked_ms_relative_to_expiry"`
	RetAfterFreeMs  float64 `json:"returned_ms_after_signaller_unlock"`
	SignalledParked bool    `json:"signal_sent_before_the_call_returned"`
	BadUnlocks      int64   `json:"unlock_of_unheld_lock_refused"`
}

func ms(d time.Duration) float64 { return float64(d.Microseconds()) / 1000 }

// c16WtHoldChild: vcheck child c16-wt-hold <quick|thorough> <seed> <shard> <nshards> <first idx>
// Lines on stdout (unbuffered): "BEGIN <json combo>" before a schedule starts,
// "END <json>" after WaitTimeout returned and the signaller finished, "DONE".
func c16WtHoldChild(args []string) int {
	if len(args) < 5 {
		fmt.Fprintln(os.Stderr, "c16-wt-hold: tier seed shard nshards first")
		return 2
	}
	seed, _ := strconv.ParseInt(args[1], 10, 64)
	shard, _ := strconv.Atoi(args[2])
	nsh, _ := strconv.Atoi(args[3])
	first, _ := strconv.Atoi(args[4])
	say := func(tag string, v interface{}) {
		b, _ := json.Marshal(v)
		os.Stdout.WriteString(tag + " " + string(b) + "\n")
	}
	for _, h := range wtHoldCombos(args[0] != "thorough", seed) {
		if h.Idx%nsh != shard || h.Idx < first {
			continue
		}
		say("BEGIN", h)
		L := &trackLocker{}
		cond := sync.NewCond(L)
		for i := 0; i < h.Earlier; i++ {
			L.Lock()
			machine.WaitTimeout(cond, 1) // nobody signals: times out
			L.Unlock()
		}
		type sigInfo struct{ locked, unlocked time.Time }
		startCh := make(chan time.Time, 1)
		sigDone := make(chan sigInfo, 1)
		T := time.Duration(h.TimeoutMs) * time.Millisecond
		go func() {
			start := <-startCh
			time.Sleep(time.Until(start.Add(T + time.Duration(h.OffsetUs)*time.Microsecond)))
			L.Lock() // succeeds only once the caller is parked in its wait (or has returned and unlocked)
			locked := time.Now()
			if h.Broadcast {
				cond.Broadcast()
			} else {
				cond.Signal()
			}
			if h.HoldUs > 0 {
				time.Sleep(time.Duration(h.HoldUs) * time.Microsecond)
			}
			unlocked := time.Now()
			L.Unlock()
			sigDone <- sigInfo{locked, unlocked}
		}()
		L.Lock()
		start := time.Now()
		startCh <- start
		machine.WaitTimeout(cond, h.TimeoutMs)
		ret := time.Now()
		e := wtHoldEnd{Idx: h.Idx, HeldFlag: L.held.Load() == 1}
		// sync.Mutex has no owner: a TryLock by the caller itself succeeds iff nobody holds it
		if L.mu.TryLock() {
			L.mu.Unlock()
		} else {
			e.TryLockRefused = true
		}
		L.Unlock() // refused (and counted) by the tracking locker if the lock is not held
		si := <-sigDone
		exp := start.Add(T)
		e.ElapsedMs = ms(ret.Sub(start))
		e.LockedRelExpMs = ms(si.locked.Sub(exp))
		e.UnlockRelExpMs = ms(si.unlocked.Sub(exp))
		e.SignalledParked = si.locked.Before(ret)
		e.RetAfterFreeMs = ms(ret.Sub(si.unlocked))
		e.BadUnlocks = L.badUnlocks.Load()
		say("END", e)
	}
	os.Stdout.WriteString("DONE\n")
	return 0
}

var c16FatalRe = regexp.MustCompile(`(?m)^(fatal error|panic): (.*)$`)

const c16DeadlockMsg = "all goroutines are asleep - deadlock!"

func c16WaitTimeoutHold(r *core.Run) {
	self, err := os.Executable()
	if err != nil {
		r.Inconclusive("waittimeout-hold-no-self-executable")
		return
	}
	tier := "quick"
	if !r.Quick() {
		tier = "thorough"
	}
	combos := wtHoldCombos(r.Quick(), r.Seed)
	const nsh = 8
	type pend struct {
		sig, what string
		detail    interface{}
	}
	pends := make([][]pend, nsh)
	var mu sync.Mutex
	relClass := map[string]int64{}
	maxRetAfterUnlock := 0.0
	var cmds []string
	core.Parallel(nsh, nsh, func(sh int) {
		first := 0
		for restart := 0; restart < 4; restart++ {
			args := []string{"child", "c16-wt-hold", tier, strconv.FormatInt(r.Seed, 10), strconv.Itoa(sh), strconv.Itoa(nsh), strconv.Itoa(first)}
			mu.Lock()
			cmds = append(cmds, self+" "+strings.Join(args, " "))
			mu.Unlock()
			res := core.Exec(r.Scratch, nil, 15*time.Minute, "", self, args...)
			var cur *wtHold
			done := false
			for _, l := range strings.Split(res.Stdout, "\n") {
				switch {
				case strings.HasPrefix(l, "BEGIN "):
					var h wtHold
					if json.Unmarshal([]byte(l[6:]), &h) == nil {
						cur = &h
					}
				case strings.HasPrefix(l, "END "):
					var e wtHoldEnd
					if json.Unmarshal([]byte(l[4:]), &e) != nil || cur == nil || cur.Idx != e.Idx {
						continue
					}
					h := *cur
					cur = nil
					r.Eval(1)
					r.Count("waittimeout_hold_schedules_returned", 1)
					rel := "lock-and-unlock-after-expiry"
					switch {
					case e.LockedRelExpMs < 0 && e.UnlockRelExpMs > 0:
						rel = "locked-before-expiry-unlocked-after"
					case e.LockedRelExpMs < 0:
						rel = "lock-and-unlock-before-expiry"
					}
					if !e.SignalledParked {
						rel = "call-returned-by-timeout-before-signaller-locked"
					}
					r.Distinct(fmt.Sprintf("wt-hold/%s/%d/%v/%s", rel, h.TimeoutMs, h.Broadcast, h.state()))
					mu.Lock()
					relClass[rel+"/"+h.state()]++
					if e.SignalledParked && e.RetAfterFreeMs > maxRetAfterUnlock {
						maxRetAfterUnlock = e.RetAfterFreeMs
					}
					mu.Unlock()
					r.Count("waittimeout_lock_held_observations", 1)
					if !e.HeldFlag || !e.TryLockRefused || e.BadUnlocks > 0 {
						pends[sh] = append(pends[sh], pend{"waittimeout-lock-not-held-at-return/signal-held-across-expiry/" + h.state(),
							fmt.Sprintf("WaitTimeout(cond, %d) returned while the Cond's lock was not held (held flag %v, caller's TryLock refused %v, refused unlocks %d); signaller locked %.1f ms and unlocked %.1f ms relative to the expiry (%s Cond)",
								h.TimeoutMs, e.HeldFlag, e.TryLockRefused, e.BadUnlocks, e.LockedRelExpMs, e.UnlockRelExpMs, h.state()),
							map[string]interface{}{"schedule": h, "observed": e}})
					} else {
						r.Count("waittimeout_hold_lock_held_at_return", 1)
					}
					if rel == "locked-before-expiry-unlocked-after" {
						r.Count("waittimeout_hold_lock_observed_held_across_expiry_and_call_returned", 1)
						r.Sample(44, map[string]interface{}{"class": "signal-held-across-expiry", "schedule": h, "observed": e})
					}
				case l == "DONE":
					done = true
				}
			}
			if done {
				return
			}
			detail := map[string]interface{}{"schedule": cur, "child_exit": res.Code, "child_stderr": headStr(res.Stderr, 5000), "command": self + " " + strings.Join(args, " "),
				"replay": "caller: L.Lock(); WaitTimeout(cond, timeout_ms). signaller: at expiry+offset L.Lock(); Signal/Broadcast; sleep hold; L.Unlock(). No other goroutine in the process."}
			switch {
			case res.TimedOut:
				r.Inconclusive("waittimeout-hold-child-watchdog")
				return
			case cur == nil:
				r.Inconclusive("waittimeout-hold-child-failed")
				fmt.Fprintf(os.Stderr, "c16 wt-hold child shard %d: exit %d: %s\n", sh, res.Code, headStr(res.Stderr, 400))
				return
			case strings.Contains(res.Stderr, c16DeadlockMsg):
				r.Eval(1)
				r.Count("waittimeout_hold_runtime_deadlock_reports", 1)
				how := "Signal"
				if cur.Broadcast {
					how = "Broadcast"
				}
				pends[sh] = append(pends[sh], pend{"waittimeout-never-returns/signal-held-across-expiry/" + cur.state(),
					fmt.Sprintf("WaitTimeout(cond, %d) never returns when a signaller takes the lock %.1f ms relative to the expiry, sends %s and keeps the lock for %.1f ms before unlocking (%s Cond): "+
						"observed as the Go runtime's '%s' in a process whose only goroutines are the caller, the (finished) signaller and those WaitTimeout started: %s",
						cur.TimeoutMs, float64(cur.OffsetUs)/1000, how, float64(cur.HoldUs)/1000, cur.state(), c16DeadlockMsg, blockedSummary(res.Stderr)), detail})
			default:
				cls := "exit-" + strconv.Itoa(res.Code)
				if m := c16FatalRe.FindStringSubmatch(res.Stderr); m != nil {
					cls = strings.Trim(regexp.MustCompile(`[^a-z0-9]+`).ReplaceAllString(strings.ToLower(m[2]), "-"), "-")
					if len(cls) > 48 {
						cls = cls[:48]
					}
				}
				pends[sh] = append(pends[sh], pend{"waittimeout-process-died/signal-held-across-expiry/" + cls,
					fmt.Sprintf("the process running WaitTimeout(cond, %d) with a signaller holding the lock across the expiry died (exit %d): %s", cur.TimeoutMs, res.Code, headStr(res.Stderr, 300)), detail})
			}
			first = cur.Idx + 1
		}
	})
	for _, ps := range pends {
		for _, p := range ps {
			r.Violate(p.sig, p.what, p.detail)
		}
	}
	r.Set("waittimeout_hold_schedules_planned", len(combos))
	r.Set("waittimeout_hold_schedules_by_observed_lock_interval", relClass)
	r.Set("waittimeout_hold_max_ms_between_signaller_unlock_and_return", maxRetAfterUnlock)
	sort.Strings(cmds)
	r.Set("waittimeout_hold_child_commands", cmds)
}

func headStr(s string, n int) string {
	if len(s) > n {
		return s[:n] + "…"
	}
	return s
}

var gorHeadRe = regexp.MustCompile(`(?m)^goroutine \d+ \[([^\]]+)\]:\n([^\n(]+)`)

// blockedSummary lists "state in function" for each goroutine of a runtime dump.
func blockedSummary(stderr string) string {
	var parts []string
	for _, m := range gorHeadRe.FindAllStringSubmatch(stderr, 8) {
		// the first /repo frame of this goroutine, if any
		parts = append(parts, m[1]+" in "+m[2])
	}
	if i := strings.Index(stderr, "machine.WaitTimeout"); i >= 0 {
		parts = append(parts, "machine.WaitTimeout on the stack")
	}
	return strings.Join(parts, "; ")
}
