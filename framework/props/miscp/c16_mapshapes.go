package miscp

import (
	"fmt"
	"math"

	"verif/core"

	"github.com/goose-lang/goose/machine"
)

// MapClear, workload dimension "shape of the key type" (× value type × contents).
//
// Statement: "MapClear leaves any map empty and still usable". A map is hard to
// empty exactly when it holds keys that are not equal to themselves, and such
// keys exist for every key type with a floating-point component anywhere inside
// it — not only for the predeclared float and complex types: defined float types,
// structs and arrays with a float component (at any depth), and interface keys
// that box any of these. So the family runs over key-type shapes, and for every
// shape that admits them the contents include SEVERAL NaN-bearing keys.
//
//	key types:  every basic kind (bool, all int/uint widths, uintptr, string,
//	            float32/64, complex64/128), a defined type over each, structs with
//	            mixed fields (float / nested struct / array / interface / complex),
//	            arrays, pointers, channels, interface{} and a method-bearing
//	            interface boxing values of several dynamic types
//	values:     uint64, struct, slice, map, pointer, func
//	map types:  map[K]V and a defined map type over it
//	contents:   nil map, empty, 1 entry, many entries, only NaN-bearing keys (3),
//	            NaN-bearing keys among ordinary ones
//
// Oracle: after MapClear len is 0, ranging yields nothing, no old ordinary key
// is found, an insert works and is visible through a second reference to the map,
// and a second MapClear empties it again.

type (
	dBool       bool
	dInt8       int8
	dInt16      int16
	dInt32      int32
	dInt64      int64
	dInt        int
	dUint8      uint8
	dUint16     uint16
	dUint32     uint32
	dUint64     uint64
	dUint       uint
	dUintptr    uintptr
	dString     string
	dFloat32    float32
	celsius     float64
	dComplex64  complex64
	dComplex128 complex128

	shapeMixed struct {
		a uint64
		f float64
		s string
	}
	shapeInner struct {
		f float32
		x [2]int16
	}
	shapeNested struct {
		in shapeInner
		b  bool
	}
	shapeArrField struct {
		id uint32
		v  [3]float64
	}
	shapeIfaceField struct {
		k interface{}
		n uint8
	}
	shapeCplxField struct {
		c complex128
		t dString
	}
	shapeDefinedFloatField struct {
		t celsius
		n int32
	}
	shapeNoFloat struct {
		a uint64
		s string
		b [2]byte
	}
	shapeMap[K comparable, V any] map[K]V
)

func (c celsius) String() string { return fmt.Sprintf("%g°C", float64(c)) }

type keyShape[K comparable] struct {
	name   string
	class  string        // signature class
	key    func(i int) K // pairwise distinct (and equal to themselves) for i < domain
	domain int           // 0: unbounded
	nan    func(i int) K // keys not equal to themselves; nil if the type has none
}

var shapeNaN = math.NaN()

type shapeStats struct {
	cases, nanCases, nanEntries, clears int64
	keyTypes, nanKeyTypes               map[string]bool
}

func shapeContents(domain int) []struct {
	name      string
	ord, nans int
} {
	many := 64
	if domain > 0 && many > domain-1 {
		many = domain - 1 // one value is kept back for the insert after the clear
	}
	return []struct {
		name      string
		ord, nans int
	}{{"nil-map", -1, 0}, {"empty", 0, 0}, {"one-entry", 1, 0}, {"many-entries", many, 0}, {"nan-keys-only", 0, 3}, {"nan-keys-among-ordinary-keys", many / 2, 4}}
}

func shapeCheck[M ~map[K]V, K comparable, V any](r *core.Run, st *shapeStats, ks keyShape[K], mapKind, vname string, mkV func(i int) V) {
	for _, ct := range shapeContents(ks.domain) {
		if ct.nans > 0 && ks.nan == nil {
			continue
		}
		var m M
		if ct.ord >= 0 {
			m = make(M)
		}
		var keys []K
		for i := 0; i < ct.ord; i++ {
			k := ks.key(i)
			m[k] = mkV(i)
			keys = append(keys, k)
		}
		for i := 0; i < ct.nans; i++ {
			m[ks.nan(i)] = mkV(1000 + i)
		}
		want := 0
		if ct.ord > 0 {
			want = ct.ord
		}
		want += ct.nans
		typ := fmt.Sprintf("%s[%s]%s", mapKind, ks.name, vname)
		if len(m) != want {
			// the generator's keys are not what they are assumed to be: nothing is observed
			r.Inconclusive("mapclear-shape-generator-keys-not-distinct")
			continue
		}
		st.cases++
		st.keyTypes[ks.name] = true
		if ct.nans > 0 {
			st.nanCases++
			st.nanEntries += int64(ct.nans)
			st.nanKeyTypes[ks.name] = true
		}
		r.Eval(1)
		r.Distinct(fmt.Sprintf("mapclear-shape/%s/%s", typ, ct.name))
		sigClass := ks.class
		if ct.nans > 0 {
			sigClass = "nan-keys/" + ks.class
		}
		detail := map[string]interface{}{"map_type": typ, "key_type": ks.name, "value_type": vname, "contents": ct.name, "ordinary_entries": len(keys), "nan_bearing_entries": ct.nans, "len_before": want}
		alias := m
		if callPanics(func() { machine.MapClear(m) }) {
			r.Violate("mapclear-panic/"+sigClass, fmt.Sprintf("MapClear panicked on a %s (%s, %d entries)", typ, ct.name, want), detail)
			continue
		}
		st.clears++
		ranged := 0
		for range m {
			ranged++
		}
		hits := 0
		for _, k := range keys {
			if _, ok := m[k]; ok {
				hits++
			}
		}
		if len(m) != 0 || len(alias) != 0 || ranged != 0 || hits != 0 {
			detail["len_after"], detail["ranged_after"], detail["old_keys_still_found"] = len(m), ranged, hits
			r.Violate("mapclear-entries-left/"+sigClass, fmt.Sprintf("after MapClear a %s that held %d entries (%s: %d ordinary keys, %d keys that are not equal to themselves) has len %d; ranging yields %d entries, %d old keys are still found",
				typ, want, ct.name, len(keys), ct.nans, len(m), ranged, hits), detail)
			continue
		}
		if ct.ord < 0 {
			continue // a nil map stays nil: there is nothing to insert into
		}
		// still usable: an insert is visible through the other reference, a refill and a second clear work
		k0, v0 := ks.key(ct.ord), mkV(7)
		usable := !callPanics(func() { m[k0] = v0 })
		if _, ok := alias[k0]; !usable || !ok || len(alias) != 1 {
			detail["len_after_one_insert"] = len(alias)
			r.Violate("mapclear-unusable-after-clear/"+sigClass, fmt.Sprintf("after MapClear of a %s (%s) an insert failed or is not visible: len %d, want 1", typ, ct.name, len(alias)), detail)
			continue
		}
		for i := 0; i < ct.nans; i++ {
			m[ks.nan(i)] = mkV(i)
		}
		machine.MapClear(m)
		st.clears++
		if len(m) != 0 {
			detail["len_after_second_clear"] = len(m)
			r.Violate("mapclear-entries-left/"+sigClass, fmt.Sprintf("a second MapClear of a %s (refilled with 1 ordinary and %d NaN-bearing keys) left len %d", typ, ct.nans, len(m)), detail)
		}
	}
}

func shapeValues[K comparable](r *core.Run, st *shapeStats, ks keyShape[K]) {
	shapeCheck[map[K]uint64](r, st, ks, "map", "uint64", func(i int) uint64 { return uint64(i) })
	shapeCheck[shapeMap[K, c16rec]](r, st, ks, "defined-map", "struct", func(i int) c16rec { return c16rec{uint64(i), "v"} })
	shapeCheck[map[K][]byte](r, st, ks, "map", "[]byte", func(i int) []byte { return []byte{byte(i)} })
	shapeCheck[shapeMap[K, map[string]int]](r, st, ks, "defined-map", "map[string]int", func(i int) map[string]int { return map[string]int{"i": i} })
	shapeCheck[map[K]*uint64](r, st, ks, "map", "*uint64", func(i int) *uint64 { v := uint64(i); return &v })
	shapeCheck[shapeMap[K, func() int]](r, st, ks, "defined-map", "func() int", func(i int) func() int { return func() int { return i } })
}

func c16MapShapes(r *core.Run) {
	rng := core.NewRng(r.Seed, "c16-map-shapes")
	salt := rng.U64() | 1
	u := func(i int) uint64 { return uint64(i+1) * salt }
	n32 := float32(math.NaN())
	st := &shapeStats{keyTypes: map[string]bool{}, nanKeyTypes: map[string]bool{}}
	str := func(i int) string { return fmt.Sprintf("k%d/%x", i, salt&0xffff) }

	// basic kinds
	shapeValues(r, st, keyShape[bool]{name: "bool", class: "bool-key", key: func(i int) bool { return i%2 == 1 }, domain: 2})
	shapeValues(r, st, keyShape[int8]{name: "int8", class: "integer-key", key: func(i int) int8 { return int8(i - 100) }, domain: 200})
	shapeValues(r, st, keyShape[int16]{name: "int16", class: "integer-key", key: func(i int) int16 { return int16(i*257 - 9000) }})
	shapeValues(r, st, keyShape[int32]{name: "int32", class: "integer-key", key: func(i int) int32 { return int32(u(i)) }})
	shapeValues(r, st, keyShape[int64]{name: "int64", class: "integer-key", key: func(i int) int64 { return int64(u(i)) }})
	shapeValues(r, st, keyShape[int]{name: "int", class: "integer-key", key: func(i int) int { return -i - int(salt&0xfff) }})
	shapeValues(r, st, keyShape[uint8]{name: "uint8", class: "integer-key", key: func(i int) uint8 { return uint8(i) }, domain: 256})
	shapeValues(r, st, keyShape[uint16]{name: "uint16", class: "integer-key", key: func(i int) uint16 { return uint16(i * 251) }})
	shapeValues(r, st, keyShape[uint32]{name: "uint32", class: "integer-key", key: func(i int) uint32 { return uint32(i)*2654435761 + uint32(salt) }})
	shapeValues(r, st, keyShape[uint64]{name: "uint64", class: "integer-key", key: u})
	shapeValues(r, st, keyShape[uint]{name: "uint", class: "integer-key", key: func(i int) uint { return uint(u(i)) }})
	shapeValues(r, st, keyShape[uintptr]{name: "uintptr", class: "integer-key", key: func(i int) uintptr { return uintptr(u(i)) }})
	shapeValues(r, st, keyShape[string]{name: "string", class: "string-key", key: str})
	shapeValues(r, st, keyShape[float32]{name: "float32", class: "predeclared-float-or-complex-key", key: func(i int) float32 { return float32(i) + 0.25 }, nan: func(int) float32 { return n32 }})
	shapeValues(r, st, keyShape[float64]{name: "float64", class: "predeclared-float-or-complex-key", key: func(i int) float64 { return float64(i) + 0.5 }, nan: func(int) float64 { return shapeNaN }})
	shapeValues(r, st, keyShape[complex64]{name: "complex64", class: "predeclared-float-or-complex-key", key: func(i int) complex64 { return complex(float32(i), 1) }, nan: func(i int) complex64 { return complex(n32, float32(i)) }})
	shapeValues(r, st, keyShape[complex128]{name: "complex128", class: "predeclared-float-or-complex-key", key: func(i int) complex128 { return complex(float64(i), -1) },
		nan: func(i int) complex128 {
			if i%2 == 0 {
				return complex(float64(i), shapeNaN) // NaN in the imaginary part only
			}
			return complex(shapeNaN, 0)
		}})

	// a defined type over each
	shapeValues(r, st, keyShape[dBool]{name: "defined-bool", class: "bool-key", key: func(i int) dBool { return i%2 == 1 }, domain: 2})
	shapeValues(r, st, keyShape[dInt8]{name: "defined-int8", class: "integer-key", key: func(i int) dInt8 { return dInt8(i - 100) }, domain: 200})
	shapeValues(r, st, keyShape[dInt16]{name: "defined-int16", class: "integer-key", key: func(i int) dInt16 { return dInt16(i * 257) }})
	shapeValues(r, st, keyShape[dInt32]{name: "defined-int32", class: "integer-key", key: func(i int) dInt32 { return dInt32(u(i)) }})
	shapeValues(r, st, keyShape[dInt64]{name: "defined-int64", class: "integer-key", key: func(i int) dInt64 { return dInt64(u(i)) }})
	shapeValues(r, st, keyShape[dInt]{name: "defined-int", class: "integer-key", key: func(i int) dInt { return dInt(-i) }})
	shapeValues(r, st, keyShape[dUint8]{name: "defined-uint8", class: "integer-key", key: func(i int) dUint8 { return dUint8(i) }, domain: 256})
	shapeValues(r, st, keyShape[dUint16]{name: "defined-uint16", class: "integer-key", key: func(i int) dUint16 { return dUint16(i * 251) }})
	shapeValues(r, st, keyShape[dUint32]{name: "defined-uint32", class: "integer-key", key: func(i int) dUint32 { return dUint32(u(i)) }})
	shapeValues(r, st, keyShape[dUint64]{name: "defined-uint64", class: "integer-key", key: func(i int) dUint64 { return dUint64(u(i)) }})
	shapeValues(r, st, keyShape[dUint]{name: "defined-uint", class: "integer-key", key: func(i int) dUint { return dUint(u(i)) }})
	shapeValues(r, st, keyShape[dUintptr]{name: "defined-uintptr", class: "integer-key", key: func(i int) dUintptr { return dUintptr(u(i)) }})
	shapeValues(r, st, keyShape[dString]{name: "defined-string", class: "string-key", key: func(i int) dString { return dString(str(i)) }})
	shapeValues(r, st, keyShape[dFloat32]{name: "defined-float32", class: "defined-float-or-complex-key", key: func(i int) dFloat32 { return dFloat32(i) + 0.25 }, nan: func(int) dFloat32 { return dFloat32(n32) }})
	shapeValues(r, st, keyShape[celsius]{name: "defined-float64", class: "defined-float-or-complex-key", key: func(i int) celsius { return celsius(i) - 273.15 }, nan: func(int) celsius { return celsius(shapeNaN) }})
	shapeValues(r, st, keyShape[dComplex64]{name: "defined-complex64", class: "defined-float-or-complex-key", key: func(i int) dComplex64 { return dComplex64(complex(float32(i), 2)) }, nan: func(i int) dComplex64 { return dComplex64(complex(float32(i), n32)) }})
	shapeValues(r, st, keyShape[dComplex128]{name: "defined-complex128", class: "defined-float-or-complex-key", key: func(i int) dComplex128 { return dComplex128(complex(float64(i), 2)) }, nan: func(i int) dComplex128 { return dComplex128(complex(shapeNaN, float64(i))) }})

	// structs
	shapeValues(r, st, keyShape[shapeNoFloat]{name: "struct{uint64;string;[2]byte}", class: "struct-key-without-float-component", key: func(i int) shapeNoFloat { return shapeNoFloat{u(i), str(i), [2]byte{byte(i), 1}} }})
	shapeValues(r, st, keyShape[shapeMixed]{name: "struct{uint64;float64;string}", class: "struct-key-with-float-component", key: func(i int) shapeMixed { return shapeMixed{u(i), float64(i), "s"} },
		nan: func(i int) shapeMixed { return shapeMixed{uint64(i % 2), shapeNaN, "s"} }})
	shapeValues(r, st, keyShape[shapeNested]{name: "struct{struct{float32;[2]int16};bool}", class: "struct-key-with-float-component", key: func(i int) shapeNested { return shapeNested{shapeInner{float32(i), [2]int16{int16(i), 3}}, i%2 == 0} },
		nan: func(i int) shapeNested { return shapeNested{shapeInner{n32, [2]int16{1, 3}}, true} }})
	shapeValues(r, st, keyShape[shapeArrField]{name: "struct{uint32;[3]float64}", class: "struct-key-with-float-component", key: func(i int) shapeArrField { return shapeArrField{uint32(i), [3]float64{1, 2, float64(i)}} },
		nan: func(i int) shapeArrField { return shapeArrField{7, [3]float64{1, shapeNaN, 3}} }})
	shapeValues(r, st, keyShape[shapeCplxField]{name: "struct{complex128;defined-string}", class: "struct-key-with-float-component", key: func(i int) shapeCplxField { return shapeCplxField{complex(float64(i), 0), "t"} },
		nan: func(i int) shapeCplxField { return shapeCplxField{complex(0, shapeNaN), "t"} }})
	shapeValues(r, st, keyShape[shapeDefinedFloatField]{name: "struct{defined-float64;int32}", class: "struct-key-with-float-component", key: func(i int) shapeDefinedFloatField { return shapeDefinedFloatField{celsius(i), 4} },
		nan: func(i int) shapeDefinedFloatField { return shapeDefinedFloatField{celsius(shapeNaN), 4} }})
	shapeValues(r, st, keyShape[shapeIfaceField]{name: "struct{interface{};uint8}", class: "interface-key-boxing-nan", key: func(i int) shapeIfaceField { return shapeIfaceField{u(i), 1} },
		nan: func(i int) shapeIfaceField { return shapeIfaceField{shapeNaN, 1} }})

	// arrays
	shapeValues(r, st, keyShape[[3]string]{name: "[3]string", class: "array-key-without-float-component", key: func(i int) [3]string { return [3]string{"a", str(i), ""} }})
	shapeValues(r, st, keyShape[[2]float64]{name: "[2]float64", class: "array-key-with-float-component", key: func(i int) [2]float64 { return [2]float64{float64(i), 1} },
		nan: func(i int) [2]float64 { return [2]float64{float64(i % 2), shapeNaN} }})
	shapeValues(r, st, keyShape[[2]celsius]{name: "[2]defined-float64", class: "array-key-with-float-component", key: func(i int) [2]celsius { return [2]celsius{celsius(i), 1} },
		nan: func(i int) [2]celsius { return [2]celsius{celsius(shapeNaN), 0} }})
	shapeValues(r, st, keyShape[[2]shapeInner]{name: "[2]struct{float32;[2]int16}", class: "array-key-with-float-component", key: func(i int) [2]shapeInner { return [2]shapeInner{{float32(i), [2]int16{}}, {}} },
		nan: func(i int) [2]shapeInner { return [2]shapeInner{{}, {n32, [2]int16{}}} }})
	shapeValues(r, st, keyShape[[1]interface{}]{name: "[1]interface{}", class: "interface-key-boxing-nan", key: func(i int) [1]interface{} { return [1]interface{}{str(i)} },
		nan: func(i int) [1]interface{} { return [1]interface{}{n32} }})

	// pointers and channels: identity keys
	shapeValues(r, st, keyShape[*uint64]{name: "*uint64", class: "pointer-key", key: func(i int) *uint64 { v := uint64(i); return &v }})
	shapeValues(r, st, keyShape[*shapeMixed]{name: "*struct", class: "pointer-key", key: func(i int) *shapeMixed { return &shapeMixed{f: shapeNaN} }})
	shapeValues(r, st, keyShape[chan int]{name: "chan int", class: "channel-key", key: func(i int) chan int { return make(chan int) }})
	shapeValues(r, st, keyShape[<-chan string]{name: "<-chan string", class: "channel-key", key: func(i int) <-chan string { return make(chan string, 1) }})

	// interface keys boxing values of several dynamic types
	box := func(i int) interface{} {
		switch i % 7 {
		case 0:
			return u(i)
		case 1:
			return str(i)
		case 2:
			return float64(i) + 0.5
		case 3:
			return shapeMixed{u(i), 1, "x"}
		case 4:
			return [2]float64{float64(i), 2}
		case 5:
			return celsius(i)
		default:
			return int8(i)
		}
	}
	boxNaN := func(i int) interface{} {
		switch i % 6 {
		case 0:
			return shapeNaN
		case 1:
			return n32
		case 2:
			return celsius(shapeNaN)
		case 3:
			return shapeMixed{1, shapeNaN, "x"}
		case 4:
			return [2]float64{shapeNaN, 2}
		default:
			return complex(shapeNaN, 1)
		}
	}
	shapeValues(r, st, keyShape[interface{}]{name: "interface{}", class: "interface-key-boxing-nan", key: box, nan: boxNaN})
	shapeValues(r, st, keyShape[fmt.Stringer]{name: "fmt.Stringer", class: "interface-key-boxing-nan", key: func(i int) fmt.Stringer { return celsius(i) }, nan: func(int) fmt.Stringer { return celsius(shapeNaN) }})

	r.Count("mapclear_shape_cases", st.cases)
	r.Count("mapclear_shape_cases_with_nan_bearing_keys", st.nanCases)
	r.Count("mapclear_shape_nan_bearing_entries_inserted", st.nanEntries)
	r.Count("mapclear_shape_clears_checked", st.clears)
	r.Set("mapclear_shape_key_types", len(st.keyTypes))
	r.Set("mapclear_shape_key_types_admitting_nan", len(st.nanKeyTypes))
	r.Set("mapclear_shape_value_types", []string{"uint64", "struct", "[]byte", "map[string]int", "*uint64", "func() int"})
}
