package miscp

import (
	"bytes"
	"fmt"
	"os"
	"path/filepath"
	"sort"
	"strings"

	"verif/core"
)

// C18, dimension "where -out points x what is wrong with the arguments"
// (out_args_* keys, signatures out-and-arguments/<class>:<discrepancy>).
//
// The other -out workloads (prior state, location / name) always give test_gen a
// good package directory. Here the target of -out
//
//	absent file elsewhere | existing file elsewhere (a previous good output) |
//	existing non-source file inside the package directory | an existing SOURCE
//	file of the package | a symlink elsewhere to such a source file | an absent
//	.go name inside the package directory | a directory | a path whose parent
//	does not exist | none (stdout)
//
// is crossed with the package argument
//
//	the package directory | no argument at all | a directory that does not
//	exist | a file instead of a directory | a directory holding a file that does
//	not parse
//
// and both modes, each run on a private copy of one small package (three source
// files, a non-Go file) whose reference outputs were taken beforehand from a
// pristine copy. Asserted:
//
//   - never a Go panic (a traceback on stderr);
//   - bad arguments (none, nonexistent, not a directory) end with exit != 0;
//   - whenever the exit status is != 0, a file that existed at the -out path is
//     byte-identical afterwards (whether an absent one was created is only noted);
//   - no source file of the package is ever modified — so -out naming a source
//     file (directly or through a link) must be refused;
//   - the output is never read back as input: with a good package and a writable
//     target the run succeeds and the file equals the reference output of the
//     pristine copy, also when the target is a new .go name inside the package;
//   - a directory / a missing parent as target ends with exit != 0.

const c18OutArgsSig = "out-and-arguments/"

var (
	c18OAOuts = []string{"stdout", "absent-file-elsewhere", "existing-file-elsewhere", "existing-non-source-file-in-the-package-directory", "absent-go-file-name-in-the-package-directory",
		"existing-source-file-of-the-package", "symlink-elsewhere-to-a-source-file-of-the-package", "a-directory", "missing-parent-directory"}
	c18OAArgs = []string{"package-directory", "no-directory-argument", "nonexistent-directory", "a-file-instead-of-a-directory", "directory-with-a-file-that-does-not-parse"}
)

type c18OACase struct {
	Idx  int    `json:"idx"`
	Mode string `json:"mode"`
	Out  string `json:"out_target"`
	Arg  string `json:"package_argument"`
}

func c18OutArgsCases(seed int64) []c18OACase {
	var out []c18OACase
	// arguments first, smallest command lines first: the first failing case of a signature is the simplest
	for _, a := range c18OAArgs {
		for _, o := range c18OAOuts {
			for _, m := range []string{"-coq", "-go"} {
				out = append(out, c18OACase{Idx: len(out), Mode: m, Out: o, Arg: a})
			}
		}
	}
	return out
}

func c18OutArgs(r *core.Run, tg string) {
	rng := core.NewRng(r.Seed, "c18-out-args")
	base := filepath.Join(r.Scratch, "c18oa")
	// the package: names and test names depend on the seed
	w := func() string { return c18Words[rng.Intn(len(c18Words))] }
	srcs := map[string]string{
		"a_first.go": fmt.Sprintf("package semantics\n\nfunc test%sOA1() bool {\n\treturn true\n}\n\nfunc failing_test%sOA2() bool {\n\treturn false\n}\n", w(), w()),
		"m_mid.go":   fmt.Sprintf("package semantics\n\nfunc helperOA() uint64 { return 3 }\n\nfunc test%sOA3() bool {\n\treturn helperOA() == 3\n}\n", w()),
		"z_last.go":  fmt.Sprintf("package semantics\n\nfunc test%sOA4() bool {\n\treturn true\n}\n", w()),
		"notes.txt":  "func testNotGo() bool {\n",
	}
	var srcNames []string
	for n := range srcs {
		srcNames = append(srcNames, n)
	}
	sort.Strings(srcNames)
	writePkg := func(dir string) error {
		for _, n := range srcNames {
			if err := core.WriteFile(filepath.Join(dir, n), srcs[n]); err != nil {
				return err
			}
		}
		return nil
	}
	pristine := filepath.Join(base, "pristine", "semantics")
	if err := writePkg(pristine); err != nil {
		r.Inconclusive("scratch-write-failed")
		return
	}
	ref := map[string]string{}
	for _, m := range []string{"-coq", "-go"} {
		res := c18Run(base, 0, tg, m, pristine)
		r.Count("test_gen_invocations", 1)
		exp, _ := c18ExpNames(pristine)
		got, un := c18Names(m, res.Stdout)
		if res.Code != 0 || un != 0 || strings.Join(exp, " ") != strings.Join(got, " ") || len(exp) != 4 {
			// the plain package itself is not handled: the other workloads report that; nothing to compare with here
			r.Inconclusive("out-args-reference-generation-failed")
			fmt.Fprintln(os.Stderr, "C18 out/arguments: reference generation", m, "exit", res.Code, got, exp, firstLine(res.Stderr))
			return
		}
		ref[m] = res.Stdout
	}
	prior := "previous good output, " + strings.Repeat("kept byte for byte. ", 40) + "\n"
	cases := c18OutArgsCases(r.Seed)
	pends := make([][]c18Pend, len(cases))
	core.Parallel(len(cases), 16, func(i int) {
		cs := cases[i]
		root := filepath.Join(base, fmt.Sprintf("c%03d", i))
		pkg := filepath.Join(root, "semantics")
		outDir := filepath.Join(root, "out")
		os.MkdirAll(outDir, 0o755)
		if err := writePkg(pkg); err != nil {
			r.Inconclusive("scratch-write-failed")
			return
		}
		defer os.RemoveAll(root)
		watched := map[string][]byte{} // files that must not change: every source file, and an existing -out target on failure
		for _, n := range srcNames {
			watched[filepath.Join(pkg, n)] = []byte(srcs[n])
		}
		var args []string
		args = append(args, cs.Mode)
		outPath, outExisted := "", false
		switch cs.Out {
		case "absent-file-elsewhere":
			outPath = filepath.Join(outDir, "new.out")
		case "existing-file-elsewhere":
			outPath, outExisted = filepath.Join(outDir, "prev.out"), true
			os.WriteFile(outPath, []byte(prior), 0o644)
		case "existing-non-source-file-in-the-package-directory":
			outPath, outExisted = filepath.Join(pkg, "generated.out"), true
			os.WriteFile(outPath, []byte(prior), 0o644)
		case "absent-go-file-name-in-the-package-directory":
			outPath = filepath.Join(pkg, "zz_out.go")
		case "existing-source-file-of-the-package":
			outPath, outExisted = filepath.Join(pkg, "a_first.go"), true
		case "symlink-elsewhere-to-a-source-file-of-the-package":
			outPath, outExisted = filepath.Join(outDir, "link.out"), true
			os.Symlink(filepath.Join(pkg, "m_mid.go"), outPath)
		case "a-directory":
			outPath = filepath.Join(outDir, "sub")
			os.MkdirAll(outPath, 0o755)
		case "missing-parent-directory":
			outPath = filepath.Join(outDir, "nope", "x.out")
		}
		if outPath != "" {
			args = append(args, "-out", outPath)
		}
		argBad, argText := false, ""
		switch cs.Arg {
		case "package-directory":
			args = append(args, pkg)
			argText = "<package directory>"
		case "no-directory-argument":
			argBad, argText = true, ""
		case "nonexistent-directory":
			argBad = true
			args = append(args, filepath.Join(root, "no-such-directory"))
			argText = "<a directory that does not exist>"
		case "a-file-instead-of-a-directory":
			argBad = true
			args = append(args, filepath.Join(pkg, "z_last.go"))
			argText = "<package directory>/z_last.go"
		case "directory-with-a-file-that-does-not-parse":
			os.WriteFile(filepath.Join(pkg, "n_broken.go"), []byte("package semantics\n\nfunc testBroken( bool {\n"), 0o644)
			watched[filepath.Join(pkg, "n_broken.go")] = []byte("package semantics\n\nfunc testBroken( bool {\n")
			args = append(args, pkg)
			argText = "<package directory with n_broken.go>"
		}
		outIsSource := cs.Out == "existing-source-file-of-the-package" || cs.Out == "symlink-elsewhere-to-a-source-file-of-the-package"
		outUnwritable := cs.Out == "a-directory" || cs.Out == "missing-parent-directory"
		var before []byte
		if outExisted {
			before, _ = os.ReadFile(outPath)
		}
		res := c18Run(root, 0, tg, args...)
		r.Count("test_gen_invocations", 1)
		if res.TimedOut {
			r.Inconclusive("test_gen-watchdog")
			return
		}
		r.Eval(1)
		r.Distinct("out-args/" + cs.Mode + "/" + cs.Out + "/" + cs.Arg)
		r.Count("out_args_runs", 1)
		r.Count(fmt.Sprintf("out_args_runs_by_exit/%s/exit=%d", cs.Arg, res.Code), 1)
		cmdText := "test_gen " + cs.Mode
		if outPath != "" {
			cmdText += " -out <" + strings.ReplaceAll(cs.Out, "-", " ") + ">"
		}
		if argText != "" {
			cmdText += " " + argText
		}
		// the signature says whether the arguments were bad or the package good and the target special
		// (the argument / target class is in the text; cases run from the simplest command line on)
		cls := "bad-arguments"
		if cs.Arg == "package-directory" {
			cls = "good-package"
		}
		detail := map[string]interface{}{"case": cs, "command": "test_gen " + strings.Join(args, " "), "exit": res.Code, "stderr": c18Clip([]byte(res.Stderr)), "package_files": srcs,
			"replay": "write the package files into a fresh directory, create the -out target as the case says (an existing target holds a previous output), run the command, compare exit status, the target and every source file"}
		add := func(kind, what string) {
			pends[i] = append(pends[i], c18Pend{c18OutArgsSig + cls + ":" + kind, cmdText + ": " + what, detail})
		}
		if c18Panicked(res) {
			add("go-panic", fmt.Sprintf("ends with a Go panic (exit %d): %s", res.Code, c18PanicLine(res.Stderr)))
		}
		if argBad && res.Code == 0 {
			add("exit-0", "exits 0 although no package could be read")
		}
		if (outIsSource || outUnwritable) && !argBad && cs.Arg == "package-directory" && res.Code == 0 {
			add("exit-0", "exits 0 although the output could not be written without destroying a source file of the package / at all")
		}
		// source files
		var changed []string
		for p, want := range watched {
			got, err := os.ReadFile(p)
			if err != nil || !bytes.Equal(got, want) {
				changed = append(changed, fmt.Sprintf("%s (%d bytes before, %d after)", filepath.Base(p), len(want), len(got)))
			}
		}
		sort.Strings(changed)
		r.Count("out_args_source_files_compared", int64(len(watched)))
		if len(changed) > 0 {
			add("source-file-modified", fmt.Sprintf("exit %d, and source files of the package are no longer what they were: %v", res.Code, changed))
		}
		// an existing target after a failed run
		if outExisted && res.Code != 0 && !outIsSource {
			r.Count("out_args_existing_targets_compared_after_a_failed_run", 1)
			after, err := os.ReadFile(outPath)
			if err != nil || !bytes.Equal(after, before) {
				add("existing-out-file-changed-by-a-failed-run", fmt.Sprintf("exit %d, and the file that existed at the -out path (%d bytes, a previous output) is %d bytes long afterwards", res.Code, len(before), len(after)))
			}
		}
		if outPath != "" && !outExisted && !outUnwritable && res.Code != 0 {
			_, err := os.Lstat(outPath)
			r.Count(fmt.Sprintf("out_args_noted_failed_run_leaves_a_new_file_at_the_out_path=%v", err == nil), 1)
		}
		// success: the file is the reference output of the pristine copy (nothing read back, nothing lost)
		if cs.Arg == "package-directory" && !outIsSource && !outUnwritable {
			got := res.Stdout
			if outPath != "" {
				b, _ := os.ReadFile(outPath)
				got = string(b)
			}
			r.Count("out_args_outputs_compared_with_the_reference", 1)
			switch {
			case res.Code != 0:
				if !c18Panicked(res) {
					add("exit-nonzero", fmt.Sprintf("exits %d on a good package and a writable target: %s", res.Code, firstLine(res.Stderr)))
				}
			case got != ref[cs.Mode]:
				add("output-differs-from-the-generation-for-the-pristine-package", "exits 0 and the output is not what the same package gives on stdout: "+c18DescribeStale(cs.Mode, got, func() []string { n, _ := c18Names(cs.Mode, ref[cs.Mode]); return n }()))
			default:
				r.Count("out_args_outputs_equal_to_the_reference", 1)
			}
		}
	})
	for _, ps := range pends {
		for _, p := range ps {
			r.Violate(p.sig, p.what, p.detail)
		}
	}
	r.Set("out_args_targets", c18OAOuts)
	r.Set("out_args_arguments", c18OAArgs)
}
