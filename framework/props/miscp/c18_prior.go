package miscp

import (
	"bytes"
	"context"
	"fmt"
	"go/ast"
	"go/parser"
	"go/token"
	"os"
	"os/exec"
	"path/filepath"
	"sort"
	"strings"
	"syscall"
	"time"

	"verif/core"
)

// C18, workload dimension "prior state of the output target".
//
// test_gen is a regenerator: its -out file normally exists already and holds
// the output of an earlier version of the package. Whatever the target held
// before, after a successful run it must hold byte for byte what a generation
// into a file that did not exist yields (and therefore exactly the expected
// tests). Prior contents are not invented: "longer", "shorter", "same length"
// are the real outputs of test_gen on edited versions of the same package
// (functions added / removed / renamed / failing_ prefix toggled), and each
// package is also taken through three edits in a row regenerated into the same
// two files, the Go one lying in the package directory as go:generate has it.

const c18PriorSig = "out-file-prior-state/"

// ------------------------------------------------------------ package versions

type c18Ver struct {
	files map[string][]byte // relative path → content
	log   []string          // edits that led here
}

func (v *c18Ver) clone() *c18Ver {
	n := &c18Ver{files: map[string][]byte{}, log: append([]string{}, v.log...)}
	for k, b := range v.files {
		n.files[k] = append([]byte{}, b...)
	}
	return n
}

// writeTo makes dir hold exactly this version; files named in keep are left alone.
func (v *c18Ver) writeTo(dir string, keep map[string]bool) error {
	var have []string
	filepath.Walk(dir, func(p string, fi os.FileInfo, err error) error {
		if err == nil && !fi.IsDir() {
			rel, _ := filepath.Rel(dir, p)
			have = append(have, rel)
		}
		return nil
	})
	for _, rel := range have {
		if _, ok := v.files[rel]; !ok && !keep[rel] {
			if err := os.Remove(filepath.Join(dir, rel)); err != nil {
				return err
			}
		}
	}
	for rel, b := range v.files {
		p := filepath.Join(dir, rel)
		if old, err := os.ReadFile(p); err == nil && bytes.Equal(old, b) {
			continue
		}
		if err := core.WriteFile(p, string(b)); err != nil {
			return err
		}
	}
	return nil
}

// c18IsSource: the files that belong to the package as the oracle reads it (same rule as c18Expected).
func c18IsSource(n string) bool {
	if strings.Contains(n, "/") || strings.HasSuffix(n, "~") || strings.HasSuffix(n, ".gold.v") || strings.HasSuffix(n, "_test.go") || !strings.HasSuffix(n, ".go") {
		return false
	}
	return !strings.HasPrefix(n, "_") && !strings.HasPrefix(n, ".")
}

type c18Decl struct {
	file    string
	name    string
	failing bool
	nameOff int
	start   int // including the doc comment
	end     int
}

func (d c18Decl) suffix() string {
	return strings.TrimPrefix(strings.TrimPrefix(d.name, "failing_"), "test")
}

// decls lists the test functions of the version (files in name order, source order) and every top-level name.
func (v *c18Ver) decls() ([]c18Decl, map[string]bool, error) {
	var names []string
	for n := range v.files {
		names = append(names, n)
	}
	sort.Strings(names)
	var out []c18Decl
	top := map[string]bool{}
	for _, n := range names {
		if !strings.HasSuffix(n, ".go") || strings.Contains(n, "/") {
			continue
		}
		fset := token.NewFileSet()
		f, err := parser.ParseFile(fset, n, v.files[n], parser.ParseComments|parser.SkipObjectResolution)
		if err != nil {
			if c18IsSource(n) {
				return nil, nil, err
			}
			continue
		}
		off := func(p token.Pos) int { return fset.Position(p).Offset }
		for _, d := range f.Decls {
			switch d := d.(type) {
			case *ast.GenDecl:
				for _, s := range d.Specs {
					switch s := s.(type) {
					case *ast.ValueSpec:
						for _, id := range s.Names {
							top[id.Name] = true
						}
					case *ast.TypeSpec:
						top[s.Name.Name] = true
					}
				}
			case *ast.FuncDecl:
				if d.Recv != nil {
					continue
				}
				nm := d.Name.Name
				top[nm] = true
				if !c18IsSource(n) {
					continue
				}
				failing := strings.HasPrefix(nm, "failing_test") && len(nm) > len("failing_test")
				if !failing && !(strings.HasPrefix(nm, "test") && len(nm) > len("test")) {
					continue
				}
				start := off(d.Pos())
				if d.Doc != nil {
					start = off(d.Doc.Pos())
				}
				out = append(out, c18Decl{file: n, name: nm, failing: failing, nameOff: off(d.Name.Pos()), start: start, end: off(d.End())})
			}
		}
	}
	return out, top, nil
}

type c18Editor struct {
	rng *core.Rng
	n   int
}

func (e *c18Editor) freshSuffix(v *c18Ver, length int, stem string) string {
	ds, top, _ := v.decls()
	used := map[string]bool{}
	for _, d := range ds {
		used[d.suffix()] = true
	}
	const alpha = "ABCDEFGHJKLMNPQRSTUVWXYZabcdefghijkmnopqrstuvwxyz0123456789"
	for {
		e.n++
		var s string
		if length > 0 { // exactly this many bytes
			b := make([]byte, length)
			for i := range b {
				b[i] = alpha[e.rng.Intn(len(alpha))]
			}
			s = string(b)
		} else {
			s = fmt.Sprintf("%s%d", stem, e.n)
		}
		if !used[s] && !top["test"+s] && !top["failing_test"+s] {
			return s
		}
	}
}

func (e *c18Editor) sourceFiles(v *c18Ver) []string {
	var fs []string
	for n := range v.files {
		if c18IsSource(n) {
			fs = append(fs, n)
		}
	}
	sort.Strings(fs)
	return fs
}

// add appends k new test functions (to an existing file, or sometimes a new file).
func (e *c18Editor) add(v *c18Ver, k int) {
	fs := e.sourceFiles(v)
	file := fs[e.rng.Intn(len(fs))]
	if e.rng.Intn(4) == 0 {
		e.n++
		file = fmt.Sprintf("n_added%d.go", e.n)
		v.files[file] = []byte("package semantics\n")
	}
	for i := 0; i < k; i++ {
		s := e.freshSuffix(v, 0, []string{"Added", "NewCase", "Regress", "Z"}[e.rng.Intn(4)])
		name, res := "test"+s, "true"
		if e.rng.Intn(4) == 0 {
			name, res = "failing_test"+s, "false"
		}
		v.files[file] = append(v.files[file], []byte(fmt.Sprintf("\nfunc %s() bool {\n\treturn %s\n}\n", name, res))...)
		v.log = append(v.log, "add func "+name+" to "+file)
	}
}

// remove deletes up to k test functions, always leaving at least one in the package.
func (e *c18Editor) remove(v *c18Ver, k int) bool {
	did := false
	for i := 0; i < k; i++ {
		ds, _, err := v.decls()
		if err != nil || len(ds) < 2 {
			return did
		}
		d := ds[e.rng.Intn(len(ds))]
		b := v.files[d.file]
		end := d.end
		for end < len(b) && b[end] == '\n' && end < d.end+2 {
			end++
		}
		v.files[d.file] = append(append([]byte{}, b[:d.start]...), b[end:]...)
		v.log = append(v.log, "remove func "+d.name+" from "+d.file)
		did = true
	}
	return did
}

// removeFile deletes a whole source file that declares tests, if tests remain elsewhere.
func (e *c18Editor) removeFile(v *c18Ver) bool {
	ds, _, err := v.decls()
	if err != nil {
		return false
	}
	per := map[string]int{}
	for _, d := range ds {
		per[d.file]++
	}
	var cands []string
	for f, n := range per {
		if n > 0 && n < len(ds) {
			cands = append(cands, f)
		}
	}
	if len(cands) == 0 {
		return false
	}
	sort.Strings(cands)
	f := cands[e.rng.Intn(len(cands))]
	delete(v.files, f)
	v.log = append(v.log, fmt.Sprintf("remove file %s (%d test functions)", f, per[f]))
	return true
}

func (e *c18Editor) setName(v *c18Ver, d c18Decl, name, why string) {
	b := v.files[d.file]
	nb := append([]byte{}, b[:d.nameOff]...)
	nb = append(nb, name...)
	nb = append(nb, b[d.nameOff+len(d.name):]...)
	v.files[d.file] = nb
	v.log = append(v.log, fmt.Sprintf("%s func %s -> %s in %s", why, d.name, name, d.file))
}

// rename gives one test function a new name: how = "same" (same length), "longer", "shorter".
func (e *c18Editor) rename(v *c18Ver, how string) bool {
	ds, _, err := v.decls()
	if err != nil || len(ds) == 0 {
		return false
	}
	perm := make([]int, len(ds))
	for i := range perm {
		perm[i] = i
	}
	for i := len(perm) - 1; i > 0; i-- {
		j := e.rng.Intn(i + 1)
		perm[i], perm[j] = perm[j], perm[i]
	}
	for _, i := range perm {
		d := ds[i]
		suf := d.suffix()
		pre := strings.TrimSuffix(d.name, suf)
		switch how {
		case "same":
			e.setName(v, d, pre+e.freshSuffix(v, len(suf), ""), "rename (same length)")
		case "longer":
			e.setName(v, d, pre+e.freshSuffix(v, len(suf)+3+e.rng.Intn(12), ""), "rename (longer)")
		default:
			if len(suf) < 4 {
				continue
			}
			e.setName(v, d, pre+e.freshSuffix(v, 2+e.rng.Intn(len(suf)-3), ""), "rename (shorter)")
		}
		return true
	}
	return false
}

// toggle adds (toFailing) or removes the failing_ prefix of one test function.
func (e *c18Editor) toggle(v *c18Ver, toFailing bool) bool {
	ds, _, err := v.decls()
	if err != nil {
		return false
	}
	var cands []c18Decl
	for _, d := range ds {
		if d.failing != toFailing {
			cands = append(cands, d)
		}
	}
	if len(cands) == 0 {
		return false
	}
	d := cands[e.rng.Intn(len(cands))]
	if toFailing {
		e.setName(v, d, "failing_"+d.name, "mark as failing:")
	} else {
		e.setName(v, d, strings.TrimPrefix(d.name, "failing_"), "no longer failing:")
	}
	return true
}

// step applies one edit of the given direction.
func (e *c18Editor) step(v *c18Ver, dir string) {
	switch dir {
	case "grow":
		if e.rng.Intn(4) == 0 && e.rename(v, "longer") {
			return
		}
		e.add(v, 1+e.rng.Intn(3))
	case "shrink":
		switch k := e.rng.Intn(6); {
		case k == 0 && e.removeFile(v):
		case k == 1 && e.rename(v, "shorter"):
		default:
			if !e.remove(v, 1+e.rng.Intn(2)) {
				e.rename(v, "shorter")
			}
		}
	case "same":
		e.rename(v, "same")
	case "toggle":
		if !e.toggle(v, e.rng.Bool()) {
			e.toggle(v, true)
		}
	}
}

// ----------------------------------------------------------------- invocation

type c18Res struct {
	Code     int
	Stdout   string
	Stderr   string
	TimedOut bool
}

// c18Run runs test_gen; uid > 0 runs it as that unprivileged user (the harness is root,
// for which permission bits mean nothing).
func c18Run(cwd string, uid uint32, bin string, args ...string) c18Res {
	ctx, cancel := context.WithTimeout(context.Background(), 60*time.Second)
	defer cancel()
	cmd := exec.CommandContext(ctx, bin, args...)
	cmd.Dir = cwd
	if uid > 0 {
		cmd.SysProcAttr = &syscall.SysProcAttr{Credential: &syscall.Credential{Uid: uid, Gid: uid}}
	}
	var so, se bytes.Buffer
	cmd.Stdout, cmd.Stderr = &so, &se
	cmd.WaitDelay = 5 * time.Second
	err := cmd.Run()
	res := c18Res{Stdout: so.String(), Stderr: se.String(), TimedOut: ctx.Err() == context.DeadlineExceeded}
	if cmd.ProcessState != nil {
		res.Code = cmd.ProcessState.ExitCode()
	} else if err != nil {
		res.Code = -2
		res.Stderr += err.Error()
	}
	return res
}

var c18Modes = []struct{ flag, ext string }{{"-go", ".go"}, {"-coq", ".v"}}

type c18Pend struct {
	sig, what string
	detail    map[string]interface{}
}

type c18PriorPkg struct {
	idx   int
	pend  []c18Pend
	final []byte // content of the in-package generated_test.go after the last step
	fresh []byte
	seq   []string
}

func c18Names(mode string, out string) (names []string, unparsed int) {
	if mode == "-go" {
		es, un := c18ParseGo(out)
		for _, e := range es {
			names = append(names, e.Callee)
		}
		return names, un
	}
	es, un := c18ParseCoq(out)
	for _, e := range es {
		names = append(names, e.Fn)
	}
	return names, un
}

func c18ExpNames(dir string) ([]string, error) {
	ts, err := c18Expected(dir)
	var ns []string
	for _, t := range ts {
		ns = append(ns, t.Name)
	}
	return ns, err
}

// c18DescribeStale says what a wrong file contains, relative to the expected tests.
func c18DescribeStale(mode, got string, exp []string) string {
	names, un := c18Names(mode, got)
	kinds := c18Diff(strings.TrimPrefix(mode, "-"), exp, names)
	if un > 0 {
		kinds = append(kinds, fmt.Sprintf("%d unparsable test entries", un))
	}
	if len(kinds) == 0 {
		kinds = []string{"same test list, other bytes differ"}
	}
	return fmt.Sprintf("%s; tests in the file %v, functions in the package %v", strings.Join(kinds, ", "), names, exp)
}

func c18Clip(b []byte) string {
	s := string(b)
	if len(s) > 4000 {
		s = s[:2000] + fmt.Sprintf("\n…[%d bytes elided]…\n", len(s)-4000) + s[len(s)-2000:]
	}
	return s
}

func c18PriorStates(r *core.Run, tg string) {
	nPkg := r.Pick(12, 160)
	root := filepath.Join(r.Scratch, "c18prior")
	mod := filepath.Join(r.Scratch, "c18priormod")
	os.Chmod(r.Scratch, 0o755) // the unprivileged test_gen must be able to reach its inputs
	core.WriteFile(filepath.Join(mod, "go.mod"), fmt.Sprintf(c18GoMod, core.RepoDir))
	sum, _ := os.ReadFile(filepath.Join(core.RepoDir, "go.sum"))
	os.WriteFile(filepath.Join(mod, "go.sum"), sum, 0o644)

	// can test_gen be run as an unprivileged user here? (needed for the read-only state)
	var roUID uint32
	if os.Geteuid() == 0 {
		probe := c18Run(r.Scratch, 65534, tg, "-go", "-out", "-", filepath.Join(r.Scratch, "bin"))
		if probe.Code == 0 && strings.Contains(probe.Stdout, "GoTestSuite") {
			roUID = 65534
		}
	}
	roHow := "file mode 0444 (the harness is not root)"
	if os.Geteuid() == 0 {
		roHow = "not enforceable (root, no credential switch): exit 0 with the right content is accepted"
		if roUID > 0 {
			roHow = "file mode 0444 and test_gen run as uid 65534 (the harness is root)"
		}
	}
	r.Set("prior_state_read_only_enforced_by", roHow)

	pkgs := make([]*c18PriorPkg, nPkg)
	core.Parallel(nPkg, 16, func(pi int) {
		pk := &c18PriorPkg{idx: pi}
		pkgs[pi] = pk
		rng := core.NewRng(r.Seed, fmt.Sprintf("c18-prior-%d", pi))
		ed := &c18Editor{rng: rng}
		fail := func(reason string, err interface{}) {
			r.Inconclusive(reason)
			fmt.Fprintln(os.Stderr, "C18 prior-state:", reason, pi, err)
		}
		d, err := genC18Dir(r.Seed, 90000+pi, "")
		if err != nil {
			fail("prior-state-generator-error", err)
			return
		}
		v0 := &c18Ver{files: map[string][]byte{}}
		for _, f := range d.Files {
			v0.files[f.Name] = f.content
		}
		if ds, _, err := v0.decls(); err != nil {
			fail("prior-state-generator-error", err)
			return
		} else if len(ds) < 3 {
			ed.add(v0, 3-len(ds)) // room for removals
			v0.log = nil
		}
		pdir := filepath.Join(root, fmt.Sprintf("p%03d", pi))
		nfresh := 0
		// gen: a generation into a file that does not exist yet
		gen := func(mode, ext, dir string) ([]byte, bool) {
			nfresh++
			p := filepath.Join(pdir, "fresh", fmt.Sprintf("f%03d%s", nfresh, ext))
			os.MkdirAll(filepath.Dir(p), 0o755)
			res := c18Run(pdir, 0, tg, mode, "-out", p, dir)
			r.Count("test_gen_invocations", 1)
			b, err := os.ReadFile(p)
			if res.TimedOut {
				fail("test_gen-watchdog", nil)
				return nil, false
			}
			if res.Code != 0 || err != nil {
				pk.pend = append(pk.pend, c18Pend{c18PriorSig + "absent:test_gen-exit-nonzero", fmt.Sprintf("test_gen %s -out <new file> exited %d: %s", mode, res.Code, firstLine(res.Stderr)), map[string]interface{}{"edits": v0.log}})
				return nil, false
			}
			return b, true
		}
		// materialise a version in its own directory and generate both outputs
		type verOut struct {
			v   *c18Ver
			dir string
			out map[string][]byte
			exp []string
		}
		mk := func(tag string, v *c18Ver) *verOut {
			vo := &verOut{v: v, dir: filepath.Join(pdir, "ver-"+tag), out: map[string][]byte{}}
			if err := v.writeTo(vo.dir, nil); err != nil {
				fail("scratch-write-failed", err)
				return nil
			}
			exp, err := c18ExpNames(vo.dir)
			if err != nil {
				fail("prior-state-edit-unparsable", fmt.Sprint(err, v.log))
				return nil
			}
			vo.exp = exp
			for _, m := range c18Modes {
				b, ok := gen(m.flag, m.ext, vo.dir)
				if !ok {
					return nil
				}
				vo.out[m.flag] = b
				// the reference itself lists exactly the expected tests
				names, un := c18Names(m.flag, string(b))
				r.Count("prior_state_fresh_generations_checked_against_go_parser", 1)
				if un != 0 || strings.Join(names, " ") != strings.Join(exp, " ") {
					pk.pend = append(pk.pend, c18Pend{c18PriorSig + "absent:" + strings.TrimPrefix(m.flag, "-") + "-file-lists-other-tests-than-the-package-has",
						fmt.Sprintf("test_gen %s -out <new file> on an edited package (%v): %s", m.flag, v.log, c18DescribeStale(m.flag, string(b), exp)),
						map[string]interface{}{"edits": v.log, "output": c18Clip(b)}})
				}
			}
			return vo
		}
		T := mk("new", v0)
		if T == nil {
			return
		}
		variant := func(tag string, f func(v *c18Ver) bool) *verOut {
			v := v0.clone()
			if !f(v) {
				return nil
			}
			return mk(tag, v)
		}
		sup := variant("superset", func(v *c18Ver) bool { ed.add(v, 2+rng.Intn(3)); return true })
		sub := variant("subset", func(v *c18Ver) bool { return ed.remove(v, 1+rng.Intn(2)) })
		same := variant("renamed", func(v *c18Ver) bool { return ed.rename(v, "same") })
		tog := variant("failing", func(v *c18Ver) bool { return ed.toggle(v, true) })

		type scen struct {
			state string
			newer *verOut
			prior func(mode string) []byte // nil: no file
			rel   int                      // required length relation prior vs new output: +1 longer, -1 shorter, 0 equal, 2 any
			how   string                   // "", "readonly", "symlink", "stdout", "nofile"
		}
		of := func(vo *verOut) func(string) []byte {
			if vo == nil {
				return nil
			}
			return func(m string) []byte { return vo.out[m] }
		}
		other := map[string]string{"-go": "-coq", "-coq": "-go"}
		scens := []scen{
			{"absent", T, nil, 2, "nofile"},
			{"empty", T, func(string) []byte { return []byte{} }, -1, ""},
			{"identical", T, of(T), 0, ""},
			{"longer:output-of-superset-package", T, of(sup), 1, ""},
			{"shorter:output-of-subset-package", T, of(sub), -1, ""},
			{"same-length:output-before-a-function-was-renamed", T, of(same), 0, ""},
			{"longer:output-before-a-failing-prefix-was-removed", T, of(tog), 1, ""},
			{"shorter:output-before-a-failing-prefix-was-added", tog, of(T), -1, ""},
			{"longer:output-before-functions-were-removed", sub, of(T), 1, ""},
			{"longer:garbage", T, func(m string) []byte { return rng.Bytes(len(T.out[m]) + 1 + rng.Intn(4096)) }, 1, ""},
			{"shorter:garbage", T, func(m string) []byte { return rng.Bytes(1 + rng.Intn(len(T.out[m])-1)) }, -1, ""},
			{"longer:identical-plus-trailing-newline", T, func(m string) []byte { return append(append([]byte{}, T.out[m]...), '\n') }, 1, ""},
			{"other-length:output-of-the-other-mode", T, func(m string) []byte { return T.out[other[m]] }, 2, ""},
			{"longer:read-only-file", T, of(sup), 1, "readonly"},
			{"longer:through-a-symlink", T, of(sup), 1, "symlink"},
			{"stdout", T, nil, 2, "stdout"},
		}
		for si, sc := range scens {
			for _, m := range c18Modes {
				mname := strings.TrimPrefix(m.flag, "-")
				if sc.newer == nil || (sc.prior == nil && sc.how != "nofile" && sc.how != "stdout") {
					r.Count("prior_state_scenarios_not_constructible/"+sc.state, 1)
					continue
				}
				ref := sc.newer.out[m.flag]
				sdir := filepath.Join(pdir, fmt.Sprintf("s%02d%s", si, mname))
				os.MkdirAll(sdir, 0o755)
				target := filepath.Join(sdir, "generated_test"+m.ext)
				real := target
				var prior []byte
				if sc.prior != nil {
					prior = sc.prior(m.flag)
					switch {
					case sc.rel == 1 && len(prior) <= len(ref), sc.rel == -1 && len(prior) >= len(ref), sc.rel == 0 && len(prior) != len(ref):
						r.Count("prior_state_scenarios_not_constructible/"+sc.state, 1)
						continue
					}
					if sc.how == "symlink" {
						real = filepath.Join(sdir, "elsewhere", "real"+m.ext)
						os.MkdirAll(filepath.Dir(real), 0o755)
						os.Symlink(real, target)
					}
					mode := os.FileMode(0o644)
					if sc.how == "readonly" {
						mode = 0o444
					}
					if err := os.WriteFile(real, prior, mode); err != nil {
						fail("scratch-write-failed", err)
						continue
					}
				}
				detail := map[string]interface{}{"prior_state": sc.state, "mode": m.flag, "edits_between_prior_and_new_package": sc.newer.v.log, "prior_bytes": len(prior), "fresh_generation_bytes": len(ref)}
				var res c18Res
				var got []byte
				outArg := target
				cwd := pdir
				if rng.Intn(3) == 0 && sc.how != "stdout" { // relative -out, as in the go:generate line
					outArg, cwd = filepath.Base(target), sdir
				}
				detail["command"] = fmt.Sprintf("(cd %s && test_gen %s -out %s %s)", cwd, m.flag, outArg, sc.newer.dir)
				switch sc.how {
				case "stdout":
					if rng.Bool() {
						res = c18Run(sdir, 0, tg, m.flag, "-out", "-", sc.newer.dir)
					} else {
						res = c18Run(sdir, 0, tg, m.flag, sc.newer.dir)
					}
					got = []byte(res.Stdout)
					if ents, _ := os.ReadDir(sdir); len(ents) != 0 {
						pk.pend = append(pk.pend, c18Pend{c18PriorSig + "stdout:" + mname + "-file-created", fmt.Sprintf("test_gen %s writing to stdout created %s in its working directory", m.flag, ents[0].Name()), detail})
					}
				case "readonly":
					res = c18Run(cwd, roUID, tg, m.flag, "-out", outArg, sc.newer.dir)
					got, _ = os.ReadFile(real)
				default:
					res = c18Run(cwd, 0, tg, m.flag, "-out", outArg, sc.newer.dir)
					got, _ = os.ReadFile(real)
				}
				r.Count("test_gen_invocations", 1)
				if res.TimedOut {
					fail("test_gen-watchdog", nil)
					continue
				}
				r.Eval(1)
				r.Count("prior_state_scenarios_run/"+sc.state+"/"+mname, 1)
				r.Distinct("prior/" + sc.state + "/" + mname + "/" + fmt.Sprint(pi))
				detail["exit"] = res.Code
				detail["stderr"] = firstLine(res.Stderr)
				if sc.how == "readonly" && res.Code != 0 {
					// refused with an error exit: nothing claims to have been generated
					if strings.Contains(res.Stderr, "permission denied") && strings.Contains(res.Stderr, filepath.Base(target)) {
						r.Count("prior_state_read_only_refused_with_error_exit", 1)
						if bytes.Equal(got, prior) {
							r.Count("prior_state_read_only_refused_file_left_unchanged", 1)
						}
					} else {
						// the unprivileged run failed for a reason that is not the target: nothing was observed
						r.Inconclusive("prior-state-read-only-run-failed-before-reaching-the-target")
						fmt.Fprintln(os.Stderr, "C18 prior-state: read-only scenario:", res.Code, firstLine(res.Stderr))
					}
					continue
				}
				if sc.how == "readonly" {
					r.Count("prior_state_read_only_written_despite_mode_0444", 1)
				}
				if res.Code != 0 {
					pk.pend = append(pk.pend, c18Pend{c18PriorSig + sc.state + ":" + mname + "-test_gen-exit-nonzero",
						fmt.Sprintf("test_gen %s -out <file> exited %d when the file's prior state was %q: %s", m.flag, res.Code, sc.state, firstLine(res.Stderr)), detail})
					continue
				}
				r.Count("prior_state_files_compared_with_fresh_generation", 1)
				if !bytes.Equal(got, ref) {
					detail["file_after"] = c18Clip(got)
					detail["fresh_generation"] = c18Clip(ref)
					detail["file_after_bytes"] = len(got)
					pk.pend = append(pk.pend, c18Pend{c18PriorSig + sc.state + ":" + mname + "-file-differs-from-fresh-generation",
						fmt.Sprintf("test_gen %s -out <file> exited 0, but the file (%d bytes) is not what a generation into a new file yields (%d bytes); prior state of the file: %q (%d bytes); %s",
							m.flag, len(got), len(ref), sc.state, len(prior), c18DescribeStale(m.flag, string(got), sc.newer.exp)), detail})
				}
			}
		}

		// three edits in a row, regenerated into the same two files
		dirs := []string{"grow", "shrink", []string{"same", "toggle", "shrink", "grow"}[rng.Intn(4)]}
		for i := len(dirs) - 1; i > 0; i-- {
			j := rng.Intn(i + 1)
			dirs[i], dirs[j] = dirs[j], dirs[i]
		}
		seqDir := filepath.Join(mod, fmt.Sprintf("p%03d", pi))
		targets := map[string]string{"-go": filepath.Join(seqDir, "generated_test.go"), "-coq": filepath.Join(pdir, "seq", "tests.v")}
		os.MkdirAll(filepath.Join(pdir, "seq"), 0o755)
		cur := v0.clone()
		for step := 0; step <= len(dirs); step++ {
			before := len(cur.log)
			if step > 0 {
				ed.step(cur, dirs[step-1])
			}
			edits := append([]string{}, cur.log[before:]...)
			if err := cur.writeTo(seqDir, map[string]bool{"generated_test.go": true}); err != nil {
				fail("scratch-write-failed", err)
				return
			}
			exp, err := c18ExpNames(seqDir)
			if err != nil || len(exp) == 0 {
				fail("prior-state-edit-unparsable", fmt.Sprint(err, cur.log))
				return
			}
			for _, m := range c18Modes {
				mname := strings.TrimPrefix(m.flag, "-")
				prev, perr := os.ReadFile(targets[m.flag])
				ref, ok := gen(m.flag, m.ext, seqDir)
				if !ok {
					return
				}
				var res c18Res
				if m.flag == "-go" && rng.Bool() { // exactly the go:generate line: relative paths from the package directory
					res = c18Run(seqDir, 0, tg, m.flag, "-out", "generated_test.go", ".")
				} else {
					res = c18Run(pdir, 0, tg, m.flag, "-out", targets[m.flag], seqDir)
				}
				r.Count("test_gen_invocations", 1)
				got, _ := os.ReadFile(targets[m.flag])
				class := "regenerate-after-edit/existing-file-longer-than-new-output"
				switch {
				case perr != nil:
					class = "regenerate-after-edit/first-generation"
				case len(prev) < len(ref):
					class = "regenerate-after-edit/existing-file-shorter-than-new-output"
				case len(prev) == len(ref):
					class = "regenerate-after-edit/existing-file-as-long-as-new-output"
				}
				r.Eval(1)
				r.Count("prior_state_scenarios_run/"+class+"/"+mname, 1)
				r.Distinct(fmt.Sprintf("prior-seq/%s/%s/%d/%d", class, mname, pi, step))
				detail := map[string]interface{}{"prior_state": class, "mode": m.flag, "step": step, "edits_of_this_step": edits, "all_edits_so_far": append([]string{}, cur.log...),
					"existing_file_bytes": len(prev), "fresh_generation_bytes": len(ref), "exit": res.Code, "stderr": firstLine(res.Stderr)}
				if res.Code != 0 {
					pk.pend = append(pk.pend, c18Pend{c18PriorSig + class + ":" + mname + "-test_gen-exit-nonzero",
						fmt.Sprintf("regenerating (%s) after edit %d %v: test_gen exited %d: %s", m.flag, step, edits, res.Code, firstLine(res.Stderr)), detail})
					continue
				}
				r.Count("prior_state_files_compared_with_fresh_generation", 1)
				if !bytes.Equal(got, ref) {
					detail["file_after"] = c18Clip(got)
					detail["fresh_generation"] = c18Clip(ref)
					pk.pend = append(pk.pend, c18Pend{c18PriorSig + class + ":" + mname + "-file-differs-from-fresh-generation",
						fmt.Sprintf("regenerating (%s -out <same file>) after edit %d of the package %v: exit 0, but the file (%d bytes; %d before) is not what a generation into a new file yields (%d bytes); %s",
							m.flag, step, edits, len(got), len(prev), len(ref), c18DescribeStale(m.flag, string(got), exp)), detail})
				}
				if m.flag == "-go" {
					pk.final, pk.fresh = got, ref
				}
			}
			pk.seq = append([]string{}, cur.log...)
		}
		r.Count("prior_state_edit_sequences_completed", 1)
		r.Count("prior_state_packages", 1)
	})

	for _, pk := range pkgs {
		if pk == nil {
			continue
		}
		for _, p := range pk.pend {
			p.detail["package"] = fmt.Sprintf("p%03d (generated directory %d)", pk.idx, 90000+pk.idx)
			r.Violate(p.sig, p.what, p.detail)
		}
	}

	// the Go file each sequence ended with lies in its package: it must compile there
	res := core.Exec(mod, core.GoEnv(), 10*time.Minute, "", "go", "test", "-vet=off", "-count=1", "-run", "^$", "./...")
	if res.TimedOut {
		r.Inconclusive("prior-state-go-test-watchdog")
		return
	}
	status := map[string]string{}
	for _, line := range strings.Split(res.Stdout, "\n") {
		fs := strings.Fields(line)
		if len(fs) >= 2 && fs[0] == "ok" {
			status[filepath.Base(fs[1])] = "ok"
		} else if len(fs) >= 2 && fs[0] == "FAIL" && strings.HasPrefix(fs[1], "c18scratch/") {
			status[filepath.Base(fs[1])] = "failed"
		}
	}
	for _, pk := range pkgs {
		if pk == nil || pk.final == nil {
			continue
		}
		name := fmt.Sprintf("p%03d", pk.idx)
		var errs []string
		foreign := false
		for _, line := range strings.Split(res.Stderr+"\n"+res.Stdout, "\n") {
			if strings.HasPrefix(line, name+"/") {
				errs = append(errs, line)
				if !strings.HasPrefix(line, name+"/generated_test.go:") {
					foreign = true
				}
			}
		}
		switch {
		case status[name] == "ok":
			r.Count("prior_state_sequence_final_go_files_compiled_ok", 1)
		case status[name] == "failed" && !foreign && len(errs) > 0:
			r.Count("prior_state_sequence_final_go_files_failing_to_compile", 1)
			r.Violate(c18PriorSig+"regenerate-after-edit/final-file:go-file-does-not-compile",
				fmt.Sprintf("after three edits of package %s (%v), each followed by test_gen -go -out generated_test.go, the generated file (identical to a fresh generation: %v) does not compile next to the package: %v",
					name, pk.seq, bytes.Equal(pk.final, pk.fresh), firstN(errs, 3)),
				map[string]interface{}{"edits": pk.seq, "compile_errors": firstN(errs, 10), "file": c18Clip(pk.final), "fresh_generation": c18Clip(pk.fresh)})
		default:
			r.Inconclusive("prior-state-edited-package-does-not-compile")
			fmt.Fprintln(os.Stderr, "C18 prior-state: no usable compile status for", name, status[name], firstN(errs, 3), pk.seq)
		}
	}
}
