package miscp

import (
	"encoding/json"
	"fmt"
	"os"
	"sync"
	"time"

	"verif/core"
)

// WaitTimeout, schedule dimension "several timed waiters on one Cond".
//
// k ∈ {2,3,4} goroutines are in WaitTimeout on the same Cond at the same time
// (each is observed parked before the next one starts, so the Cond's queue
// order is the start order), with timeouts in every order relation (equal,
// increasing, decreasing — plus "all 60 s" for the signal clause), optionally a
// plain cond.Wait waiter at the head or in the middle of the queue. Signals:
// none / one Signal / as many Signals as there are waiters but one / a
// Broadcast, sent before the first deadline, between the first and the last
// deadline, or after all of them; on fresh and reused Conds.
//
// Oracle (statement only): every timed waiter returns with the lock held no
// later than its own timeout + Δ whatever happens to the others; j Signals
// (a Broadcast) sent while all waiters were observed parked and well before any
// deadline make at least j (all) of them return within Δ. Which waiter a Signal
// picks is not judged. Timeouts are ≤ 300 ms, so "never returns" shows as the
// Δ bound; overdue calls are then released with Broadcasts.

type wtMulti struct {
	Idx      int      `json:"idx"`
	K        int      `json:"timed_waiters"`
	Order    string   `json:"timeout_order"` // equal | increasing | decreasing | equal-long
	Timeouts []uint64 `json:"timeouts_ms_in_start_order"`
	Signals  string   `json:"signals"` // none | one | all-but-one | broadcast
	When     string   `json:"signals_sent"`
	PlainAt  int      `json:"plain_wait_waiter_at_queue_position"` // -1: none
	Earlier  []uint64 `json:"earlier_timed_out_calls_ms"`
	WithLock bool     `json:"signaller_holds_lock"`
	JitterMs int      `json:"signal_jitter_ms"`
}

func (m wtMulti) state() string {
	if len(m.Earlier) == 0 {
		return "fresh"
	}
	return "reused"
}

func (m wtMulti) class() string {
	sig := map[string]string{"none": "no-signal", "one": "one-signal", "all-but-one": "signals-for-all-but-one", "broadcast": "broadcast"}[m.Signals]
	if m.Signals != "none" {
		sig += "-" + m.When
	}
	return "several-timed-waiters/" + m.Order + "-timeouts/" + sig
}

// wtMultiPlan: the grid is a function of the tier only (so that a defect yields the
// same signatures at every seed); the seed chooses jitter and the signaller's locking.
func wtMultiPlan(quick bool, seed int64) []wtMulti {
	rng := core.NewRng(seed, "c16-wt-multi")
	bases := []uint64{80}
	if !quick {
		bases = []uint64{80, 60, 100}
	}
	type sw struct{ sig, when string }
	sws := []sw{{"none", ""}}
	for _, s := range []string{"one", "all-but-one", "broadcast"} {
		for _, w := range []string{"before-the-deadlines", "between-the-deadlines", "after-the-deadlines"} {
			sws = append(sws, sw{s, w})
		}
	}
	var out []wtMulti
	cell := 0
	for _, base := range bases {
		for _, order := range []string{"equal", "increasing", "decreasing", "equal-long"} {
			for _, x := range sws {
				if x.when == "between-the-deadlines" && (order == "equal" || order == "equal-long") {
					continue
				}
				if order == "equal-long" && x.when != "before-the-deadlines" {
					continue // only the signal clause is judged on 60 s timeouts
				}
				for _, reused := range []bool{false, true} {
					cell++
					for ki, k := range []int{2, 3, 4} {
						m := wtMulti{Idx: len(out), K: k, Order: order, Signals: x.sig, When: x.when, WithLock: rng.Bool(), JitterMs: 1 + rng.Intn(8)}
						// every cell sees each plain-waiter position once over its three k
						m.PlainAt = (ki+cell)%3 - 1
						for i := 0; i < k; i++ {
							switch order {
							case "equal":
								m.Timeouts = append(m.Timeouts, base)
							case "increasing":
								m.Timeouts = append(m.Timeouts, base+uint64(i)*70)
							case "decreasing":
								m.Timeouts = append(m.Timeouts, base+uint64(k-1-i)*70)
							default:
								m.Timeouts = append(m.Timeouts, wtLongMs)
							}
						}
						if reused {
							for j, n := 0, 1+rng.Intn(2); j < n; j++ {
								m.Earlier = append(m.Earlier, []uint64{0, 1, 5, 20}[rng.Intn(4)])
							}
						}
						out = append(out, m)
					}
				}
			}
		}
	}
	return out
}

type wtmWaiter struct {
	c      *wtCall // nil: plain cond.Wait waiter
	start  time.Time
	gone   chan struct{} // plain waiter: closed after it returned and unlocked
	retAt  time.Time     // plain waiter
	tmoMs  uint64
	pos    int
	isLong bool
}

func (w *wtmWaiter) returnedCh() <-chan struct{} {
	if w.c != nil {
		return w.c.returned
	}
	return w.gone
}

func (w *wtmWaiter) returnTime() time.Time {
	if w.c != nil {
		return w.c.retAt
	}
	return w.retAt
}

func runWtMulti(m wtMulti, seed int64) *wtOutcome {
	class, state := m.class(), m.state()
	o := &wtOutcome{Multi: &m, Sched: wtSched{Idx: m.Idx, Class: class, Earlier: m.Earlier, Waiters: m.K, WithLock: m.WithLock, Broadcast: m.Signals == "broadcast"}, maxLate: map[string]float64{}}
	L := &trackLocker{}
	e := &wtEnv{L: L, cond: sync.NewCond(L), o: o, rng: core.NewRng(seed, fmt.Sprintf("c16-wtm-%d", m.Idx))}
	defer func() { o.badUnlocks = L.badUnlocks.Load() }()
	for i, t := range m.Earlier {
		st := "reused"
		if i == 0 {
			st = "fresh"
		}
		c := startCall(L, e.cond, t)
		start, ok := e.awaitEnter(c)
		if !ok || !e.expectExpiry(c, start, "none", st) {
			return o
		}
	}
	var ws []*wtmWaiter
	// release whatever is still parked, so that no goroutine outlives the schedule
	release := func() {
		for _, w := range ws {
			if w.c != nil {
				select {
				case <-w.c.done:
				default:
					e.cleanup(w.c)
				}
				continue
			}
			for i := 0; i < 200; i++ {
				select {
				case <-w.gone:
					i = 1000
				default:
					e.cond.Broadcast()
					time.Sleep(10 * time.Millisecond)
				}
			}
		}
	}
	startPlain := func(pos int) bool {
		w := &wtmWaiter{gone: make(chan struct{}), pos: pos}
		entered := make(chan int64, 1)
		go func() {
			L.Lock()
			entered <- L.unlocks.Load()
			e.cond.Wait()
			w.retAt = time.Now()
			L.Unlock()
			close(w.gone)
		}()
		u := <-entered
		w.start = time.Now()
		ws = append(ws, w)
		dl := time.Now().Add(10 * time.Second)
		for L.unlocks.Load() < u+1 {
			if time.Now().After(dl) {
				o.Inconclusive = "wait-not-observed"
				return false
			}
			time.Sleep(100 * time.Microsecond)
		}
		return true
	}
	pos := 0
	for i, t := range m.Timeouts {
		if m.PlainAt == i {
			if !startPlain(pos) {
				release()
				return o
			}
			pos++
		}
		c := startCall(L, e.cond, t)
		w := &wtmWaiter{c: c, tmoMs: t, pos: pos, isLong: t >= wtLongMs}
		pos++
		ws = append(ws, w)
		st, ok := e.awaitEnter(c)
		if !ok {
			release()
			return o
		}
		w.start = st
		if !e.awaitWaiting(c) {
			release()
			return o
		}
	}
	o.logf("%d timed waiter(s) with timeouts %v ms and %d plain waiter(s) parked on the Cond in this order", m.K, m.Timeouts, len(ws)-m.K)

	// deadlines of the timed waiters
	var firstDl, lastDl time.Time
	for _, w := range ws {
		if w.c == nil {
			continue
		}
		d := w.start.Add(time.Duration(w.tmoMs) * time.Millisecond)
		if firstDl.IsZero() || d.Before(firstDl) {
			firstDl = d
		}
		if d.After(lastDl) {
			lastDl = d
		}
	}
	nSig, promptApplies := 0, false
	var sigAt time.Time
	if m.Signals != "none" {
		switch m.When {
		case "before-the-deadlines":
			time.Sleep(time.Duration(m.JitterMs) * time.Millisecond)
		case "between-the-deadlines":
			time.Sleep(time.Until(firstDl.Add(lastDl.Sub(firstDl)/2 + time.Duration(m.JitterMs-4)*time.Millisecond)))
		default:
			time.Sleep(time.Until(lastDl.Add(time.Duration(20+m.JitterMs) * time.Millisecond)))
		}
		parked := 0
		for _, w := range ws {
			select {
			case <-w.returnedCh():
			default:
				parked++
			}
		}
		nSig = 1
		if m.Signals == "all-but-one" {
			nSig = len(ws) - 1
		}
		for i := 0; i < nSig; i++ {
			sigAt = e.signal(m.Signals == "broadcast", m.WithLock)
		}
		if m.Signals == "broadcast" {
			nSig = len(ws)
		}
		// the signal clause is applied only if every waiter was still parked and the last signal was
		// sent at least 20 ms before the first deadline (timestamps decide, not intentions)
		promptApplies = parked == len(ws) && sigAt.Before(firstDl.Add(-20*time.Millisecond))
		o.logf("%s ×%d sent %s: %d of %d waiters still parked, %.1f ms relative to the first deadline", m.Signals, nSig, m.When, parked, len(ws), ms(sigAt.Sub(firstDl)))
	}

	good := true
	if promptApplies {
		dl := sigAt.Add(wtDelta)
		n := 0
		for _, w := range ws {
			select {
			case <-w.returnedCh():
			case <-time.After(time.Until(dl)):
			}
			select {
			case <-w.returnedCh():
				if !w.returnTime().After(dl) {
					n++
					o.late("prompt", class, state, w.returnTime().Sub(sigAt))
				}
			default:
			}
			if n >= nSig {
				break
			}
		}
		o.promptChecked++
		if n < nSig {
			good = false
			o.violate("signal-not-prompt", class, state, fmt.Sprintf("%d waiter(s) (%d in WaitTimeout with timeouts %v ms, %d in cond.Wait) were observed parked on one Cond; %v after %s only %d of them had returned (%s Cond)",
				len(ws), m.K, m.Timeouts, len(ws)-m.K, wtDelta, map[bool]string{true: "a Broadcast", false: fmt.Sprintf("%d Signal(s)", nSig)}[m.Signals == "broadcast"], n, state))
		}
	}
	// every timed waiter: back within its own timeout + Δ, lock held
	for _, w := range ws {
		if w.c == nil || w.isLong || !good {
			continue
		}
		if !e.expectExpiry(w.c, w.start, class, state) {
			good = false
			if n := len(o.Viol); n > 0 {
				o.Viol[n-1].What += fmt.Sprintf(" — waiter at queue position %d of %d timed waiters with timeouts %v ms on one Cond (plain cond.Wait waiter at position %d), signals: %s %s", w.pos, m.K, m.Timeouts, m.PlainAt, m.Signals, m.When)
			}
		}
	}
	release()
	if good {
		for _, w := range ws {
			if w.c != nil && w.isLong {
				if !e.checkLock(w.c, class, state) {
					good = false
				}
			}
		}
	}
	if !good {
		return o
	}
	e.lockUsable(class, state)
	o.completed = true
	return o
}

func c16WaitTimeoutMulti(r *core.Run) {
	plan := wtMultiPlan(r.Quick(), r.Seed)
	seed := r.Seed
	if r.Replay != "" {
		var v struct {
			Seed   int64 `json:"seed"`
			Detail struct {
				Multi *wtMulti `json:"several_timed_waiters_schedule"`
			} `json:"detail"`
		}
		if b, err := os.ReadFile(r.Replay); err != nil || json.Unmarshal(b, &v) != nil || v.Detail.Multi == nil {
			return
		}
		seed, plan = v.Seed, nil
		for i := 0; i < 10; i++ {
			plan = append(plan, *v.Detail.Multi)
		}
	}
	var mu sync.Mutex
	byClass := map[string]int64{}
	core.Parallel(len(plan), 24, func(i int) {
		m := plan[i]
		ch := make(chan *wtOutcome, 1)
		go func() { ch <- runWtMulti(m, seed) }()
		var o *wtOutcome
		select {
		case o = <-ch:
		case <-time.After(2 * wtWatchdog):
			r.Inconclusive("waittimeout-schedule-watchdog")
			return
		}
		r.Eval(1)
		r.Distinct(fmt.Sprintf("wtm/%s/%s/%d/%d", m.class(), m.state(), m.K, m.PlainAt))
		mu.Lock()
		byClass[m.class()+"/"+m.state()]++
		mu.Unlock()
		if o.completed {
			r.Count("waittimeout_multi_schedules_completed", 1)
		}
		r.Count("waittimeout_multi_timed_waiters_started", int64(m.K))
		r.Count("waittimeout_lock_held_observations", int64(o.heldObs))
		r.Count("waittimeout_probe_trylock_refused", int64(o.probeRefused))
		r.Count("waittimeout_multi_expiry_clause_exercised", int64(o.expiryChecked))
		r.Count("waittimeout_multi_signal_clause_exercised", int64(o.promptChecked))
		r.Count("waittimeout_returns_before_timeout_without_required_signal", int64(o.earlyReturns))
		r.Count("waittimeout_calls_abandoned", int64(o.abandoned))
		r.Count("waittimeout_unlock_of_unheld_lock_refused", o.badUnlocks)
		if o.Inconclusive != "" {
			r.Inconclusive("waittimeout-" + o.Inconclusive)
		}
		for _, v := range o.Viol {
			r.Violate(v.Sig, v.What, o)
		}
		if len(o.Viol) > 0 || i%97 == 0 {
			r.Sample(52, o)
		}
	})
	r.Set("waittimeout_multi_schedules_planned", len(plan))
	r.Set("waittimeout_multi_schedules_by_class", byClass)
}
