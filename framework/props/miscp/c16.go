// Package miscp holds the checks for C16 (remaining machine primitives) and
// C18 (cmd/test_gen).
package miscp

import (
	"encoding/json"
	"fmt"
	"math"
	"os"
	"sort"
	"strings"

	"verif/core"
	"verif/props"

	"github.com/goose-lang/goose/machine"
)

// C16: UInt64ToString is the canonical decimal rendering; MapClear leaves any
// map empty and usable; Assume/Assert panic exactly on false; WaitTimeout
// returns with the caller's lock held, no later than timeout+Δ when nobody
// signals and within Δ of a Signal/Broadcast sent while it waits (see
// c16_waittimeout.go).

func init() {
	props.Registry["C16"] = props.Prop{Level: "exploration", Run: runC16}
}

// c16IncludeNaNKeys switches the NaN-key MapClear atom (its own signature
// "mapclear-entries-left/nan-keys"): `for k := range m { delete(m, k) }`
// cannot delete a NaN key.
const c16IncludeNaNKeys = true

// replaySig is the signature recorded in a replay file ("" if there is none).
func replaySig(path string) string {
	if path == "" {
		return ""
	}
	var v struct {
		Sig string `json:"sig"`
	}
	if b, err := os.ReadFile(path); err == nil {
		json.Unmarshal(b, &v)
	}
	return v.Sig
}

func callPanics(f func()) (panicked bool) {
	defer func() {
		if recover() != nil {
			panicked = true
		}
	}()
	f()
	return false
}

// refDecimal is the independent oracle: repeated division, no fmt/strconv.
func refDecimal(v uint64) string {
	if v == 0 {
		return "0"
	}
	var buf [32]byte
	i := len(buf)
	for v > 0 {
		i--
		buf[i] = byte('0' + v%10)
		v /= 10
	}
	return string(buf[i:])
}

func c16StringValues(r *core.Run, rng *core.Rng) []uint64 {
	set := map[uint64]struct{}{}
	add := func(v uint64) { set[v] = struct{}{} }
	add(0)
	add(math.MaxUint64)
	p := uint64(1)
	for k := 0; k < 20; k++ { // 10^0 .. 10^19
		add(p)
		add(p - 1)
		add(p + 1)
		add(p * 9)       // 9·10^k (may wrap for k=19: still a value)
		add(p*9 + p - 1) // 99…9 with k+1 digits (wraps for k=19)
		if k < 19 {
			p *= 10
		}
	}
	for k := 0; k < 64; k++ {
		q := uint64(1) << uint(k)
		add(q)
		add(q - 1)
		add(q + 1)
		add(^q)
	}
	// digit patterns: ddd…d, 1000…0d, values with inner zeros
	for d := uint64(1); d <= 9; d++ {
		v := uint64(0)
		for k := 0; k < 19; k++ {
			v = v*10 + d
			add(v)
		}
	}
	for _, v := range []uint64{100, 101, 1001, 10010, 1000000007, 10000000000000000001, 18446744073709551614, 18446744073709551606, 4294967295, 4294967296, 4294967297} {
		add(v)
	}
	n := r.Pick(100_000, 1_500_000)
	for i := 0; i < n; i++ {
		v := rng.U64()
		switch i % 4 {
		case 1: // uniformly distributed digit count
			v >>= uint(rng.Intn(64))
		case 2: // near a power of ten
			k := rng.Intn(20)
			q := uint64(1)
			for j := 0; j < k; j++ {
				q *= 10
			}
			v = q + uint64(rng.Intn(2001)) - 1000
		}
		add(v)
	}
	vs := make([]uint64, 0, len(set))
	for v := range set {
		vs = append(vs, v)
	}
	sort.Slice(vs, func(i, j int) bool { return vs[i] < vs[j] })
	return vs
}

func c16Strings(r *core.Run) {
	rng := core.NewRng(r.Seed, "c16-strings")
	vs := c16StringValues(r, rng)
	seen := make(map[string]uint64, len(vs))
	byLen := map[int]int64{}
	for i, v := range vs {
		got := machine.UInt64ToString(v)
		want := refDecimal(v)
		r.Eval(1)
		r.Distinct(fmt.Sprintf("str/%d", v))
		byLen[len(got)]++
		detail := map[string]interface{}{"value": v, "got": got, "want_decimal": want}
		if got != want {
			r.Violate("uint64tostring-differs-from-decimal", fmt.Sprintf("UInt64ToString(%d) = %q, hand-computed decimal is %q", v, got, want), detail)
		}
		if got == "" {
			r.Violate("uint64tostring-empty", fmt.Sprintf("UInt64ToString(%d) is empty", v), detail)
		}
		for _, c := range []byte(got) {
			if c < '0' || c > '9' {
				r.Violate("uint64tostring-non-digit", fmt.Sprintf("UInt64ToString(%d) = %q contains a non-digit", v, got), detail)
				break
			}
		}
		if len(got) > 1 && got[0] == '0' {
			r.Violate("uint64tostring-leading-zero", fmt.Sprintf("UInt64ToString(%d) = %q has a leading zero", v, got), detail)
		}
		if prev, dup := seen[got]; dup && prev != v {
			r.Violate("uint64tostring-not-injective", fmt.Sprintf("UInt64ToString(%d) = UInt64ToString(%d) = %q", prev, v, got),
				map[string]interface{}{"a": prev, "b": v, "string": got})
		}
		seen[got] = v
		if i%(len(vs)/6+1) == 0 {
			r.Sample(40, map[string]interface{}{"kind": "UInt64ToString", "value": v, "observed": got})
		}
	}
	r.Count("strings_values_formatted", int64(len(vs)))
	r.Count("strings_distinct_strings", int64(len(seen)))
	lens := map[string]int64{}
	for l, c := range byLen {
		lens[fmt.Sprintf("%02d", l)] = c
	}
	r.Set("strings_by_digit_count", lens)
	// purity: same value twice gives the same string
	for i := 0; i < 1000 && i < len(vs); i++ {
		v := vs[(i*7919)%len(vs)]
		if machine.UInt64ToString(v) != machine.UInt64ToString(v) {
			r.Violate("uint64tostring-not-pure", fmt.Sprintf("UInt64ToString(%d) differs between two calls", v), nil)
		}
		r.Eval(1)
	}
}

// ------------------------------------------------------------------ MapClear

type c16rec struct {
	a uint64
	b string
}

type c16NamedMap map[string]uint64

type c16key struct {
	x uint64
	y [2]byte
}

var c16MapSizes = []int{0, 1, 2, 100, 10_000}

// checkMapClear builds a map of `size` distinct keys, clears it through the
// real machine.MapClear and checks: len 0, range yields nothing, every old key
// misses, insert after clear works, a second clear empties it again. `alias`
// semantics: the clear must be visible through a second reference.
func checkMapClear[M ~map[K]V, K comparable, V any](r *core.Run, typ string, size int, mk func(i int) (K, V)) {
	m := make(M)
	keys := make([]K, 0, size)
	for i := 0; i < size; i++ {
		k, v := mk(i)
		m[k] = v
		keys = append(keys, k)
	}
	if len(m) != size {
		r.Inconclusive("mapclear-generator-duplicate-keys")
		return
	}
	alias := m
	r.Eval(1)
	r.Distinct(fmt.Sprintf("mapclear/%s/%d", typ, size))
	r.Count("mapclear_cases", 1)
	detail := map[string]interface{}{"map_type": typ, "size": size}
	if callPanics(func() { machine.MapClear(m) }) {
		r.Violate("mapclear-panic/"+typ, fmt.Sprintf("MapClear panicked on a %s with %d entries", typ, size), detail)
		return
	}
	if len(m) != 0 || len(alias) != 0 {
		detail["len_after"] = len(m)
		r.Violate("mapclear-entries-left/"+typ, fmt.Sprintf("after MapClear a %s that had %d entries has len %d", typ, size, len(m)), detail)
	}
	ranged := 0
	for range m {
		ranged++
	}
	if ranged != 0 {
		detail["ranged_after"] = ranged
		r.Violate("mapclear-entries-left/"+typ, fmt.Sprintf("after MapClear ranging over a %s that had %d entries yields %d entries", typ, size, ranged), detail)
	}
	hits := 0
	for _, k := range keys {
		if _, ok := m[k]; ok {
			hits++
		}
	}
	r.Count("mapclear_lookups_after_clear", int64(len(keys)))
	if hits != 0 {
		detail["old_keys_still_found"] = hits
		r.Violate("mapclear-entries-left/"+typ, fmt.Sprintf("after MapClear %d of %d old keys of a %s are still found", hits, size, typ), detail)
	}
	// still usable: insert, look up, fill again, clear again
	k0, v0 := mk(size + 7)
	usable := !callPanics(func() { m[k0] = v0 })
	if _, ok := m[k0]; !usable || !ok {
		r.Violate("mapclear-unusable-after-clear/"+typ, fmt.Sprintf("insert after MapClear failed on a %s", typ), detail)
	}
	for i := 0; i < size; i++ {
		k, v := mk(i)
		m[k] = v
	}
	wantLen := size + 1
	if ranged == 0 && hits == 0 && len(alias) != wantLen {
		detail["len_after_refill"] = len(alias)
		r.Violate("mapclear-unusable-after-clear/"+typ, fmt.Sprintf("refilling a cleared %s gave len %d, want %d", typ, len(alias), wantLen), detail)
	}
	machine.MapClear(m)
	if len(m) != 0 {
		detail["len_after_second_clear"] = len(m)
		r.Violate("mapclear-entries-left/"+typ, fmt.Sprintf("second MapClear of a %s (refilled to %d entries) left len %d", typ, wantLen, len(m)), detail)
	}
	r.Count("mapclear_clears_checked", 2)
}

func c16Maps(r *core.Run) {
	rng := core.NewRng(r.Seed, "c16-maps")
	salt := rng.U64()
	key := func(i int) uint64 { return uint64(i)*0x9E3779B97F4A7C15 + salt }
	types := 0
	for _, size := range c16MapSizes {
		types = 0
		checkMapClear[map[uint64]uint64](r, "map[uint64]uint64", size, func(i int) (uint64, uint64) { return key(i), uint64(i) })
		types++
		checkMapClear[map[string][]byte](r, "map[string][]byte", size, func(i int) (string, []byte) {
			return fmt.Sprintf("k%x", key(i)), []byte{byte(i), byte(i >> 8)}
		})
		types++
		checkMapClear[map[uint64]c16rec](r, "map[uint64]struct", size, func(i int) (uint64, c16rec) {
			return key(i), c16rec{uint64(i), "v"}
		})
		types++
		checkMapClear[c16NamedMap](r, "named-map[string]uint64", size, func(i int) (string, uint64) {
			return fmt.Sprintf("%d/%d", i, salt%1000), uint64(i)
		})
		types++
		checkMapClear[map[c16key]*uint64](r, "map[struct]*uint64", size, func(i int) (c16key, *uint64) {
			v := uint64(i)
			return c16key{key(i), [2]byte{byte(i), 1}}, &v
		})
		types++
		checkMapClear[map[uint32]bool](r, "map[uint32]bool", size, func(i int) (uint32, bool) { return uint32(i)*2654435761 + uint32(salt), i%2 == 0 })
		types++
		checkMapClear[map[interface{}]string](r, "map[interface{}]string", size, func(i int) (interface{}, string) {
			if i%2 == 0 {
				return key(i), "u"
			}
			return fmt.Sprintf("s%d", i), "s"
		})
		types++
		checkMapClear[map[float64]uint64](r, "map[float64]uint64(NaN-free)", size, func(i int) (float64, uint64) {
			return float64(i) + 0.5, uint64(i)
		})
		types++
	}
	r.Set("mapclear_map_types", types)
	r.Set("mapclear_sizes", c16MapSizes)
	// nil map: clearing it must be a no-op, not a panic
	var nilMap map[uint64]uint64
	if callPanics(func() { machine.MapClear(nilMap) }) {
		r.Violate("mapclear-panic/nil-map", "MapClear(nil map) panicked", nil)
	}
	r.Eval(1)
	if c16IncludeNaNKeys {
		// separable atom: keys that are not equal to themselves
		for _, n := range []int{1, 3} {
			m := map[float64]uint64{}
			for i := 0; i < n; i++ {
				m[math.NaN()] = uint64(i)
			}
			m[1.5] = 7
			before := len(m)
			machine.MapClear(m)
			r.Eval(1)
			r.Distinct(fmt.Sprintf("mapclear/nan/%d", n))
			r.Count("mapclear_nan_key_cases", 1)
			if len(m) != 0 {
				r.Violate("mapclear-entries-left/nan-keys",
					fmt.Sprintf("after MapClear a map[float64]uint64 with %d NaN keys (+1 ordinary key, len %d) still has len %d", n, before, len(m)),
					map[string]interface{}{"map_type": "map[float64]uint64", "nan_keys": n, "len_before": before, "len_after": len(m)})
			}
		}
	}
}

// ------------------------------------------------------------ Assume / Assert

func c16AssumeAssert(r *core.Run) {
	fns := []struct {
		name string
		f    func(bool)
	}{{"assume", machine.Assume}, {"assert", machine.Assert}}
	rng := core.NewRng(r.Seed, "c16-assume")
	n := r.Pick(2000, 100000)
	for _, fn := range fns {
		for i := 0; i < n; i++ {
			arg := rng.Bool()
			if i < 2 {
				arg = i == 0
			}
			p := callPanics(func() { fn.f(arg) })
			r.Eval(1)
			r.Count(fmt.Sprintf("%s_calls_arg_%v", fn.name, arg), 1)
			if arg && p {
				r.Violate(fn.name+"-panics-on-true", fmt.Sprintf("machine.%s(true) panicked", fn.name), nil)
			}
			if !arg && !p {
				r.Violate(fn.name+"-no-panic-on-false", fmt.Sprintf("machine.%s(false) returned normally", fn.name), nil)
			}
		}
		r.Distinct(fn.name + "/true")
		r.Distinct(fn.name + "/false")
	}
}

func runC16(r *core.Run) (bool, string) {
	r.SetRule("strings: boundary values (10^k, 10^k±1, 9·10^k, 2^k, 2^k±1, repdigits, 0, MaxUint64) plus seeded random values with spread digit counts, each compared with a repeated-division decimal conversion and entered in a string→value map (injectivity over everything evaluated), distinct by value; " +
		"MapClear: 8 key/value type combinations (incl. a named map type, struct/interface keys, pointer/slice values) × sizes {0,1,2,100,10000}, distinct by (type,size), plus a separate NaN-key atom; Assume/Assert: both functions × both arguments, repeated; " +
		"MapClear key-type shapes (mapclear_shape_* keys): every basic kind, a defined type over each, structs / arrays with and without a float component at any depth, pointer, channel and interface keys × 6 value types (basic, struct, slice, map, pointer, func) × {map[K]V, defined map type} × contents {nil map, empty, 1, many, several NaN-bearing keys alone / among ordinary keys wherever the key type admits a value unequal to itself}, distinct by (map type, contents); " +
		"WaitTimeout: schedules = class {none, signal-before, signal-during, signal-at-timeout, signal-after-timeout, broadcast-during with 1–4 waiters, storm} × {fresh Cond, Cond reused after 1–3 timed-out calls}, distinct by (class, state, timeout, waiters, earlier calls); lock state observed through a tracking sync.Locker given to sync.NewCond; " +
		"several timed waiters on one Cond (waittimeout_multi_* keys): full grid k ∈ {2,3,4} WaitTimeout callers parked in start order × timeouts {equal, increasing, decreasing, all 60 s} × signals {none, one Signal, Signals for all but one, Broadcast} × sent {before, between, after} the deadlines × {fresh, reused Cond} × a plain cond.Wait waiter {absent, at the head, second} in the queue; every timed waiter must be back by its own timeout + Δ with the lock held, and j Signals (a Broadcast) sent ≥ 20 ms before the first deadline while all were parked must bring back ≥ j (all) within Δ; " +
		"class signal-held-across-expiry (waittimeout_hold_* keys): full grid timeout × (signaller takes the lock −20…+5 ms around the expiry) × (keeps it 0…40 ms after Signal/Broadcast) on fresh and reused Conds, run in child processes that contain no goroutine or timer besides caller, signaller and WaitTimeout's own; " +
		"class lock-busy-at-expiry (waittimeout_busy_* keys): full grid locker kind {sync.Mutex, sync.RWMutex write side, RWMutex.RLocker(), counting wrappers over a Mutex with and without TryLock and over an RWMutex} × who holds the lock when the timer fires {nobody, one silent holder, two / three silent holders in a row, one silent reader (RWMutex kinds), a holder that Signals once per waiter, a holder that Broadcasts} × timeout {0,1,5,20 ms} × {1,2,3} waiters (equal or staggered timeouts); each participant asks for the lock only after the previous one announced, lock in hand, that it is about to call WaitTimeout, so the first holder owns the lock from the moment the last waiter is parked; with the counting wrappers the last holder keeps it until it has seen one lock attempt per waiter by a goroutine that is neither waiter nor holder (WaitTimeout's own), silent holders then release without Signal/Broadcast; per waiter at return: TryLock from another goroutine refused, and on a logical event counter not (holder acquire < return < holder release); same child-process discipline as the previous class; distinct by (locker, holder pattern, timeout, waiters); " +
		"concurrency layer (conc_* keys): every primitive of package machine that takes no caller-shared state (UInt64ToString, UInt64/32 Put+Get, MapClear, Assume/Assert, RandomUint64, Linearize/TimeNow/Sleep/NewProph, WaitTimeout on a private Cond, and a mix of them) × {2,3,8,16} goroutines released together, each on state private to it and checking its own results against the sequential oracles, once in this binary (wrong results) and once in a -race build (DATA RACE blocks with a /repo frame, de-duplicated by outermost /repo frame pair); distinct by (child, primitive, goroutines); " +
		"the call must return with the lock held; 'never returns' is decided only by the Go runtime's 'all goroutines are asleep - deadlock!' report of that process (a wall-clock watchdog only yields inconclusive); the observed position of the signaller's lock interval relative to the expiry is recorded per schedule")
	r.Assume("the Go runtime's sync.Mutex, sync.Cond, timers and recover() behave as documented; a goroutine is identified by the id in runtime.Stack's header")
	r.Assume("a data race reported between two calls that share no argument state is the library's (the harness shares nothing between goroutines while a round runs)")
	r.Assume("Δ = 2 s of slack absorbs scheduling latency on this machine (timeouts are ≤ 200 ms for the expiry clause and 60 s for the signal clause)")
	if strings.HasPrefix(replaySig(r.Replay), "concurrent-callers/") {
		// replay of a finding of the concurrency layer: run that layer again (same seed, same rounds)
		c16Concurrent(r)
		return r.GetCount("conc_plain_calls") > 0, "the concurrency layer could not be run"
	}
	if strings.Contains(replaySig(r.Replay), wtBusySigPart) {
		// replay of a lock-busy-at-expiry scenario: the grid is a function of the seed only
		c16WaitTimeoutBusy(r)
		return r.Evals() > 0, "the lock-busy-at-expiry scenarios could not be run"
	}
	if strings.Contains(replaySig(r.Replay), "/several-timed-waiters/") {
		// replay of a several-timed-waiters schedule (10 repetitions of that schedule)
		c16WaitTimeoutMulti(r)
		return r.Evals() > 0, "the replayed schedule could not be run"
	}
	c16Strings(r)
	c16Maps(r)
	c16MapShapes(r)
	c16AssumeAssert(r)
	c16WaitTimeout(r)
	c16WaitTimeoutMulti(r)
	if r.Replay == "" && r.NumViolations() == 0 && (r.GetCount("waittimeout_multi_schedules_completed") < 20 || r.GetCount("waittimeout_multi_signal_clause_exercised") < 5) {
		return false, "several-timed-waiters schedules: fewer than 20 completed or the signal clause exercised fewer than 5 times"
	}
	if r.Replay == "" {
		c16WaitTimeoutHold(r)
		if r.NumViolations() == 0 && r.GetCount("waittimeout_hold_lock_observed_held_across_expiry_and_call_returned") < 5 {
			return false, "fewer than 5 schedules in which the signaller was observed holding the lock across the expiry instant"
		}
		c16WaitTimeoutBusy(r)
		if r.NumViolations() == 0 && (r.GetCount("waittimeout_busy_scenarios_completed") < 40 ||
			r.GetCount("waittimeout_busy_lock_attempt_of_waittimeout_seen_while_a_silent_holder_had_the_lock_and_every_call_returned") < 10) {
			return false, "lock-busy-at-expiry scenarios: fewer than 40 completed, or fewer than 10 in which a lock attempt of WaitTimeout's own goroutine was seen while a silent holder had the lock"
		}
		c16Concurrent(r)
		if r.NumViolations() == 0 {
			if r.GetCount("conc_plain_calls") < 500_000 || r.GetCount("conc_plain_rounds_with_all_goroutines_running_at_once") < 8 {
				return false, "concurrency layer (plain child): fewer than 500000 calls or fewer than 8 rounds in which all goroutines were running at once"
			}
			if r.GetCount("conc_race_calls") < 40_000 || r.GetCount("conc_race_rounds_with_all_goroutines_running_at_once") < 8 {
				return false, "concurrency layer (-race child): fewer than 40000 calls or fewer than 8 rounds in which all goroutines were running at once"
			}
		}
	}
	if r.NumViolations() == 0 && (r.GetCount("mapclear_shape_cases") < 200 || r.GetCount("mapclear_shape_cases_with_nan_bearing_keys") < 30) {
		return false, "MapClear key-shape family: fewer than 200 cases or fewer than 30 with NaN-bearing keys"
	}
	if r.Evals() < 10000 {
		return false, "too few primitive calls evaluated"
	}
	if r.GetCount("waittimeout_schedules_completed") < 10 {
		return false, "fewer than 10 WaitTimeout schedules completed"
	}
	if r.GetCount("waittimeout_lock_held_observations") < 10 {
		return false, "fewer than 10 lock-state observations at WaitTimeout return"
	}
	if r.GetCount("waittimeout_signal_clause_exercised") < 2 {
		return false, "the signal clause (Signal/Broadcast sent while WaitTimeout was observed waiting) was exercised fewer than 2 times"
	}
	return true, ""
}
