package miscp

import (
	"encoding/json"
	"fmt"
	"os"
	"runtime"
	"strings"
	"sync"
	"sync/atomic"
	"time"

	"verif/core"

	"github.com/goose-lang/goose/machine"
)

// WaitTimeout monitor. The Cond under test is built on a tracking Locker, so
// lock ownership at return and "the call is now waiting" (the Unlock that
// cond.Wait performs) are observed without touching sync internals.
//
// Clauses (C16 statement):
//  (1) lock:   WaitTimeout returns with the caller's lock held (held flag set,
//              a probe goroutine's TryLock is refused, nobody unlocks it until
//              the caller does);
//  (2) expiry: when nobody signals it returns no later than timeout + Δ;
//  (3) prompt: a Signal/Broadcast sent while it is observed waiting under a
//              60 s timeout makes it return within Δ.
// Early returns (spurious wake-ups) are not violations; they are counted.

const (
	wtDelta    = 2 * time.Second
	wtLongMs   = 60_000
	wtWatchdog = 30 * time.Second
)

var wtExpiryTimeouts = []uint64{0, 1, 5, 50, 200}

func gid() int64 {
	var buf [64]byte
	n := runtime.Stack(buf[:], false)
	s := buf[:n]
	const p = "goroutine "
	if len(s) < len(p) {
		return -1
	}
	s = s[len(p):]
	var id int64
	for _, c := range s {
		if c < '0' || c > '9' {
			break
		}
		id = id*10 + int64(c-'0')
	}
	return id
}

// trackLocker is a sync.Locker around a sync.Mutex that records who holds it.
type trackLocker struct {
	mu         sync.Mutex
	held       atomic.Int32
	owner      atomic.Int64
	locks      atomic.Int64
	unlocks    atomic.Int64
	badUnlocks atomic.Int64 // Unlock while not held (refused: it would be a fatal error)
}

func (l *trackLocker) Lock() {
	l.mu.Lock()
	l.owner.Store(gid())
	l.held.Store(1)
	l.locks.Add(1)
}

func (l *trackLocker) TryLock() bool {
	if !l.mu.TryLock() {
		return false
	}
	l.owner.Store(gid())
	l.held.Store(1)
	l.locks.Add(1)
	return true
}

func (l *trackLocker) Unlock() {
	if !l.held.CompareAndSwap(1, 0) {
		l.badUnlocks.Add(1)
		return
	}
	l.unlocks.Add(1)
	l.mu.Unlock()
}

type wtSched struct {
	Idx        int      `json:"idx"`
	Class      string   `json:"class"`
	Earlier    []uint64 `json:"earlier_timed_out_calls_ms"` // empty: fresh Cond
	TimeoutMs  uint64   `json:"timeout_ms"`
	Waiters    int      `json:"waiters"`
	StormMin   int      `json:"storm_signals_after_wait_observed,omitempty"`
	StormEarly bool     `json:"storm_starts_before_wait,omitempty"`
	WithLock   bool     `json:"signaller_holds_lock"`
	Broadcast  bool     `json:"uses_broadcast"`
}

func (s wtSched) state() string {
	if len(s.Earlier) == 0 {
		return "fresh"
	}
	return "reused"
}

type wtViol struct {
	Sig  string `json:"sig"`
	What string `json:"what"`
}

type wtOutcome struct {
	Sched         wtSched            `json:"schedule"`
	Multi         *wtMulti           `json:"several_timed_waiters_schedule,omitempty"`
	Viol          []wtViol           `json:"violations,omitempty"`
	Inconclusive  string             `json:"inconclusive,omitempty"`
	Events        []string           `json:"observed"`
	maxLate       map[string]float64 // clause/class/state → ms
	heldObs       int
	probeRefused  int
	ownerDiffers  int
	expiryChecked int
	promptChecked int
	earlyReturns  int
	waitObserved  int
	abandoned     int
	badUnlocks    int64
	completed     bool
}

func (o *wtOutcome) violate(clause, class, state, what string) {
	sig := "waittimeout-" + clause + "/" + class + "/" + state
	if clause == "signal-not-prompt" && class == "signal-during" && state == "reused" {
		// schedule class: one Signal to a Cond that has an earlier timed-out WaitTimeout
		sig = "waittimeout-signal-lost-after-earlier-timeout"
	}
	o.Viol = append(o.Viol, wtViol{sig, what})
	o.Events = append(o.Events, "VIOLATION "+what)
}

func (o *wtOutcome) late(clause, class, state string, d time.Duration) {
	k := clause + "/" + class + "/" + state
	ms := float64(d.Microseconds()) / 1000
	if cur, ok := o.maxLate[k]; !ok || ms > cur {
		o.maxLate[k] = ms
	}
}

func (o *wtOutcome) logf(f string, a ...interface{}) {
	o.Events = append(o.Events, fmt.Sprintf(f, a...))
}

// wtCall is one monitored WaitTimeout call made by its own caller goroutine.
type wtCall struct {
	timeout  uint64
	enter    chan time.Time // sent (lock held) just before WaitTimeout is called
	returned chan struct{}  // closed right after WaitTimeout returned
	done     chan struct{}  // closed after the probe and the caller's own Unlock
	caller   int64
	// valid after receiving from enter: the unlock-event count while the caller
	// holds the lock. Nobody else can unlock until WaitTimeout releases the lock,
	// so the first unlock event after it is the release done by the wait itself.
	enterUnlocks int64
	// valid after <-returned
	retAt         time.Time
	heldAtReturn  bool
	ownerAtReturn int64
	// valid after <-done
	probeAcquired  bool
	unlockedByElse bool
}

func startCall(L *trackLocker, cond *sync.Cond, timeout uint64) *wtCall {
	c := &wtCall{timeout: timeout, enter: make(chan time.Time, 1), returned: make(chan struct{}), done: make(chan struct{})}
	go func() {
		c.caller = gid()
		L.Lock()
		c.enterUnlocks = L.unlocks.Load()
		c.enter <- time.Now()
		machine.WaitTimeout(cond, timeout)
		c.retAt = time.Now()
		c.heldAtReturn = L.held.Load() == 1
		c.ownerAtReturn = L.owner.Load()
		u1 := L.unlocks.Load()
		close(c.returned)
		if c.heldAtReturn {
			pr := make(chan bool, 1)
			go func() {
				ok := L.TryLock()
				if ok {
					L.Unlock()
				}
				pr <- ok
			}()
			c.probeAcquired = <-pr
			runtime.Gosched()
			c.unlockedByElse = L.unlocks.Load() != u1 || L.held.Load() != 1
			L.Unlock() // refused by the tracking locker if the lock is not held
		}
		close(c.done)
	}()
	return c
}

type wtEnv struct {
	L    *trackLocker
	cond *sync.Cond
	o    *wtOutcome
	rng  *core.Rng
}

func (e *wtEnv) signal(broadcast, withLock bool) time.Time {
	if withLock {
		e.L.Lock()
	}
	at := time.Now()
	if broadcast {
		e.cond.Broadcast()
	} else {
		e.cond.Signal()
	}
	if withLock {
		e.L.Unlock()
	}
	return at
}

// cleanup releases an overdue call so that its goroutine can finish; the call
// is abandoned if it still does not return.
func (e *wtEnv) cleanup(cs ...*wtCall) {
	for _, c := range cs {
		ok := false
		for i := 0; i < 40 && !ok; i++ {
			e.cond.Broadcast()
			select {
			case <-c.done:
				ok = true
			case <-time.After(50 * time.Millisecond):
			}
		}
		if !ok {
			e.o.abandoned++
			e.o.logf("call abandoned: it did not return after 40 cleanup Broadcasts")
		}
	}
}

// awaitEnter waits until the caller goroutine holds the lock and is about to call WaitTimeout.
func (e *wtEnv) awaitEnter(c *wtCall) (time.Time, bool) {
	select {
	case t := <-c.enter:
		return t, true
	case <-time.After(10 * time.Second):
		e.o.Inconclusive = "caller-could-not-take-the-lock"
		return time.Time{}, false
	}
}

// checkLock applies clause (1) to a call that has returned.
func (e *wtEnv) checkLock(c *wtCall, class, state string) bool {
	select {
	case <-c.done:
	case <-time.After(10 * time.Second):
		e.o.Inconclusive = "caller-did-not-finish-after-return"
		return false
	}
	e.o.heldObs++
	if c.ownerAtReturn != c.caller {
		e.o.ownerDiffers++
	}
	switch {
	case !c.heldAtReturn:
		e.o.violate("lock-not-held-at-return", class, state, fmt.Sprintf("WaitTimeout(cond, %d) returned while the Cond's lock was not held (class %s, %s Cond)", c.timeout, class, state))
		return false
	case c.probeAcquired:
		e.o.violate("lock-not-held-at-return", class, state, fmt.Sprintf("after WaitTimeout(cond, %d) returned a probe goroutine's TryLock on the Cond's lock succeeded before the caller unlocked (class %s, %s Cond)", c.timeout, class, state))
		return false
	case c.unlockedByElse:
		e.o.violate("lock-not-held-at-return", class, state, fmt.Sprintf("after WaitTimeout(cond, %d) returned the lock was unlocked by another goroutine before the caller unlocked (class %s, %s Cond)", c.timeout, class, state))
		return false
	}
	e.o.probeRefused++
	return true
}

// returnedBy waits until the call has returned or the deadline has passed;
// the verdict is taken from the return timestamp, not from which select case fired.
func returnedBy(c *wtCall, deadline time.Time) bool {
	select {
	case <-c.returned:
	case <-time.After(time.Until(deadline)):
		select {
		case <-c.returned:
		default:
			return false
		}
	}
	return !c.retAt.After(deadline)
}

// expectExpiry applies clauses (2) and (1) to a call nobody is required to wake.
func (e *wtEnv) expectExpiry(c *wtCall, start time.Time, class, state string) bool {
	deadline := start.Add(time.Duration(c.timeout)*time.Millisecond + wtDelta)
	if !returnedBy(c, deadline) {
		e.o.violate("late-after-timeout", class, state, fmt.Sprintf("WaitTimeout(cond, %d) had not returned %v after the timeout (class %s, %s Cond)", c.timeout, wtDelta, class, state))
		e.cleanup(c)
		return false
	}
	e.o.expiryChecked++
	over := c.retAt.Sub(start) - time.Duration(c.timeout)*time.Millisecond
	if over < 0 {
		e.o.earlyReturns++
	}
	e.o.late("expiry", class, state, over)
	e.o.logf("WaitTimeout(%d ms) returned %.2f ms after entry", c.timeout, float64(c.retAt.Sub(start).Microseconds())/1000)
	return e.checkLock(c, class, state)
}

// awaitWaiting polls the tracking locker until every call (all of which have
// entered, i.e. taken the lock in turn) has released the lock through its
// wait: an unlock event after the last caller's entry. It returns false if a
// call returned first or nothing was observed in 10 s.
func (e *wtEnv) awaitWaiting(cs ...*wtCall) bool {
	target := int64(0)
	for _, c := range cs {
		if c.enterUnlocks+1 > target {
			target = c.enterUnlocks + 1
		}
	}
	dl := time.Now().Add(10 * time.Second)
	for {
		if e.L.unlocks.Load() >= target {
			e.o.waitObserved++
			return true
		}
		for _, c := range cs {
			select {
			case <-c.returned:
				e.o.Inconclusive = "returned-before-signal-could-be-sent"
				return false
			default:
			}
		}
		if time.Now().After(dl) {
			e.o.Inconclusive = "wait-not-observed"
			return false
		}
		time.Sleep(200 * time.Microsecond)
	}
}

// expectPrompt applies clauses (3) and (1): every call must return within Δ of sigAt.
func (e *wtEnv) expectPrompt(sigAt time.Time, class, state, how string, cs ...*wtCall) bool {
	deadline := sigAt.Add(wtDelta)
	var overdue []*wtCall
	for _, c := range cs {
		if returnedBy(c, deadline) {
			e.o.late("prompt", class, state, c.retAt.Sub(sigAt))
		} else {
			overdue = append(overdue, c)
		}
	}
	e.o.promptChecked++
	if len(overdue) > 0 {
		e.o.violate("signal-not-prompt", class, state, fmt.Sprintf("%d of %d WaitTimeout(cond, %d) call(s) observed waiting had not returned %v after %s (class %s, %s Cond with %d earlier timed-out call(s))",
			len(overdue), len(cs), cs[0].timeout, wtDelta, how, class, state, len(e.o.Sched.Earlier)))
		e.cleanup(overdue...)
		for _, c := range overdue {
			select {
			case <-c.done:
				e.o.logf("overdue call returned %.0f ms after the signal, after cleanup Broadcasts", float64(c.retAt.Sub(sigAt).Milliseconds()))
				e.checkLock(c, class, state)
			default:
			}
		}
		return false
	}
	e.o.logf("%d call(s) returned ≤ %.2f ms after %s", len(cs), e.o.maxLate["prompt/"+class+"/"+state], how)
	ok := true
	for _, c := range cs {
		if !e.checkLock(c, class, state) {
			ok = false
		}
	}
	return ok
}

// lockUsable: after the schedule the caller can take the lock again (nobody
// else grabbed it for good).
func (e *wtEnv) lockUsable(class, state string) {
	got := make(chan struct{})
	go func() {
		e.L.Lock()
		close(got)
		e.L.Unlock()
	}()
	select {
	case <-got:
	case <-time.After(wtDelta):
		e.o.violate("lock-stuck-after-return", class, state, fmt.Sprintf("after the schedule the Cond's lock could not be taken for %v: held by goroutine %d (class %s, %s Cond)", wtDelta, e.L.owner.Load(), class, state))
	}
}

func runWtSchedule(s wtSched, seed int64) *wtOutcome {
	o := &wtOutcome{Sched: s, maxLate: map[string]float64{}}
	L := &trackLocker{}
	e := &wtEnv{L: L, cond: sync.NewCond(L), o: o, rng: core.NewRng(seed, fmt.Sprintf("c16-wt-%d", s.Idx))}
	defer func() { o.badUnlocks = L.badUnlocks.Load() }()

	// earlier calls that time out on the same Cond (nobody signals them)
	for i, t := range s.Earlier {
		st := "reused"
		if i == 0 {
			st = "fresh"
		}
		c := startCall(L, e.cond, t)
		start, ok := e.awaitEnter(c)
		if !ok || !e.expectExpiry(c, start, "none", st) {
			return o
		}
	}
	class, state := s.Class, s.state()
	switch class {
	case "none":
		c := startCall(L, e.cond, s.TimeoutMs)
		start, ok := e.awaitEnter(c)
		if !ok || !e.expectExpiry(c, start, class, state) {
			return o
		}
	case "signal-before":
		e.signal(s.Broadcast, s.WithLock)
		o.logf("signal sent before the call starts (broadcast=%v)", s.Broadcast)
		c := startCall(L, e.cond, s.TimeoutMs)
		start, ok := e.awaitEnter(c)
		if !ok || !e.expectExpiry(c, start, class, state) {
			return o
		}
	case "older-plain-waiter", "older-timed-waiter":
		// another goroutine is already parked on the same Cond (a plain Wait, or a WaitTimeout
		// with a much longer timeout); nobody signals: the timeout bound must still hold
		olderGone := make(chan struct{})
		var older *wtCall
		if class == "older-plain-waiter" {
			entered := make(chan int64, 1)
			go func() {
				L.Lock()
				entered <- L.unlocks.Load()
				e.cond.Wait()
				L.Unlock()
				close(olderGone)
			}()
			u := <-entered
			dl := time.Now().Add(10 * time.Second)
			for L.unlocks.Load() < u+1 {
				if time.Now().After(dl) {
					o.Inconclusive = "wait-not-observed"
					return o
				}
				time.Sleep(200 * time.Microsecond)
			}
		} else {
			older = startCall(L, e.cond, wtLongMs)
			if _, ok := e.awaitEnter(older); !ok {
				return o
			}
			if !e.awaitWaiting(older) {
				e.cleanup(older)
				return o
			}
		}
		o.logf("an older waiter (%s) is parked on the Cond", class)
		c := startCall(L, e.cond, s.TimeoutMs)
		start, ok := e.awaitEnter(c)
		good := ok && e.expectExpiry(c, start, class, state)
		// release the older waiter
		if older != nil {
			e.cleanup(older)
		} else {
			for i := 0; i < 200; i++ {
				e.cond.Broadcast()
				select {
				case <-olderGone:
					i = 1000
				case <-time.After(20 * time.Millisecond):
				}
			}
		}
		if !good {
			return o
		}
	case "signal-at-timeout":
		c := startCall(L, e.cond, s.TimeoutMs)
		start, ok := e.awaitEnter(c)
		if !ok {
			return o
		}
		jitter := time.Duration(e.rng.Intn(2001)-1000) * time.Microsecond
		time.Sleep(time.Until(start.Add(time.Duration(s.TimeoutMs)*time.Millisecond + jitter)))
		e.signal(s.Broadcast, s.WithLock)
		o.logf("signal sent %v around the timeout", jitter)
		if !e.expectExpiry(c, start, class, state) {
			return o
		}
	case "signal-after-timeout":
		c := startCall(L, e.cond, s.TimeoutMs)
		start, ok := e.awaitEnter(c)
		if !ok {
			return o
		}
		select {
		case <-c.returned:
		case <-time.After(time.Duration(s.TimeoutMs)*time.Millisecond + wtDelta):
		}
		e.signal(s.Broadcast, s.WithLock)
		o.logf("signal sent after the call returned")
		if !e.expectExpiry(c, start, class, state) {
			return o
		}
	case "signal-during", "broadcast-during":
		var cs []*wtCall
		for i := 0; i < s.Waiters; i++ {
			c := startCall(L, e.cond, wtLongMs)
			cs = append(cs, c)
		}
		for _, c := range cs {
			if _, ok := e.awaitEnter(c); !ok {
				return o
			}
		}
		if !e.awaitWaiting(cs...) {
			for _, c := range cs {
				select {
				case <-c.returned:
					e.checkLock(c, class, state)
				default:
				}
			}
			e.cleanup(cs...)
			return o
		}
		time.Sleep(time.Duration(1+e.rng.Intn(20)) * time.Millisecond)
		how := "a single Signal"
		if s.Broadcast {
			how = "a Broadcast"
		}
		sigAt := e.signal(s.Broadcast, s.WithLock)
		o.logf("%s sent after %d waiting call(s) were observed releasing the lock", how, s.Waiters)
		if !e.expectPrompt(sigAt, class, state, how, cs...) {
			return o
		}
	case "storm":
		var waitTarget atomic.Int64 // unlock-event count that means "the call waits"
		waitTarget.Store(1 << 62)
		srng := e.rng.Fork("storm")
		firstAfter := make(chan time.Time, 1)
		stop := make(chan struct{})
		sigDone := make(chan int, 1)
		startSig := make(chan struct{})
		go func() {
			<-startSig
			after, total := 0, 0
			dl := time.Now().Add(10 * time.Second)
			for after < s.StormMin && time.Now().Before(dl) {
				select {
				case <-stop:
					sigDone <- total
					return
				default:
				}
				waiting := L.unlocks.Load() >= waitTarget.Load()
				at := e.signal(false, s.WithLock && total%3 == 0)
				total++
				if waiting {
					if after == 0 {
						firstAfter <- at
					}
					after++
				}
				if g := srng.Intn(2000); g > 200 {
					time.Sleep(time.Duration(g) * time.Microsecond)
				}
			}
			sigDone <- total
		}()
		if s.StormEarly {
			close(startSig)
			time.Sleep(time.Duration(e.rng.Intn(3)) * time.Millisecond)
		}
		c := startCall(L, e.cond, wtLongMs)
		if _, ok := e.awaitEnter(c); !ok {
			close(stop)
			return o
		}
		waitTarget.Store(c.enterUnlocks + 1)
		if !s.StormEarly {
			time.Sleep(time.Duration(e.rng.Intn(5)) * time.Millisecond)
			close(startSig)
		}
		var sigAt time.Time
		select {
		case sigAt = <-firstAfter:
			o.waitObserved++
		case <-c.returned:
			// woken by a signal that raced with the start of the wait: no clause to apply but (1)
			close(stop)
			<-sigDone
			o.Inconclusive = "returned-before-signal-could-be-sent"
			e.checkLock(c, class, state)
			return o
		case <-time.After(12 * time.Second):
			close(stop)
			o.Inconclusive = "wait-not-observed"
			e.cleanup(c)
			return o
		}
		ok := e.expectPrompt(sigAt, class, state, "the first Signal of a storm sent while it waited", c)
		close(stop)
		n := <-sigDone
		o.logf("storm: %d Signals in total", n)
		if !ok {
			return o
		}
	default:
		o.Inconclusive = "unknown-class"
		return o
	}
	e.lockUsable(class, state)
	o.completed = true
	return o
}

var wtClasses = []string{"none", "signal-before", "signal-during", "signal-at-timeout", "signal-after-timeout", "broadcast-during", "storm", "older-plain-waiter", "older-timed-waiter"}

func wtSchedules(r *core.Run) []wtSched {
	rng := core.NewRng(r.Seed, "c16-wt-schedules")
	n := r.Pick(20, 500)
	combos := len(wtClasses) * 2
	var out []wtSched
	for i := 0; i < n; i++ {
		combo := i % combos
		if i >= (n/combos)*combos {
			combo = rng.Intn(combos)
		}
		s := wtSched{Idx: i, Class: wtClasses[combo%len(wtClasses)], Waiters: 1, WithLock: rng.Bool()}
		if combo >= len(wtClasses) {
			k := 1 + rng.Intn(3)
			for j := 0; j < k; j++ {
				s.Earlier = append(s.Earlier, []uint64{0, 1, 5, 20, 50}[rng.Intn(5)])
			}
		}
		s.TimeoutMs = wtExpiryTimeouts[(i+i/combos)%len(wtExpiryTimeouts)]
		switch s.Class {
		case "signal-before", "signal-after-timeout":
			s.Broadcast = rng.Bool()
		case "signal-at-timeout":
			s.TimeoutMs = []uint64{5, 50, 200}[rng.Intn(3)]
			s.Broadcast = rng.Intn(4) == 0
		case "signal-during":
			s.TimeoutMs = wtLongMs
		case "broadcast-during":
			s.TimeoutMs = wtLongMs
			s.Broadcast = true
			s.Waiters = 1 + (i/combos+rng.Intn(4))%4
		case "storm":
			s.TimeoutMs = wtLongMs
			s.StormMin = 8 + rng.Intn(33)
			s.StormEarly = rng.Bool()
		}
		out = append(out, s)
	}
	return out
}

func c16WaitTimeout(r *core.Run) {
	scheds := wtSchedules(r)
	seed := r.Seed
	if r.Replay != "" {
		// replay the schedule of an earlier violation (10 repetitions: timing schedules are not deterministic)
		var v struct {
			Seed   int64 `json:"seed"`
			Detail struct {
				Sched *wtSched `json:"schedule"`
			} `json:"detail"`
		}
		if b, err := os.ReadFile(r.Replay); err == nil && json.Unmarshal(b, &v) == nil && v.Detail.Sched != nil {
			seed, scheds = v.Seed, nil
			if strings.HasPrefix(v.Detail.Sched.Class, "several-timed-waiters/") {
				v.Detail.Sched = nil // replayed by c16WaitTimeoutMulti
			}
			for i := 0; i < 10 && v.Detail.Sched != nil; i++ {
				scheds = append(scheds, *v.Detail.Sched)
			}
		}
	}
	var mu sync.Mutex
	byClass := map[string]int64{}
	maxLate := map[string]float64{}
	timeoutsUsed := map[string]int64{}
	workers := r.Pick(20, 48)
	core.Parallel(len(scheds), workers, func(i int) {
		s := scheds[i]
		ch := make(chan *wtOutcome, 1)
		go func() { ch <- runWtSchedule(s, seed) }()
		var o *wtOutcome
		select {
		case o = <-ch:
		case <-time.After(wtWatchdog):
			r.Inconclusive("waittimeout-schedule-watchdog")
			return
		}
		r.Eval(1)
		r.Distinct(fmt.Sprintf("wt/%s/%v/%d/%d", s.Class, s.Earlier, s.TimeoutMs, s.Waiters))
		key := s.Class + "/" + s.state()
		mu.Lock()
		byClass[key]++
		for k, v := range o.maxLate {
			if cur, ok := maxLate[k]; !ok || v > cur {
				maxLate[k] = v
			}
		}
		for _, t := range s.Earlier {
			timeoutsUsed[fmt.Sprint(t)]++
		}
		timeoutsUsed[fmt.Sprint(s.TimeoutMs)]++
		mu.Unlock()
		if o.completed {
			r.Count("waittimeout_schedules_completed", 1)
		}
		r.Count("waittimeout_lock_held_observations", int64(o.heldObs))
		r.Count("waittimeout_probe_trylock_refused", int64(o.probeRefused))
		r.Count("waittimeout_lock_owner_is_not_caller_goroutine", int64(o.ownerDiffers))
		r.Count("waittimeout_expiry_clause_exercised", int64(o.expiryChecked))
		r.Count("waittimeout_signal_clause_exercised", int64(o.promptChecked))
		r.Count("waittimeout_waiting_observed_via_unlock_event", int64(o.waitObserved))
		r.Count("waittimeout_returns_before_timeout_without_required_signal", int64(o.earlyReturns))
		r.Count("waittimeout_calls_abandoned", int64(o.abandoned))
		r.Count("waittimeout_unlock_of_unheld_lock_refused", o.badUnlocks)
		if o.Inconclusive != "" {
			r.Inconclusive("waittimeout-" + o.Inconclusive)
		}
		for _, v := range o.Viol {
			r.Violate(v.Sig, v.What, o)
		}
		if len(o.Viol) > 0 || i < 14 {
			r.Sample(40, o)
		}
	})
	r.Set("waittimeout_schedules_by_class", byClass)
	r.Set("waittimeout_max_lateness_ms_by_clause_class", maxLate)
	r.Set("waittimeout_timeouts_ms_used", timeoutsUsed)
	r.Set("waittimeout_delta_ms", wtDelta.Milliseconds())
}
