package miscp

import (
	"encoding/json"
	"fmt"
	"go/format"
	"io"
	"os"
	"path/filepath"
	"regexp"
	"sort"
	"strings"
	"time"

	"verif/core"
	"verif/gl"
)

// C18, three workload dimensions that share one scratch module, one `go list`
// and one compile run (dims_* keys). In each directory two ordinary files
// (a_first.go, z_last.go: one test, one failing test) surround ONE special file.
//
// (1) the SIGNATURE of a function named test… / failing_test…
//     (signatures function-signature/<not-a-test-signature|test-signature-spelling>:<discrepancy>).
//     The rule (c18IsTestSignature): a test function is one both generated tests
//     can run — no receiver, no type parameters, no parameters, exactly one result
//     of the predeclared type bool. The special file declares a test… and a
//     failing_test… function with: one / an unnamed / a blank / two / a variadic
//     parameter; no result; two results; two named bool results; a result of type
//     uint64, string, error, *bool, func() bool, interface{}, a defined type over
//     bool; type parameters (alone, with a parameter); a value / pointer / generic
//     receiver. Controls that ARE tests: plain, a named result, a parenthesised
//     result, a comment inside the parameter list.
//
// (2) the PACKAGE CLAUSE of a file (package-clause/<class>:<discrepancy>):
//     `package documentation` (which the go tool ignores) spelled five ways, two
//     such files, an external test package in a _test.go file, a generator script
//     (`//go:build ignore` + `package main`) — for all of these the directory is a
//     package for `go list` and the complete test list is asserted; and a file of
//     ANOTHER package name (other, main, semantics_test in a non-test file,
//     Semantics) next to two files of package semantics — `go list` calls that
//     directory an error, so it is outside "for any semantics package" and only
//     this much is asserted: no Go panic, the two outputs agree, and no test for a
//     function of the minority file (the generated Go file says `package semantics`
//     and the Coq file imports `semantics`: that package does not have it).
//
// (3) the NAME of a source file (file-name/<class>:<discrepancy>): names holding
//     Coq comment delimiters and double quotes — `a*).go`, `x(*y.go`, `a*)b*).go`,
//     `a(*b*)c.go`, `x*)(*y.go`, `m(**).go`, `q"r.go`, `two"quo"tes.go`, `q"r*).go`,
//     `r".go` (the go tool refuses names that BEGIN with such a character) — and
//     controls (`a'b.go`, `sp ace.go`, `star*.go`, `semi;colon.go`, `dollar$x.go`,
//     `paren(.go`). The -coq output prints file names in comments: it must be
//     well-formed Coq — the lexer of the framework's Coq reader (gl.Lex: nested
//     comments, strings lexed inside comments) accepts it, and with the comments
//     removed every non-blank line is a `From … Require Import ….` or an
//     `[Fail ]Example …` sentence — and list exactly the expected tests.
//
// Oracle for the lists: go/parser over exactly the GoFiles `go list` reports, the
// signature rule above; the -go output must compile next to the package.

const (
	c18SigSig   = "function-signature/"
	c18PkgSig   = "package-clause/"
	c18FNameSig = "file-name/"
)

type c18DimCase struct {
	idx     int
	family  string // function-signature | package-clause | file-name
	class   string
	sigCls  string // the class as it appears in the signature
	desc    string
	dir     string
	files   map[string][]byte
	special []string // names of the special file(s)
	owner   map[string]string
	weak    bool // go list is expected to reject the directory: only the weak clauses
	goFiles []string
	exp     []c18Test
	skip    string
	goOut   string
	pend    []c18Pend
}

type c18SigClass struct {
	name   string
	isTest bool
	pre    string // declarations the functions need; %[1]d = case index
	fn     string // %[1]s = function name, %[2]d = case index, %[3]s = the value returned by a bool function
}

var c18SigClasses = []c18SigClass{
	{"one-parameter", false, "", "func %[1]s(x uint64) bool {\n\treturn (x == 0) == %[3]s\n}"},
	{"no-result", false, "", "func %[1]s() {\n}"},
	{"two-results", false, "", "func %[1]s() (bool, error) {\n\treturn %[3]s, nil\n}"},
	{"type-parameter", false, "", "func %[1]s[X any]() bool {\n\treturn %[3]s\n}"},
	{"unnamed-parameter", false, "", "func %[1]s(uint64) bool {\n\treturn %[3]s\n}"},
	{"blank-parameter", false, "", "func %[1]s(_ uint64) bool {\n\treturn %[3]s\n}"},
	{"two-parameters", false, "", "func %[1]s(a, b uint64) bool {\n\treturn (a == b) == %[3]s\n}"},
	{"variadic-parameter", false, "", "func %[1]s(xs ...uint64) bool {\n\treturn (len(xs) == 0) == %[3]s\n}"},
	{"two-named-bool-results", false, "", "func %[1]s() (a, b bool) {\n\treturn %[3]s, %[3]s\n}"},
	{"uint64-result", false, "", "func %[1]s() uint64 {\n\treturn 1\n}"},
	{"string-result", false, "", "func %[1]s() string {\n\treturn \"true\"\n}"},
	{"error-result", false, "", "func %[1]s() error {\n\treturn nil\n}"},
	{"pointer-to-bool-result", false, "", "func %[1]s() *bool {\n\tb := %[3]s\n\treturn &b\n}"},
	{"func-result", false, "", "func %[1]s() func() bool {\n\treturn func() bool { return %[3]s }\n}"},
	{"interface-result", false, "", "func %[1]s() interface{} {\n\treturn %[3]s\n}"},
	{"defined-bool-type-result", false, "type flag%[1]d bool\n\n", "func %[1]s() flag%[2]d {\n\treturn %[3]s\n}"},
	{"type-parameter-and-parameter", false, "", "func %[1]s[X any](x X) bool {\n\treturn %[3]s\n}"},
	{"value-receiver", false, "type rv%[1]d struct{ a uint64 }\n\n", "func (r rv%[2]d) %[1]s() bool {\n\treturn (r.a == 0) == %[3]s\n}"},
	{"pointer-receiver", false, "type rp%[1]d struct{ a uint64 }\n\n", "func (r *rp%[2]d) %[1]s() bool {\n\treturn (r.a == 0) == %[3]s\n}"},
	{"generic-receiver", false, "type rg%[1]d[X any] struct{ a uint64 }\n\n", "func (r rg%[2]d[X]) %[1]s() bool {\n\treturn (r.a == 0) == %[3]s\n}"},
	{"plain", true, "", "func %[1]s() bool {\n\treturn %[3]s\n}"},
	{"named-result", true, "", "func %[1]s() (ok bool) {\n\tok = %[3]s\n\treturn\n}"},
	{"parenthesised-result", true, "", "func %[1]s() (bool) {\n\treturn %[3]s\n}"},
	{"comment-in-the-parameter-list", true, "", "func %[1]s( /* no parameters */ ) bool {\n\treturn %[3]s\n}"},
}

type c18PkgClass struct {
	name   string
	file   string // special file name ("" = m_pkg.go)
	head   string // everything up to and including the package clause line
	weak   bool
	second bool // a second special file with the same head
}

var c18PkgClasses = []c18PkgClass{
	{name: "documentation", head: "package documentation\n"},
	{name: "documentation-below-a-licence-comment", head: "// Copyright 2024 The Authors. All rights reserved.\n\n// Package documentation explains the package.\npackage documentation\n"},
	{name: "documentation-with-a-trailing-comment", head: "package documentation // not part of the build\n"},
	{name: "documentation-after-a-block-comment-on-the-same-line", head: "/* overview */ package documentation\n"},
	{name: "documentation-separated-by-a-tab", head: "package\tdocumentation\n"},
	{name: "two-documentation-files", head: "package documentation\n", second: true},
	{name: "external-test-package-in-a-test-file", file: "m_pkg_test.go", head: "package semantics_test\n"},
	{name: "documentation-in-a-test-file", file: "m_pkg_test.go", head: "package documentation\n"},
	{name: "generator-script-ignore-tag-package-main", head: "//go:build ignore\n\npackage main\n"},
	{name: "another-name", head: "package other\n", weak: true},
	{name: "main", head: "package main\n", weak: true},
	{name: "semantics_test-in-a-non-test-file", head: "package semantics_test\n", weak: true},
	{name: "name-differs-in-case", head: "package Semantics\n", weak: true},
}

type c18FNameClass struct{ name, class string }

var c18FNameClasses = []c18FNameClass{
	{"a*).go", "coq-comment-delimiter"}, {"x(*y.go", "coq-comment-delimiter"}, {"a*)b*).go", "coq-comment-delimiter"}, {"a(*b*)c.go", "coq-comment-delimiter"}, {"x*)(*y.go", "coq-comment-delimiter"}, {"m(**).go", "coq-comment-delimiter"},
	{"q\"r.go", "double-quote"}, {"two\"quo\"tes.go", "double-quote"}, {"q\"r*).go", "double-quote"}, {"r\".go", "double-quote"},
	{"a'b.go", "other-punctuation"}, {"sp ace.go", "other-punctuation"}, {"star*.go", "other-punctuation"}, {"semi;colon.go", "other-punctuation"}, {"dollar$x.go", "other-punctuation"}, {"paren(.go", "other-punctuation"}, {"m).go", "other-punctuation"}, {"dot. .go", "other-punctuation"},
}

func c18DimCases(seed int64) []*c18DimCase {
	rng := core.NewRng(seed, "c18-dims")
	var out []*c18DimCase
	mk := func(family, class, sigCls string) *c18DimCase {
		i := len(out)
		c := &c18DimCase{idx: i, family: family, class: class, sigCls: sigCls, files: map[string][]byte{}, owner: map[string]string{}}
		c.files["a_first.go"] = []byte(fmt.Sprintf("package semantics\n\nfunc testFirstD%d() bool {\n\treturn true\n}\n", i))
		c.files["z_last.go"] = []byte(fmt.Sprintf("package semantics\n\nfunc helperZD%d() uint64 { return 1 }\n\nfunc failing_testLastD%d() bool {\n\treturn false\n}\n", i, i))
		out = append(out, c)
		return c
	}
	word := func() string { return c18Words[rng.Intn(len(c18Words))] }
	for _, sc := range c18SigClasses {
		sigCls := "not-a-test-signature"
		if sc.isTest {
			sigCls = "test-signature-spelling"
		}
		c := mk("function-signature", sc.name, sigCls)
		t1, t2 := fmt.Sprintf("test%sS%d", word(), c.idx), fmt.Sprintf("failing_test%sT%d", word(), c.idx)
		src := "package semantics\n\n"
		if sc.pre != "" {
			src += fmt.Sprintf(strings.ReplaceAll(sc.pre, "%[1]d", "%d"), c.idx)
		}
		// the order of the two functions depends on the seed
		fns := []string{fmt.Sprintf(sc.fn, t1, c.idx, "true"), fmt.Sprintf(sc.fn, t2, c.idx, "false")}
		if rng.Bool() {
			fns[0], fns[1] = fns[1], fns[0]
		}
		src += fns[0] + "\n\n" + fmt.Sprintf("func helperS%d() uint64 { return %d }\n\n", c.idx, c.idx) + fns[1] + "\n"
		b := []byte(src)
		if sc.name != "parenthesised-result" && sc.name != "comment-in-the-parameter-list" { // gofmt keeps both, but it need not
			if fb, err := format.Source(b); err == nil {
				b = fb
			}
		}
		c.files["m_sig.go"] = b
		c.special = []string{"m_sig.go"}
		c.owner[t1], c.owner[t2] = "m_sig.go", "m_sig.go"
		first := strings.SplitN(fmt.Sprintf(sc.fn, t1, c.idx, "true"), "\n", 2)[0]
		c.desc = fmt.Sprintf("m_sig.go declares `%s … }` and the same as %s (class %s)", strings.TrimSuffix(first, " {"), t2, sc.name)
	}
	for _, pc := range c18PkgClasses {
		// in the signature: what KIND of clause it is; the spelling is in the text
		sigCls := pc.name
		switch {
		case pc.weak:
			sigCls = "another-package-name"
		case strings.Contains(pc.name, "documentation"):
			sigCls = "documentation"
		}
		c := mk("package-clause", pc.name, sigCls)
		c.weak = pc.weak
		names := []string{"m_pkg.go"}
		if pc.file != "" {
			names = []string{pc.file}
		}
		if pc.second {
			names = append(names, "n_pkg2.go")
		}
		for k, n := range names {
			t1, t2 := fmt.Sprintf("test%sP%dx%d", word(), c.idx, k), fmt.Sprintf("failing_test%sQ%dx%d", word(), c.idx, k)
			c.files[n] = []byte(pc.head + fmt.Sprintf("\nfunc %s() bool {\n\treturn true\n}\n\nfunc helperP%dx%d() uint64 { return %d }\n\nfunc %s() bool {\n\treturn false\n}\n", t1, c.idx, k, k, t2))
			c.special = append(c.special, n)
			c.owner[t1], c.owner[t2] = n, n
		}
		c.desc = fmt.Sprintf("%s begins %q and declares two func() bool named test… / failing_test… (class %s)", strings.Join(names, ", "), pc.head, pc.name)
	}
	for _, fc := range c18FNameClasses {
		c := mk("file-name", fc.name, fc.class)
		t1, t2 := fmt.Sprintf("test%sN%d", word(), c.idx), fmt.Sprintf("failing_test%sM%d", word(), c.idx)
		c.files[fc.name] = []byte(fmt.Sprintf("package semantics\n\nfunc %s() bool {\n\treturn true\n}\n\nfunc %s() bool {\n\treturn false\n}\n", t1, t2))
		c.special = []string{fc.name}
		c.owner[t1], c.owner[t2] = fc.name, fc.name
		c.desc = fmt.Sprintf("a source file named %q with two test functions", fc.name)
	}
	return out
}

var c18FromLine = regexp.MustCompile(`^From \S+ Require Import \S+\.$`)

// c18CoqWellFormed applies Coq's lexical rules to the -coq output: "" if it is well-formed.
func c18CoqWellFormed(out string) string {
	_, comments, err := gl.Lex(out)
	if err != nil {
		return "Coq's lexical rules reject it: " + err.Error()
	}
	b := []byte(out)
	for _, c := range comments {
		for i := c.Pos; i < c.End && i < len(b); i++ {
			if b[i] != '\n' {
				b[i] = ' '
			}
		}
	}
	for _, l := range strings.Split(string(b), "\n") {
		l = strings.TrimSpace(l)
		if l == "" || c18FromLine.MatchString(l) || c18CoqLine.MatchString(l) {
			continue
		}
		return fmt.Sprintf("outside the comments there is text that is neither a Require nor an Example sentence: %q", l)
	}
	return ""
}

func c18DimFamilies(r *core.Run, tg string, only string) {
	mod := filepath.Join(r.Scratch, "c18dimmod")
	t0 := time.Now()
	defer func() { r.Set("dims_wall_s", time.Since(t0).Seconds()) }()
	core.WriteFile(filepath.Join(mod, "go.mod"), fmt.Sprintf(c18GoMod, core.RepoDir))
	sum, _ := os.ReadFile(filepath.Join(core.RepoDir, "go.sum"))
	os.WriteFile(filepath.Join(mod, "go.sum"), sum, 0o644)
	var cases []*c18DimCase
	for _, c := range c18DimCases(r.Seed) {
		if only == "" || only == c.family {
			cases = append(cases, c)
		}
	}
	fail := func(c *c18DimCase, reason string, err interface{}) {
		r.Inconclusive(reason)
		c.skip = reason
		fmt.Fprintln(os.Stderr, "C18 "+c.family+":", reason, c.idx, c.class, err)
	}
	key := func(c *c18DimCase) string { return "dims_" + strings.ReplaceAll(c.family, "-", "_") }
	for _, c := range cases {
		c.dir = filepath.Join(mod, fmt.Sprintf("%c%03d", c.family[0], c.idx))
		os.MkdirAll(c.dir, 0o755)
		for n, b := range c.files {
			if err := os.WriteFile(filepath.Join(c.dir, n), b, 0o644); err != nil {
				// a name the file system does not take: not a case
				c.skip = "file-name-not-creatable"
				r.Count(key(c)+"_names_the_file_system_refuses", 1)
				break
			}
		}
	}
	res := core.Exec(mod, core.GoEnv(), 5*time.Minute, "", "go", "list", "-e", "-json=Dir,GoFiles,IgnoredGoFiles,TestGoFiles,XTestGoFiles,Error,Incomplete", "./...")
	r.Count("dims_go_list_runs", 1)
	if res.TimedOut || res.Code != 0 {
		r.Inconclusive("dims-go-list-failed")
		fmt.Fprintln(os.Stderr, "C18 dims families: go list:", res.Code, firstLine(res.Stderr))
		return
	}
	type listed struct {
		Dir            string
		GoFiles        []string
		IgnoredGoFiles []string
		Error          *struct{ Err string }
		Incomplete     bool
	}
	byDir := map[string]*listed{}
	dec := json.NewDecoder(strings.NewReader(res.Stdout))
	for {
		var l listed
		if err := dec.Decode(&l); err == io.EOF {
			break
		} else if err != nil {
			r.Inconclusive("dims-go-list-unparsable")
			return
		}
		ll := l
		byDir[l.Dir] = &ll
	}
	listing := map[string]string{}
	for _, c := range cases {
		if c.skip != "" {
			continue
		}
		l := byDir[c.dir]
		rejected := l == nil || l.Error != nil || l.Incomplete
		switch {
		case rejected && c.weak:
			listing[c.family+"/"+c.class] = "go list: the directory is an error"
			// the ordinary files are the package the outputs speak about
			for _, f := range []string{"a_first.go", "z_last.go"} {
				ts, _ := c18ExpectedOfSource(f, c.files[f], false)
				c.exp = append(c.exp, ts...)
			}
		case rejected:
			c.skip = "rejected-by-go-list"
			r.Count(key(c)+"_directories_rejected_by_go_list", 1)
			what := "not listed"
			if l != nil && l.Error != nil {
				what = firstLine(l.Error.Err)
			}
			listing[c.family+"/"+c.class] = "go list rejects the directory: " + what
			os.RemoveAll(c.dir)
			c.dir = ""
		default:
			if c.weak {
				// go list accepts what was expected to be an error: judge it as a package
				c.weak = false
			}
			c.goFiles = append([]string(nil), l.GoFiles...)
			sort.Strings(c.goFiles)
			listing[c.family+"/"+c.class] = fmt.Sprintf("GoFiles %v, IgnoredGoFiles %v", l.GoFiles, l.IgnoredGoFiles)
			for _, f := range c.goFiles {
				ts, err := c18ExpectedOfSource(f, c.files[f], false)
				if err != nil {
					fail(c, "oracle-parse-error", err)
					break
				}
				c.exp = append(c.exp, ts...)
			}
		}
	}
	r.Set("dims_go_list_says", listing)

	core.Parallel(len(cases), 16, func(i int) {
		c := cases[i]
		if c.skip != "" {
			return
		}
		var expNames []string
		failing := map[string]bool{}
		for _, t := range c.exp {
			expNames = append(expNames, t.Name)
			failing[t.Name] = t.Failing
		}
		coq := c18Run(c.dir, 0, tg, "-coq", c.dir)
		gout := c18Run(c.dir, 0, tg, "-go", c.dir)
		r.Count("test_gen_invocations", 2)
		if coq.TimedOut || gout.TimedOut {
			r.Inconclusive("test_gen-watchdog")
			c.skip = "watchdog"
			return
		}
		srcs := map[string]string{}
		for _, s := range c.special {
			srcs[s] = c18Clip(c.files[s])
		}
		detail := map[string]interface{}{"family": c.family, "class": c.class, "input": c.desc, "special_files": srcs, "GoFiles_reported_by_go_list": c.goFiles, "expected_tests": expNames,
			"go_output": c18Clip([]byte(gout.Stdout)), "coq_output": c18Clip([]byte(coq.Stdout)), "stderr": firstLine(coq.Stderr + gout.Stderr),
			"replay": "write a_first.go / z_last.go (one func() bool test each) and the special file(s) into a directory of a module and run test_gen -coq / -go on it"}
		sigBase := map[string]string{"function-signature": c18SigSig, "package-clause": c18PkgSig, "file-name": c18FNameSig}[c.family] + c.sigCls
		add := func(kind, what string) { c.pend = append(c.pend, c18Pend{sigBase + ":" + kind, what, detail}) }
		r.Eval(1)
		r.Distinct("dims/" + c.family + "/" + c.class)
		r.Count(key(c)+"_directories_judged", 1)
		if c.weak {
			r.Count(key(c)+"_directories_judged_by_the_weak_clauses_only", 1)
		}
		if c18Panicked(coq) || c18Panicked(gout) {
			add("go-panic", fmt.Sprintf("%s: test_gen ends with a Go panic (exit %d -coq / %d -go): %s", c.desc, coq.Code, gout.Code, c18PanicLine(coq.Stderr+gout.Stderr)))
			return
		}
		if coq.Code != 0 || gout.Code != 0 {
			if !c.weak {
				add("test_gen-exit-nonzero", fmt.Sprintf("%s: test_gen exited %d (-coq) / %d (-go) on a directory that go list accepts (GoFiles %v): %s", c.desc, coq.Code, gout.Code, c.goFiles, firstLine(coq.Stderr+gout.Stderr)))
			} else {
				r.Count(key(c)+"_weak_directories_refused_by_test_gen", 1)
			}
			return
		}
		goNames, un1 := c18Names("-go", gout.Stdout)
		coqNames, un2 := c18Names("-coq", coq.Stdout)
		detail["go_tests"], detail["coq_tests"] = goNames, coqNames
		ofSpecial := func(names []string) (out []string) {
			for _, n := range names {
				if c.owner[n] != "" {
					out = append(out, n)
				}
			}
			return
		}
		var kinds []string
		if strings.Join(goNames, " ") != strings.Join(coqNames, " ") {
			kinds = append(kinds, "go-and-coq-disagree")
		}
		if c.weak {
			if g, q := ofSpecial(goNames), ofSpecial(coqNames); len(g)+len(q) > 0 {
				kinds = append(kinds, "test-for-a-function-of-a-file-of-another-package")
			}
		} else {
			kinds = append(kinds, c18Diff("go", expNames, goNames)...)
			kinds = append(kinds, c18Diff("coq", expNames, coqNames)...)
			if un1+un2 > 0 {
				kinds = append(kinds, "unparsable-test-entries")
			}
			es, _ := c18ParseCoq(coq.Stdout)
			for _, e := range es {
				if want, ok := failing[e.Fn]; ok && want != e.Fail {
					kinds = append(kinds, "coq-Fail-marking-wrong")
				}
			}
			c.goOut = gout.Stdout
		}
		if c.family == "file-name" {
			r.Count("dims_file_name_coq_outputs_lexed", 1)
			if why := c18CoqWellFormed(coq.Stdout); why != "" {
				detail["coq_output_ill_formed"] = why
				// the lists read from an ill-formed text mean little: report the text
				kinds = []string{"coq-output-ill-formed"}
				c.goOut = gout.Stdout
			} else {
				r.Count("dims_file_name_coq_outputs_well_formed", 1)
			}
		}
		for _, k := range c18Collapse(uniq(kinds)) {
			if c.family == "function-signature" && strings.HasSuffix(k, "tests-for-nonexistent-functions") {
				// the function exists; it is not a test function
				k = strings.Replace(k, "tests-for-nonexistent-functions", "tests-for-functions-that-are-not-test-functions", 1)
			}
			what := fmt.Sprintf("%s: %s; expected tests %v, -go tests %v, -coq tests %v", c.desc, k, expNames, goNames, coqNames)
			if k == "coq-output-ill-formed" {
				what = fmt.Sprintf("%s: the -coq output is not well-formed Coq — %s", c.desc, detail["coq_output_ill_formed"])
			}
			add(k, what)
		}
		if len(kinds) == 0 {
			r.Count(key(c)+"_directories_as_expected", 1)
		}
	})
	for _, c := range cases {
		if c.dir == "" {
			continue
		}
		if c.goOut == "" || c.weak {
			// not compiled: keep the directory out of the build
			os.RemoveAll(c.dir)
			c.goOut = ""
			continue
		}
		if err := os.WriteFile(filepath.Join(c.dir, "generated_test.go"), []byte(c.goOut), 0o644); err != nil {
			c.goOut = ""
		}
	}
	res = core.Exec(mod, core.GoEnv(), 15*time.Minute, "", "go", "test", "-vet=off", "-count=1", "-run", "^$", "./...")
	if res.TimedOut {
		r.Inconclusive("dims-go-test-watchdog")
	} else {
		status := map[string]string{}
		for _, line := range strings.Split(res.Stdout, "\n") {
			fs := strings.Fields(line)
			if len(fs) >= 2 && fs[0] == "ok" {
				status[strings.TrimPrefix(fs[1], "c18scratch/")] = "ok"
			} else if len(fs) >= 2 && fs[0] == "FAIL" && strings.HasPrefix(fs[1], "c18scratch/") {
				status[strings.TrimPrefix(fs[1], "c18scratch/")] = "failed"
			}
		}
		for _, c := range cases {
			if c.goOut == "" {
				continue
			}
			name := filepath.Base(c.dir)
			var errs []string
			foreign := false
			for _, line := range strings.Split(res.Stderr+"\n"+res.Stdout, "\n") {
				if strings.HasPrefix(line, name+"/") {
					errs = append(errs, line)
					if !strings.HasPrefix(line, name+"/generated_test.go:") {
						foreign = true
					}
				}
			}
			switch {
			case status[name] == "ok":
				r.Count(key(c)+"_go_files_compiled_ok", 1)
			case status[name] == "failed" && !foreign && len(errs) > 0:
				r.Count(key(c)+"_go_files_failing_to_compile", 1)
				sigBase := map[string]string{"function-signature": c18SigSig, "package-clause": c18PkgSig, "file-name": c18FNameSig}[c.family] + c.sigCls
				c.pend = append(c.pend, c18Pend{sigBase + ":go-file-does-not-compile", fmt.Sprintf("%s: the -go output does not compile next to the package: %v", c.desc, firstN(errs, 3)),
					map[string]interface{}{"family": c.family, "class": c.class, "input": c.desc, "GoFiles_reported_by_go_list": c.goFiles, "compile_errors": firstN(errs, 10), "go_output": c18Clip([]byte(c.goOut))}})
			default:
				r.Inconclusive("dims-package-does-not-compile")
				fmt.Fprintln(os.Stderr, "C18 "+c.family+": no usable compile status for", name, c.class, status[name], firstN(errs, 3), firstLine(res.Stderr))
			}
		}
	}
	for _, c := range cases {
		sort.SliceStable(c.pend, func(i, j int) bool { return c.pend[i].sig < c.pend[j].sig })
		for _, p := range c.pend {
			r.Violate(p.sig, p.what, p.detail)
		}
	}
}

func c18Panicked(res c18Res) bool {
	return strings.Contains(res.Stderr, "panic: ") || strings.Contains(res.Stderr, "goroutine 1 [running]") || strings.Contains(res.Stderr, "fatal error: ")
}

func c18PanicLine(stderr string) string {
	for _, l := range strings.Split(stderr, "\n") {
		if strings.HasPrefix(l, "panic: ") || strings.HasPrefix(l, "fatal error: ") {
			if len(l) > 300 {
				l = l[:300]
			}
			return l
		}
	}
	return firstLine(stderr)
}
