package miscp

import (
	"fmt"
	"go/format"
	"sort"
	"strings"

	"verif/core"
)

// Generator of `package semantics` directories for C18. A directory is a set
// of files; every .go file is gofmt-formatted (go/format) before it is
// written. A directory carries at most ONE hostile feature class (plus any
// number of benign features), so that a discrepancy is attributed to exactly
// one class; the names the hostile feature can affect are recorded in Attrib.

// Hostile feature classes; each is also the violation signature of the class.
const (
	hTestGoFile   = "go-mode-reads-test-go-files"
	hGoldVFile    = "go-mode-reads-gold-v-files"
	hRawString    = "func-test-text-in-raw-string"
	hBlockComment = "func-test-text-in-comment"
	hUnderscore   = "name-with-underscore-skipped"
	hNonASCII     = "name-non-ascii-skipped"
	hLongLine     = "long-line-truncates-scan"
	hNonGoFile    = "non-go-file-scanned"
	hSameSuffix   = "same-suffix-test-and-failing-test"
	hNoTests      = "no-test-functions-unused-import"
	hCRLF         = "crlf-line-endings"
)

// c18HostileClasses lists the switchable hostile atoms. Removing a class here
// removes it from the workload (nothing else changes).
var c18HostileClasses = []string{
	hTestGoFile, hGoldVFile, hRawString, hBlockComment, hUnderscore, hNonASCII,
	hLongLine, hNonGoFile, hSameSuffix, hNoTests, hCRLF,
}

type c18File struct {
	Name    string   `json:"name"`
	Decls   []string `json:"declarations"` // short descriptions (generation order, not source order)
	content []byte
}

type c18Dir struct {
	Idx     int             `json:"idx"`
	Name    string          `json:"dir"`
	Files   []*c18File      `json:"files"`
	Hostile string          `json:"hostile_feature,omitempty"`
	Benign  []string        `json:"benign_features"`
	Attrib  map[string]bool `json:"-"`
	// tokens that a compile error caused by the hostile feature mentions
	AttribTokens []string `json:"attributable_tokens,omitempty"`
	funcsByClass map[string]int
}

type c18gen struct {
	rng   *core.Rng
	d     *c18Dir
	n     int // per-directory counter making names unique
	used  map[string]bool
	tests int
}

var c18Words = []string{"Alloc", "Append", "Loop", "Slice", "Map", "Lock", "Wal", "Enc", "Cmp", "Shift", "Closure", "Copy", "Nil", "Ops", "Prec", "Str", "Struct", "Iface", "Conv", "Ret"}

func (g *c18gen) suffix() string {
	for {
		g.n++
		var s string
		switch g.rng.Intn(8) {
		case 0:
			s = fmt.Sprintf("%d%s", g.rng.Intn(10), strings.ToLower(c18Words[g.rng.Intn(len(c18Words))])) // digit first
		case 1:
			s = strings.ToLower(c18Words[g.rng.Intn(len(c18Words))]) + fmt.Sprint(g.n) // lower-case first
		case 2:
			s = c18Words[g.rng.Intn(len(c18Words))] + c18Words[g.rng.Intn(len(c18Words))] + fmt.Sprint(g.n)
		case 3:
			s = strings.ToUpper(c18Words[g.rng.Intn(len(c18Words))]) + fmt.Sprint(g.n)
		default:
			s = c18Words[g.rng.Intn(len(c18Words))] + fmt.Sprint(g.n)
		}
		if s == "ing" || g.used[s] {
			continue
		}
		g.used[s] = true
		return s
	}
}

func (g *c18gen) note(class string) {
	g.d.funcsByClass[class]++
}

// testFunc renders a parameterless bool function in one of several gofmt-stable layouts.
func (g *c18gen) testFunc(name string, result bool) string {
	res := fmt.Sprint(result)
	switch g.rng.Intn(7) {
	case 0:
		return fmt.Sprintf("func %s() bool { return %s }", name, res)
	case 1:
		return fmt.Sprintf("func %s() (ok bool) {\n\tok = %s\n\treturn\n}", name, res)
	case 2:
		return fmt.Sprintf("// %s is a semantics test.\n// func testNotThisOne() bool { is only a comment\nfunc %s() bool {\n\treturn %s\n}", name, name, res)
	case 3:
		return fmt.Sprintf("func %s() bool { // func testNeither() bool {\n\tf := func() bool { return %s }\n\treturn f()\n}", name, res)
	case 4:
		return fmt.Sprintf("func %s() bool {\n\tvar x uint64 = 3\n\tfor i := uint64(0); i < 2; i++ {\n\t\tx = x + i\n\t}\n\treturn (x == 4) == %s\n}", name, res)
	case 5:
		return fmt.Sprintf("func %s() bool {\n\ts := `\n\tfunc testIndentedInRawString() bool {\n  func testAlsoIndented() bool {`\n\treturn (len(s) > 0) == %s\n}", name, res)
	default:
		return fmt.Sprintf("func %s() bool {\n\treturn %s\n}", name, res)
	}
}

// benignDecl returns one declaration that must not produce a test.
func (g *c18gen) benignDecl(f *c18File) string {
	s := g.suffix()
	switch g.rng.Intn(11) {
	case 0:
		g.note("disabled_test")
		f.Decls = append(f.Decls, "func disabled_test"+s)
		return g.testFunc("disabled_test"+s, true)
	case 1:
		g.note("helper")
		f.Decls = append(f.Decls, "func helper"+s)
		return fmt.Sprintf("func helper%s(x uint64) uint64 {\n\treturn x + 1\n}", s)
	case 2:
		g.note("method named test…")
		f.Decls = append(f.Decls, "method testMethod"+s)
		return fmt.Sprintf("type rcv%s struct{ a uint64 }\n\nfunc (r rcv%s) testMethod%s() bool {\n\treturn r.a == 0\n}\n\nfunc (r *rcv%s) failing_testPtrMethod%s() bool { return false }", s, s, s, s, s)
	case 3:
		g.note("helper")
		f.Decls = append(f.Decls, "func runtest"+s+" / isTest"+s)
		return fmt.Sprintf("func runtest%s() bool { return true }\n\nfunc isTest%s() bool {\n\treturn true\n}", s, s)
	case 4:
		g.note("capitalised Test…")
		f.Decls = append(f.Decls, "func Test"+s)
		return fmt.Sprintf("func Test%s() bool {\n\treturn true\n}", s)
	case 5:
		g.note("var/type named test…")
		f.Decls = append(f.Decls, "var testVar"+s+", type testType"+s)
		return fmt.Sprintf("var testVar%s = func() bool { return true }\n\ntype testType%s struct {\n\ta uint64\n}\n\nconst testConst%s = 3", s, s, s)
	case 6:
		g.note("line comment with func test text")
		f.Decls = append(f.Decls, "line comment `// func testC"+s+"`")
		return fmt.Sprintf("// func testC%s() bool {\n//\treturn true\n// }", s)
	case 7:
		g.note("string literal with func test text")
		f.Decls = append(f.Decls, "string literal with func test text")
		return fmt.Sprintf("var str%s = \"func testInString%s() bool {\"\n\nvar raw%s = `\n\tfunc testIndented%s() bool {\n func testSpace%s() bool {`", s, s, s, s, s)
	case 8:
		g.note("helper")
		f.Decls = append(f.Decls, "func helperNested"+s)
		return fmt.Sprintf("func helperNested%s() bool {\n\ttestInner := func() bool { return true }\n\treturn testInner()\n}", s)
	case 9:
		g.note("failing_ without test")
		f.Decls = append(f.Decls, "func failing_helper"+s)
		return fmt.Sprintf("func failing_helper%s() bool { return false }\n\nfunc failingtest%s() bool { return false }", s, s)
	default:
		g.note("block comment without line-start func")
		f.Decls = append(f.Decls, "block comment (indented func text)")
		return fmt.Sprintf("/*\n\tfunc testIndentedInComment%s() bool {\n   func testAlso%s() bool {\n*/", s, s)
	}
}

func (g *c18gen) okTest(f *c18File) string {
	s := g.suffix()
	g.tests++
	if g.rng.Intn(4) == 0 {
		g.note("failing_test")
		f.Decls = append(f.Decls, "func failing_test"+s)
		return g.testFunc("failing_test"+s, false)
	}
	g.note("test")
	f.Decls = append(f.Decls, "func test"+s)
	return g.testFunc("test"+s, true)
}

func gofmtSource(decls []string) ([]byte, error) {
	src := "package semantics\n\n" + strings.Join(decls, "\n\n") + "\n"
	return format.Source([]byte(src))
}

var c18GoFileNames = []string{"a.go", "alloc.go", "b_ops.go", "Caps.go", "m1.go", "m10.go", "m2.go", "test_helpers.go", "mytest.go", "gold.go", "z_last.go", "loops.go", "wal.go", "0first.go", "wal.v2.go", "types.pb.go", "x.gold.go", "a-b.go", "go.go", "test.go", "b.test.go", "_under.go.go", ".hidden.go"}

func (g *c18gen) attrib(names ...string) {
	for _, n := range names {
		g.d.Attrib[n] = true
		g.d.AttribTokens = append(g.d.AttribTokens, n)
	}
}

// genC18Dir builds directory idx. hostile == "" gives a directory with benign features only.
func genC18Dir(seed int64, idx int, hostile string) (*c18Dir, error) {
	rng := core.NewRng(seed, fmt.Sprintf("c18-dir-%d", idx))
	d := &c18Dir{Idx: idx, Name: fmt.Sprintf("d%05d", idx), Hostile: hostile, Attrib: map[string]bool{}, funcsByClass: map[string]int{}, Benign: []string{}}
	g := &c18gen{rng: rng, d: d, used: map[string]bool{}}

	// 1–4 ordinary Go files
	nGo := 1 + rng.Intn(4)
	perm := make([]int, len(c18GoFileNames))
	for i := range perm {
		perm[i] = i
	}
	for i := len(perm) - 1; i > 0; i-- {
		j := rng.Intn(i + 1)
		perm[i], perm[j] = perm[j], perm[i]
	}
	type goFile struct {
		f     *c18File
		decls []string
	}
	var gofiles []*goFile
	for i := 0; i < nGo; i++ {
		gf := &goFile{f: &c18File{Name: c18GoFileNames[perm[i]]}}
		nd := rng.Intn(7)
		if i == 0 && nd == 0 {
			nd = 1
		}
		for k := 0; k < nd; k++ {
			if hostile != hNoTests && rng.Intn(100) < 60 {
				gf.decls = append(gf.decls, g.okTest(gf.f))
			} else {
				gf.decls = append(gf.decls, g.benignDecl(gf.f))
			}
		}
		gofiles = append(gofiles, gf)
	}
	if hostile != hNoTests {
		// at least one test function in a file the go tool does not ignore (names beginning with _ or . are
		// not part of the package): a package without any test function is the separate class hNoTests
		var vis *goFile
		visible := 0
		for _, gf := range gofiles {
			if strings.HasPrefix(gf.f.Name, "_") || strings.HasPrefix(gf.f.Name, ".") {
				continue
			}
			if vis == nil {
				vis = gf
			}
			for _, dcl := range gf.decls {
				if strings.HasPrefix(dcl, "func test") || strings.HasPrefix(dcl, "func failing_test") || strings.Contains(dcl, "\nfunc test") || strings.Contains(dcl, "\nfunc failing_test") {
					visible++
				}
			}
		}
		if vis == nil {
			vis = &goFile{f: &c18File{Name: "visible.go"}}
			gofiles = append(gofiles, vis)
		}
		if visible == 0 {
			vis.decls = append(vis.decls, g.okTest(vis.f))
		}
	}
	if rng.Intn(6) == 0 {
		// a bare `test` / `failing_test`: outside "named test…" as read here; behaviour is only noted
		gf := gofiles[rng.Intn(len(gofiles))]
		gf.decls = append(gf.decls, "func test() bool { return true }")
		gf.f.Decls = append(gf.f.Decls, "func test (bare)")
		g.note("bare test")
		d.Benign = append(d.Benign, "bare-test-name")
	}
	victim := gofiles[rng.Intn(len(gofiles))]
	insertAt := func(gf *goFile, decl string) int {
		pos := rng.Intn(len(gf.decls) + 1)
		gf.decls = append(gf.decls[:pos], append([]string{decl}, gf.decls[pos:]...)...)
		return pos
	}
	crlfFile := ""
	longLineAfter := -1

	switch hostile {
	case hRawString:
		s := g.suffix()
		g.attrib("testFake" + s)
		victim.f.Decls = append(victim.f.Decls, "raw string containing line `func testFake"+s+"() bool {`")
		insertAt(victim, fmt.Sprintf("var doc%s = `usage:\nfunc testFake%s() bool {\n\treturn true\n}\n`", s, s))
	case hBlockComment:
		s := g.suffix()
		name := "testCommentedOut" + s
		if rng.Bool() {
			name = "failing_testCommentedOut" + s
		}
		g.attrib(name)
		victim.f.Decls = append(victim.f.Decls, "block comment containing line `func "+name+"() bool {`")
		insertAt(victim, fmt.Sprintf("/*\nfunc %s() bool {\n\treturn true\n}\n*/", name))
	case hUnderscore:
		s := g.suffix()
		var name string
		switch rng.Intn(3) {
		case 0:
			name = "test_under" + s
		case 1:
			name = "testWith_underscore" + s
		default:
			name = "failing_test_x" + s
		}
		g.attrib(name)
		g.note("test name with _")
		g.tests++
		victim.f.Decls = append(victim.f.Decls, "func "+name)
		insertAt(victim, g.testFunc(name, true))
	case hNonASCII:
		s := g.suffix()
		name := []string{"testÄpfel", "testNaïve", "failing_testΩmega", "testÉ"}[rng.Intn(4)] + s
		g.attrib(name)
		g.note("test name with non-ASCII letter")
		g.tests++
		victim.f.Decls = append(victim.f.Decls, "func "+name)
		insertAt(victim, g.testFunc(name, true))
	case hSameSuffix:
		s := g.suffix()
		g.attrib("test"+s, "failing_test"+s)
		d.AttribTokens = append(d.AttribTokens, "Test"+s)
		g.note("test")
		g.note("failing_test")
		g.tests += 2
		other := gofiles[rng.Intn(len(gofiles))]
		victim.f.Decls = append(victim.f.Decls, "func test"+s)
		insertAt(victim, g.testFunc("test"+s, true))
		other.f.Decls = append(other.f.Decls, "func failing_test"+s)
		insertAt(other, g.testFunc("failing_test"+s, false))
	case hLongLine:
		s := g.suffix()
		n := 65536 + rng.Intn(20000)
		var decl string
		switch rng.Intn(3) {
		case 0:
			decl = "// " + strings.Repeat("x", n)
			victim.f.Decls = append(victim.f.Decls, fmt.Sprintf("line comment of %d bytes", n+3))
		case 1:
			decl = fmt.Sprintf("const long%s = \"%s\"", s, strings.Repeat("y", n))
			victim.f.Decls = append(victim.f.Decls, fmt.Sprintf("string constant on a line of > %d bytes", n))
		default:
			name := "testLongLine" + s
			decl = fmt.Sprintf("func %s() bool { return \"%s\" != \"\" }", name, strings.Repeat("z", n))
			victim.f.Decls = append(victim.f.Decls, fmt.Sprintf("func %s (header line of > %d bytes)", name, n))
			g.attrib(name)
			g.note("test")
			g.tests++
		}
		// at least one test after the long line, in the same file
		after := "testAfterLongLine" + s
		g.note("test")
		g.tests++
		victim.f.Decls = append(victim.f.Decls, "func "+after+" (after the long line)")
		victim.decls = append(victim.decls, g.testFunc(after, true))
		// and one ordinary test before it, so that the scan still finds a test
		// (otherwise the empty-suite class would be triggered as well)
		victim.decls = append([]string{g.okTest(victim.f)}, victim.decls...)
		longLineAfter = 1 + rng.Intn(len(victim.decls)-1) // 1 ≤ position < len: something precedes and follows
		victim.decls = append(victim.decls[:longLineAfter], append([]string{decl}, victim.decls[longLineAfter:]...)...)
	case hCRLF:
		crlfFile = victim.f.Name
		victim.f.Decls = append(victim.f.Decls, "(file written with CRLF line endings)")
	}

	for _, gf := range gofiles {
		src, err := gofmtSource(gf.decls)
		if err != nil {
			return nil, fmt.Errorf("generator produced unformattable source for %s/%s: %v", d.Name, gf.f.Name, err)
		}
		if gf.f.Name == crlfFile {
			src = []byte(strings.ReplaceAll(string(src), "\n", "\r\n"))
		}
		gf.f.content = src
		d.Files = append(d.Files, gf.f)
	}
	if hostile == hLongLine {
		// attributable: every test declared after the long line in the victim file
		names, err := c18ExpectedOfSource(victim.f.Name, victim.f.content, true)
		if err != nil {
			return nil, err
		}
		for _, n := range names {
			if n.afterLongLine {
				g.attrib(n.Name)
			}
		}
	}
	if hostile == hCRLF {
		names, err := c18ExpectedOfSource(victim.f.Name, victim.f.content, false)
		if err != nil {
			return nil, err
		}
		for _, n := range names {
			g.attrib(n.Name)
		}
	}
	if hostile == hNoTests {
		d.AttribTokens = append(d.AttribTokens, "imported and not used")
	}

	// _test.go file
	if hostile == hTestGoFile || rng.Intn(3) == 0 {
		f := &c18File{Name: []string{"x_test.go", "extra_test.go", "a_test.go"}[rng.Intn(3)]}
		s := g.suffix()
		decls := []string{fmt.Sprintf("func helperInTestFile%s() bool { return true }", s)}
		f.Decls = append(f.Decls, "func helperInTestFile"+s)
		if hostile == hTestGoFile {
			name := "testInTestFile" + s
			if rng.Intn(3) == 0 {
				name = "failing_testInTestFile" + s
			}
			decls = append(decls, g.testFunc(name, true))
			f.Decls = append(f.Decls, "func "+name)
			g.attrib(name)
			g.note("test… in a _test.go file")
		} else {
			d.Benign = append(d.Benign, "_test.go file without test… functions")
		}
		src, err := gofmtSource(decls)
		if err != nil {
			return nil, err
		}
		f.content = src
		d.Files = append(d.Files, f)
	}
	// .gold.v file
	if hostile == hGoldVFile || rng.Intn(3) == 0 {
		f := &c18File{Name: []string{"y.gold.v", "semantics.gold.v"}[rng.Intn(2)]}
		s := g.suffix()
		body := "(* autogenerated from semantics *)\nFrom Perennial.goose_lang Require Import prelude.\n\nDefinition testGold" + s + ": val :=\n  rec: \"testGold" + s + "\" <> :=\n    #true.\n"
		f.Decls = append(f.Decls, "Definition testGold"+s)
		if hostile == hGoldVFile {
			name := "testOnlyInGold" + s
			body += "\n(* copied Go source:\nfunc " + name + "() bool {\n\treturn true\n}\n*)\n"
			f.Decls = append(f.Decls, "line `func "+name+"() bool {`")
			g.attrib(name)
			g.note("func test… text in a .gold.v file")
		} else {
			d.Benign = append(d.Benign, ".gold.v file without func test… lines")
		}
		f.content = []byte(body)
		d.Files = append(d.Files, f)
	}
	// backup file: both modes must skip it
	if rng.Intn(3) == 0 {
		s := g.suffix()
		f := &c18File{Name: []string{"z.go~", "a.go~", "notes~"}[rng.Intn(3)]}
		f.content = []byte("package semantics\n\nfunc testBackup" + s + "() bool {\n\treturn true\n}\n")
		f.Decls = append(f.Decls, "func testBackup"+s+" (backup file)")
		g.note("test… in a ~ backup file")
		d.Benign = append(d.Benign, "backup file with func test… lines")
		d.Files = append(d.Files, f)
	}
	// non-Go file
	if hostile == hNonGoFile || rng.Intn(3) == 0 {
		f := &c18File{Name: []string{"README", "README.md", "notes.txt", "semantics.v"}[rng.Intn(4)]}
		s := g.suffix()
		body := "Semantics tests\n===============\n\nEach function named test... returns true.\n  func testIndentedExample" + s + "() bool {\n"
		f.Decls = append(f.Decls, "text (indented func test example)")
		if hostile == hNonGoFile {
			name := "testFromReadme" + s
			body += "\nExample:\n\nfunc " + name + "() bool {\n\treturn true\n}\n"
			f.Decls = append(f.Decls, "line `func "+name+"() bool {`")
			g.attrib(name)
			g.note("func test… text in a non-Go file")
		} else {
			d.Benign = append(d.Benign, "non-Go file without line-start func test…")
		}
		f.content = []byte(body)
		d.Files = append(d.Files, f)
	}
	if rng.Intn(5) == 0 {
		d.Benign = append(d.Benign, "sub-directory")
		d.Files = append(d.Files, &c18File{Name: "sub/notes.txt", content: []byte("func testInSubdir() bool {\n"), Decls: []string{"line `func testInSubdir() bool {` (file in a sub-directory)"}})
	}
	for k, v := range d.funcsByClass {
		if v > 0 && (k == "method named test…" || k == "disabled_test" || k == "capitalised Test…" || k == "var/type named test…" || k == "line comment with func test text" || k == "string literal with func test text" || k == "block comment without line-start func") {
			d.Benign = append(d.Benign, k)
		}
	}
	sort.Strings(d.Benign)
	sort.Slice(d.Files, func(i, j int) bool { return d.Files[i].Name < d.Files[j].Name })
	sort.Strings(d.AttribTokens)
	return d, nil
}
