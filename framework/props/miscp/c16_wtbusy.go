package miscp

import (
	"encoding/json"
	"fmt"
	"os"
	"regexp"
	"sort"
	"strconv"
	"strings"
	"sync"
	"sync/atomic"
	"time"

	"verif/core"
	"verif/props"

	"github.com/goose-lang/goose/machine"
)

// WaitTimeout, workload dimension "who holds the Cond's lock at the instant the
// timeout expires" (waittimeout_busy_* keys).
//
// Every other WaitTimeout workload leaves the lock free at the expiry instant, or
// has its holder Signal. Here a third party has the lock when the timer fires and
// gives it back WITHOUT signalling: the expiry is then the only wakeup the caller
// will ever get, and the call must still return (holding the lock) once the lock
// is free again.
//
//   locker kind   sync.Mutex | sync.RWMutex (write side) | RWMutex.RLocker() |
//                 a counting wrapper over a Mutex that offers TryLock | the same
//                 without TryLock | a counting wrapper over an RWMutex with TryLock
//   holder        nobody | one silent holder | two / three silent holders in a
//                 row (the next one queues for the lock before the previous one
//                 leaves) | one silent READER (RWMutex kinds) | a holder that
//                 Signals once per waiter | a holder that Broadcasts
//   timeout       0, 1, 5, 20 ms            waiters 1, 2, 3 (equal or staggered timeouts)
//
// How the lock is made busy at the expiry without relying on timing: every waiter
// announces, while it holds the lock, that it is about to call WaitTimeout; the
// next participant then asks for the lock, which it can only get once that waiter
// is parked. The first holder therefore owns the lock from the moment the last
// waiter parks. With the counting wrappers the last holder keeps the lock until
// it has SEEN one lock attempt per waiter made by a goroutine that is neither a
// waiter nor a holder (that is WaitTimeout's own timer goroutine arriving at the
// busy lock) — "busy at expiry" is then an observed fact, not a hope. With the
// plain sync kinds, whose calls cannot be observed, the holders keep the lock
// until a margin after the last expiry (wall-clock is used to drive the scenario
// and is recorded as evidence; it never decides).
//
// "Never returns" is decided without a clock. A scenario runs in a child process
// whose only goroutines are the scenario's: waiters, holders (which always finish),
// the main goroutine blocked on the waiters' result channel, and whatever
// WaitTimeout starts. A lost wakeup leaves every one of them blocked and the Go
// runtime itself ends the process with "fatal error: all goroutines are asleep -
// deadlock!" — with machine.WaitTimeout on a parked goroutine's stack. That report
// is the refuting observation; a parent watchdog (minutes) only yields
// "inconclusive".
//
// On return, per waiter: the lock is owned (a TryLock from another goroutine on
// the underlying lock is refused; Unlock of an unowned lock is a fatal error of
// the runtime and surfaces as a dead process), and the return is ordered after
// every holder's release — checked on a logical event counter (acquire < return <
// release for some holder would mean the call returned into someone else's
// critical section).

func init() {
	props.Children["c16-wt-busy"] = c16WtBusyChild
}

const (
	blMutex      = "sync.Mutex"
	blRW         = "sync.RWMutex"
	blRLocker    = "RWMutex.RLocker"
	blProbedTry  = "counting-mutex-with-TryLock"
	blProbedNoTL = "counting-mutex-without-TryLock"
	blProbedRW   = "counting-rwmutex-with-TryLock"

	hpNone      = "nobody"
	hpSilent1   = "one-silent-holder"
	hpSilent2   = "two-silent-holders-in-a-row"
	hpSilent3   = "three-silent-holders-in-a-row"
	hpReader    = "one-silent-reader"
	hpSignal    = "holder-signals"
	hpBroadcast = "holder-broadcasts"

	wtBusySigPart = "/lock-busy-at-expiry/"
)

var (
	wtBusyLockers = []string{blMutex, blRW, blRLocker, blProbedTry, blProbedNoTL, blProbedRW}
	wtBusyHolders = []string{hpNone, hpSilent1, hpSilent2, hpSilent3, hpReader, hpSignal, hpBroadcast}
)

type wtBusy struct {
	Idx       int    `json:"idx"`
	Locker    string `json:"locker"`
	Holder    string `json:"holder_pattern"`
	TimeoutMs uint64 `json:"timeout_ms"`
	Waiters   int    `json:"waiters"`
	Stagger   bool   `json:"waiter_timeouts_staggered_by_1ms"`
	MarginMs  int    `json:"holders_keep_lock_ms_past_last_expiry"`
	Rep       int    `json:"repetition"`
}

func (b wtBusy) timeoutOf(i int) uint64 {
	if b.Stagger {
		return b.TimeoutMs + uint64(i)
	}
	return b.TimeoutMs
}

func (b wtBusy) holders() int {
	switch b.Holder {
	case hpNone:
		return 0
	case hpSilent2:
		return 2
	case hpSilent3:
		return 3
	}
	return 1
}

func (b wtBusy) silent() bool {
	return b.Holder == hpSilent1 || b.Holder == hpSilent2 || b.Holder == hpSilent3 || b.Holder == hpReader
}

// wtBusyPlan is a function of (tier, seed) only: a full grid; the seed chooses the
// margin and whether the waiters' timeouts are staggered.
func wtBusyPlan(quick bool, seed int64) []wtBusy {
	timeouts := []uint64{0, 1, 5, 20}
	waiters := []int{1, 2, 3}
	reps := 1
	if !quick {
		timeouts = []uint64{0, 1, 2, 5, 10, 20, 50}
		waiters = []int{1, 2, 3, 4}
		reps = 4
	}
	rng := core.NewRng(seed, "c16-wt-busy")
	var out []wtBusy
	for rep := 0; rep < reps; rep++ {
		for _, lk := range wtBusyLockers {
			for _, hp := range wtBusyHolders {
				if hp == hpReader && lk != blRW && lk != blProbedRW {
					continue // a reader only excludes the waiter when the waiter's side is the write side
				}
				for _, t := range timeouts {
					for _, w := range waiters {
						out = append(out, wtBusy{Idx: len(out), Locker: lk, Holder: hp, TimeoutMs: t, Waiters: w,
							Stagger: w > 1 && rng.Intn(2) == 0, MarginMs: []int{5, 15, 30}[rng.Intn(3)], Rep: rep})
					}
				}
			}
		}
	}
	return out
}

// countingLocker forwards to an underlying lock and counts the lock attempts made
// by goroutines that did not register with it (the scenario's own goroutines do).
type countingLocker struct {
	lock    func()
	unlock  func()
	known   sync.Map // goroutine id → struct{}
	foreign atomic.Int64
}

func (l *countingLocker) note() {
	if _, ok := l.known.Load(gid()); !ok {
		l.foreign.Add(1)
	}
}
func (l *countingLocker) Lock()   { l.note(); l.lock() }
func (l *countingLocker) Unlock() { l.unlock() }

type countingTryLocker struct {
	countingLocker
	try func() bool
}

func (l *countingTryLocker) TryLock() bool { l.note(); return l.try() }

// busyLock is one locker kind: what the Cond gets, how a holder excludes the
// waiters, and how a probe goroutine sees whether the waiter's side is owned.
type busyLock struct {
	cl         sync.Locker
	holdLock   func()
	holdUnlock func()
	readLock   func() // nil: no reader side
	readUnlock func()
	probeFree  func() bool // true: the waiter's side of the lock could be taken right now
	counting   *countingLocker
}

func (k *busyLock) register() {
	if k.counting != nil {
		k.counting.known.Store(gid(), struct{}{})
	}
}

func (k *busyLock) foreign() int64 {
	if k.counting == nil {
		return -1
	}
	return k.counting.foreign.Load()
}

func newBusyLock(kind string) *busyLock {
	mu := &sync.Mutex{}
	rw := &sync.RWMutex{}
	muFree := func() bool {
		if mu.TryLock() {
			mu.Unlock()
			return true
		}
		return false
	}
	rwWriteFree := func() bool {
		if rw.TryLock() {
			rw.Unlock()
			return true
		}
		if rw.TryRLock() { // not write-owned
			rw.RUnlock()
			return true
		}
		return false
	}
	switch kind {
	case blMutex:
		return &busyLock{cl: mu, holdLock: mu.Lock, holdUnlock: mu.Unlock, probeFree: muFree}
	case blRW:
		return &busyLock{cl: rw, holdLock: rw.Lock, holdUnlock: rw.Unlock, readLock: rw.RLock, readUnlock: rw.RUnlock, probeFree: rwWriteFree}
	case blRLocker:
		return &busyLock{cl: rw.RLocker(), holdLock: rw.Lock, holdUnlock: rw.Unlock, probeFree: func() bool {
			if rw.TryLock() { // no reader at all
				rw.Unlock()
				return true
			}
			return false
		}}
	case blProbedTry:
		c := &countingTryLocker{countingLocker: countingLocker{lock: mu.Lock, unlock: mu.Unlock}, try: mu.TryLock}
		return &busyLock{cl: c, holdLock: mu.Lock, holdUnlock: mu.Unlock, probeFree: muFree, counting: &c.countingLocker}
	case blProbedNoTL:
		c := &countingLocker{lock: mu.Lock, unlock: mu.Unlock}
		return &busyLock{cl: c, holdLock: mu.Lock, holdUnlock: mu.Unlock, probeFree: muFree, counting: c}
	case blProbedRW:
		c := &countingTryLocker{countingLocker: countingLocker{lock: rw.Lock, unlock: rw.Unlock}, try: rw.TryLock}
		return &busyLock{cl: c, holdLock: rw.Lock, holdUnlock: rw.Unlock, readLock: rw.RLock, readUnlock: rw.RUnlock, probeFree: rwWriteFree, counting: &c.countingLocker}
	}
	return nil
}

type wtBusyWaiter struct {
	I              int     `json:"waiter"`
	TimeoutMs      uint64  `json:"timeout_ms"`
	RetSeq         int64   `json:"return_event"`
	TryLockRefused bool    `json:"trylock_by_another_goroutine_refused_at_return"`
	ElapsedMs      float64 `json:"returned_ms_after_entry"`
	RetRelExpMs    float64 `json:"returned_ms_relative_to_last_expiry"`
	start, ret     time.Time
}

type wtBusyHolder struct {
	J            int     `json:"holder"`
	AcqSeq       int64   `json:"acquire_event"`
	RelSeq       int64   `json:"release_event"`
	ForeignAtAcq int64   `json:"lock_attempts_by_other_goroutines_seen_at_acquire"`
	ForeignAtRel int64   `json:"lock_attempts_by_other_goroutines_seen_at_release"`
	AcqRelExpMs  float64 `json:"acquired_ms_relative_to_first_expiry"`
	RelRelExpMs  float64 `json:"released_ms_relative_to_last_expiry"`
	GaveUp       bool    `json:"saw_fewer_lock_attempts_than_waiters,omitempty"`
}

type wtBusyEnd struct {
	Idx     int            `json:"idx"`
	Waiters []wtBusyWaiter `json:"waiters"`
	Holders []wtBusyHolder `json:"holders"`
}

func sleepUntil(t time.Time) {
	if d := time.Until(t); d > 0 {
		time.Sleep(d)
	}
}

// runWtBusy runs one scenario on the calling goroutine (the child's main
// goroutine). It does not return if a waiter never comes back: that is left to
// the runtime's deadlock detector. No timer or goroutine of the scenario outlives
// the holders.
func runWtBusy(b wtBusy) wtBusyEnd {
	lk := newBusyLock(b.Locker)
	cond := sync.NewCond(lk.cl)
	var seq atomic.Int64
	end := wtBusyEnd{Idx: b.Idx}
	results := make(chan wtBusyWaiter, b.Waiters)
	held := make(chan time.Time, 1)
	var firstExp, lastExp time.Time
	for i := 0; i < b.Waiters; i++ {
		T := b.timeoutOf(i)
		go func(i int, T uint64) {
			lk.register()
			lk.cl.Lock()
			w := wtBusyWaiter{I: i, TimeoutMs: T, start: time.Now()}
			held <- w.start // still holding the lock: whoever asks for it next gets it once this call is parked
			machine.WaitTimeout(cond, T)
			w.RetSeq = seq.Add(1)
			w.ret = time.Now()
			pr := make(chan bool, 1)
			go func() { pr <- lk.probeFree() }()
			w.TryLockRefused = !<-pr
			lk.cl.Unlock() // a fatal error of the runtime if the lock is not owned
			w.ElapsedMs = ms(w.ret.Sub(w.start))
			results <- w
		}(i, T)
		start := <-held
		exp := start.Add(time.Duration(T) * time.Millisecond)
		if i == 0 || exp.Before(firstExp) {
			firstExp = exp
		}
		if i == 0 || exp.After(lastExp) {
			lastExp = exp
		}
	}
	n := b.holders()
	end.Holders = make([]wtBusyHolder, n)
	acquired := make([]chan struct{}, n)
	for j := range acquired {
		acquired[j] = make(chan struct{})
	}
	t0 := time.Now()
	window := lastExp.Sub(t0) + time.Duration(b.MarginMs)*time.Millisecond
	var hwg sync.WaitGroup
	for j := 0; j < n; j++ {
		hwg.Add(1)
		go func(j int) {
			defer hwg.Done()
			lk.register()
			if j > 0 {
				<-acquired[j-1] // the previous holder has the lock: queue behind it
			}
			lock, unlock := lk.holdLock, lk.holdUnlock
			if b.Holder == hpReader {
				lock, unlock = lk.readLock, lk.readUnlock
			}
			lock()
			h := wtBusyHolder{J: j, AcqSeq: seq.Add(1), ForeignAtAcq: lk.foreign()}
			acqAt := time.Now()
			close(acquired[j])
			sleepUntil(t0.Add(window * time.Duration(j+1) / time.Duration(n)))
			if j == n-1 && lk.counting != nil {
				// keep the lock until WaitTimeout's own goroutines have been seen asking for it. One attempt
				// per waiter is the usual count, but a waiter that another waiter's expiry woke up first
				// never gets one: the holder then leaves 300 ms after the last expiry (this costs coverage
				// of that scenario only — it is counted — and decides nothing)
				giveUp := t0.Add(window + 300*time.Millisecond)
				for lk.foreign() < int64(b.Waiters) {
					if time.Now().After(giveUp) {
						h.GaveUp = true
						break
					}
					time.Sleep(200 * time.Microsecond)
				}
			}
			switch b.Holder {
			case hpSignal:
				for i := 0; i < b.Waiters; i++ {
					cond.Signal()
				}
			case hpBroadcast:
				cond.Broadcast()
			}
			h.ForeignAtRel = lk.foreign()
			relAt := time.Now()
			h.RelSeq = seq.Add(1)
			unlock()
			h.AcqRelExpMs = ms(acqAt.Sub(firstExp))
			h.RelRelExpMs = ms(relAt.Sub(lastExp))
			end.Holders[j] = h
		}(j)
	}
	hwg.Wait()
	for i := 0; i < b.Waiters; i++ {
		w := <-results // all goroutines asleep here = a wakeup was lost
		w.RetRelExpMs = ms(w.ret.Sub(lastExp))
		end.Waiters = append(end.Waiters, w)
	}
	sort.Slice(end.Waiters, func(x, y int) bool { return end.Waiters[x].I < end.Waiters[y].I })
	return end
}

// c16WtBusyChild: vcheck child c16-wt-busy <quick|thorough> <seed> <shard> <nshards> <first idx>
// stdout: "BEGIN <json scenario>", "END <json observations>", "DONE".
func c16WtBusyChild(args []string) int {
	if len(args) < 5 {
		fmt.Fprintln(os.Stderr, "c16-wt-busy: tier seed shard nshards first")
		return 2
	}
	seed, _ := strconv.ParseInt(args[1], 10, 64)
	shard, _ := strconv.Atoi(args[2])
	nsh, _ := strconv.Atoi(args[3])
	first, _ := strconv.Atoi(args[4])
	say := func(tag string, v interface{}) {
		b, _ := json.Marshal(v)
		os.Stdout.WriteString(tag + " " + string(b) + "\n")
	}
	for _, b := range wtBusyPlan(args[0] != "thorough", seed) {
		if b.Idx%nsh != shard || b.Idx < first {
			continue
		}
		say("BEGIN", b)
		say("END", runWtBusy(b))
	}
	os.Stdout.WriteString("DONE\n")
	return 0
}

var wtBusyNonSig = regexp.MustCompile(`[^a-z0-9]+`)

func c16WaitTimeoutBusy(r *core.Run) {
	self, err := os.Executable()
	if err != nil {
		r.Inconclusive("waittimeout-busy-no-self-executable")
		return
	}
	tier := "quick"
	if !r.Quick() {
		tier = "thorough"
	}
	plan := wtBusyPlan(r.Quick(), r.Seed)
	began := time.Now()
	defer func() { r.Set("waittimeout_busy_wall_s", time.Since(began).Seconds()) }()
	const nsh = 8
	type pend struct {
		sig, what string
		detail    interface{}
	}
	pends := make([][]pend, nsh)
	var mu sync.Mutex
	outcomes := map[string]int64{} // locker / holder / outcome
	observedBusy := map[string]int64{}
	maxRetAfterRelease := 0.0
	var cmds []string
	note := func(b wtBusy, outcome string) {
		mu.Lock()
		outcomes[b.Locker+" / "+b.Holder+" / "+outcome]++
		mu.Unlock()
		r.Count("waittimeout_busy_scenarios_by_outcome/"+outcome, 1)
	}
	scenario := func(b *wtBusy) string {
		if b == nil {
			return ""
		}
		return fmt.Sprintf("%d waiter(s) call WaitTimeout(cond, %d ms%s) on a Cond over %s; at the expiry the lock is held by: %s",
			b.Waiters, b.TimeoutMs, map[bool]string{true: " +1 ms per waiter", false: ""}[b.Stagger], b.Locker, b.Holder)
	}
	core.Parallel(nsh, nsh, func(sh int) {
		first := 0
		for restart := 0; restart < 200; restart++ {
			args := []string{"child", "c16-wt-busy", tier, strconv.FormatInt(r.Seed, 10), strconv.Itoa(sh), strconv.Itoa(nsh), strconv.Itoa(first)}
			if restart < 2 {
				mu.Lock()
				cmds = append(cmds, self+" "+strings.Join(args, " "))
				mu.Unlock()
			}
			res := core.Exec(r.Scratch, nil, 10*time.Minute, "", self, args...)
			r.Count("waittimeout_busy_child_processes", 1)
			var cur *wtBusy
			done := false
			for _, l := range strings.Split(res.Stdout, "\n") {
				switch {
				case strings.HasPrefix(l, "BEGIN "):
					var b wtBusy
					if json.Unmarshal([]byte(l[6:]), &b) == nil {
						cur = &b
					}
				case strings.HasPrefix(l, "END "):
					var e wtBusyEnd
					if json.Unmarshal([]byte(l[4:]), &e) != nil || cur == nil || cur.Idx != e.Idx {
						continue
					}
					b := *cur
					cur = nil
					r.Eval(1)
					r.Count("waittimeout_busy_scenarios_completed", 1)
					r.Distinct(fmt.Sprintf("wt-busy/%s/%s/%d/%d", b.Locker, b.Holder, b.TimeoutMs, b.Waiters))
					bad := ""
					for _, w := range e.Waiters {
						r.Count("waittimeout_lock_held_observations", 1)
						r.Count("waittimeout_busy_waiters_returned", 1)
						if !w.TryLockRefused {
							bad = fmt.Sprintf("waiter %d returned from WaitTimeout(cond, %d) while a TryLock from another goroutine on the underlying lock succeeded", w.I, w.TimeoutMs)
						}
						for _, h := range e.Holders {
							r.Count("waittimeout_busy_return_ordered_against_holder_section", 1)
							if h.AcqSeq < w.RetSeq && w.RetSeq < h.RelSeq {
								bad = fmt.Sprintf("waiter %d returned from WaitTimeout(cond, %d) (event %d) inside the critical section of holder %d (acquired at event %d, released at event %d)", w.I, w.TimeoutMs, w.RetSeq, h.J, h.AcqSeq, h.RelSeq)
							}
						}
					}
					seen, gaveUp := false, false
					for _, h := range e.Holders {
						if h.ForeignAtRel > h.ForeignAtAcq {
							seen = true
						}
						gaveUp = gaveUp || h.GaveUp
						if h.ForeignAtRel >= 0 {
							// evidence only: how long after the last holder's release the last waiter was back
						}
					}
					if len(e.Holders) > 0 && len(e.Waiters) > 0 {
						last := e.Holders[len(e.Holders)-1]
						for _, w := range e.Waiters {
							// both relative to the last expiry on the clock of the same process; recorded, never judged
							d := w.RetRelExpMs - last.RelRelExpMs
							mu.Lock()
							if b.silent() && d > maxRetAfterRelease {
								maxRetAfterRelease = d
							}
							mu.Unlock()
						}
					}
					if b.silent() {
						switch {
						case seen:
							mu.Lock()
							observedBusy[b.Locker+" / "+b.Holder]++
							mu.Unlock()
							r.Count("waittimeout_busy_lock_attempt_of_waittimeout_seen_while_a_silent_holder_had_the_lock_and_every_call_returned", 1)
						case e.Holders[0].ForeignAtAcq < 0 && e.Holders[0].AcqRelExpMs < 0 && e.Holders[len(e.Holders)-1].RelRelExpMs > 0:
							r.Count("waittimeout_busy_plain_lock_held_from_before_first_to_after_last_expiry_by_the_clock_and_every_call_returned", 1)
						}
					}
					if gaveUp {
						r.Count("waittimeout_busy_holder_saw_fewer_lock_attempts_than_waiters", 1)
					}
					if bad != "" {
						note(b, "lock-not-held-at-return")
						pends[sh] = append(pends[sh], pend{"waittimeout-lock-not-held-at-return" + wtBusySigPart + b.Locker + "/" + b.Holder,
							scenario(&b) + ": " + bad, map[string]interface{}{"lock_busy_at_expiry_scenario": b, "observed": e}})
					} else {
						note(b, "every-waiter-returned-holding-the-lock")
					}
					if b.Idx%41 == 0 {
						r.Sample(60, map[string]interface{}{"class": "lock-busy-at-expiry", "scenario": b, "observed": e})
					}
				case l == "DONE":
					done = true
				}
			}
			if done {
				return
			}
			cmd := self + " " + strings.Join(args, " ")
			detail := map[string]interface{}{"lock_busy_at_expiry_scenario": cur, "child_exit": res.Code, "child_stderr": headStr(res.Stderr, 6000), "command": cmd,
				"replay": "each waiter in turn: L.Lock(); announce; WaitTimeout(cond, timeout). Then the holders: Lock (granted once the last waiter is parked), keep the lock past the expiry, Unlock without Signal/Broadcast (unless the pattern says so). The main goroutine waits for the holders, then for the waiters. No other goroutine or timer in the process."}
			switch {
			case res.TimedOut:
				r.Inconclusive("waittimeout-busy-child-watchdog")
				return
			case cur == nil:
				r.Inconclusive("waittimeout-busy-child-failed")
				fmt.Fprintf(os.Stderr, "c16 wt-busy child shard %d: exit %d: %s\n", sh, res.Code, headStr(res.Stderr, 400))
				return
			case strings.Contains(res.Stderr, c16DeadlockMsg):
				if !strings.Contains(res.Stderr, "machine.WaitTimeout") {
					// every goroutine asleep, none of them inside WaitTimeout: the scenario driver itself is stuck
					r.Inconclusive("waittimeout-busy-harness-deadlock")
					fmt.Fprintf(os.Stderr, "c16 wt-busy: deadlock without WaitTimeout on a stack (%s): %s\n", scenario(cur), headStr(res.Stderr, 1500))
					break
				}
				r.Eval(1)
				r.Count("waittimeout_busy_runtime_deadlock_reports", 1)
				note(*cur, "never-returned(runtime-deadlock-report)")
				pends[sh] = append(pends[sh], pend{"waittimeout-never-returns" + wtBusySigPart + cur.Locker + "/" + cur.Holder,
					fmt.Sprintf("%s, released without Signal/Broadcast reaching the waiter: a call never returns — observed as the Go runtime's '%s' in a process whose only goroutines are the waiters, the (finished) holders, the main goroutine waiting for the waiters and those WaitTimeout started: %s",
						scenario(cur), c16DeadlockMsg, blockedSummary(res.Stderr)), detail})
			default:
				cls := "exit-" + strconv.Itoa(res.Code)
				if m := c16FatalRe.FindStringSubmatch(res.Stderr); m != nil {
					cls = strings.Trim(wtBusyNonSig.ReplaceAllString(strings.ToLower(m[2]), "-"), "-")
					if len(cls) > 48 {
						cls = cls[:48]
					}
				}
				r.Eval(1)
				note(*cur, "process-died:"+cls)
				pends[sh] = append(pends[sh], pend{"waittimeout-process-died" + wtBusySigPart + cur.Locker + "/" + cur.Holder + "/" + cls,
					fmt.Sprintf("%s: the process died (exit %d): %s", scenario(cur), res.Code, headStr(res.Stderr, 300)), detail})
			}
			first = cur.Idx + 1
		}
	})
	for _, ps := range pends {
		for _, p := range ps {
			r.Violate(p.sig, p.what, p.detail)
		}
	}
	r.Set("waittimeout_busy_scenarios_planned", len(plan))
	r.Set("waittimeout_busy_lockers", wtBusyLockers)
	r.Set("waittimeout_busy_holder_patterns", wtBusyHolders)
	r.Set("waittimeout_busy_scenarios_by_locker_holder_outcome", outcomes)
	r.Set("waittimeout_busy_scenarios_with_observed_lock_attempt_under_a_silent_holder", observedBusy)
	r.Set("waittimeout_busy_max_ms_between_last_silent_holder_release_and_return_noted", maxRetAfterRelease)
	sort.Strings(cmds)
	r.Set("waittimeout_busy_child_commands", cmds)
}
