package miscp

import (
	"fmt"
	"os"
	"path/filepath"
	"strings"

	"verif/core"
)

// C18, workload dimension "spelling of the package path given to test_gen".
//
// "For any semantics package": how the directory is named and how the path to it
// is written is not part of the package. For plain generated packages the outputs
// for every spelling below must equal, byte for byte, the outputs for an identical
// copy under the plain path <root>/plain/semantics (test_gen's outputs do not
// mention the path; this is measured — path_spelling_outputs_mentioning_the_path —
// and any occurrence would be masked before comparing), and that reference lists
// exactly the tests go/parser finds.
//
//	the same directory written differently: absolute, relative, ./x, ., ../x,
//	  trailing slash, doubled slash, x/., x/../x, through a symlink to the directory,
//	  through a symlinked parent
//	identical copies under other names: with a space, [brackets], *, ?, backslash,
//	  {braces}, quotes, $, unicode, a leading dash (written ./-x and absolute: the
//	  tool documents no "--"), leading dot, dots inside, named like a Go file, a
//	  200-byte name, a 1500-byte path, and a parent directory with brackets
//
// Next to every copy whose name is a glob pattern lies a decoy package the pattern
// would match (other tests), so that both "matches nothing" and "matches something
// else" show.

const c18PathSig = "package-path-spelling/"

type c18Spelling struct {
	class string
	// place prepares what is needed below base (a directory private to the scenario's package)
	// and returns the working directory and the path argument; master is the plain copy.
	place func(base, master string, copyTo func(dst string) error, decoy func(dst string) error) (cwd, arg string, err error)
}

func c18CopyAs(name string, decoys ...string) func(base, master string, copyTo func(string) error, decoy func(string) error) (string, string, error) {
	return func(base, master string, copyTo func(string) error, decoy func(string) error) (string, string, error) {
		for _, d := range decoys {
			if err := decoy(filepath.Join(base, d)); err != nil {
				return "", "", err
			}
		}
		p := filepath.Join(base, name)
		return base, p, copyTo(p)
	}
}

func c18SamePlace(f func(base, master string) (cwd, arg string, err error)) func(string, string, func(string) error, func(string) error) (string, string, error) {
	return func(base, master string, _ func(string) error, _ func(string) error) (string, string, error) {
		return f(base, master)
	}
}

var c18Spellings = []c18Spelling{
	{"absolute", c18SamePlace(func(b, m string) (string, string, error) { return b, m, nil })},
	{"relative", c18SamePlace(func(b, m string) (string, string, error) { return filepath.Dir(m), filepath.Base(m), nil })},
	{"dot-slash-relative", c18SamePlace(func(b, m string) (string, string, error) { return filepath.Dir(m), "./" + filepath.Base(m), nil })},
	{"dot", c18SamePlace(func(b, m string) (string, string, error) { return m, ".", nil })},
	{"dotdot-relative", c18SamePlace(func(b, m string) (string, string, error) {
		return b, "../" + filepath.Base(filepath.Dir(m)) + "/" + filepath.Base(m), os.MkdirAll(b, 0o755)
	})},
	{"trailing-slash", c18SamePlace(func(b, m string) (string, string, error) { return b, m + "/", nil })},
	{"relative-trailing-slash", c18SamePlace(func(b, m string) (string, string, error) { return filepath.Dir(m), filepath.Base(m) + "/", nil })},
	{"doubled-slash", c18SamePlace(func(b, m string) (string, string, error) { return b, filepath.Dir(m) + "//" + filepath.Base(m), nil })},
	{"trailing-slash-dot", c18SamePlace(func(b, m string) (string, string, error) { return b, m + "/.", nil })},
	{"through-dotdot-inside", c18SamePlace(func(b, m string) (string, string, error) { return b, m + "/../" + filepath.Base(m), nil })},
	{"symlink-to-the-directory", c18SamePlace(func(b, m string) (string, string, error) {
		return b, filepath.Join(b, "link"), os.Symlink(m, filepath.Join(b, "link"))
	})},
	{"symlink-to-the-directory-trailing-slash", c18SamePlace(func(b, m string) (string, string, error) {
		return b, filepath.Join(b, "link") + "/", os.Symlink(m, filepath.Join(b, "link"))
	})},
	{"relative-symlink-to-the-directory", c18SamePlace(func(b, m string) (string, string, error) {
		rel, err := filepath.Rel(b, m)
		if err != nil {
			return "", "", err
		}
		return b, "link", os.Symlink(rel, filepath.Join(b, "link"))
	})},
	{"through-a-symlinked-parent", c18SamePlace(func(b, m string) (string, string, error) {
		return b, filepath.Join(b, "parentlink", filepath.Base(m)), os.Symlink(filepath.Dir(m), filepath.Join(b, "parentlink"))
	})},
	{"name-with-space", c18CopyAs("my semantics pkg")},
	{"name-with-brackets", c18CopyAs("semantics[v2]", "semanticsv", "semantics2")},
	{"name-with-star", c18CopyAs("sem*x", "semQQx", "semx")},
	{"name-with-question-mark", c18CopyAs("sem?x", "semQx")},
	{"name-with-backslash", c18CopyAs(`back\slash`, "backslash")},
	{"name-with-braces-and-caret", c18CopyAs("{a,b}^c")},
	{"name-with-quotes-and-dollar", c18CopyAs(`it's "$HOME"`)},
	{"name-with-unicode", c18CopyAs("sémantïque-语义-λ")},
	{"name-with-leading-dash-written-dot-slash", func(base, master string, copyTo func(string) error, _ func(string) error) (string, string, error) {
		return base, "./-semantics", copyTo(filepath.Join(base, "-semantics"))
	}},
	{"name-with-leading-dash-absolute", c18CopyAs("-go")},
	{"name-with-leading-dot", c18CopyAs(".semantics")},
	{"name-with-dots", c18CopyAs("sem.v2.1..x")},
	{"name-like-a-go-file", c18CopyAs("semantics.go")},
	{"name-like-a-test-file", c18CopyAs("semantics_test.go")},
	{"name-200-bytes", c18CopyAs(strings.Repeat("longname", 25))},
	{"path-1500-bytes", c18CopyAs(strings.Repeat(strings.Repeat("d", 99)+"/", 15) + "semantics")},
	{"parent-with-brackets", c18CopyAs("[v2]/semantics", "v/semantics", "2/semantics")},
	{"parent-with-star-relative", func(base, master string, copyTo func(string) error, decoy func(string) error) (string, string, error) {
		if err := decoy(filepath.Join(base, "pkgsX", "semantics")); err != nil {
			return "", "", err
		}
		return base, "pkgs*/semantics", copyTo(filepath.Join(base, "pkgs*", "semantics"))
	}},
}

func c18PathSpellings(r *core.Run, tg string) {
	nPkg := r.Pick(4, 40)
	root := filepath.Join(r.Scratch, "c18path")
	pends := make([][]c18Pend, nPkg)
	decoySrc := "package semantics\n\nfunc testDecoyInAnotherDirectory() bool {\n\treturn true\n}\n\nfunc failing_testDecoyF() bool {\n\treturn false\n}\n"
	core.Parallel(nPkg, 16, func(pi int) {
		fail := func(reason string, err interface{}) {
			r.Inconclusive(reason)
			fmt.Fprintln(os.Stderr, "C18 path-spelling:", reason, pi, err)
		}
		d, err := genC18Dir(r.Seed, 93000+pi, "")
		if err != nil {
			fail("path-spelling-generator-error", err)
			return
		}
		pdir := filepath.Join(root, fmt.Sprintf("q%03d", pi))
		master := filepath.Join(pdir, "plain", "semantics")
		for _, f := range d.Files {
			if err := core.WriteFile(filepath.Join(master, f.Name), string(f.content)); err != nil {
				fail("scratch-write-failed", err)
				return
			}
		}
		exp, err := c18ExpNames(master)
		if err != nil {
			fail("oracle-parse-error", err)
			return
		}
		ref := map[string]string{}
		for _, m := range c18Modes {
			res := c18Run(pdir, 0, tg, m.flag, master)
			r.Count("test_gen_invocations", 1)
			if res.Code != 0 || res.TimedOut {
				fail("path-spelling-reference-generation-failed", firstLine(res.Stderr))
				return
			}
			ref[m.flag] = res.Stdout
			names, un := c18Names(m.flag, res.Stdout)
			r.Count("path_spelling_references_checked_against_go_parser", 1)
			if un != 0 || strings.Join(names, " ") != strings.Join(exp, " ") {
				pends[pi] = append(pends[pi], c18Pend{c18PathSig + "plain-absolute-path:" + strings.TrimPrefix(m.flag, "-") + "-output-lists-other-tests-than-the-package-has",
					fmt.Sprintf("test_gen %s <plain absolute path>: %s", m.flag, c18DescribeStale(m.flag, res.Stdout, exp)), map[string]interface{}{"output": c18Clip([]byte(res.Stdout))}})
			}
			if strings.Contains(res.Stdout, master) || strings.Contains(res.Stdout, filepath.Dir(master)) {
				r.Count("path_spelling_outputs_mentioning_the_path", 1)
			}
		}
		copyTo := func(dst string) error { return c18CopyDir(master, dst) }
		decoy := func(dst string) error { return core.WriteFile(filepath.Join(dst, "decoy.go"), decoySrc) }
		for si, sp := range c18Spellings {
			base := filepath.Join(pdir, fmt.Sprintf("s%02d", si))
			if err := os.MkdirAll(base, 0o755); err != nil {
				fail("scratch-write-failed", err)
				continue
			}
			cwd, arg, err := sp.place(base, master, copyTo, decoy)
			if err != nil {
				// the file system refuses the name: nothing to run
				r.Count("path_spelling_not_constructible/"+sp.class, 1)
				continue
			}
			for _, m := range c18Modes {
				mname := strings.TrimPrefix(m.flag, "-")
				res := c18Run(cwd, 0, tg, m.flag, arg)
				r.Count("test_gen_invocations", 1)
				if res.TimedOut {
					fail("test_gen-watchdog", nil)
					continue
				}
				r.Eval(1)
				r.Distinct(fmt.Sprintf("pathspell/%s/%s/%d", sp.class, mname, pi))
				r.Count("path_spelling_runs/"+sp.class, 1)
				shown := arg
				if len(shown) > 300 {
					shown = shown[:120] + fmt.Sprintf("…[%d bytes]…", len(shown)-240) + shown[len(shown)-120:]
				}
				shown = strings.Replace(shown, pdir, "<root>", 1)
				detail := map[string]interface{}{"spelling": sp.class, "path_argument": shown, "working_directory": strings.Replace(cwd, pdir, "<root>", 1), "mode": m.flag, "exit": res.Code, "stderr": firstLine(res.Stderr),
					"package": fmt.Sprintf("generated directory %d", 93000+pi), "expected_tests": exp}
				if res.Code != 0 {
					pends[pi] = append(pends[pi], c18Pend{c18PathSig + sp.class + ":" + mname + "-test_gen-exit-nonzero",
						fmt.Sprintf("test_gen %s %q (spelling class %s) exited %d, while the identical package under a plain absolute path is generated fine: %s", m.flag, shown, sp.class, res.Code, firstLine(res.Stderr)), detail})
					continue
				}
				got := res.Stdout
				want := ref[m.flag]
				// outputs do not mention the path; if they ever do, mask it on both sides
				if strings.HasPrefix(arg, "/") {
					for _, p := range []string{arg, filepath.Clean(arg)} {
						if strings.Contains(got, p) {
							got = strings.ReplaceAll(got, p, "<PATH>")
							want = strings.ReplaceAll(want, master, "<PATH>")
						}
					}
				}
				r.Count("path_spelling_outputs_compared_with_plain_copy", 1)
				if got != want {
					detail["output"] = c18Clip([]byte(res.Stdout))
					detail["output_for_plain_copy"] = c18Clip([]byte(ref[m.flag]))
					pends[pi] = append(pends[pi], c18Pend{c18PathSig + sp.class + ":" + mname + "-output-differs-from-plain-named-copy",
						fmt.Sprintf("test_gen %s %q (spelling class %s) exited 0, but its output (%d bytes) is not the output for the identical package under a plain absolute path (%d bytes): %s",
							m.flag, shown, sp.class, len(res.Stdout), len(ref[m.flag]), c18DescribeStale(m.flag, res.Stdout, exp)), detail})
				}
			}
		}
		r.Count("path_spelling_packages", 1)
	})
	for _, ps := range pends {
		for _, p := range ps {
			r.Violate(p.sig, p.what, p.detail)
		}
	}
	r.Set("path_spelling_classes", len(c18Spellings))
}
