package miscp

import (
	"bytes"
	"encoding/json"
	"fmt"
	"go/ast"
	"go/parser"
	"go/token"
	"os"
	"path/filepath"
	"regexp"
	"sort"
	"strings"
	"sync"
	"time"

	"verif/core"
	"verif/props"
)

// C18: black-box monitor of the test_gen binary built from /repo's working
// tree. For generated `package semantics` directories the expected test list
// is computed independently with go/parser and compared with what `-coq` and
// `-go` print; the generated Go file is compiled next to the package.

func init() {
	props.Registry["C18"] = props.Prop{Level: "exploration", Run: runC18}
}

const c18ScanLimit = 64 * 1024 // bufio.MaxScanTokenSize: only used to attribute the long-line class

type c18Test struct {
	Name          string `json:"name"`
	Failing       bool   `json:"failing"`
	File          string `json:"file"`
	afterLongLine bool
}

// c18ExpectedOfSource lists the top-level functions named test… / failing_test…
// of one Go source file that have the signature of a test (c18IsTestSignature),
// in source order.
func c18ExpectedOfSource(name string, src []byte, markLong bool) ([]c18Test, error) {
	fset := token.NewFileSet()
	f, err := parser.ParseFile(fset, name, src, parser.SkipObjectResolution)
	if err != nil {
		return nil, err
	}
	longLine := -1
	if markLong {
		for i, l := range bytes.Split(src, []byte("\n")) {
			if len(l) >= c18ScanLimit {
				longLine = i + 1
				break
			}
		}
	}
	var out []c18Test
	for _, d := range f.Decls {
		fd, ok := d.(*ast.FuncDecl)
		if !ok || !c18IsTestSignature(fd) {
			continue
		}
		n := fd.Name.Name
		var t c18Test
		switch {
		case strings.HasPrefix(n, "failing_test") && len(n) > len("failing_test"):
			t = c18Test{Name: n, Failing: true, File: name}
		case strings.HasPrefix(n, "test") && len(n) > len("test"):
			t = c18Test{Name: n, File: name}
		default:
			continue
		}
		if longLine > 0 && fset.Position(fd.Pos()).Line >= longLine {
			t.afterLongLine = true
		}
		out = append(out, t)
	}
	return out, nil
}

// c18IsTestSignature is the rule for WHICH functions named test… / failing_test… are test
// functions: exactly those the two generated tests can run. The Go test is
// `suite.Equal(true, f())`, the Coq test `f #() ~~> #true`: f is called without arguments and
// without type arguments and its single result is compared with the boolean true. So: a
// top-level function without receiver, without type parameters, without parameters (a variadic
// parameter is a parameter: the translation takes a slice), with exactly one result, of the
// predeclared type bool (named or parenthesised as the author likes). Anything else — a
// parameter, no / two results, a result of another type, also of a defined type over bool
// (testify's Equal compares it unequal to true) — cannot be a test and gets none.
func c18IsTestSignature(fd *ast.FuncDecl) bool {
	if fd.Recv != nil || fd.Type.TypeParams != nil {
		return false
	}
	if fd.Type.Params != nil && len(fd.Type.Params.List) > 0 {
		return false
	}
	res := fd.Type.Results
	if res == nil || len(res.List) != 1 || len(res.List[0].Names) > 1 {
		return false
	}
	t := res.List[0].Type
	for {
		p, ok := t.(*ast.ParenExpr)
		if !ok {
			break
		}
		t = p.X
	}
	id, ok := t.(*ast.Ident)
	return ok && id.Name == "bool"
}

// c18Expected reads the directory as written on disk: files in name order
// that are Go sources and not _test.go / .gold.v / ~ backups.
func c18Expected(dir string) ([]c18Test, error) {
	ents, err := os.ReadDir(dir)
	if err != nil {
		return nil, err
	}
	var names []string
	for _, e := range ents {
		names = append(names, e.Name())
	}
	sort.Strings(names)
	var out []c18Test
	for _, n := range names {
		if strings.HasSuffix(n, "~") || strings.HasSuffix(n, ".gold.v") || strings.HasSuffix(n, "_test.go") || !strings.HasSuffix(n, ".go") {
			continue
		}
		if strings.HasPrefix(n, "_") || strings.HasPrefix(n, ".") {
			continue // the go tool ignores such files: not part of the package
		}
		src, err := os.ReadFile(filepath.Join(dir, n))
		if err != nil {
			return nil, err
		}
		ts, err := c18ExpectedOfSource(n, src, false)
		if err != nil {
			return nil, err
		}
		out = append(out, ts...)
	}
	return out, nil
}

var (
	c18GoBlock  = regexp.MustCompile(`(?m)^func \(suite \*GoTestSuite\) (Test[^\s(]*)\(\) \{\n(?:[^\n}][^\n]*\n)*?\tsuite\.Equal\(true, ([^\s()]+)\(\)\)\n\}$`)
	c18GoHead   = regexp.MustCompile(`(?m)^func \(suite \*GoTestSuite\) Test`)
	c18CoqLine  = regexp.MustCompile(`^(Fail )?Example (\S+)_ok : (\S+) #\(\) ~~> #true := t\.$`)
	c18CoqMaybe = regexp.MustCompile(`\bExample\b`)
)

type c18GoEntry struct {
	Method string `json:"method"`
	Callee string `json:"calls"`
}

type c18CoqEntry struct {
	Example string `json:"example"`
	Fn      string `json:"function"`
	Fail    bool   `json:"fail"`
}

func c18ParseGo(out string) (es []c18GoEntry, unparsed int) {
	for _, m := range c18GoBlock.FindAllStringSubmatch(out, -1) {
		es = append(es, c18GoEntry{m[1], m[2]})
	}
	return es, len(c18GoHead.FindAllString(out, -1)) - len(es)
}

func c18ParseCoq(out string) (es []c18CoqEntry, unparsed int) {
	for _, line := range strings.Split(out, "\n") {
		line = strings.TrimSuffix(line, "\r")
		if m := c18CoqLine.FindStringSubmatch(line); m != nil {
			es = append(es, c18CoqEntry{Example: m[2], Fn: m[3], Fail: m[1] != ""})
		} else if c18CoqMaybe.MatchString(line) && !strings.HasPrefix(line, "(*") {
			unparsed++
		}
	}
	return
}

// c18Diff describes how an observed name list differs from the expected one.
func c18Diff(which string, exp, got []string) []string {
	var kinds []string
	ec, gc := map[string]int{}, map[string]int{}
	for _, n := range exp {
		ec[n]++
	}
	for _, n := range got {
		gc[n]++
	}
	missing, extra, dup := false, false, false
	for n := range ec {
		if gc[n] == 0 {
			missing = true
		}
	}
	for n, c := range gc {
		if ec[n] == 0 {
			extra = true
		} else if c > ec[n] {
			dup = true
		}
	}
	if missing {
		kinds = append(kinds, which+"-tests-missing")
	}
	if extra {
		kinds = append(kinds, which+"-tests-for-nonexistent-functions")
	}
	if dup {
		kinds = append(kinds, which+"-tests-duplicated")
	}
	if !missing && !extra && !dup && strings.Join(exp, " ") != strings.Join(got, " ") {
		kinds = append(kinds, which+"-order-differs")
	}
	return kinds
}

func c18Split(names []string, attrib map[string]bool) (rest, att []string) {
	for _, n := range names {
		if attrib[n] {
			att = append(att, n)
		} else {
			rest = append(rest, n)
		}
	}
	return
}

type c18Obs struct {
	Dir      *c18Dir       `json:"directory"`
	Expected []c18Test     `json:"expected_tests"`
	Go       []c18GoEntry  `json:"observed_go_tests"`
	Coq      []c18CoqEntry `json:"observed_coq_tests"`
	Compile  string        `json:"go_file_compiles,omitempty"`
	Errors   []string      `json:"compile_errors,omitempty"`
	Kinds    []string      `json:"discrepancies,omitempty"`
	goOut    string
	coqOut   string
	skip     bool
}

func (o *c18Obs) replayDetail() map[string]interface{} {
	files := map[string]string{}
	for _, f := range o.Dir.Files {
		c := string(f.content)
		if len(c) > 6000 {
			c = c[:3000] + fmt.Sprintf("\n…[%d bytes elided]…\n", len(c)-6000) + c[len(c)-3000:]
		}
		files[f.Name] = c
	}
	return map[string]interface{}{"observation": o, "files": files, "go_output": o.goOut, "coq_output": o.coqOut}
}

const c18PlainSig = "plain-directory:"

// judge compares the three lists. Names attributable to the directory's single
// hostile feature are judged separately (signature = the hostile class);
// everything else must agree exactly (signature = plain-directory:<kind>).
func (o *c18Obs) judge(r *core.Run) {
	d := o.Dir
	var expNames, goNames, coqNames []string
	failing := map[string]bool{}
	for _, t := range o.Expected {
		expNames = append(expNames, t.Name)
		failing[t.Name] = t.Failing
	}
	for _, e := range o.Go {
		goNames = append(goNames, e.Callee)
	}
	for _, e := range o.Coq {
		coqNames = append(coqNames, e.Fn)
	}
	r.Count("comparisons_expected_vs_go", 1)
	r.Count("comparisons_expected_vs_coq", 1)
	r.Count("comparisons_go_vs_coq", 1)
	expR, expA := c18Split(expNames, d.Attrib)
	goR, goA := c18Split(goNames, d.Attrib)
	coqR, coqA := c18Split(coqNames, d.Attrib)

	var plain, hostile []string
	plain = append(plain, c18Diff("go", expR, goR)...)
	plain = append(plain, c18Diff("coq", expR, coqR)...)
	if strings.Join(goR, " ") != strings.Join(coqR, " ") {
		plain = append(plain, "go-and-coq-disagree")
	}
	hostile = append(hostile, c18Diff("go", expA, goA)...)
	hostile = append(hostile, c18Diff("coq", expA, coqA)...)
	if strings.Join(goA, " ") != strings.Join(coqA, " ") {
		hostile = append(hostile, "go-and-coq-disagree")
	}
	// expected failures marked Fail, others not; an Example's name is unique
	seenEx := map[string]bool{}
	for _, e := range o.Coq {
		want, known := failing[e.Fn]
		if !known {
			want = strings.HasPrefix(e.Fn, "failing_")
		}
		kinds := &plain
		if d.Attrib[e.Fn] {
			kinds = &hostile
		}
		if e.Fail != want {
			if want {
				*kinds = append(*kinds, "coq-failing-test-not-marked-Fail")
			} else {
				*kinds = append(*kinds, "coq-passing-test-marked-Fail")
			}
		}
		if seenEx[e.Example] {
			*kinds = append(*kinds, "coq-duplicate-example-name")
		}
		seenEx[e.Example] = true
	}
	seenM := map[string]bool{}
	for _, e := range o.Go {
		if seenM[e.Method] {
			if d.Attrib[e.Callee] {
				hostile = append(hostile, "go-duplicate-test-method")
			} else {
				plain = append(plain, "go-duplicate-test-method")
			}
		}
		seenM[e.Method] = true
	}
	// compile result
	if o.Compile == "failed" {
		att := d.Hostile != "" && len(o.Errors) > 0
		for _, e := range o.Errors {
			hit := false
			for _, tok := range d.AttribTokens {
				if strings.Contains(e, tok) {
					hit = true
				}
			}
			if !hit {
				att = false
			}
		}
		if att {
			hostile = append(hostile, "go-file-does-not-compile")
		} else {
			plain = append(plain, "go-file-does-not-compile")
		}
	}
	plain, hostile = uniq(plain), uniq(hostile)
	for _, k := range plain {
		o.Kinds = append(o.Kinds, k)
	}
	for _, k := range hostile {
		o.Kinds = append(o.Kinds, d.Hostile+": "+k)
	}
	if len(hostile) > 0 { // Attrib is empty without a hostile feature, so d.Hostile != ""
		r.Count("hostile_directories_with_discrepancy/"+d.Hostile, 1)
		r.Violate(d.Hostile, fmt.Sprintf("directory with hostile feature %q (attributable names %v): %s; expected tests %v, -go tests %v, -coq tests %v; compile errors %v",
			d.Hostile, d.AttribTokens, strings.Join(hostile, ", "), expNames, goNames, coqNames, firstN(o.Errors, 3)), o.replayDetail())
	} else if d.Hostile != "" {
		r.Count("hostile_directories_silent/"+d.Hostile, 1)
	}
	for _, k := range plain {
		r.Violate(c18PlainSig+k, fmt.Sprintf("directory %s (hostile feature %q, judged on the names it cannot affect): %s; expected tests %v, -go tests %v, -coq tests %v; compile errors %v",
			d.Name, d.Hostile, k, expR, goR, coqR, firstN(o.Errors, 3)), o.replayDetail())
	}
}

func uniq(ss []string) []string {
	seen := map[string]bool{}
	var out []string
	for _, s := range ss {
		if !seen[s] {
			seen[s] = true
			out = append(out, s)
		}
	}
	return out
}

func firstN(ss []string, n int) []string {
	if len(ss) > n {
		return ss[:n]
	}
	return ss
}

const c18GoMod = `module c18scratch

go 1.22

require github.com/goose-lang/goose v0.0.0

require github.com/stretchr/testify v1.9.0

replace github.com/goose-lang/goose => %s
`

func c18Plan(r *core.Run) []string {
	rng := core.NewRng(r.Seed, "c18-plan")
	n := r.Pick(200, 5000)
	plan := make([]string, 0, n)
	// directed: every hostile class twice, then random (≈ 35 % hostile)
	for rep := 0; rep < 2; rep++ {
		plan = append(plan, c18HostileClasses...)
	}
	for len(plan) < n {
		if rng.Intn(100) < 35 && len(c18HostileClasses) > 0 {
			plan = append(plan, c18HostileClasses[rng.Intn(len(c18HostileClasses))])
		} else {
			plan = append(plan, "")
		}
	}
	return plan
}

func runC18(r *core.Run) (bool, string) {
	r.SetRule("a case is one generated `package semantics` directory (1–4 gofmt-formatted Go files plus optional _test.go, .gold.v, ~ backup, non-Go files and a sub-directory) holding functions of every naming class in random order; " +
		"each directory carries at most one hostile feature class (" + strings.Join(c18HostileClasses, ", ") + "); distinct by the directory's (file names, declaration list); " +
		"expected tests come from go/parser, observed tests from parsing the -go and -coq output of the real test_gen binary; the -go output is compiled as generated_test.go next to the package; " +
		"prior state of the -out target (prior_state_* keys): for further plain directories × {-go, -coq} × {absent, empty, identical, longer / shorter / same-length real outputs of test_gen on edited versions of the same package (functions added, removed, renamed, failing_ toggled), garbage longer / shorter, trailing newline, output of the other mode, read-only file, symlink, stdout}, " +
		"plus three edits in a row regenerated into the same two files (the Go one inside the package directory, compiled at the end): after an exit 0 the file must equal byte for byte a generation into a new file, whose test list is itself compared with go/parser; distinct by (state, mode, package[, step]); " +
		"where -out points and what it is called (out_name_* keys): 6 locations (other directory, sub-directory of the package, the package directory; absolute and relative paths) × 10 base-name classes (names of the package's own source / non-Go files, the conventional _test.go names, swapped extensions, new names) × {-go, -coq} on private copies of further plain directories: the file must equal the stdout of the same generation and no other file of the package may change (in-package targets that are themselves sources are only recorded); " +
		"kind of directory entry (entry_kind_* keys): one special entry per directory (regular / read-only file, symlinks to files outside and inside the directory, through a second link, named _test.go, directory and symlink-to-directory named x.go, dangling symlink); expected tests = go/parser over exactly the GoFiles that `go list -json` reports; directories go list rejects are skipped; " +
		"physical shape of the source text (text_shape_* keys): one line of 10 KiB … 1 MiB (string constant, line / block comment, raw string, one-line table, the header line of a test function) before the first / between / after the last test function of a file, sizes on both sides of 64 KiB with the boundary values, CRLF alone and with such a line, no trailing newline, a byte-order mark, `func` after `;` / after a comment on the same line / indented, the name separated from `func` by a tab, spaces, a comment or a newline (every test function of the file spelled that way), several declarations or the whole file on one line, a generated-code header, //line directives, a 5 KiB name, 300 test functions, files of several MiB; " +
		"build constraints (build_constraint_* keys): ≈ 80 files carrying //go:build lines over release / compiler / unix / cgo / GOOS / GOARCH / ignore / unknown / race tags (positive, negated, combined; below a licence or block comment, directly above the package clause, inside a block comment), old-style // +build lines with and without their blank line, both kinds of line, file-name constraints (_GOOS, _GOARCH, both, look-alikes, _test, bare GOOS names) and contradictions between name and line, three per directory next to two unconstrained files; constraints over the tag goose itself (goose, !goose, combined with GOOS / ignore / gc, // +build forms, with a file-name constraint); for both families expected tests = go/parser over exactly the GoFiles that `go list` reports BOTH with and without `-tags goose` (the Go test is compiled without the tag, goose translates with it; a file selected under one of the two only contributes no test to either output), judged file by file for the constrained files; " +
		"signature of a function named test… (dims_function_signature_* keys): the special file of a directory declares a test… and a failing_test… function with a parameter (named, unnamed, blank, two, variadic), no result, two results, two named bool results, a result of type uint64 / string / error / *bool / func() bool / interface{} / a defined type over bool, type parameters, a value / pointer / generic receiver, and as controls plain, named-result, parenthesised-result and comment-in-the-parameter-list spellings of func() bool: a test function is one both generated tests can run (no receiver, no type parameters, no parameters, exactly one result of the predeclared type bool), every other function gets no test; " +
		"package clause (dims_package_clause_* keys): a special file of package documentation (five spellings, two files, in a _test file), an external test package, a generator script (//go:build ignore + package main): complete lists per go list; a file of another package name (other, main, semantics_test, Semantics) next to two files of package semantics, which go list calls an error: no Go panic, the outputs agree, no test for a function of the minority file; " +
		"file names (dims_file_name_* keys): source files named with Coq comment delimiters and double quotes (a*).go, x(*y.go, a*)b*).go, a(*b*)c.go, x*)(*y.go, m(**).go, q\"r.go, two\"quo\"tes.go, q\"r*).go, r\".go) and other punctuation: the -coq output must pass the lexer of the framework's Coq reader (nested comments, strings lexed inside comments), with the comments removed consist of Require and Example sentences only, and list exactly the tests of the GoFiles; " +
		"-out target × arguments (out_args_* keys): target {stdout, absent / existing file elsewhere, existing non-source file and absent .go name inside the package directory, an existing source file of the package, a symlink to one, a directory, a missing parent} × argument {the package directory, none, a nonexistent directory, a file, a directory with a file that does not parse} × {-coq, -go} on private copies of one package: never a Go panic; bad arguments and unwritable targets exit ≠ 0; after an exit ≠ 0 a file that existed at the -out path is byte-identical; no source file is ever modified (a source file as target is refused); with a good package and a writable target the file equals the stdout generation for a pristine copy (the output is never read back); " +
		"spelling of the package path (path_spelling_* keys): the same directory written 14 ways (absolute, relative, ./, ., ../, trailing and doubled slashes, /., /../, symlinks to it and to its parent) and identical copies under names with a space, brackets, *, ?, backslash, braces, quotes, $, unicode, a leading dash or dot, dots, Go-file-like names, 200-byte names, 1500-byte paths, glob characters in a parent (each glob-like name next to decoy packages the pattern would match): outputs must equal those for the copy under a plain absolute path")
	r.Assume("go/parser and the Go compiler agree with the language specification on what a top-level function is")
	r.Assume("a function named exactly `test` or `failing_test` is read as outside \"named test…\"; its treatment is only noted")
	tg, err := r.BuildTestGen()
	if err != nil {
		r.Inconclusive("build-test_gen-failed")
		fmt.Fprintln(os.Stderr, err)
		return false, "test_gen could not be built: " + err.Error()
	}
	if sig := replaySig(r.Replay); strings.HasPrefix(sig, c18ShapeSig) || strings.HasPrefix(sig, c18BuildSig) {
		// functions of the seed only
		c18ShapeAndBuildFamilies(r, tg, strings.TrimSuffix(map[bool]string{true: c18ShapeSig, false: c18BuildSig}[strings.HasPrefix(sig, c18ShapeSig)], "/"))
		return r.Evals() > 0, "the replayed workload could not be run"
	}
	if sig := replaySig(r.Replay); strings.HasPrefix(sig, c18OutNameSig) || strings.HasPrefix(sig, c18EntrySig) || strings.HasPrefix(sig, c18PathSig) {
		// these workloads are functions of the seed only
		switch {
		case strings.HasPrefix(sig, c18OutNameSig):
			c18OutNames(r, tg)
		case strings.HasPrefix(sig, c18PathSig):
			c18PathSpellings(r, tg)
		default:
			c18EntryKindsWorkload(r, tg)
		}
		return r.Evals() > 0, "the replayed workload could not be run"
	}
	if sig := replaySig(r.Replay); strings.HasPrefix(sig, c18SigSig) || strings.HasPrefix(sig, c18PkgSig) || strings.HasPrefix(sig, c18FNameSig) || strings.HasPrefix(sig, c18OutArgsSig) {
		// functions of the seed only
		switch {
		case strings.HasPrefix(sig, c18OutArgsSig):
			c18OutArgs(r, tg)
		default:
			c18DimFamilies(r, tg, strings.SplitN(sig, "/", 2)[0])
		}
		return r.Evals() > 0, "the replayed workload could not be run"
	}
	if strings.HasPrefix(replaySig(r.Replay), c18PriorSig) {
		// replay of a finding of the prior-state workload: its cases are a function of the seed only
		c18PriorStates(r, tg)
		return r.GetCount("prior_state_files_compared_with_fresh_generation") > 0, "the prior-state workload could not be run"
	}
	plan := c18Plan(r)
	seed := r.Seed
	idxOf := func(i int) int { return i }
	if r.Replay != "" {
		// replay one directory of an earlier violation: regenerate it from (seed, idx, hostile class)
		rs, ri, rh, err := c18ReadReplay(r.Replay)
		if err != nil {
			return false, "cannot read replay file: " + err.Error()
		}
		seed, plan = rs, []string{rh}
		idxOf = func(int) int { return ri }
	}
	obs := make([]*c18Obs, len(plan))
	batchSize := 500
	nb := (len(plan) + batchSize - 1) / batchSize
	modDir := func(b int) string { return filepath.Join(r.Scratch, fmt.Sprintf("c18mod%02d", b)) }
	sum, _ := os.ReadFile(filepath.Join(core.RepoDir, "go.sum"))
	for b := 0; b < nb; b++ {
		core.WriteFile(filepath.Join(modDir(b), "go.mod"), fmt.Sprintf(c18GoMod, core.RepoDir))
		os.WriteFile(filepath.Join(modDir(b), "go.sum"), sum, 0o644)
	}
	outDir := filepath.Join(r.Scratch, "c18out")
	os.MkdirAll(outDir, 0o755)

	var mu sync.Mutex
	byHostile := map[string]int64{}
	byFuncClass := map[string]int64{}
	byBenign := map[string]int64{}
	var nFiles int64

	core.Parallel(len(plan), 16, func(i int) {
		d, err := genC18Dir(seed, idxOf(i), plan[i])
		if err != nil {
			r.Inconclusive("generator-error")
			fmt.Fprintln(os.Stderr, "C18 generator:", err)
			return
		}
		o := &c18Obs{Dir: d}
		obs[i] = o
		dir := filepath.Join(modDir(i/batchSize), d.Name)
		for _, f := range d.Files {
			if err := core.WriteFile(filepath.Join(dir, f.Name), string(f.content)); err != nil {
				r.Inconclusive("scratch-write-failed")
				o.skip = true
				return
			}
		}
		exp, err := c18Expected(dir)
		if err != nil {
			r.Inconclusive("oracle-parse-error")
			fmt.Fprintln(os.Stderr, "C18 oracle:", d.Name, err)
			o.skip = true
			return
		}
		o.Expected = exp
		coq := core.Exec(r.Scratch, nil, 60*time.Second, "", tg, "-coq", dir)
		gout := core.Exec(r.Scratch, nil, 60*time.Second, "", tg, "-go", dir)
		r.Count("test_gen_invocations", 2)
		if coq.TimedOut || gout.TimedOut {
			r.Inconclusive("test_gen-watchdog")
			o.skip = true
			return
		}
		r.Eval(1)
		var key []string
		for _, f := range d.Files {
			key = append(key, f.Name+":"+strings.Join(f.Decls, ","))
		}
		r.Distinct(strings.Join(key, ";"))
		if coq.Code != 0 || gout.Code != 0 {
			r.Violate(c18PlainSig+"test_gen-exit-nonzero", fmt.Sprintf("test_gen exited %d (-coq) / %d (-go) on directory %s (hostile feature %q): %s%s",
				coq.Code, gout.Code, d.Name, d.Hostile, firstLine(coq.Stderr), firstLine(gout.Stderr)), o.replayDetail())
			o.skip = true
			return
		}
		o.goOut, o.coqOut = gout.Stdout, coq.Stdout
		var un int
		o.Go, un = c18ParseGo(gout.Stdout)
		if un != 0 {
			r.Violate(c18PlainSig+"go-output-unrecognised-test-method", fmt.Sprintf("%d `func (suite *GoTestSuite) Test…` headers of the -go output of %s are not followed by the expected body", un, d.Name), o.replayDetail())
		}
		o.Coq, un = c18ParseCoq(coq.Stdout)
		if un != 0 {
			r.Violate(c18PlainSig+"coq-output-unrecognised-example-line", fmt.Sprintf("%d lines of the -coq output of %s mention Example but are not of the form `[Fail ]Example N_ok : F #() ~~> #true := t.`", un, d.Name), o.replayDetail())
		}
		// -out file versus stdout (every 5th directory; the -go file is written into the
		// package directory itself, as the repository's go:generate line does)
		if i%5 == 0 {
			cf := filepath.Join(outDir, d.Name+".v")
			gf := filepath.Join(dir, "generated_test.go")
			c2 := core.Exec(r.Scratch, nil, 60*time.Second, "", tg, "-coq", "-out", cf, dir)
			g2 := core.Exec(r.Scratch, nil, 60*time.Second, "", tg, "-go", "-out", gf, dir)
			r.Count("test_gen_invocations", 2)
			cb, _ := os.ReadFile(cf)
			gb, _ := os.ReadFile(gf)
			r.Count("out_file_vs_stdout_comparisons", 2)
			if c2.Code != 0 || g2.Code != 0 || string(cb) != coq.Stdout || string(gb) != gout.Stdout || c2.Stdout != "" || g2.Stdout != "" {
				r.Violate(c18PlainSig+"out-file-differs-from-stdout", fmt.Sprintf("test_gen -out <file> (exit %d/%d) wrote something different from what it prints on stdout for %s (coq equal: %v, go equal: %v)",
					c2.Code, g2.Code, d.Name, string(cb) == coq.Stdout, string(gb) == gout.Stdout), o.replayDetail())
			}
		}
		if err := os.WriteFile(filepath.Join(dir, "generated_test.go"), []byte(gout.Stdout), 0o644); err != nil {
			r.Inconclusive("scratch-write-failed")
			o.skip = true
			return
		}
		mu.Lock()
		if d.Hostile == "" {
			byHostile["(none)"]++
		} else {
			byHostile[d.Hostile]++
		}
		for k, v := range d.funcsByClass {
			byFuncClass[k] += int64(v)
		}
		for _, b := range d.Benign {
			byBenign[b]++
		}
		nFiles += int64(len(d.Files))
		mu.Unlock()
	})

	// compile every batch: one module, one `go test -run '^$' ./...`
	for b := 0; b < nb; b++ {
		res := core.Exec(modDir(b), core.GoEnv(), 20*time.Minute, "", "go", "test", "-vet=off", "-count=1", "-run", "^$", "./...")
		r.Count("go_compile_batches", 1)
		lo, hi := b*batchSize, (b+1)*batchSize
		if hi > len(plan) {
			hi = len(plan)
		}
		if res.TimedOut {
			r.Inconclusive("go-test-batch-watchdog")
			continue
		}
		status := map[string]string{}
		for _, line := range strings.Split(res.Stdout, "\n") {
			fs := strings.Fields(line)
			if len(fs) >= 2 && fs[0] == "ok" {
				status[filepath.Base(fs[1])] = "ok"
			} else if len(fs) >= 2 && fs[0] == "FAIL" && strings.Contains(line, "[build failed]") {
				status[filepath.Base(fs[1])] = "failed"
			} else if len(fs) >= 2 && fs[0] == "FAIL" && strings.HasPrefix(fs[1], "c18scratch/") {
				status[filepath.Base(fs[1])] = "failed"
			}
		}
		errs := map[string][]string{}
		cur := ""
		for _, line := range strings.Split(res.Stderr+"\n"+res.Stdout, "\n") {
			if strings.HasPrefix(line, "# ") {
				fs := strings.Fields(line)
				cur = ""
				if len(fs) >= 2 && strings.HasPrefix(fs[1], "c18scratch/") {
					cur = filepath.Base(fs[1])
				}
				continue
			}
			if cur != "" && strings.HasPrefix(line, cur+"/") {
				errs[cur] = append(errs[cur], line)
			}
		}
		for i := lo; i < hi; i++ {
			o := obs[i]
			if o == nil || o.skip {
				continue
			}
			switch status[o.Dir.Name] {
			case "ok":
				o.Compile = "ok"
				r.Count("go_files_compiled_ok", 1)
			case "failed":
				o.Errors = errs[o.Dir.Name]
				foreign := len(o.Errors) == 0
				for _, e := range o.Errors {
					if !strings.HasPrefix(e, o.Dir.Name+"/generated_test.go:") {
						foreign = true
					}
				}
				if foreign {
					// the generated package itself is broken: a generator bug, not an observation
					r.Inconclusive("generated-package-does-not-compile")
					fmt.Fprintln(os.Stderr, "C18: package errors outside generated_test.go:", o.Dir.Name, o.Errors)
					o.Compile = "inconclusive"
				} else {
					o.Compile = "failed"
					r.Count("go_files_failing_to_compile", 1)
				}
			default:
				o.Compile = "inconclusive"
				r.Inconclusive("no-compile-status-for-directory")
				if r.GetCount("diag_printed") < 3 {
					r.Count("diag_printed", 1)
					fmt.Fprintln(os.Stderr, "C18: no status for", o.Dir.Name, "go test exit", res.Code, firstLine(res.Stderr))
				}
			}
		}
	}

	samples := 0
	for _, o := range obs {
		if o == nil || o.skip {
			continue
		}
		o.judge(r)
		r.Count("expected_tests_total", int64(len(o.Expected)))
		r.Count("observed_go_tests_total", int64(len(o.Go)))
		r.Count("observed_coq_tests_total", int64(len(o.Coq)))
		if samples < 6 && (o.Dir.Idx%37 == 0 || (o.Dir.Hostile != "" && o.Dir.Idx < 4)) {
			samples++
			r.Sample(12, o)
		}
		for _, b := range o.Dir.Benign {
			if b == "bare-test-name" {
				inGo, inCoq := false, false
				for _, e := range o.Go {
					if e.Callee == "test" {
						inGo = true
					}
				}
				for _, e := range o.Coq {
					if e.Fn == "test" {
						inCoq = true
					}
				}
				r.Count(fmt.Sprintf("bare_test_name_noted/go=%v,coq=%v", inGo, inCoq), 1)
			}
		}
	}
	r.Set("directories_by_hostile_feature", byHostile)
	r.Set("declarations_by_naming_class", byFuncClass)
	r.Set("directories_by_benign_feature", byBenign)
	r.Set("files_written", nFiles)
	r.Set("directories", len(plan))

	if r.Replay == "" {
		phase := map[string]float64{"directories": time.Since(r.Start).Seconds()}
		t := time.Now()
		c18PriorStates(r, tg)
		phase["prior_state"] = time.Since(t).Seconds()
		t = time.Now()
		c18OutNames(r, tg)
		phase["out_name"] = time.Since(t).Seconds()
		t = time.Now()
		c18EntryKindsWorkload(r, tg)
		phase["entry_kind"] = time.Since(t).Seconds()
		t = time.Now()
		c18PathSpellings(r, tg)
		phase["path_spelling"] = time.Since(t).Seconds()
		t = time.Now()
		c18ShapeAndBuildFamilies(r, tg, "")
		phase["text_shape_and_build_constraint"] = time.Since(t).Seconds()
		t = time.Now()
		c18DimFamilies(r, tg, "")
		phase["signature_package_clause_file_name"] = time.Since(t).Seconds()
		t = time.Now()
		c18OutArgs(r, tg)
		phase["out_and_arguments"] = time.Since(t).Seconds()
		r.Set("workload_wall_s", phase)
	}

	// usage errors: noted only (not part of the statement)
	u1 := core.Exec(r.Scratch, nil, 30*time.Second, "", tg, modDir(0))
	u2 := core.Exec(r.Scratch, nil, 30*time.Second, "", tg, "-go", "-coq", modDir(0))
	r.Set("usage_error_exit_codes_noted", map[string]int{"no_mode_flag": u1.Code, "both_mode_flags": u2.Code})

	compiled := r.GetCount("go_files_compiled_ok") + r.GetCount("go_files_failing_to_compile")
	if r.Replay != "" {
		return r.Evals() == 1 && compiled == 1, "the replayed directory could not be run"
	}
	if r.Evals() < int64(len(plan))/10 || r.Evals() < 15 {
		return false, "too few directories were run through test_gen"
	}
	if compiled < r.Evals()/10 {
		return false, "too few generated Go files reached the compiler"
	}
	if r.GetCount("expected_tests_total") < 20 {
		return false, "too few test functions in the generated directories"
	}
	if r.NumViolations() == 0 && (r.GetCount("text_shape_directories_judged") < 15 || r.GetCount("text_shape_go_files_compiled_ok") < 10 ||
		r.GetCount("build_constraint_files_judged/go-build-line/selected-by-go-tool") < 8 || r.GetCount("build_constraint_files_judged/go-build-line/excluded-by-go-tool") < 8 || r.GetCount("build_constraint_files_judged/file-name/excluded-by-go-tool") < 2) {
		return false, "text-shape / build-constraint families: fewer than 15 shaped directories judged (10 compiled), or fewer than 8 selected and 8 excluded //go:build files, or fewer than 2 files excluded by their name"
	}
	if r.NumViolations() == 0 && (r.GetCount("dims_function_signature_directories_judged") < 15 || r.GetCount("dims_function_signature_go_files_compiled_ok") < 15 || r.GetCount("dims_package_clause_directories_judged") < 8 ||
		r.GetCount("dims_package_clause_go_files_compiled_ok") < 5 || r.GetCount("dims_file_name_coq_outputs_lexed") < 8) {
		return false, "signature / package-clause / file-name families: fewer than 15 signature directories judged and compiled, fewer than 8 package-clause directories judged (5 compiled), or fewer than 8 -coq outputs for special file names put through the Coq lexer"
	}
	if r.NumViolations() == 0 && (r.GetCount("out_args_runs") < 60 || r.GetCount("out_args_existing_targets_compared_after_a_failed_run") < 10 || r.GetCount("out_args_outputs_equal_to_the_reference") < 8) {
		return false, "-out target × argument workload: fewer than 60 runs, fewer than 10 existing targets compared after a failed run, or fewer than 8 outputs equal to the reference"
	}
	if r.NumViolations() == 0 && r.GetCount("path_spelling_outputs_compared_with_plain_copy") < 40 {
		return false, "package-path spelling workload: fewer than 40 outputs compared with the plain-named copy"
	}
	if r.NumViolations() == 0 && (r.GetCount("out_name_files_compared_with_stdout") < 50 || r.GetCount("entry_kind_go_files_compiled_ok") < 5) {
		return false, "-out location/name workload: fewer than 50 files compared with stdout, or entry-kind workload: fewer than 5 directories judged and compiled"
	}
	if r.NumViolations() == 0 && (r.GetCount("prior_state_files_compared_with_fresh_generation") < 40 || r.GetCount("prior_state_edit_sequences_completed") < 2) {
		return false, "prior-state workload: fewer than 40 regenerated files compared with a fresh generation, or fewer than 2 edit sequences completed"
	}
	return true, ""
}

// c18ReadReplay extracts (seed, directory index, hostile class) from a replay file written by Violate.
func c18ReadReplay(path string) (int64, int, string, error) {
	b, err := os.ReadFile(path)
	if err != nil {
		return 0, 0, "", err
	}
	var v struct {
		Seed   int64 `json:"seed"`
		Detail struct {
			Observation struct {
				Directory struct {
					Idx     int    `json:"idx"`
					Hostile string `json:"hostile_feature"`
				} `json:"directory"`
			} `json:"observation"`
		} `json:"detail"`
	}
	if err := json.Unmarshal(b, &v); err != nil {
		return 0, 0, "", err
	}
	d := v.Detail.Observation.Directory
	return v.Seed, d.Idx, d.Hostile, nil
}

func firstLine(s string) string {
	s = strings.TrimSpace(s)
	if i := strings.IndexByte(s, '\n'); i >= 0 {
		s = s[:i]
	}
	if len(s) > 300 {
		s = s[:300]
	}
	return s
}
