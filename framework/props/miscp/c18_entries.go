package miscp

import (
	"encoding/json"
	"fmt"
	"io"
	"os"
	"path/filepath"
	"strings"
	"time"

	"verif/core"
)

// C18, workload dimension "kind of directory entry".
//
// What the files of a package are is decided by the Go toolchain, not by the
// kind of directory entry: the reference list of tests comes from go/parser over
// exactly the files `go list -json` reports as GoFiles for the directory (run in
// the same module and environment), and test_gen's -go / -coq outputs must list
// exactly those tests. A directory the toolchain rejects (Error / Incomplete) is
// not a semantics package and is skipped (counted).
//
// One special entry per directory, next to ordinary generated files:
//   regular file (control); read-only regular file; symlink to a regular file
//   outside the directory (relative / absolute target / target without .go
//   extension / through a second link); symlink to a file of the same directory
//   whose own name the go tool ignores; symlink named x_test.go; a DIRECTORY named
//   x.go; a symlink to a directory named x.go; a dangling symlink y.go.
//
// Deliberately not constructed: a hard link of a source file under a second name
// (both names are sources: duplicate declarations, not a valid package); mode 000
// files (the harness is root: readable anyway); a named pipe z.go — `go list`
// itself blocks forever on it (measured, go1.23.5), so such a directory is not a
// package the toolchain accepts; test_gen blocks on it too.

const c18EntrySig = "entry-kind/"

// c18AssertDirNamedGo: a directory (or a symlink to one) named x.go is ignored by the
// go tool, so the package is valid and the tool must neither crash nor emit tests for
// it. While false the outcome is only recorded (entry_kind_noted_not_asserted/…).
const c18AssertDirNamedGo = true

var c18EntryKinds = []string{
	"regular-file", "read-only-file",
	"symlink-relative-to-file-outside", "symlink-absolute-to-file-outside", "symlink-to-file-without-go-extension", "symlink-through-a-second-symlink",
	"symlink-to-ignored-name-in-same-directory", "symlink-named-_test.go",
	"directory-named-x.go", "symlink-to-directory-named-x.go", "dangling-symlink-named-y.go",
}

type c18EntCase struct {
	idx     int
	kind    string
	dir     string
	name    string
	tests   []string // names declared in the special entry
	goFiles []string
	skip    string
	goOut   string
	exp     []c18Test
	pend    []c18Pend
}

func c18EntrySource(n int) (string, []string) {
	a, b := fmt.Sprintf("testViaEntry%d", n), fmt.Sprintf("failing_testViaEntryF%d", n)
	return fmt.Sprintf("package semantics\n\nfunc %s() bool {\n\treturn true\n}\n\nfunc helperViaEntry%d() uint64 { return %d }\n\nfunc %s() bool {\n\treturn false\n}\n", a, n, n, b), []string{a, b}
}

func c18EntryKindsWorkload(r *core.Run, tg string) {
	per := r.Pick(2, 16)
	mod := filepath.Join(r.Scratch, "c18entmod")
	shared := filepath.Join(r.Scratch, "c18entshared")
	os.MkdirAll(shared, 0o755)
	core.WriteFile(filepath.Join(mod, "go.mod"), fmt.Sprintf(c18GoMod, core.RepoDir))
	sum, _ := os.ReadFile(filepath.Join(core.RepoDir, "go.sum"))
	os.WriteFile(filepath.Join(mod, "go.sum"), sum, 0o644)

	var cases []*c18EntCase
	for _, k := range c18EntryKinds {
		for j := 0; j < per; j++ {
			cases = append(cases, &c18EntCase{idx: len(cases), kind: k})
		}
	}
	fail := func(c *c18EntCase, reason string, err interface{}) {
		r.Inconclusive(reason)
		c.skip = reason
		fmt.Fprintln(os.Stderr, "C18 entry-kind:", reason, c.idx, c.kind, err)
	}
	// build the directories
	for _, c := range cases {
		d, err := genC18Dir(r.Seed, 92000+c.idx, "")
		if err != nil {
			fail(c, "entry-kind-generator-error", err)
			continue
		}
		c.dir = filepath.Join(mod, fmt.Sprintf("e%03d", c.idx))
		for _, f := range d.Files {
			if err := core.WriteFile(filepath.Join(c.dir, f.Name), string(f.content)); err != nil {
				fail(c, "scratch-write-failed", err)
			}
		}
		src, names := c18EntrySource(c.idx)
		c.tests = names
		c.name = fmt.Sprintf("m_entry%d.go", c.idx) // sorts between the generated files
		p := filepath.Join(c.dir, c.name)
		out := filepath.Join(shared, fmt.Sprintf("s%03d.go", c.idx))
		rel := filepath.Join("..", "..", "c18entshared", filepath.Base(out))
		var e error
		switch c.kind {
		case "regular-file":
			e = os.WriteFile(p, []byte(src), 0o644)
		case "read-only-file":
			e = os.WriteFile(p, []byte(src), 0o444)
		case "symlink-relative-to-file-outside":
			os.WriteFile(out, []byte(src), 0o644)
			e = os.Symlink(rel, p)
		case "symlink-absolute-to-file-outside":
			os.WriteFile(out, []byte(src), 0o644)
			e = os.Symlink(out, p)
		case "symlink-to-file-without-go-extension":
			os.WriteFile(out+".shared", []byte(src), 0o644)
			e = os.Symlink(rel+".shared", p)
		case "symlink-through-a-second-symlink":
			os.WriteFile(out, []byte(src), 0o644)
			os.Symlink(filepath.Base(out), filepath.Join(shared, fmt.Sprintf("l%03d", c.idx)))
			e = os.Symlink(filepath.Join("..", "..", "c18entshared", fmt.Sprintf("l%03d", c.idx)), p)
		case "symlink-to-ignored-name-in-same-directory":
			os.WriteFile(filepath.Join(c.dir, "_"+c.name), []byte(src), 0o644)
			e = os.Symlink("_"+c.name, p)
		case "symlink-named-_test.go":
			c.name = fmt.Sprintf("m_entry%d_test.go", c.idx)
			os.WriteFile(out, []byte(src), 0o644)
			e = os.Symlink(rel, filepath.Join(c.dir, c.name))
			c.tests = nil // a _test.go file is not one of the package's GoFiles
		case "directory-named-x.go":
			c.name = "x.go"
			e = core.WriteFile(filepath.Join(c.dir, "x.go", "inner.go"), src)
			c.tests = nil
		case "symlink-to-directory-named-x.go":
			c.name = "x.go"
			core.WriteFile(filepath.Join(shared, fmt.Sprintf("d%03d", c.idx), "inner.go"), src)
			e = os.Symlink(filepath.Join(shared, fmt.Sprintf("d%03d", c.idx)), filepath.Join(c.dir, "x.go"))
			c.tests = nil
		case "dangling-symlink-named-y.go":
			c.name = "y.go"
			e = os.Symlink(filepath.Join(shared, "does-not-exist.go"), filepath.Join(c.dir, "y.go"))
			c.tests = nil
		}
		if e != nil {
			fail(c, "scratch-write-failed", e)
		}
	}

	// the toolchain's view: one `go list` over the module
	res := core.Exec(mod, core.GoEnv(), 3*time.Minute, "", "go", "list", "-e", "-json=Dir,GoFiles,Error,Incomplete", "./...")
	r.Count("entry_kind_go_list_runs", 1)
	if res.TimedOut || res.Code != 0 {
		r.Inconclusive("entry-kind-go-list-failed")
		fmt.Fprintln(os.Stderr, "C18 entry-kind: go list:", res.Code, firstLine(res.Stderr))
		return
	}
	type listed struct {
		Dir        string
		GoFiles    []string
		Error      *struct{ Err string }
		Incomplete bool
	}
	byDir := map[string]*listed{}
	dec := json.NewDecoder(strings.NewReader(res.Stdout))
	for {
		var l listed
		if err := dec.Decode(&l); err == io.EOF {
			break
		} else if err != nil {
			r.Inconclusive("entry-kind-go-list-unparsable")
			return
		}
		ll := l
		byDir[l.Dir] = &ll
	}
	for _, c := range cases {
		if c.skip != "" {
			continue
		}
		l := byDir[c.dir]
		switch {
		case l == nil:
			fail(c, "entry-kind-directory-not-listed", nil)
		case l.Error != nil || l.Incomplete:
			c.skip = "rejected-by-go-list"
			r.Count("entry_kind_directories_rejected_by_go_list/"+c.kind, 1)
			os.RemoveAll(c.dir) // such a directory makes `go test ./...` give up on the whole module
			c.dir = ""
		default:
			c.goFiles = l.GoFiles
			for _, f := range l.GoFiles {
				b, err := os.ReadFile(filepath.Join(c.dir, f))
				if err != nil {
					fail(c, "oracle-parse-error", err)
					break
				}
				ts, err := c18ExpectedOfSource(f, b, false)
				if err != nil {
					fail(c, "oracle-parse-error", err)
					break
				}
				c.exp = append(c.exp, ts...)
			}
		}
	}

	core.Parallel(len(cases), 16, func(i int) {
		c := cases[i]
		if c.skip != "" {
			return
		}
		var expNames []string
		failing := map[string]bool{}
		for _, t := range c.exp {
			expNames = append(expNames, t.Name)
			failing[t.Name] = t.Failing
		}
		// the generator of the control must see the special entry's tests, or the case shows nothing
		inGoFiles := false
		for _, f := range c.goFiles {
			if f == c.name {
				inGoFiles = true
			}
		}
		r.Count(fmt.Sprintf("entry_kind_special_entry_is_a_GoFile_for_go_list/%s/%v", c.kind, inGoFiles), 1)
		coq := c18Run(c.dir, 0, tg, "-coq", c.dir)
		gout := c18Run(c.dir, 0, tg, "-go", c.dir)
		r.Count("test_gen_invocations", 2)
		if coq.TimedOut || gout.TimedOut {
			r.Inconclusive("test_gen-watchdog")
			c.skip = "watchdog"
			return
		}
		detail := map[string]interface{}{"entry_kind": c.kind, "entry_name": c.name, "GoFiles_reported_by_go_list": c.goFiles, "expected_tests": expNames,
			"directory": fmt.Sprintf("generated directory %d + one entry of kind %q", 92000+c.idx, c.kind), "go_output": c18Clip([]byte(gout.Stdout)), "coq_output": c18Clip([]byte(coq.Stdout)),
			"stderr": firstLine(coq.Stderr + gout.Stderr)}
		noted := !c18AssertDirNamedGo && (c.kind == "directory-named-x.go" || c.kind == "symlink-to-directory-named-x.go")
		var kinds []string
		if coq.Code != 0 || gout.Code != 0 {
			kinds = append(kinds, "test_gen-exit-nonzero")
		} else {
			goNames, un1 := c18Names("-go", gout.Stdout)
			coqNames, un2 := c18Names("-coq", coq.Stdout)
			kinds = append(kinds, c18Diff("go", expNames, goNames)...)
			kinds = append(kinds, c18Diff("coq", expNames, coqNames)...)
			if strings.Join(goNames, " ") != strings.Join(coqNames, " ") {
				kinds = append(kinds, "go-and-coq-disagree")
			}
			if un1+un2 > 0 {
				kinds = append(kinds, "unparsable-test-entries")
			}
			es, _ := c18ParseCoq(coq.Stdout)
			for _, e := range es {
				if want, ok := failing[e.Fn]; ok && want != e.Fail {
					kinds = append(kinds, "coq-Fail-marking-wrong")
				}
			}
			detail["go_tests"], detail["coq_tests"] = goNames, coqNames
			c.goOut = gout.Stdout
		}
		kinds = uniq(kinds)
		if noted {
			out := "as-expected"
			if len(kinds) > 0 {
				out = strings.Join(kinds, "+")
			}
			r.Count(fmt.Sprintf("entry_kind_noted_not_asserted/%s/%s", c.kind, out), 1)
			c.goOut = ""
			return
		}
		r.Eval(1)
		r.Distinct(fmt.Sprintf("entry/%s/%d", c.kind, c.idx))
		r.Count("entry_kind_directories_judged/"+c.kind, 1)
		r.Count("entry_kind_expected_tests_total", int64(len(expNames)))
		for _, k := range kinds {
			what := fmt.Sprintf("directory with an entry %s of kind %q (go list reports GoFiles %v): %s; tests of the GoFiles per go/parser %v, -go tests %v, -coq tests %v", c.name, c.kind, c.goFiles, k, expNames, detail["go_tests"], detail["coq_tests"])
			if k == "test_gen-exit-nonzero" {
				what = fmt.Sprintf("test_gen exited %d (-coq) / %d (-go) on a directory that go list accepts (GoFiles %v) and that holds an entry %s of kind %q: %s", coq.Code, gout.Code, c.goFiles, c.name, c.kind, firstLine(coq.Stderr+gout.Stderr))
			}
			c.pend = append(c.pend, c18Pend{c18EntrySig + c.kind + ":" + k, what, detail})
		}
		if c.goOut != "" {
			if err := os.WriteFile(filepath.Join(c.dir, "generated_test.go"), []byte(c.goOut), 0o644); err != nil {
				c.goOut = ""
			}
		}
	})
	for _, c := range cases {
		for _, p := range c.pend {
			r.Violate(p.sig, p.what, p.detail)
		}
	}

	// the generated Go file compiles against the package as the go tool sees it
	for _, c := range cases {
		if c.goOut == "" && c.dir != "" {
			// not judged: keep the directory out of the build
			os.WriteFile(filepath.Join(c.dir, "generated_test.go"), []byte("package semantics\n"), 0o644)
		}
	}
	res = core.Exec(mod, core.GoEnv(), 10*time.Minute, "", "go", "test", "-vet=off", "-count=1", "-run", "^$", "./...")
	if res.TimedOut {
		r.Inconclusive("entry-kind-go-test-watchdog")
		return
	}
	status := map[string]string{}
	for _, line := range strings.Split(res.Stdout, "\n") {
		fs := strings.Fields(line)
		if len(fs) >= 2 && fs[0] == "ok" {
			status[strings.TrimPrefix(fs[1], "c18scratch/")] = "ok"
		} else if len(fs) >= 2 && fs[0] == "FAIL" && strings.HasPrefix(fs[1], "c18scratch/") {
			status[strings.TrimPrefix(fs[1], "c18scratch/")] = "failed"
		}
	}
	for _, c := range cases {
		if c.goOut == "" {
			continue
		}
		name := filepath.Base(c.dir)
		var errs []string
		foreign := false
		for _, line := range strings.Split(res.Stderr+"\n"+res.Stdout, "\n") {
			if strings.HasPrefix(line, name+"/") {
				errs = append(errs, line)
				if !strings.HasPrefix(line, name+"/generated_test.go:") {
					foreign = true
				}
			}
		}
		switch {
		case status[name] == "ok":
			r.Count("entry_kind_go_files_compiled_ok", 1)
		case status[name] == "failed" && !foreign && len(errs) > 0:
			r.Violate(c18EntrySig+c.kind+":go-file-does-not-compile",
				fmt.Sprintf("the -go output for a directory with an entry %s of kind %q (GoFiles %v) does not compile next to the package: %v", c.name, c.kind, c.goFiles, firstN(errs, 3)),
				map[string]interface{}{"entry_kind": c.kind, "GoFiles_reported_by_go_list": c.goFiles, "compile_errors": firstN(errs, 10), "go_output": c18Clip([]byte(c.goOut))})
		default:
			r.Inconclusive("entry-kind-package-does-not-compile")
			fmt.Fprintln(os.Stderr, "C18 entry-kind: no usable compile status for", name, c.kind, status[name], firstN(errs, 3))
		}
	}
	r.Set("entry_kinds", c18EntryKinds)
}
