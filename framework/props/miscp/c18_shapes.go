package miscp

import (
	"encoding/json"
	"fmt"
	"io"
	"os"
	"path/filepath"
	"regexp"
	"runtime"
	"sort"
	"strings"
	"time"

	"verif/core"
)

// C18, two workload dimensions that share one scratch module, one `go list` and
// one compile run:
//
// (1) the physical SHAPE of the source text around the test functions
//     (text_shape_* keys, signatures text-shape/<class>:<discrepancy>): one line of
//     10 KiB … 1 MiB (string constant, line / block comment, raw string, a
//     one-line table, the header line of a test function itself) before the first /
//     between / after the last test function of the file — sizes on both sides of
//     64 KiB (bufio.MaxScanTokenSize), the boundary values included; CRLF line
//     endings alone and with such a line; no trailing newline; a byte-order mark;
//     `func` not in column 0 (after `;`, after a block comment on the same line,
//     after the `*/` that ends a multi-line comment, indented by tabs / spaces);
//     the name separated from `func` by a tab, two spaces, a comment, a newline;
//     two test functions on one line; the whole file on one line; a
//     "Code generated … DO NOT EDIT." header; //line directives; a 5 KiB function
//     name; 300 test functions; files of several MiB with the tests at either end.
//     In the layout classes EVERY test function of the file is spelled that way, so
//     a tool that looks for test functions line by line finds none.
//
// (2) BUILD CONSTRAINTS on the files of the package (build_constraint_* keys,
//     signatures build-constraint/<mechanism>/<selected-by|excluded-by>-go-tool:
//     <discrepancy>): //go:build lines over release tags, compiler tags, unix, cgo,
//     GOOS / GOARCH (positive, negated, combined), ignore and unknown tags, race;
//     below a licence comment, below a block comment, directly above the package
//     clause; old-style `// +build` lines (with and without the blank line that makes
//     them count); both kinds of line together; file-name constraints (_GOOS,
//     _GOARCH, _GOOS_GOARCH, names that only look like one, _test) and a file-name
//     constraint contradicted by a //go:build line.
//
// Oracle, independent of test_gen: the files of the package are the GoFiles that
// `go list -tags goose` (the tag goose itself loads packages with) reports for the
// directory; the expected tests are go/parser's top-level receiver-less test… /
// failing_test… functions of exactly those files, files in name order, functions in
// source order. Both outputs of test_gen must list exactly them, agree with each
// other, mark the failing ones, and the -go output must compile next to the package.
// The two outputs live under two tag sets — the Go test is compiled without the tag
// `goose`, the Coq test refers to a translation made with it — and the statement wants
// one Go AND one Coq test per test function: a file belongs to the package, for this
// purpose, if `go list` reports it among the GoFiles both without and with `-tags
// goose`. A file selected under one of the two only (`//go:build goose`, `!goose`,
// combinations, `// +build` forms, with a file-name constraint) contributes no test
// to either output (class selected-under-one-tag-set-only).

const (
	c18ShapeSig = "text-shape/"
	c18BuildSig = "build-constraint/"
)

type c18BCFile struct {
	Name      string   `json:"file"`
	Mechanism string   `json:"mechanism"` // go-build-line | plus-build-line | file-name | go-build-line+file-name
	TagClass  string   `json:"tag_class"`
	Header    string   `json:"constraint"`
	Tests     []string `json:"test_functions_declared"`
	Selected  bool     `json:"selected_by_go_list"`
}

type c18FamCase struct {
	idx     int
	family  string // text-shape | build-constraint
	class   string
	desc    string
	dir     string
	files   map[string][]byte
	special []*c18BCFile
	noted   bool
	owner   map[string]string // test function → file
	goFiles []string
	exp     []c18Test
	skip    string
	goOut   string
	pend    []c18Pend
	// constrained files whose test list already differs: a compile error naming their functions adds nothing
	explained map[string]bool
	// files the go tool selects under one of the two tag sets (default, goose) only
	oneSide map[string]string
}

// ------------------------------------------------------------------ text shapes

func c18Fill(prefix, suffix string, n int, c byte) string {
	k := n - len(prefix) - len(suffix)
	if k < 0 {
		k = 0
	}
	return prefix + strings.Repeat(string(c), k) + suffix
}

var c18LongKinds = []string{"string-constant", "line-comment", "block-comment", "raw-string", "one-line-table", "test-function-header"}
var c18LongSizes = []int{10 << 10, 65535, 65536, 65537, 100 << 10, 1 << 20}
var c18LongPositions = []string{"before-first-test", "between-tests", "after-last-test"}

// c18LongLine returns one source line of exactly n bytes (no newline).
func c18LongLine(kind string, i, n int) (line string, test string) {
	switch kind {
	case "string-constant":
		return c18Fill(fmt.Sprintf("const longS%d = \"", i), "\"", n, 'y'), ""
	case "line-comment":
		return c18Fill("// ", "", n, 'x'), ""
	case "block-comment":
		return c18Fill("/* ", " */", n, 'c'), ""
	case "raw-string":
		return c18Fill(fmt.Sprintf("var longR%d = `", i), "`", n, 'r'), ""
	case "one-line-table":
		head, tail := fmt.Sprintf("var longT%d = []uint64{", i), "7}"
		k := (n - len(head) - len(tail)) / 3
		if k < 0 {
			k = 0
		}
		s := head + strings.Repeat("1, ", k)
		return s + strings.Repeat(" ", n-len(s)-len(tail)) + tail, ""
	default: // test-function-header
		name := fmt.Sprintf("testS%dLong", i)
		return c18Fill("func "+name+"() bool { return \"", "\" != \"\" }", n, 'z'), name
	}
}

func c18SizeClass(n int) string {
	if n >= 65536 {
		return "line-of-64KiB-or-more"
	}
	return "line-under-64KiB"
}

// c18ShapeCases is a function of (tier, seed) only.
func c18ShapeCases(quick bool, seed int64) []*c18FamCase {
	rng := core.NewRng(seed, "c18-text-shape")
	var out []*c18FamCase
	add := func(class, desc string, special []byte, tests []string) {
		i := len(out)
		c := &c18FamCase{idx: i, family: "text-shape", class: class, desc: desc, files: map[string][]byte{}, owner: map[string]string{}}
		c.files["a_plain.go"] = []byte(fmt.Sprintf("package semantics\n\nfunc testPlainA%d() bool {\n\treturn true\n}\n", i))
		c.files["z_plain.go"] = []byte(fmt.Sprintf("package semantics\n\nfunc helperZ%d() uint64 { return 1 }\n\nfunc failing_testPlainZ%d() bool {\n\treturn false\n}\n", i, i))
		c.files["m_shape.go"] = special
		for _, t := range tests {
			c.owner[t] = "m_shape.go"
		}
		out = append(out, c)
	}
	three := func(i int) (a, b, c string, names []string) {
		names = []string{fmt.Sprintf("testS%dA", i), fmt.Sprintf("failing_testS%dB", i), fmt.Sprintf("testS%dC", i)}
		a = fmt.Sprintf("func %s() bool {\n\treturn true\n}\n", names[0])
		b = fmt.Sprintf("func %s() bool {\n\treturn false\n}\n", names[1])
		c = fmt.Sprintf("func %s() bool {\n\tvar x uint64 = 3\n\treturn x == 3\n}\n", names[2])
		return
	}
	const pkg = "package semantics\n\n"
	long := func(kind string, n int, pos string, nl string) {
		i := len(out)
		a, b, c, names := three(i)
		line, extra := c18LongLine(kind, i, n)
		var src string
		switch pos {
		case "before-first-test":
			src = pkg + line + "\n\n" + a + "\n" + b + "\n" + c
			if extra != "" {
				names = append([]string{extra}, names...)
			}
		case "between-tests":
			src = pkg + a + "\n" + line + "\n\n" + b + "\n" + c
			if extra != "" {
				names = []string{names[0], extra, names[1], names[2]}
			}
		default:
			src = pkg + a + "\n" + b + "\n" + c + "\n" + line + "\n"
			if extra != "" {
				names = append(names, extra)
			}
		}
		class := c18SizeClass(n) + "-" + pos
		desc := fmt.Sprintf("one %s line of %d bytes %s of m_shape.go", kind, n, pos)
		if nl != "\n" {
			src = strings.ReplaceAll(src, "\n", nl)
			class = "crlf-" + class
			desc += ", CRLF line endings"
		}
		add(class, desc, []byte(src), names)
	}
	if quick {
		for _, n := range c18LongSizes {
			for _, pos := range c18LongPositions {
				long(c18LongKinds[rng.Intn(len(c18LongKinds))], n, pos, "\n")
			}
		}
		for _, kind := range c18LongKinds {
			long(kind, []int{65536, 100 << 10, 1 << 20}[rng.Intn(3)], "before-first-test", "\n")
		}
	} else {
		for _, kind := range c18LongKinds {
			for _, n := range c18LongSizes {
				for _, pos := range c18LongPositions {
					long(kind, n, pos, "\n")
				}
			}
		}
	}
	for _, n := range []int{65534, 65535} {
		long(c18LongKinds[rng.Intn(len(c18LongKinds))], n, "before-first-test", "\r\n")
	}
	// line endings, end of file, byte-order mark
	plain := func(class, desc string, f func(i int, a, b, c string) string) {
		i := len(out)
		a, b, c, names := three(i)
		add(class, desc, []byte(f(i, a, b, c)), names)
	}
	plain("crlf-line-endings", "m_shape.go written with CRLF line endings", func(i int, a, b, c string) string {
		return strings.ReplaceAll(pkg+a+"\n"+b+"\n"+c, "\n", "\r\n")
	})
	plain("no-trailing-newline", "m_shape.go ends with the closing brace of its last test function", func(i int, a, b, c string) string {
		return strings.TrimSuffix(pkg+a+"\n"+b+"\n"+c, "\n")
	})
	plain("no-trailing-newline", "m_shape.go ends inside a line comment without a newline", func(i int, a, b, c string) string {
		return pkg + a + "\n" + b + "\n" + c + "\n// the end"
	})
	plain("byte-order-mark", "m_shape.go begins with a UTF-8 byte-order mark", func(i int, a, b, c string) string {
		return "\ufeff" + pkg + a + "\n" + b + "\n" + c
	})
	plain("byte-order-mark", "m_shape.go begins with a byte-order mark and has CRLF line endings", func(i int, a, b, c string) string {
		return "\ufeff" + strings.ReplaceAll(pkg+a+"\n"+b+"\n"+c, "\n", "\r\n")
	})
	// where `func` and the name stand: every test function of the file in that layout
	layout := func(class, desc string, f func(i int, name string, res bool) string, sep string) {
		i := len(out)
		_, _, _, names := three(i)
		var parts []string
		for k, n := range names {
			parts = append(parts, f(i*10+k, n, k != 1))
		}
		add(class, desc, []byte(pkg+strings.Join(parts, sep)+"\n"), names)
	}
	body := func(res bool) string { return fmt.Sprintf("() bool {\n\treturn %v\n}", res) }
	layout("func-after-semicolon", "every test function follows `var x = 1; ` on the same line", func(k int, n string, res bool) string {
		return fmt.Sprintf("var semi%d = 1; func %s%s", k, n, body(res))
	}, "\n\n")
	layout("func-after-block-comment-on-the-same-line", "every test function follows `/* … */ ` on the same line", func(k int, n string, res bool) string {
		return fmt.Sprintf("/* see %d */ func %s%s", k, n, body(res))
	}, "\n\n")
	layout("func-after-end-of-multi-line-comment", "every test function follows the `*/` that ends a multi-line comment", func(k int, n string, res bool) string {
		return fmt.Sprintf("/*\n%s checks something.\n*/ func %s%s", n, n, body(res))
	}, "\n\n")
	layout("func-indented", "every test function is indented by one tab", func(k int, n string, res bool) string {
		return "\tfunc " + n + body(res)
	}, "\n\n")
	layout("func-indented", "every test function is indented by four spaces", func(k int, n string, res bool) string {
		return "    func " + n + body(res)
	}, "\n\n")
	layout("name-separated-from-func", "a tab between `func` and the name", func(k int, n string, res bool) string {
		return "func\t" + n + body(res)
	}, "\n\n")
	layout("name-separated-from-func", "two spaces between `func` and the name", func(k int, n string, res bool) string {
		return "func  " + n + body(res)
	}, "\n\n")
	layout("name-separated-from-func", "a comment between `func` and the name", func(k int, n string, res bool) string {
		return "func /* test */ " + n + body(res)
	}, "\n\n")
	layout("name-separated-from-func", "the name on the line after `func`", func(k int, n string, res bool) string {
		return "func\n" + n + body(res)
	}, "\n\n")
	layout("several-declarations-on-one-line", "all test functions on one line, separated by `; `", func(k int, n string, res bool) string {
		return fmt.Sprintf("func %s() bool { return %v }", n, res)
	}, "; ")
	{
		i := len(out)
		_, _, _, names := three(i)
		add("several-declarations-on-one-line", "the whole file on one line", []byte(fmt.Sprintf("package semantics; func %s() bool { return true }; func %s() bool { return false }; func %s() bool { return true }", names[0], names[1], names[2])), names)
	}
	plain("generated-code-header", "m_shape.go starts with `// Code generated by protoc-gen-go. DO NOT EDIT.`", func(i int, a, b, c string) string {
		return "// Code generated by protoc-gen-go. DO NOT EDIT.\n// source: semantics.proto\n\n" + pkg + a + "\n" + b + "\n" + c
	})
	plain("line-directives", "//line directives before the test functions of m_shape.go", func(i int, a, b, c string) string {
		return pkg + "//line zzz.go:900\n" + a + "\n//line aaa.go:1\n" + b + "\n/*line a_plain.go:1:1*/ " + c
	})
	{
		i := len(out)
		_, b, c, names := three(i)
		names[0] = fmt.Sprintf("testS%dA", i) + strings.Repeat("Wide", 1280)
		add("long-test-name", "a test function whose name is 5 KiB long", []byte(pkg+fmt.Sprintf("func %s() bool {\n\treturn true\n}\n\n", names[0])+b+"\n"+c), names)
	}
	{
		i := len(out)
		var sb strings.Builder
		var names []string
		sb.WriteString(pkg)
		for k := 0; k < 300; k++ {
			n := fmt.Sprintf("testS%dN%03d", i, k)
			if k%7 == 3 {
				n = "failing_" + n
			}
			names = append(names, n)
			fmt.Fprintf(&sb, "func %s() bool { return %v }\n\nfunc helperS%dN%03d() uint64 { return %d }\n\n", n, k%7 != 3, i, k, k)
		}
		add("many-test-functions", "300 test functions in m_shape.go", []byte(sb.String()), names)
	}
	big := func(testsFirst bool) {
		i := len(out)
		a, b, c, names := three(i)
		var sb strings.Builder
		sb.WriteString(pkg)
		if testsFirst {
			sb.WriteString(a + "\n" + b + "\n" + c + "\n")
		}
		line := "// " + strings.Repeat("lorem ipsum dolor sit amet ", 3) + "\n"
		for sb.Len() < 5<<19 {
			sb.WriteString(line)
		}
		fmt.Fprintf(&sb, "\nvar bigTable%d = []string{\n", i)
		for k := 0; k < 4000; k++ {
			fmt.Fprintf(&sb, "\t\"%04d %s\",\n", k, strings.Repeat("q", 92))
		}
		sb.WriteString("}\n\n")
		if !testsFirst {
			sb.WriteString(a + "\n" + b + "\n" + c)
		}
		where := "after"
		if testsFirst {
			where = "before"
		}
		add("file-of-several-MiB", fmt.Sprintf("m_shape.go is %d bytes of short lines (comments and a 4000-entry table), its test functions %s them", sb.Len(), where), []byte(sb.String()), names)
	}
	big(false)
	big(true)
	return out
}

// ------------------------------------------------------------------ build constraints

type c18BCSpec struct {
	mech, class, header, suffix, exact string
	noted                              bool
}

func c18BCSpecs() []c18BCSpec {
	os1, arch := runtime.GOOS, runtime.GOARCH
	os2 := "windows"
	if os1 == "windows" {
		os2 = "linux"
	}
	arch2 := "arm64"
	if arch == "arm64" {
		arch2 = "amd64"
	}
	gb := func(class, expr string) c18BCSpec {
		return c18BCSpec{mech: "go-build-line", class: class, header: "//go:build " + expr + "\n\n"}
	}
	pb := func(class, expr string) c18BCSpec {
		return c18BCSpec{mech: "plus-build-line", class: class, header: "// +build " + expr + "\n\n"}
	}
	fn := func(class, suffix string) c18BCSpec {
		return c18BCSpec{mech: "file-name", class: class, suffix: suffix}
	}
	specs := []c18BCSpec{
		gb("release-tag", "go1.1"), gb("release-tag", "go1.18"), gb("release-tag", "go1.22"), gb("release-tag", "go1.99"), gb("release-tag", "!go1.18"), gb("release-tag", "!go1.99"),
		gb("compiler-tag", "gc"), gb("compiler-tag", "gccgo"), gb("compiler-tag", "!gccgo"), gb("compiler-tag", "gc && !purego"),
		gb("unix", "unix"), gb("unix", "!unix"),
		gb("cgo", "cgo"), gb("cgo", "!cgo"), gb("cgo", "cgo || !cgo"),
		gb("goos", os1), gb("goos", "!"+os1), gb("goos", os2), gb("goos", "!"+os2), gb("goos", os1+" || darwin"), gb("goos", os2+" || plan9"),
		gb("goarch", arch), gb("goarch", "!"+arch), gb("goarch", arch2),
		gb("goos-and-goarch", os1+" && "+arch), gb("goos-and-goarch", os1+" && !"+arch), gb("goos-and-goarch", "("+os1+" || "+os2+") && !"+arch2), gb("goos-and-goarch", "!("+os1+" && "+arch+")"),
		gb("ignore", "ignore"), gb("ignore", "!ignore"),
		gb("unknown-tag", "mytag"), gb("unknown-tag", "!mytag"), gb("unknown-tag", "tools"),
		gb("race-msan", "race"), gb("race-msan", "!race && !msan"),
		gb("mixed", "go1.18 && "+os1+" && gc"), gb("mixed", "ignore || (unix && go1.20)"), gb("mixed", "!cgo && !gc"),
		{mech: "go-build-line", class: "below-a-licence-comment", header: "// Copyright 2024 The Authors. All rights reserved.\n// Use of this source code is governed by a licence.\n\n//go:build ignore\n\n"},
		{mech: "go-build-line", class: "below-a-licence-comment", header: "// Copyright 2024 The Authors. All rights reserved.\n\n//go:build go1.18\n\n"},
		{mech: "go-build-line", class: "directly-above-package-clause", header: "//go:build ignore\n"},
		{mech: "go-build-line", class: "directly-above-package-clause", header: "//go:build gc\n"},
		{mech: "go-build-line", class: "below-a-block-comment", header: "/*\nPackage notes.\n*/\n\n//go:build " + os2 + "\n\n"},
		// not constructed: a //go:build line after the package clause — go list selects the file, but the
		// compiler rejects the package ("misplaced compiler directive"), so it is not a package at all
		{mech: "go-build-line", class: "in-a-block-comment", header: "/*\n//go:build ignore\n*/\n\n"},
		pb("ignore", "ignore"), pb("goos", os1), pb("goos", "!"+os1), pb("goos", os2), pb("goos-and-goarch", os1+","+arch), pb("goos-and-goarch", os1+","+arch2), pb("goos", os2+" "+os1), pb("release-tag", "go1.18"), pb("compiler-tag", "gccgo"), pb("cgo", "!cgo cgo"),
		{mech: "plus-build-line", class: "without-the-blank-line-that-makes-it-count", header: "// +build ignore\n"},
		{mech: "plus-build-line", class: "without-the-blank-line-that-makes-it-count", header: "// +build " + os2 + "\n"},
		{mech: "plus-build-line", class: "two-lines-are-anded", header: "// +build " + os1 + "\n// +build " + arch2 + "\n\n"},
		{mech: "go-build-line", class: "with-a-plus-build-line-that-agrees", header: "//go:build ignore\n// +build ignore\n\n"},
		{mech: "go-build-line", class: "with-a-plus-build-line-that-agrees", header: "//go:build " + os1 + " && go1.18\n// +build " + os1 + ",go1.18\n\n"},
		fn("goos", "_"+os1), fn("goos", "_"+os2), fn("goos", "_js"), fn("goos", "_android"),
		fn("goarch", "_"+arch), fn("goarch", "_"+arch2), fn("goarch", "_wasm"),
		fn("goos-and-goarch", "_"+os1+"_"+arch), fn("goos-and-goarch", "_"+os1+"_"+arch2), fn("goos-and-goarch", "_"+os2+"_"+arch),
		fn("looks-like-a-constraint", "_unix"), fn("looks-like-a-constraint", "_Linux"), fn("looks-like-a-constraint", "_"+arch+"_"+os1), fn("looks-like-a-constraint", "_cgo"), fn("looks-like-a-constraint", "_go1.18"),
		fn("test-file", "_test"), fn("test-file", "_"+os1+"_test"), fn("test-file", "_"+os2+"_test"),
		{mech: "file-name", class: "bare-goos-name", exact: "", suffix: "=" + os2},
		{mech: "file-name", class: "bare-goos-name", exact: "", suffix: "=" + os1},
		{mech: "go-build-line+file-name", class: "contradicting", header: "//go:build !" + os1 + "\n\n", suffix: "_" + os1},
		{mech: "go-build-line+file-name", class: "contradicting", header: "//go:build " + os1 + "\n\n", suffix: "_" + os2},
		{mech: "go-build-line+file-name", class: "agreeing", header: "//go:build go1.18\n\n", suffix: "_" + os1},
		// the tag the two outputs disagree about: the Go test is compiled without it, goose translates with it
		gb("goose-tag", "goose"), gb("goose-tag", "!goose"), gb("goose-tag", "goose && "+os1), gb("goose-tag", "goose || ignore"), gb("goose-tag", "!goose && gc"), gb("goose-tag", "!(goose || "+os2+")"),
		gb("goose-tag", "goose || gc"), gb("goose-tag", "!goose || !ignore"), gb("goose-tag", "goose && ignore"),
		pb("goose-tag", "goose"), pb("goose-tag", "!goose"), pb("goose-tag", "goose "+os1),
		{mech: "go-build-line+file-name", class: "goose-tag", header: "//go:build goose\n\n", suffix: "_" + os1},
		{mech: "go-build-line+file-name", class: "goose-tag", header: "//go:build !goose\n\n", suffix: "_" + os2},
	}
	return specs
}

func c18BuildCases(quick bool, seed int64) []*c18FamCase {
	rng := core.NewRng(seed, "c18-build-constraint")
	specs := c18BCSpecs()
	var asserted, noted []c18BCSpec
	for _, s := range specs {
		if s.noted {
			noted = append(noted, s)
		} else {
			asserted = append(asserted, s)
		}
	}
	for i := len(asserted) - 1; i > 0; i-- { // which constraints share a directory depends on the seed
		j := rng.Intn(i + 1)
		asserted[i], asserted[j] = asserted[j], asserted[i]
	}
	per := 3
	if !quick {
		per = 1
	}
	var out []*c18FamCase
	mk := func(group []c18BCSpec, isNoted bool) {
		i := len(out)
		c := &c18FamCase{idx: i, family: "build-constraint", files: map[string][]byte{}, owner: map[string]string{}, noted: isNoted, explained: map[string]bool{}}
		c.files["a_first.go"] = []byte(fmt.Sprintf("package semantics\n\nfunc testFirstA%d() bool {\n\treturn true\n}\n", i))
		c.files["z_last.go"] = []byte(fmt.Sprintf("package semantics\n\nfunc helperZ%d() uint64 { return 1 }\n\nfunc failing_testLastZ%d() bool {\n\treturn false\n}\n", i, i))
		var descs []string
		for k, s := range group {
			name := fmt.Sprintf("m%d%s.go", k, s.suffix)
			if strings.HasPrefix(s.suffix, "=") {
				name = s.suffix[1:] + ".go"
			}
			t1, t2 := fmt.Sprintf("testB%dx%d", i, k), fmt.Sprintf("failing_testB%dy%d", i, k)
			head := s.header + "package semantics\n\n"
			if s.exact != "" {
				head = s.exact
			}
			src := head + fmt.Sprintf("func %s() bool {\n\treturn true\n}\n\nfunc helperB%dh%d() uint64 { return %d }\n\nfunc %s() bool {\n\treturn false\n}\n", t1, i, k, k, t2)
			c.files[name] = []byte(src)
			c.owner[t1], c.owner[t2] = name, name
			line := strings.TrimSpace(head)
			if s.header == "" && s.exact == "" {
				line = "(file name only)"
			}
			c.special = append(c.special, &c18BCFile{Name: name, Mechanism: s.mech, TagClass: s.class, Header: line, Tests: []string{t1, t2}})
			descs = append(descs, name+": "+strings.ReplaceAll(line, "\n", " ⏎ "))
		}
		c.desc = strings.Join(descs, "; ")
		c.class = "group"
		out = append(out, c)
	}
	for lo := 0; lo < len(asserted); lo += per {
		hi := lo + per
		if hi > len(asserted) {
			hi = len(asserted)
		}
		mk(asserted[lo:hi], false)
	}
	for _, s := range noted {
		mk([]c18BCSpec{s}, true)
	}
	return out
}

// ------------------------------------------------------------------ running and judging

// c18Collapse merges a discrepancy that both outputs show ("go-X" and "coq-X") into "X".
func c18Collapse(kinds []string) []string {
	has := map[string]bool{}
	for _, k := range kinds {
		has[k] = true
	}
	var out []string
	for _, k := range uniq(kinds) {
		switch {
		case strings.HasPrefix(k, "go-") && has["coq-"+k[3:]]:
			out = append(out, k[3:])
		case strings.HasPrefix(k, "coq-") && has["go-"+k[4:]]:
		default:
			out = append(out, k)
		}
	}
	return out
}

var c18UndefRe = regexp.MustCompile(`undefined: (\S+)`)

func c18ShapeAndBuildFamilies(r *core.Run, tg string, only string) {
	mod := filepath.Join(r.Scratch, "c18fammod")
	phase := map[string]float64{}
	t0 := time.Now()
	lap := func(name string) { phase[name] = time.Since(t0).Seconds(); t0 = time.Now() }
	defer func() { r.Set("shape_and_build_wall_s", phase) }()
	core.WriteFile(filepath.Join(mod, "go.mod"), fmt.Sprintf(c18GoMod, core.RepoDir))
	sum, _ := os.ReadFile(filepath.Join(core.RepoDir, "go.sum"))
	os.WriteFile(filepath.Join(mod, "go.sum"), sum, 0o644)

	var cases []*c18FamCase
	if only == "" || only == "text-shape" {
		cases = append(cases, c18ShapeCases(r.Quick(), r.Seed)...)
	}
	if only == "" || only == "build-constraint" {
		cases = append(cases, c18BuildCases(r.Quick(), r.Seed)...)
	}
	fail := func(c *c18FamCase, reason string, err interface{}) {
		r.Inconclusive(reason)
		c.skip = reason
		fmt.Fprintln(os.Stderr, "C18 "+c.family+":", reason, c.idx, c.class, err)
	}
	for _, c := range cases {
		c.dir = filepath.Join(mod, fmt.Sprintf("%c%03d", c.family[0], c.idx))
		for n, b := range c.files {
			if err := os.MkdirAll(c.dir, 0o755); err != nil {
				fail(c, "scratch-write-failed", err)
				break
			}
			if err := os.WriteFile(filepath.Join(c.dir, n), b, 0o644); err != nil {
				fail(c, "scratch-write-failed", err)
				break
			}
		}
	}

	lap("write")
	// the toolchain's view of every directory, with the tag goose loads packages with
	res := core.Exec(mod, core.GoEnv(), 5*time.Minute, "", "go", "list", "-e", "-tags", "goose", "-json=Dir,GoFiles,IgnoredGoFiles,TestGoFiles,Error,Incomplete", "./...")
	r.Count("shape_and_build_go_list_runs", 1)
	if res.TimedOut || res.Code != 0 {
		r.Inconclusive("shape-build-go-list-failed")
		fmt.Fprintln(os.Stderr, "C18 shape/build families: go list:", res.Code, firstLine(res.Stderr))
		return
	}
	type listed struct {
		Dir            string
		GoFiles        []string
		IgnoredGoFiles []string
		TestGoFiles    []string
		Error          *struct{ Err string }
		Incomplete     bool
	}
	byDir := map[string]*listed{}
	dec := json.NewDecoder(strings.NewReader(res.Stdout))
	for {
		var l listed
		if err := dec.Decode(&l); err == io.EOF {
			break
		} else if err != nil {
			r.Inconclusive("shape-build-go-list-unparsable")
			return
		}
		ll := l
		byDir[l.Dir] = &ll
	}
	// the same without the tag: the generated Go test is compiled that way
	resD := core.Exec(mod, core.GoEnv(), 5*time.Minute, "", "go", "list", "-e", "-json=Dir,GoFiles,Error,Incomplete", "./...")
	r.Count("shape_and_build_go_list_runs", 1)
	if resD.TimedOut || resD.Code != 0 {
		r.Inconclusive("shape-build-go-list-failed")
		fmt.Fprintln(os.Stderr, "C18 shape/build families: go list (default tags):", resD.Code, firstLine(resD.Stderr))
		return
	}
	defaultFiles := map[string]map[string]bool{}
	decD := json.NewDecoder(strings.NewReader(resD.Stdout))
	for {
		var l listed
		if err := decD.Decode(&l); err == io.EOF {
			break
		} else if err != nil {
			r.Inconclusive("shape-build-go-list-unparsable")
			return
		}
		m := map[string]bool{}
		if l.Error == nil && !l.Incomplete {
			for _, f := range l.GoFiles {
				m[f] = true
			}
		}
		defaultFiles[l.Dir] = m
	}
	selection := map[string]string{} // constraint → what go list did with the file
	for _, c := range cases {
		if c.skip != "" {
			continue
		}
		l := byDir[c.dir]
		switch {
		case l == nil:
			fail(c, "shape-build-directory-not-listed", nil)
		case l.Error != nil || l.Incomplete:
			c.skip = "rejected-by-go-list"
			r.Count(strings.ReplaceAll(c.family, "-", "_")+"_directories_rejected_by_go_list", 1)
			fmt.Fprintln(os.Stderr, "C18 "+c.family+": go list rejects", c.desc, l.Error)
			os.RemoveAll(c.dir)
			c.dir = ""
		default:
			// a file is a file of the package for test_gen's purpose if the go tool selects it under BOTH
			// tag sets: a test needs its function on the Go side (default tags) and on the Coq side (-tags goose)
			c.oneSide = map[string]string{}
			for _, f := range l.GoFiles {
				if defaultFiles[c.dir][f] {
					c.goFiles = append(c.goFiles, f)
				} else {
					c.oneSide[f] = "selected with the tag goose only"
				}
			}
			for f := range defaultFiles[c.dir] {
				found := false
				for _, g := range l.GoFiles {
					if g == f {
						found = true
					}
				}
				if !found {
					c.oneSide[f] = "selected without the tag goose only"
				}
			}
			sort.Strings(c.goFiles)
			for _, f := range c.goFiles {
				ts, err := c18ExpectedOfSource(f, c.files[f], false)
				if err != nil {
					fail(c, "oracle-parse-error", err)
					break
				}
				c.exp = append(c.exp, ts...)
			}
			in := map[string]bool{}
			for _, f := range c.goFiles {
				in[f] = true
			}
			for _, s := range c.special {
				s.Selected = in[s.Name]
				how := "excluded"
				if s.Selected {
					how = "selected"
				}
				if c.oneSide[s.Name] != "" {
					how = c.oneSide[s.Name]
				}
				selection[s.Mechanism+" | "+s.Name[strings.IndexAny(s.Name, "_.="):]+" | "+strings.ReplaceAll(s.Header, "\n", " ⏎ ")] = how
			}
			if c.family == "text-shape" && !in["m_shape.go"] {
				fail(c, "text-shape-file-not-a-GoFile", c.desc)
			}
		}
	}
	r.Set("build_constraint_selection_by_go_list", selection)
	lap("go_list_and_oracle")

	core.Parallel(len(cases), 16, func(i int) {
		c := cases[i]
		if c.skip != "" {
			return
		}
		fam := strings.ReplaceAll(c.family, "-", "_")
		var expNames []string
		failing := map[string]bool{}
		for _, t := range c.exp {
			expNames = append(expNames, t.Name)
			failing[t.Name] = t.Failing
		}
		coq := c18Run(c.dir, 0, tg, "-coq", c.dir)
		gout := c18Run(c.dir, 0, tg, "-go", c.dir)
		r.Count("test_gen_invocations", 2)
		if coq.TimedOut || gout.TimedOut {
			r.Inconclusive("test_gen-watchdog")
			c.skip = "watchdog"
			return
		}
		detail := map[string]interface{}{"family": c.family, "class": c.class, "input": c.desc, "GoFiles_reported_by_go_list": c.goFiles, "expected_tests": firstN(expNames, 40),
			"go_output": c18Clip([]byte(gout.Stdout)), "coq_output": c18Clip([]byte(coq.Stdout)), "stderr": firstLine(coq.Stderr + gout.Stderr)}
		if len(c.special) > 0 {
			detail["constrained_files"] = c.special
			srcs := map[string]string{}
			for _, s := range c.special {
				srcs[s.Name] = c18Clip(c.files[s.Name])
			}
			detail["sources"] = srcs
		} else {
			detail["source_of_m_shape.go"] = c18Clip(c.files["m_shape.go"])
		}
		add := func(sig, what string) { c.pend = append(c.pend, c18Pend{sig, what, detail}) }
		if coq.Code != 0 || gout.Code != 0 {
			if c.noted {
				r.Count("build_constraint_noted_not_asserted["+strings.ReplaceAll(c.special[0].Header, "\n", " ⏎ ")+"]/test_gen-exit-nonzero", 1)
				return
			}
			r.Eval(1)
			sig := c18ShapeSig + c.class
			if c.family == "build-constraint" {
				sig = c18BuildSig + "directory"
			}
			add(sig+":test_gen-exit-nonzero", fmt.Sprintf("test_gen exited %d (-coq) / %d (-go) on a directory that go list accepts (GoFiles %v): %s: %s", coq.Code, gout.Code, c.goFiles, c.desc, firstLine(coq.Stderr+gout.Stderr)))
			return
		}
		goNames, un1 := c18Names("-go", gout.Stdout)
		coqNames, un2 := c18Names("-coq", coq.Stdout)
		detail["go_tests"], detail["coq_tests"] = firstN(goNames, 40), firstN(coqNames, 40)
		coqEntries, _ := c18ParseCoq(coq.Stdout)
		failWrong := map[string]bool{}
		for _, e := range coqEntries {
			if want, ok := failing[e.Fn]; ok && want != e.Fail {
				failWrong[e.Fn] = true
			}
		}
		if c.noted {
			s := c.special[0]
			n := 0
			for _, g := range goNames {
				if c.owner[g] == s.Name {
					n++
				}
			}
			r.Count(fmt.Sprintf("build_constraint_noted_not_asserted[%s]/go_list_-tags_goose_selects_the_file=%v/test_gen_emits_%d_of_its_%d_tests", strings.ReplaceAll(s.Header, "\n", " ⏎ "), s.Selected, n, len(s.Tests)), 1)
			return
		}
		r.Eval(1)
		r.Count(fam+"_directories_judged", 1)
		r.Count(fam+"_expected_tests_total", int64(len(expNames)))
		r.Count(fam+"_observed_go_tests_total", int64(len(goNames)))
		r.Count(fam+"_observed_coq_tests_total", int64(len(coqNames)))
		c.goOut = gout.Stdout
		if c.family == "text-shape" {
			r.Distinct("text-shape/" + c.desc)
			r.Count("text_shape_directories_judged_by_class/"+c.class, 1)
			kinds := append(c18Diff("go", expNames, goNames), c18Diff("coq", expNames, coqNames)...)
			if strings.Join(goNames, " ") != strings.Join(coqNames, " ") {
				kinds = append(kinds, "go-and-coq-disagree")
			}
			if un1+un2 > 0 {
				kinds = append(kinds, "unparsable-test-entries")
			}
			if len(failWrong) > 0 {
				kinds = append(kinds, "coq-Fail-marking-wrong")
			}
			for _, k := range c18Collapse(kinds) {
				add(c18ShapeSig+c.class+":"+k, fmt.Sprintf("%s (go list reports GoFiles %v): %s; tests of the GoFiles per go/parser %v, -go tests %v, -coq tests %v", c.desc, c.goFiles, k, firstN(expNames, 12), firstN(goNames, 12), firstN(coqNames, 12)))
			}
			return
		}
		// build constraints: judge file by file
		filter := func(names []string, file string) (out []string) {
			for _, n := range names {
				if c.owner[n] == file || (file == "" && c.owner[n] == "") {
					out = append(out, n)
				}
			}
			return
		}
		clean := true
		explained := c.explained
		for _, s := range c.special {
			how := "excluded-by-go-tool"
			var exp []string
			if s.Selected {
				how = "selected-by-go-tool"
				exp = s.Tests
				if strings.HasSuffix(s.Name, "_test.go") {
					exp = nil
				}
			}
			if c.oneSide[s.Name] != "" {
				// in the package with or without the tag goose, not both: its functions exist on one side only,
				// one Go AND one Coq test per test function is impossible, so neither output has a test for them
				how = "selected-under-one-tag-set-only"
			}
			r.Distinct("build-constraint/" + s.Mechanism + "/" + s.Header + "/" + s.Name[strings.IndexAny(s.Name, "_.="):])
			r.Count("build_constraint_files_judged/"+s.Mechanism+"/"+how, 1)
			r.Count("build_constraint_files_judged_by_tag_class/"+s.TagClass, 1)
			g, q := filter(goNames, s.Name), filter(coqNames, s.Name)
			kinds := append(c18Diff("go", exp, g), c18Diff("coq", exp, q)...)
			for _, n := range s.Tests {
				if failWrong[n] {
					kinds = append(kinds, "coq-Fail-marking-wrong")
				}
			}
			if how == "selected-under-one-tag-set-only" && len(kinds) > 0 {
				switch {
				case len(g) > 0 && len(q) == 0:
					kinds = []string{"go-tests-without-coq-counterpart"}
				case len(q) > 0 && len(g) == 0:
					kinds = []string{"coq-tests-without-go-counterpart"}
				default:
					kinds = []string{"tests-for-functions-one-side-does-not-have"}
				}
			}
			for _, k := range c18Collapse(kinds) {
				clean = false
				explained[s.Name] = true
				add(c18BuildSig+s.Mechanism+"/"+how+":"+k, fmt.Sprintf("file %s with constraint [%s] (class %s) is %s (GoFiles under both tag sets %v): %s; its test functions %v, of these in the -go output %v, in the -coq output %v",
					s.Name, strings.ReplaceAll(s.Header, "\n", " ⏎ "), s.TagClass, strings.ReplaceAll(how, "-", " "), c.goFiles, k, s.Tests, g, q))
			}
		}
		var plainExp []string
		for _, n := range expNames {
			if c.owner[n] == "" {
				plainExp = append(plainExp, n)
			}
		}
		kinds := append(c18Diff("go", plainExp, filter(goNames, "")), c18Diff("coq", plainExp, filter(coqNames, ""))...)
		if un1+un2 > 0 {
			kinds = append(kinds, "unparsable-test-entries")
		}
		if clean && len(kinds) == 0 {
			kinds = append(kinds, c18Diff("go", expNames, goNames)...)
			kinds = append(kinds, c18Diff("coq", expNames, coqNames)...)
		}
		for _, k := range c18Collapse(kinds) {
			add(c18BuildSig+"unconstrained-files:"+k, fmt.Sprintf("directory with constrained files (%s; go list reports GoFiles %v): %s; expected tests %v, -go tests %v, -coq tests %v", c.desc, c.goFiles, k, expNames, goNames, coqNames))
		}
	})
	for _, c := range cases {
		if c.goOut != "" {
			if err := os.WriteFile(filepath.Join(c.dir, "generated_test.go"), []byte(c.goOut), 0o644); err != nil {
				c.goOut = ""
			}
		}
	}

	lap("test_gen_and_judge")
	// the generated Go file compiles against the package as the go tool sees it
	res = core.Exec(mod, core.GoEnv(), 15*time.Minute, "", "go", "test", "-vet=off", "-count=1", "-run", "^$", "./...")
	if res.TimedOut {
		r.Inconclusive("shape-build-go-test-watchdog")
	} else {
		status := map[string]string{}
		for _, line := range strings.Split(res.Stdout, "\n") {
			fs := strings.Fields(line)
			if len(fs) >= 2 && fs[0] == "ok" {
				status[strings.TrimPrefix(fs[1], "c18scratch/")] = "ok"
			} else if len(fs) >= 2 && fs[0] == "FAIL" && strings.HasPrefix(fs[1], "c18scratch/") {
				status[strings.TrimPrefix(fs[1], "c18scratch/")] = "failed"
			}
		}
		for _, c := range cases {
			if c.goOut == "" {
				continue
			}
			fam := strings.ReplaceAll(c.family, "-", "_")
			name := filepath.Base(c.dir)
			var errs []string
			foreign := false
			for _, line := range strings.Split(res.Stderr+"\n"+res.Stdout, "\n") {
				if strings.HasPrefix(line, name+"/") {
					errs = append(errs, line)
					if !strings.HasPrefix(line, name+"/generated_test.go:") {
						foreign = true
					}
				}
			}
			switch {
			case status[name] == "ok":
				r.Count(fam+"_go_files_compiled_ok", 1)
			case status[name] == "failed" && !foreign && len(errs) > 0:
				r.Count(fam+"_go_files_failing_to_compile", 1)
				detail := map[string]interface{}{"family": c.family, "class": c.class, "input": c.desc, "GoFiles_reported_by_go_list": c.goFiles, "compile_errors": firstN(errs, 10), "go_output": c18Clip([]byte(c.goOut))}
				if c.family == "text-shape" {
					c.pend = append(c.pend, c18Pend{c18ShapeSig + c.class + ":go-file-does-not-compile",
						fmt.Sprintf("the -go output for %s does not compile next to the package: %v", c.desc, firstN(errs, 3)), detail})
					break
				}
				detail["constrained_files"] = c.special
				sigs := map[string]string{}
				for _, e := range errs {
					if m := c18UndefRe.FindStringSubmatch(e); m != nil {
						for _, s := range c.special {
							if c.owner[m[1]] == s.Name && c.explained[s.Name] {
								sigs["-"] = ""
							} else if c.owner[m[1]] == s.Name {
								how := "excluded-by-go-tool"
								if s.Selected {
									how = "selected-by-go-tool"
								}
								if c.oneSide[s.Name] != "" {
									how = "selected-under-one-tag-set-only"
								}
								sigs[c18BuildSig+s.Mechanism+"/"+how+":go-file-does-not-compile"] = fmt.Sprintf("file %s with constraint [%s] (class %s): ", s.Name, strings.ReplaceAll(s.Header, "\n", " ⏎ "), s.TagClass)
							}
						}
					}
				}
				if len(sigs) == 0 {
					sigs[c18BuildSig+"unconstrained-files:go-file-does-not-compile"] = ""
				}
				for sig, pre := range sigs {
					if sig == "-" {
						continue // already reported as a difference of that file's test list
					}
					c.pend = append(c.pend, c18Pend{sig, fmt.Sprintf("%sthe -go output for the directory (%s; GoFiles %v) does not compile next to the package: %v", pre, c.desc, c.goFiles, firstN(errs, 3)), detail})
				}
			default:
				r.Inconclusive("shape-build-package-does-not-compile")
				fmt.Fprintln(os.Stderr, "C18 "+c.family+": no usable compile status for", name, c.class, c.desc, status[name], firstN(errs, 3))
			}
		}
	}
	lap("compile")
	for _, c := range cases {
		sort.SliceStable(c.pend, func(i, j int) bool { return c.pend[i].sig < c.pend[j].sig })
		for _, p := range c.pend {
			r.Violate(p.sig, p.what, p.detail)
		}
	}
	r.Set("text_shape_long_line_kinds", c18LongKinds)
	r.Set("text_shape_long_line_sizes", c18LongSizes)
}
