package miscp

import (
	"bytes"
	"fmt"
	"os"
	"path/filepath"
	"sort"
	"strings"

	"verif/core"
)

// C18, workload dimension "where -out points and what it is called".
//
// The set of tests is a function of the package's hand-written sources only:
// neither the directory the output goes to nor its base name may change it. For
// plain generated packages every combination of
//
//	location: another directory (absolute path / relative path through ../), a
//	          sub-directory of the package directory (absolute / relative), the
//	          package directory itself (absolute / relative)
//	name:     a source file of the package that has tests / that has none, the
//	          conventional generated_test.go, <directory>_test.go, <source>_test.go,
//	          a non-Go file of the directory, a .v / .go extension swapped between
//	          the modes, <source stem>.v, a new .go name, a name the go tool ignores
//	mode:     -go, -coq
//
// is run on a private copy of the package; after exit 0 the file must equal what
// the same invocation prints on stdout for the untouched package, and nothing else
// in the package directory may have changed.
//
// Not asserted, only recorded (out_name_noted_* keys): a target INSIDE the package
// directory whose name makes it a source file of the package — overwriting one of
// the hand-written sources destroys the input, and -coq into <package>/x.go makes
// the tool parse its own Coq text as Go. -go into a new <package>/gen.go is asserted
// (the tool reads back its own well-formed prefix, which declares no test function).

const c18OutNameSig = "out-file-name/"

func c18CopyDir(src, dst string) error {
	return filepath.Walk(src, func(p string, fi os.FileInfo, err error) error {
		if err != nil {
			return err
		}
		rel, _ := filepath.Rel(src, p)
		if fi.IsDir() {
			return os.MkdirAll(filepath.Join(dst, rel), 0o755)
		}
		b, err := os.ReadFile(p)
		if err != nil {
			return err
		}
		return os.WriteFile(filepath.Join(dst, rel), b, 0o644)
	})
}

// c18DirState maps every file below dir to its content (for "nothing else changed").
func c18DirState(dir string) map[string]string {
	st := map[string]string{}
	filepath.Walk(dir, func(p string, fi os.FileInfo, err error) error {
		if err == nil && !fi.IsDir() {
			rel, _ := filepath.Rel(dir, p)
			b, _ := os.ReadFile(p)
			st[rel] = string(b)
		}
		return nil
	})
	return st
}

type c18OutLoc struct {
	name  string
	inPkg bool
	// place returns (cwd, -out argument, package argument, real path of the target) for a scenario directory
	place func(sdir, pkg, base string) (cwd, outArg, srcArg, real string)
}

var c18OutLocs = []c18OutLoc{
	{"other-directory/absolute-path", false, func(sdir, pkg, base string) (string, string, string, string) {
		p := filepath.Join(sdir, "elsewhere", base)
		return sdir, p, pkg, p
	}},
	{"other-directory/relative-path-with-dotdot", false, func(sdir, pkg, base string) (string, string, string, string) {
		return pkg, filepath.Join("..", "..", "elsewhere", base), ".", filepath.Join(sdir, "elsewhere", base)
	}},
	{"subdirectory-of-package/absolute-path", false, func(sdir, pkg, base string) (string, string, string, string) {
		p := filepath.Join(pkg, "out", base)
		return sdir, p, pkg, p
	}},
	{"subdirectory-of-package/relative-path", false, func(sdir, pkg, base string) (string, string, string, string) {
		return pkg, filepath.Join("out", base), ".", filepath.Join(pkg, "out", base)
	}},
	{"package-directory/absolute-path", true, func(sdir, pkg, base string) (string, string, string, string) {
		p := filepath.Join(pkg, base)
		return sdir, p, pkg, p
	}},
	{"package-directory/relative-path", true, func(sdir, pkg, base string) (string, string, string, string) {
		return pkg, "./" + base, ".", filepath.Join(pkg, base)
	}},
}

func c18OutNames(r *core.Run, tg string) {
	nPkg := r.Pick(5, 40)
	root := filepath.Join(r.Scratch, "c18outname")
	type pend struct {
		sig, what string
		detail    map[string]interface{}
	}
	pends := make([][]pend, nPkg)
	core.Parallel(nPkg, 16, func(pi int) {
		fail := func(reason string, err interface{}) {
			r.Inconclusive(reason)
			fmt.Fprintln(os.Stderr, "C18 out-name:", reason, pi, err)
		}
		d, err := genC18Dir(r.Seed, 91000+pi, "")
		if err != nil {
			fail("out-name-generator-error", err)
			return
		}
		v := &c18Ver{files: map[string][]byte{}}
		for _, f := range d.Files {
			v.files[f.Name] = f.content
		}
		v.files["zz_helpers.go"] = []byte("package semantics\n\nfunc helperZZ(x uint64) uint64 {\n\treturn x + 7\n}\n")
		nonGo := ""
		for n := range v.files {
			if !strings.Contains(n, "/") && !strings.HasSuffix(n, ".go") && !strings.HasSuffix(n, "~") && !strings.HasSuffix(n, ".v") && (nonGo == "" || n < nonGo) {
				nonGo = n
			}
		}
		if nonGo == "" {
			nonGo = "NOTES.md"
			v.files[nonGo] = []byte("notes\n\n  func testIndentedInNotes() bool {\n")
		}
		ds, _, err := v.decls()
		if err != nil || len(ds) == 0 {
			fail("out-name-generator-error", err)
			return
		}
		withTests := ds[0].file
		pdir := filepath.Join(root, fmt.Sprintf("o%03d", pi))
		master := filepath.Join(pdir, "master", "semantics")
		if err := v.writeTo(master, nil); err != nil {
			fail("scratch-write-failed", err)
			return
		}
		exp, err := c18ExpNames(master)
		if err != nil {
			fail("oracle-parse-error", err)
			return
		}
		ref := map[string][]byte{}
		for _, m := range c18Modes {
			res := c18Run(pdir, 0, tg, m.flag, master)
			r.Count("test_gen_invocations", 1)
			if res.Code != 0 || res.TimedOut {
				fail("out-name-reference-generation-failed", firstLine(res.Stderr))
				return
			}
			ref[m.flag] = []byte(res.Stdout)
		}
		before := c18DirState(master)
		stem := strings.TrimSuffix(withTests, ".go")
		names := []struct{ class, goName, coqName string }{
			{"name-of-a-source-file-with-tests", withTests, withTests},
			{"name-of-a-source-file-without-tests", "zz_helpers.go", "zz_helpers.go"},
			{"generated_test.go", "generated_test.go", "generated_test.go"},
			{"directory-name_test.go", "semantics_test.go", "semantics_test.go"},
			{"source-name_test.go", stem + "_test.go", stem + "_test.go"},
			{"name-of-a-non-go-file-of-the-directory", nonGo, nonGo},
			{"extension-of-the-other-mode", "semantics.v", "semantics.go"},
			{"source-stem-with-v-extension", stem + ".v", stem + ".v"},
			{"new-go-name", "gen.go", "gen.go"},
			{"name-the-go-tool-ignores", "_gen.go", "_gen.go"},
		}
		si := 0
		for _, loc := range c18OutLocs {
			for _, nm := range names {
				for _, m := range c18Modes {
					si++
					mname := strings.TrimPrefix(m.flag, "-")
					base := nm.goName
					if m.flag == "-coq" {
						base = nm.coqName
					}
					sdir := filepath.Join(pdir, fmt.Sprintf("s%03d", si))
					pkg := filepath.Join(sdir, "work", "semantics")
					if err := c18CopyDir(master, pkg); err != nil {
						fail("scratch-write-failed", err)
						continue
					}
					os.MkdirAll(filepath.Join(sdir, "elsewhere"), 0o755)
					os.MkdirAll(filepath.Join(pkg, "out"), 0o755)
					cwd, outArg, srcArg, real := loc.place(sdir, pkg, base)
					res := c18Run(cwd, 0, tg, m.flag, "-out", outArg, srcArg)
					r.Count("test_gen_invocations", 1)
					if res.TimedOut {
						fail("test_gen-watchdog", nil)
						continue
					}
					got, rerr := os.ReadFile(real)
					_, isOwnSource := before[base]
					isOwnSource = isOwnSource && c18IsSource(base)
					cmd := fmt.Sprintf("(cd %s && test_gen %s -out %s %s)", strings.TrimPrefix(cwd, sdir+"/"), m.flag, strings.Replace(outArg, sdir+"/", "", 1), strings.Replace(srcArg, sdir+"/", "", 1))
					if loc.inPkg && c18IsSource(base) && (isOwnSource || m.flag == "-coq") {
						// not asserted (see above): the outcome is recorded
						out := fmt.Sprintf("exit-%d", res.Code)
						if res.Code == 0 {
							out = map[bool]string{true: "exit-0-same-as-stdout", false: "exit-0-differs-from-stdout"}[bytes.Equal(got, ref[m.flag])]
						}
						r.Count(fmt.Sprintf("out_name_noted_not_asserted/%s:%s:%s/%s", strings.SplitN(loc.name, "/", 2)[0], nm.class, mname, out), 1)
						continue
					}
					r.Eval(1)
					r.Distinct(fmt.Sprintf("outname/%s/%s/%s/%d", loc.name, nm.class, mname, pi))
					r.Count("out_name_scenarios_run/"+loc.name, 1)
					r.Count("out_name_scenarios_by_name_class/"+nm.class, 1)
					detail := map[string]interface{}{"location": loc.name, "name_class": nm.class, "out_base_name": base, "mode": m.flag, "command": cmd, "exit": res.Code, "stderr": firstLine(res.Stderr),
						"package_files": func() []string {
							var fs []string
							for f := range before {
								fs = append(fs, f)
							}
							sort.Strings(fs)
							return fs
						}(), "package": fmt.Sprintf("generated directory %d + zz_helpers.go", 91000+pi)}
					sigBase := c18OutNameSig + loc.name + ":" + nm.class + ":" + mname
					if res.Code != 0 || rerr != nil {
						pends[pi] = append(pends[pi], pend{sigBase + "-test_gen-exit-nonzero-or-no-file",
							fmt.Sprintf("%s exited %d (output file readable: %v) — location %q, base name %q (%s): %s", cmd, res.Code, rerr == nil, loc.name, base, nm.class, firstLine(res.Stderr)), detail})
						continue
					}
					r.Count("out_name_files_compared_with_stdout", 1)
					if !bytes.Equal(got, ref[m.flag]) {
						detail["file"] = c18Clip(got)
						detail["stdout_of_same_generation"] = c18Clip(ref[m.flag])
						pends[pi] = append(pends[pi], pend{sigBase + "-file-differs-from-generation-to-stdout",
							fmt.Sprintf("%s exited 0, but the file (%d bytes) is not what test_gen %s prints on stdout for the same package (%d bytes); -out location %q, base name %q = %s; %s",
								cmd, len(got), m.flag, len(ref[m.flag]), loc.name, base, nm.class, c18DescribeStale(m.flag, string(got), exp)), detail})
					}
					// nothing else in the package directory changed
					after := c18DirState(pkg)
					relTarget, _ := filepath.Rel(pkg, real)
					var changed []string
					for f, c := range before {
						if f != relTarget && after[f] != c {
							changed = append(changed, f)
						}
					}
					for f := range after {
						if _, ok := before[f]; !ok && f != relTarget {
							changed = append(changed, f+" (new)")
						}
					}
					r.Count("out_name_package_directories_compared_before_after", 1)
					if len(changed) > 0 {
						sort.Strings(changed)
						detail["changed"] = changed
						pends[pi] = append(pends[pi], pend{sigBase + "-other-files-of-the-package-changed",
							fmt.Sprintf("%s changed files of the package directory other than its target: %v", cmd, changed), detail})
					}
				}
			}
		}
		r.Count("out_name_packages", 1)
	})
	for _, ps := range pends {
		for _, p := range ps {
			r.Violate(p.sig, p.what, p.detail)
		}
	}
}
