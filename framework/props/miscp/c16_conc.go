package miscp

import (
	"encoding/json"
	"fmt"
	"os"
	"path/filepath"
	"regexp"
	"sort"
	"strconv"
	"strings"
	"sync"
	"time"

	"verif/core"
	"verif/props"

	"github.com/goose-lang/goose/machine"
)

// C16, concurrency layer. The primitives of /repo/machine that take no shared
// state from the caller (UInt64ToString, UInt64/32 Get/Put, MapClear,
// Assume/Assert, RandomUint64, Linearize, TimeNow, Sleep, NewProph, WaitTimeout
// on a Cond nobody else knows) are called from 2–16 goroutines at once. Every
// goroutine works on state that only it can reach (its own buffers, maps,
// Conds, value stream) and checks its own results against the same independent
// oracles as the sequential layer, so whatever goes wrong is the library's
// doing: the harness shares nothing between goroutines while a round runs
// (results are merged after the WaitGroup).
//
// Two children run the same rounds:
//   - plain: this binary, production timing; the observation is a wrong result;
//   - race: the same binary built with -race; the observation is a DATA RACE
//     report with a /repo frame (the overlap need not produce a wrong result).

func init() {
	props.Children["c16-conc"] = c16ConcChild
}

const (
	cpToString = "UInt64ToString"
	cpPut64    = "UInt64Put+UInt64Get"
	cpPut32    = "UInt32Put+UInt32Get"
	cpMapClear = "MapClear"
	cpAssume   = "Assume+Assert"
	cpRandom   = "RandomUint64"
	cpNoops    = "Linearize+TimeNow+Sleep+NewProph"
	cpWait     = "WaitTimeout(private Cond)"
	cpMixed    = "mixed"
)

// c16ConcPrims is the family list; removing an entry removes its rounds only.
var c16ConcPrims = []string{cpToString, cpPut64, cpPut32, cpMapClear, cpAssume, cpRandom, cpNoops, cpWait, cpMixed}

// calls per goroutine in the plain child (quick tier); the race child does 1/12 of it
var c16ConcCalls = map[string]int{
	cpToString: 200_000, cpPut64: 200_000, cpPut32: 200_000, cpMapClear: 2_000, cpAssume: 40_000,
	cpRandom: 100_000, cpNoops: 60_000, cpWait: 24, cpMixed: 120_000,
}

type concRound struct {
	Idx  int    `json:"idx"`
	Prim string `json:"primitive"`
	G    int    `json:"goroutines"`
	N    int    `json:"calls_per_goroutine"`
}

// c16ConcPlan is a function of (tier, mode) only; the seed selects the values.
func c16ConcPlan(quick bool, mode string) []concRound {
	gs := []int{2, 3, 8, 16}
	mul := 1
	if !quick {
		gs = []int{2, 3, 4, 6, 8, 12, 16}
		mul = 6
	}
	var out []concRound
	for _, p := range c16ConcPrims {
		for _, g := range gs {
			n := c16ConcCalls[p] * mul
			if p == cpWait {
				n = c16ConcCalls[p] // bounded by its timeouts, not by CPU
			}
			if mode == "race" {
				n = n/12 + 1
			}
			out = append(out, concRound{Idx: len(out), Prim: p, G: g, N: n})
		}
	}
	return out
}

type concBad struct {
	Class  string                 `json:"class"` // signature suffix: <primitive>-<what went wrong>
	What   string                 `json:"what"`
	Detail map[string]interface{} `json:"detail"`
}

// concW is the state of one goroutine. Nothing in it is reachable from any
// other goroutine until the round's WaitGroup is done.
type concW struct {
	g     int
	rng   *core.Rng
	calls map[string]int64
	bad   []concBad
	nbad  int64
	vals  []uint64 // values given to UInt64ToString (for the distinct count)
	t0,
	t1 time.Time

	buf   []byte
	m1    map[uint64]uint64
	m2    map[string][]byte
	m3    c16NamedMap
	m4    map[c16key]*uint64
	keepV bool
}

func (w *concW) fail(class, what string, detail map[string]interface{}) {
	w.nbad++
	if len(w.bad) < 4 {
		if detail == nil {
			detail = map[string]interface{}{}
		}
		detail["goroutine"] = w.g
		w.bad = append(w.bad, concBad{class, what, detail})
	}
}

func (w *concW) value() uint64 {
	v := w.rng.U64()
	switch v & 3 {
	case 1: // spread digit counts
		v >>= uint(w.rng.Intn(64))
	case 2: // near a power of ten
		q := uint64(1)
		for j, k := 0, w.rng.Intn(20); j < k; j++ {
			q *= 10
		}
		v = q + uint64(w.rng.Intn(2001)) - 1000
	}
	return v
}

const concBatch = 64

// Each op performs one batch: the library calls first, back to back (so that
// goroutines spend their time inside the library), the checks afterwards.

func (w *concW) opToString() int {
	var vs [concBatch]uint64
	var out [concBatch]string
	for i := range vs {
		vs[i] = w.value()
	}
	for i := range vs {
		out[i] = machine.UInt64ToString(vs[i])
	}
	for i := range vs {
		if want := refDecimal(vs[i]); out[i] != want {
			w.fail("UInt64ToString-differs-from-decimal",
				fmt.Sprintf("UInt64ToString(%d) = %q while other goroutines were calling it too; hand-computed decimal is %q", vs[i], out[i], want),
				map[string]interface{}{"value": vs[i], "got": out[i], "want_decimal": want})
		}
	}
	if w.keepV && len(w.vals) < 250_000 { // bounded: the thorough tier formats millions per goroutine
		w.vals = append(w.vals, vs[:]...)
	}
	w.calls["UInt64ToString"] += concBatch
	return concBatch
}

func (w *concW) opPut64() int {
	var vs [concBatch]uint64
	off := w.rng.Intn(8)
	b := w.buf[off : off+concBatch*8]
	for i := range vs {
		vs[i] = w.value()
	}
	for i := range vs {
		machine.UInt64Put(b[i*8:], vs[i])
	}
	var got [concBatch]uint64
	for i := range vs {
		got[i] = machine.UInt64Get(b[i*8:])
	}
	for i, v := range vs {
		ok := got[i] == v
		for k := 0; k < 8; k++ {
			if b[i*8+k] != byte(v>>(8*uint(k))) {
				ok = false
			}
		}
		if !ok {
			w.fail("UInt64Put+UInt64Get-wrong-bytes-or-value",
				fmt.Sprintf("UInt64Put(buf, %#x) on a goroutine-private buffer left % x and UInt64Get read %#x while other goroutines were encoding into their own buffers", v, b[i*8:i*8+8], got[i]),
				map[string]interface{}{"value": v, "bytes": fmt.Sprintf("% x", b[i*8:i*8+8]), "got": got[i]})
		}
	}
	w.calls["UInt64Put"] += concBatch
	w.calls["UInt64Get"] += concBatch
	return 2 * concBatch
}

func (w *concW) opPut32() int {
	var vs [concBatch]uint32
	off := w.rng.Intn(8)
	b := w.buf[off : off+concBatch*4]
	for i := range vs {
		vs[i] = uint32(w.value())
	}
	for i := range vs {
		machine.UInt32Put(b[i*4:], vs[i])
	}
	var got [concBatch]uint32
	for i := range vs {
		got[i] = machine.UInt32Get(b[i*4:])
	}
	for i, v := range vs {
		ok := got[i] == v
		for k := 0; k < 4; k++ {
			if b[i*4+k] != byte(v>>(8*uint(k))) {
				ok = false
			}
		}
		if !ok {
			w.fail("UInt32Put+UInt32Get-wrong-bytes-or-value",
				fmt.Sprintf("UInt32Put(buf, %#x) on a goroutine-private buffer left % x and UInt32Get read %#x while other goroutines were encoding into their own buffers", v, b[i*4:i*4+4], got[i]),
				map[string]interface{}{"value": v, "bytes": fmt.Sprintf("% x", b[i*4:i*4+4]), "got": got[i]})
		}
	}
	w.calls["UInt32Put"] += concBatch
	w.calls["UInt32Get"] += concBatch
	return 2 * concBatch
}

func concClearCheck[M ~map[K]V, K comparable, V any](w *concW, typ string, m M, n int, mk func(i int) (K, V)) {
	for i := 0; i < n; i++ {
		k, v := mk(i)
		m[k] = v
	}
	filled := len(m)
	machine.MapClear(m)
	ranged := 0
	for range m {
		ranged++
	}
	k0, v0 := mk(n + 3)
	m[k0] = v0
	_, found := m[k0]
	if len(m) != 1 || ranged != 0 || !found {
		w.fail("MapClear-private-map-not-empty-or-unusable",
			fmt.Sprintf("MapClear of a goroutine-private %s with %d entries: ranging afterwards yields %d entries, after one insert len is %d (insert found: %v), while other goroutines were clearing their own maps", typ, filled, ranged, len(m), found),
			map[string]interface{}{"map_type": typ, "entries": filled, "ranged_after": ranged, "len_after_one_insert": len(m)})
	}
	machine.MapClear(m)
	if len(m) != 0 {
		w.fail("MapClear-private-map-not-empty-or-unusable", fmt.Sprintf("second MapClear of a goroutine-private %s left len %d", typ, len(m)), map[string]interface{}{"map_type": typ})
	}
	w.calls["MapClear"] += 2
}

func (w *concW) opMapClear() int {
	n := w.rng.Intn(48)
	salt := w.rng.U64()
	switch w.rng.Intn(4) {
	case 0:
		concClearCheck(w, "map[uint64]uint64", w.m1, n, func(i int) (uint64, uint64) { return uint64(i)*0x9E3779B97F4A7C15 + salt, uint64(i) })
	case 1:
		concClearCheck(w, "map[string][]byte", w.m2, n, func(i int) (string, []byte) {
			return "k" + strconv.FormatUint(uint64(i)+salt, 16), []byte{byte(i)}
		})
	case 2:
		concClearCheck(w, "named-map[string]uint64", w.m3, n, func(i int) (string, uint64) {
			return strconv.Itoa(i) + "/" + strconv.FormatUint(salt%1000, 10), uint64(i)
		})
	default:
		concClearCheck(w, "map[struct]*uint64", w.m4, n, func(i int) (c16key, *uint64) {
			v := uint64(i)
			return c16key{uint64(i) + salt, [2]byte{byte(i), 1}}, &v
		})
	}
	return 2
}

func (w *concW) opAssume() int {
	n := 0
	for i := 0; i < 16; i++ {
		arg := w.rng.Intn(4) != 0 // mostly true: the panic path is slow
		for _, fn := range []struct {
			name string
			f    func(bool)
		}{{"Assume", machine.Assume}, {"Assert", machine.Assert}} {
			p := callPanics(func() { fn.f(arg) })
			if p == arg {
				cl, what := fn.name+"-panics-on-true", fmt.Sprintf("machine.%s(true) panicked while other goroutines were calling it too", fn.name)
				if !arg {
					cl, what = fn.name+"-no-panic-on-false", fmt.Sprintf("machine.%s(false) returned normally while other goroutines were calling it too", fn.name)
				}
				w.fail(cl, what, map[string]interface{}{"argument": arg})
			}
			w.calls[fn.name] += 1
			n++
		}
	}
	return n
}

func (w *concW) opRandom() int {
	var x uint64
	for i := 0; i < concBatch; i++ {
		x ^= machine.RandomUint64() // any value is allowed: observed by the race detector / a crash only
	}
	w.calls["RandomUint64"] += concBatch
	_ = x
	return concBatch
}

func (w *concW) opNoops() int {
	for i := 0; i < 16; i++ {
		machine.Linearize()
		_ = machine.TimeNow()
		machine.Sleep(0)
		_ = machine.NewProph()
	}
	w.calls["Linearize"] += 16
	w.calls["TimeNow"] += 16
	w.calls["Sleep"] += 16
	w.calls["NewProph"] += 16
	return 64
}

const concWaitDelta = 2 * time.Second

func (w *concW) opWait() int {
	L := &trackLocker{}
	cond := sync.NewCond(L)
	for i := 0; i < 2; i++ { // the second call reuses the Cond after a timed-out call
		tmo := uint64(w.rng.Intn(3)) // 0, 1, 2 ms; nobody else knows this Cond, so only the timeout can end the wait
		L.Lock()
		start := time.Now()
		machine.WaitTimeout(cond, tmo)
		el := time.Since(start)
		held := L.held.Load() == 1
		free := L.mu.TryLock()
		if free {
			L.mu.Unlock()
		}
		L.Unlock()
		if !held || free || L.badUnlocks.Load() > 0 {
			w.fail("WaitTimeout-lock-not-held-at-return",
				fmt.Sprintf("WaitTimeout(cond, %d) on a Cond private to its goroutine returned without the lock held (held flag %v, TryLock succeeded %v) while other goroutines were in WaitTimeout on their own Conds", tmo, held, free),
				map[string]interface{}{"timeout_ms": tmo, "held_flag": held, "trylock_succeeded": free})
		}
		if el > time.Duration(tmo)*time.Millisecond+concWaitDelta {
			w.fail("WaitTimeout-returns-later-than-timeout-plus-delta",
				fmt.Sprintf("WaitTimeout(cond, %d) on a Cond private to its goroutine returned after %.0f ms (Δ = 2000 ms) while other goroutines were in WaitTimeout on their own Conds", tmo, ms(el)),
				map[string]interface{}{"timeout_ms": tmo, "elapsed_ms": ms(el)})
		}
		w.calls["WaitTimeout"]++
	}
	return 2
}

func (w *concW) op(prim string) int {
	switch prim {
	case cpToString:
		return w.opToString()
	case cpPut64:
		return w.opPut64()
	case cpPut32:
		return w.opPut32()
	case cpMapClear:
		return w.opMapClear()
	case cpAssume:
		return w.opAssume()
	case cpRandom:
		return w.opRandom()
	case cpNoops:
		return w.opNoops()
	case cpWait:
		return w.opWait()
	}
	// mixed: different primitives overlap each other (state shared *between* primitives)
	switch k := w.rng.Intn(16); {
	case k < 6:
		return w.opToString()
	case k < 8:
		return w.opPut64()
	case k < 10:
		return w.opPut32()
	case k < 11:
		w.opMapClear()
		return concBatch // weighs as much as a batch of cheap calls
	case k < 13:
		return w.opAssume()
	case k < 14:
		return w.opRandom()
	default:
		return w.opNoops()
	}
}

// run performs about n calls; a panic that escapes the library is recorded, not propagated.
func (w *concW) run(prim string, n int) {
	defer func() {
		if e := recover(); e != nil {
			w.fail(strings.SplitN(prim, "(", 2)[0]+"-panicked", fmt.Sprintf("a call of %s on goroutine-private state panicked while other goroutines were calling it too: %v", prim, e), map[string]interface{}{"panic": fmt.Sprint(e)})
		}
	}()
	for done := 0; done < n; {
		done += w.op(prim)
	}
}

type concResult struct {
	Idx         int              `json:"idx"`
	Calls       map[string]int64 `json:"calls"`
	Bad         []concBad        `json:"bad"`
	NBad        int64            `json:"n_bad"`
	DistinctVal int              `json:"distinct_values_formatted"` // among the first 250000 of each goroutine
	Overlap     int              `json:"goroutine_pairs_whose_run_intervals_overlapped"`
	MinSharedUs int64            `json:"us_during_which_all_goroutines_were_running"`
	WallUs      int64            `json:"round_wall_us"`
}

// concRoundWatchdog bounds one round of the -race child only. The plain child has no timer of
// its own, so that a call which can never return ends in the Go runtime's own deadlock report
// (the race runtime does not produce that report). A fired watchdog is inconclusive.
const concRoundWatchdog = 90 * time.Second

// c16ConcChild: vcheck child c16-conc <quick|thorough> <seed> <plain|race> <first idx> [skip idx,idx,…]
// stdout, unbuffered: "ROUND <json>" before a round starts, "RESULT <json>" after it, "DONE";
// "WATCHDOG <json>" (and exit) when a round of the -race child did not finish.
func c16ConcChild(args []string) int {
	if len(args) < 4 {
		fmt.Fprintln(os.Stderr, "c16-conc: tier seed mode first")
		return 2
	}
	seed, _ := strconv.ParseInt(args[1], 10, 64)
	first, _ := strconv.Atoi(args[3])
	say := func(tag string, v interface{}) {
		b, _ := json.Marshal(v)
		os.Stdout.WriteString(tag + " " + string(b) + "\n")
	}
	skip := map[int]bool{}
	if len(args) > 4 {
		for _, f := range strings.Split(args[4], ",") {
			if i, err := strconv.Atoi(f); err == nil {
				skip[i] = true
			}
		}
	}
	for _, rd := range c16ConcPlan(args[0] != "thorough", args[2]) {
		if rd.Idx < first || skip[rd.Idx] {
			continue
		}
		say("ROUND", rd)
		ws := make([]*concW, rd.G)
		for g := range ws {
			ws[g] = &concW{g: g, rng: core.NewRng(seed, fmt.Sprintf("c16-conc/%s/%d/%d", args[2], rd.Idx, g)), calls: map[string]int64{},
				buf: make([]byte, concBatch*8+8), m1: map[uint64]uint64{}, m2: map[string][]byte{}, m3: c16NamedMap{}, m4: map[c16key]*uint64{},
				keepV: rd.Prim == cpToString}
		}
		var ready, done sync.WaitGroup
		gate := make(chan struct{})
		ready.Add(rd.G)
		done.Add(rd.G)
		t0 := time.Now()
		for _, w := range ws {
			go func(w *concW) {
				defer done.Done()
				ready.Done()
				<-gate
				w.t0 = time.Now()
				w.run(rd.Prim, rd.N)
				w.t1 = time.Now()
			}(w)
		}
		ready.Wait()
		close(gate)
		if args[2] == "race" {
			fin := make(chan struct{})
			go func() { done.Wait(); close(fin) }()
			select {
			case <-fin:
			case <-time.After(concRoundWatchdog):
				say("WATCHDOG", rd) // the goroutines may still be running: their results are not read
				return 3
			}
		} else {
			done.Wait()
		}
		res := concResult{Idx: rd.Idx, Calls: map[string]int64{}, WallUs: time.Since(t0).Microseconds()}
		var all []uint64
		lastStart, firstEnd := ws[0].t0, ws[0].t1
		for i, w := range ws {
			for k, v := range w.calls {
				res.Calls[k] += v
			}
			res.NBad += w.nbad
			if len(res.Bad) < 6 {
				res.Bad = append(res.Bad, w.bad...)
			}
			all = append(all, w.vals...)
			if w.t0.After(lastStart) {
				lastStart = w.t0
			}
			if w.t1.Before(firstEnd) {
				firstEnd = w.t1
			}
			for _, o := range ws[i+1:] {
				if w.t0.Before(o.t1) && o.t0.Before(w.t1) {
					res.Overlap++
				}
			}
		}
		if d := firstEnd.Sub(lastStart); d > 0 {
			res.MinSharedUs = d.Microseconds()
		}
		if len(all) > 0 {
			sort.Slice(all, func(i, j int) bool { return all[i] < all[j] })
			res.DistinctVal = 1
			for i := 1; i < len(all); i++ {
				if all[i] != all[i-1] {
					res.DistinctVal++
				}
			}
		}
		say("RESULT", res)
	}
	os.Stdout.WriteString("DONE\n")
	return 0
}

// ------------------------------------------------------------------ race logs

type concRace struct {
	Frames [2]string
	Text   string
}

const concGoosePrefix = "github.com/goose-lang/goose/"

var concTypeArgs = regexp.MustCompile(`\[[^\]]*\]`)

// concParseRaceLog returns the DATA RACE blocks of one GORACE log with, for each
// of the two accesses, the outermost frame that lies in /repo ("" if none).
func concParseRaceLog(text string) []concRace {
	var out []concRace
	blocks := strings.Split(text, "WARNING: DATA RACE")
	for _, b := range blocks[1:] {
		if i := strings.Index(b, "=================="); i >= 0 {
			b = b[:i]
		}
		rep := concRace{Text: "WARNING: DATA RACE" + b}
		acc := 0
		for _, s := range strings.Split(strings.TrimSpace(b), "\n\n") {
			lines := strings.Split(s, "\n")
			head := strings.TrimSpace(lines[0])
			if !(strings.Contains(head, " at 0x") && strings.Contains(head, " by ")) {
				continue // goroutine creation stacks, "Location is…" sections
			}
			if acc >= 2 {
				break
			}
			outer := ""
			for li := 1; li < len(lines); li++ {
				l := lines[li]
				if strings.HasPrefix(l, "      ") || !strings.HasPrefix(l, "  ") {
					continue // file:line lines
				}
				fn := strings.TrimSpace(l)
				file := ""
				if li+1 < len(lines) {
					file = strings.TrimSpace(lines[li+1])
				}
				if strings.HasPrefix(fn, concGoosePrefix) || strings.HasPrefix(file, core.RepoDir+"/") || strings.HasPrefix(file, "/repo/") {
					fn = strings.TrimPrefix(fn, concGoosePrefix)
					fn = strings.TrimPrefix(fn, "machine.")
					fn = strings.TrimSuffix(fn, "()")
					fn = concTypeArgs.ReplaceAllString(fn, "")
					outer = fn // innermost first: the last match is the outermost
				}
			}
			rep.Frames[acc] = outer
			acc++
		}
		out = append(out, rep)
	}
	return out
}

// ---------------------------------------------------------------------- parent

func c16Concurrent(r *core.Run) {
	self, err := os.Executable()
	if err != nil {
		r.Inconclusive("conc-no-self-executable")
		return
	}
	tier := "quick"
	if !r.Quick() {
		tier = "thorough"
	}
	var cmds []string
	callsBy := map[string]map[string]int64{"plain": {}, "race": {}}
	gsSeen := map[int]bool{}
	var died []string // rounds in which the plain child died: the -race child does not repeat them
	runChild := func(mode, bin string, env []string) {
		plan := c16ConcPlan(r.Quick(), mode)
		first := 0
		skip := strings.Join(died, ",")
		for restart := 0; restart < 6 && first < len(plan); restart++ {
			args := []string{"child", "c16-conc", tier, strconv.FormatInt(r.Seed, 10), mode, strconv.Itoa(first)}
			if skip != "" {
				args = append(args, skip)
			}
			cmds = append(cmds, strings.Join(env, " ")+" "+bin+" "+strings.Join(args, " "))
			var e []string
			if env != nil {
				e = append(os.Environ(), env...)
			}
			res := core.Exec(r.Scratch, e, 10*time.Minute, "", bin, args...)
			var cur *concRound
			done := false
			for _, l := range strings.Split(res.Stdout, "\n") {
				switch {
				case strings.HasPrefix(l, "ROUND "):
					var rd concRound
					if json.Unmarshal([]byte(l[6:]), &rd) == nil {
						cur = &rd
					}
				case strings.HasPrefix(l, "RESULT "):
					var cr concResult
					if json.Unmarshal([]byte(l[7:]), &cr) != nil || cur == nil || cur.Idx != cr.Idx {
						continue
					}
					rd := *cur
					cur = nil
					var n int64
					for k, v := range cr.Calls {
						callsBy[mode][k] += v
						n += v
					}
					r.Eval(int(n))
					r.Count("conc_"+mode+"_calls", n)
					r.Count("conc_"+mode+"_rounds", 1)
					r.Count("conc_"+mode+"_goroutine_pairs_overlapping", int64(cr.Overlap))
					if cr.Overlap == rd.G*(rd.G-1)/2 && cr.MinSharedUs > 0 {
						r.Count("conc_"+mode+"_rounds_with_all_goroutines_running_at_once", 1)
					}
					r.Count("conc_"+mode+"_distinct_values_formatted", int64(cr.DistinctVal))
					r.Distinct(fmt.Sprintf("conc/%s/%s/%d", mode, rd.Prim, rd.G))
					gsSeen[rd.G] = true
					if cr.NBad > 0 {
						r.Count("conc_"+mode+"_wrong_results", cr.NBad)
					}
					for _, b := range cr.Bad {
						b.Detail["round"] = rd
						b.Detail["child"] = mode
						b.Detail["wrong_results_in_round"] = cr.NBad
						b.Detail["calls_in_round"] = cr.Calls
						b.Detail["replay"] = fmt.Sprintf("%d goroutines, released together, each calling %s on state private to it (own value stream, buffers, maps, Conds) and comparing its own results with the sequential oracle", rd.G, rd.Prim)
						r.Violate("concurrent-callers/"+b.Class, fmt.Sprintf("%s (%d goroutines, round of %s, %d wrong results in the round, %s child)", b.What, rd.G, rd.Prim, cr.NBad, mode), b.Detail)
					}
					if rd.Prim == cpToString && rd.G == 16 {
						r.Sample(60, map[string]interface{}{"kind": "concurrent-callers", "child": mode, "round": rd, "observed": cr})
					}
				case strings.HasPrefix(l, "WATCHDOG "):
					r.Inconclusive("conc-" + mode + "-round-watchdog")
					fmt.Fprintf(os.Stderr, "c16 conc %s child: round did not finish within %v: %s\n", mode, concRoundWatchdog, l[9:])
					return
				case l == "DONE":
					done = true
				}
			}
			if done {
				return
			}
			switch {
			case res.TimedOut:
				r.Inconclusive("conc-" + mode + "-child-watchdog")
				return
			case cur == nil:
				r.Inconclusive("conc-" + mode + "-child-failed")
				fmt.Fprintf(os.Stderr, "c16 conc %s child: exit %d: %s\n", mode, res.Code, headStr(res.Stderr, 400))
				return
			}
			if m := c16FatalRe.FindStringSubmatch(res.Stderr); m != nil {
				cls := strings.Trim(regexp.MustCompile(`[^a-z0-9]+`).ReplaceAllString(strings.ToLower(m[2]), "-"), "-")
				if len(cls) > 48 {
					cls = cls[:48]
				}
				r.Violate("concurrent-callers/process-died/"+strings.SplitN(cur.Prim, "(", 2)[0]+"/"+cls,
					fmt.Sprintf("the process in which %d goroutines called %s on goroutine-private state died (exit %d): %s", cur.G, cur.Prim, res.Code, headStr(m[0], 200)),
					map[string]interface{}{"round": cur, "child": mode, "child_exit": res.Code, "child_stderr": headStr(res.Stderr, 5000)})
			} else {
				r.Inconclusive("conc-" + mode + "-child-died-without-runtime-report")
				fmt.Fprintf(os.Stderr, "c16 conc %s child: exit %d in round %+v: %s\n", mode, res.Code, *cur, headStr(res.Stderr, 400))
			}
			if mode == "plain" {
				died = append(died, strconv.Itoa(cur.Idx))
			}
			first = cur.Idx + 1
		}
	}

	runChild("plain", self, nil)

	raceBin, err := r.BuildSelf("-race")
	if err != nil {
		r.Inconclusive("conc-race-build-failed")
		fmt.Fprintln(os.Stderr, "c16 conc: -race build:", err)
	} else {
		raceDir := filepath.Join(r.Scratch, "c16race")
		os.MkdirAll(raceDir, 0o755)
		runChild("race", raceBin, []string{"GORACE=halt_on_error=0 log_path=" + filepath.Join(raceDir, "log")})
		files, _ := filepath.Glob(filepath.Join(raceDir, "log*"))
		sort.Strings(files)
		dedup := map[string]bool{}
		for _, f := range files {
			b, err := os.ReadFile(f)
			if err != nil {
				continue
			}
			for _, rep := range concParseRaceLog(string(b)) {
				r.Count("conc_race_report_blocks", 1)
				a, c := rep.Frames[0], rep.Frames[1]
				if a == "" && c == "" {
					// neither access is inside /repo: the harness's (or the runtime's) race, not an observation of the library
					r.Count("conc_race_report_blocks_without_repo_frame", 1)
					r.Inconclusive("conc-race-report-without-repo-frame")
					fmt.Fprintln(os.Stderr, "c16 conc: race report without a /repo frame:\n"+headStr(rep.Text, 1500))
					continue
				}
				r.Count("conc_race_report_blocks_with_repo_frame", 1)
				if a == "" {
					a = "(caller)"
				}
				if c == "" {
					c = "(caller)"
				}
				if a > c {
					a, c = c, a
				}
				key := a + "+" + c
				if dedup[key] {
					continue
				}
				dedup[key] = true
				r.Violate("concurrent-callers/race/"+key,
					fmt.Sprintf("the race detector reports a data race between %s and %s when goroutines call the machine primitives on state private to each goroutine (no map, buffer or Cond is shared by the harness)", a, c),
					map[string]interface{}{"frames": []string{a, c}, "report": headStr(rep.Text, 6000),
						"replay": "build the driver with -race and run `vcheck child c16-conc " + tier + " " + strconv.FormatInt(r.Seed, 10) + " race 0` with GORACE=halt_on_error=0"})
			}
		}
		r.Set("conc_race_distinct_repo_frame_pairs", len(dedup))
		r.Set("conc_race_log_files", len(files))
	}
	r.Set("conc_calls_by_primitive", callsBy)
	var gl []int
	for g := range gsSeen {
		gl = append(gl, g)
	}
	sort.Ints(gl)
	r.Set("conc_goroutine_counts", gl)
	r.Set("conc_child_commands", cmds)
}
