package props

import (
	"fmt"
	"os"
	"path/filepath"
	"sort"
	"strings"

	"verif/core"
	"verif/gen"
	"verif/gorun"
)

// C01: accepted sequential programs keep their meaning (translation validation by execution).

func init() {
	Registry["C01"] = Prop{Level: "translation_validation", Run: runC01}
}

func runC01(r *core.Run) (bool, string) {
	r.SetRule("programs = generated Go packages in the Goose subset (directed corpus + seeded random typed programs); each closed case function is run natively and its emitted GooseLang definition is read back with the Coq reader and evaluated by the reference interpreter under two slice-capacity policies; a case is non-trivial and distinct by (package, case) when Go returned normally and the interpreter reached a definite outcome; a disagreement = no policy reproduces Go's canonical result (different value, wrong literal kind, or stuck)")
	r.Assume("the reference interpreter (framework/gl) implements GooseLang's published semantics; calibrated on internal/examples/semantics at every run")
	r.Assume("Go 1.23 toolchain semantics for the native side")
	goose, err := r.BuildGoose()
	if err != nil {
		fmt.Println(err)
		return false, "goose does not build"
	}
	if !calibrate(r, goose) {
		return false, "interpreter calibration on the semantics suite failed (model or reader defect): no verdicts issued"
	}
	if os.Getenv("VERIF_DEV_ONLY") == "families" {
		// development aid: the statement matrix with every family atom (never set by a registered command)
		r.Tier = "thorough"
		c01Statements(r, goose)
		return true, ""
	}
	// directed layer (seed-independent)
	var dpk []*gen.Package
	dpk = append(dpk, gen.OperatorPackages()...)
	dpk = append(dpk, gen.ConversionPackage(), gen.LvaluePackage())
	dpk = append(dpk, gen.CorpusPackages()...)
	var dp []*gorun.Pkg
	for _, p := range dpk {
		dp = append(dp, &gorun.Pkg{Name: p.Name, Files: map[string]string{p.Name + ".go": p.Source}})
	}
	dres, err := tvBatch(r, filepath.Join(r.Scratch, "c01-directed"), goose, dp, tvOptions{})
	if err != nil {
		fmt.Println("directed batch:", err)
		return false, "directed corpus does not build (framework defect)"
	}
	c01Judge(r, dres, "directed")
	r.Set("directed_packages", len(dp))
	replayWitnesses(r, goose, "C01", tvOptions{}, c01Failing)
	c01Matrix(r, goose)
	c01Statements(r, goose)
	rng := core.NewRng(r.Seed, "c01-random")
	nb := r.Pick(3, 600)
	perBatch := r.Pick(14, 40)
	type job struct {
		idx  int
		pkgs []*gorun.Pkg
		gens []*gen.Package
	}
	var jobs []job
	for b := 0; b < nb; b++ {
		j := job{idx: b}
		for k := 0; k < perBatch; k++ {
			name := fmt.Sprintf("r%d_%d", b, k)
			gp := gen.RandomPackage(rng.Fork(name), name, gen.DefaultOptions())
			j.gens = append(j.gens, gp)
			j.pkgs = append(j.pkgs, &gorun.Pkg{Name: name, Files: map[string]string{name + ".go": gp.Source}})
		}
		jobs = append(jobs, j)
	}
	features := map[string]int{}
	core.Parallel(len(jobs), 8, func(i int) {
		j := jobs[i]
		res, err := tvBatch(r, filepath.Join(r.Scratch, fmt.Sprintf("c01-b%d", j.idx)), goose, j.pkgs, tvOptions{})
		if err != nil {
			fmt.Println("batch", j.idx, ":", err)
			r.Inconclusive("batch-failed")
			return
		}
		c01Judge(r, res, "random")
	})
	for _, j := range jobs {
		for _, gp := range j.gens {
			for k, v := range gp.Features {
				features[k] += v
			}
		}
	}
	r.Set("generator_atoms_exercised", len(features))
	r.Set("generator_atom_counts", features)
	r.Set("programs", r.GetCount("packages"))
	r.Set("disagreements_checked", r.GetCount("cases_compared"))
	return r.GetCount("cases_compared") >= 50, "fewer than 50 cases compared"
}

// c01Judge turns batch results into verdicts for C01: every package must be accepted and
// every case that returned normally in Go must be reproducible.
func c01Judge(r *core.Run, res []*tvPkg, layer string) {
	for _, p := range res {
		r.Count("packages", 1)
		r.Eval(1)
		if p.LoadFailed {
			r.Inconclusive("package-does-not-load")
			continue
		}
		for _, e := range p.GooseErrs {
			r.Violate("c01-rejected-"+layer+"-"+sigOf(e.Message), fmt.Sprintf("goose rejects a subset program: [%s] %s at %s", e.Category, e.Message, e.Src),
				map[string]interface{}{"pkg": p.Name, "error": e.Raw, "source": p.Source})
		}
		if p.ParseErr != "" {
			r.Violate("c01-unreadable-output-"+layer, "emitted file cannot be read by Coq's rules: "+p.ParseErr, map[string]interface{}{"pkg": p.Name, "source": p.Source, "v": p.VFile})
			continue
		}
		for _, c := range p.Cases {
			r.Count("verdict_"+strings.SplitN(c.Verdict, ":", 2)[0], 1)
			switch {
			case c.Verdict == "agree":
				r.Count("cases_compared", 1)
				r.Distinct(p.Name + "/" + c.Case)
				r.Sample(6, c)
			case c.Verdict == "mismatch":
				r.Count("cases_compared", 1)
				r.Distinct(p.Name + "/" + c.Case)
				src := ""
				for _, s := range p.Source {
					src = s
				}
				r.Violate("c01-mismatch-"+layer+"-"+p.Name+"-"+caseStem(c.Case),
					fmt.Sprintf("Go returned %s but the emitted GooseLang gives %s", c.GoValue, c.GL),
					map[string]interface{}{"case": c, "go_source": src, "v": p.VFile})
			case strings.HasPrefix(c.Verdict, "inconclusive"):
				r.Inconclusive(strings.TrimPrefix(c.Verdict, "inconclusive:"))
			case c.Verdict == "not-emitted":
				if len(p.GooseErrs) == 0 {
					r.Violate("c01-case-not-emitted-"+layer, "accepted package but the definition of "+c.Case+" is missing from the output", map[string]interface{}{"pkg": p.Name, "source": p.Source, "v": p.VFile})
				}
			}
		}
	}
}

// caseStem drops the numeric suffix of a case name so that all argument vectors of one
// function share a signature.
func caseStem(c string) string {
	i := len(c)
	for i > 0 && (c[i-1] >= '0' && c[i-1] <= '9') {
		i--
	}
	return strings.TrimSuffix(c[:i], "_")
}

func sigOf(msg string) string {
	f := strings.Fields(msg)
	if len(f) > 4 {
		f = f[:4]
	}
	return strings.Join(f, "-")
}

// c01Matrix runs the places × operations matrix. A cell may be refused by goose (that is
// C02's "rejected" outcome) but an accepted cell must agree with Go on its closed cases.
func c01Matrix(r *core.Run, goose string) {
	pkgs := pruneToCompile(r, filepath.Join(r.Scratch, "c01-matrix-prune"), gen.MatrixPackages())
	if pkgs == nil {
		fmt.Println("matrix does not compile (framework defect)")
		r.Inconclusive("matrix-does-not-compile")
		return
	}
	var gp []*gorun.Pkg
	for _, p := range pkgs {
		gp = append(gp, &gorun.Pkg{Name: p.Name, Files: map[string]string{p.Name + ".go": p.Source}})
	}
	res, err := tvBatch(r, filepath.Join(r.Scratch, "c01-matrix"), goose, gp, tvOptions{PerPackage: true})
	if err != nil {
		fmt.Println("matrix batch:", err)
		r.Inconclusive("matrix-batch-failed")
		return
	}
	verdicts := map[string]string{}
	for _, p := range res {
		ty := strings.TrimPrefix(p.Name, "mx_")
		judgeRejectedOrFaithful(r, p, verdicts, "c01-matrix-", func(fn string) (string, string, bool) {
			if !strings.HasPrefix(fn, "cell_") {
				return "", "", false
			}
			return ty + "-" + strings.TrimPrefix(fn, "cell_"), "", true
		})
	}
	nrej, nok := 0, 0
	for _, v := range verdicts {
		if strings.HasPrefix(v, "rejected") {
			nrej++
		} else if strings.HasPrefix(v, "accepted") {
			nok++
		}
	}
	r.Set("matrix_cells", len(verdicts))
	r.Set("matrix_cells_rejected_by_goose", nrej)
	r.Set("matrix_cells_accepted_and_faithful", nok)
	r.Set("matrix_verdicts", verdicts)
}

// c01Statements: every supported statement kind at every position / context of the host
// functions (the statement × context × position matrix).
func c01Statements(r *core.Run, goose string) {
	var pk []*gen.Package
	atoms := append(append([]gen.OutsideAtom{}, gen.InsideAtoms...), gen.AcceptedShapeAtoms()...)
	// generated families (one effectful operand at every operand position, string literal byte classes,
	// composite types nested in every type position, program-bound names that coincide with library names)
	frng := core.NewRng(r.Seed, "c01-families")
	fam := gen.FamilyAtoms("C01", r.Quick(), frng.Intn)
	atoms = append(atoms, fam...)
	r.Set("family_atoms", len(fam))
	for _, a := range atoms {
		pk = append(pk, gen.AtomPackage("i_", a))
	}
	pkgs := pruneToCompile(r, filepath.Join(r.Scratch, "c01-stmt-prune"), pk)
	if pkgs == nil {
		fmt.Println("statement matrix does not compile (framework defect)")
		r.Inconclusive("statement-matrix-does-not-compile")
		return
	}
	var gp []*gorun.Pkg
	for _, p := range pkgs {
		gp = append(gp, &gorun.Pkg{Name: p.Name, Files: map[string]string{p.Name + ".go": p.Source}})
	}
	res, err := tvBatch(r, filepath.Join(r.Scratch, "c01-stmt"), goose, gp, tvOptions{PerPackage: true})
	if err != nil {
		fmt.Println("statement matrix batch:", err)
		r.Inconclusive("statement-matrix-batch-failed")
		return
	}
	verdicts := map[string]string{}
	for _, p := range res {
		atom := strings.TrimPrefix(p.Name, "i_")
		judgeRejectedOrFaithful(r, p, verdicts, "c01-stmt-", func(fn string) (string, string, bool) {
			if strings.HasPrefix(fn, "host_") {
				return atom, strings.TrimPrefix(fn, "host_"+atom+"_"), true
			}
			if fn == atom+"_fn" {
				return atom, "decl", true
			}
			return "", "", false
		})
	}
	nrej, nok := 0, 0
	rejected := []string{}
	for k, v := range verdicts {
		if strings.HasPrefix(v, "rejected") {
			nrej++
			rejected = append(rejected, k)
		} else if strings.HasPrefix(v, "accepted") {
			nok++
		}
	}
	sort.Strings(rejected)
	r.Set("statement_cells", len(verdicts))
	r.Set("statement_cells_rejected_by_goose", nrej)
	r.Set("statement_cells_rejected_list", rejected)
	r.Set("statement_cells_accepted_and_faithful", nok)
}
