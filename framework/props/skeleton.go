package props

import (
	"fmt"
	"go/ast"
	"go/token"
	"strings"

	"verif/gl"
)

// skeleton.go: an independent walker that maps a Go expression and the expression Coq reads
// from the emitted text onto one canonical S-expression, so that the nesting of operators,
// calls and parentheses can be compared (C05).

var goOpName = map[token.Token]string{
	token.ADD: "+", token.SUB: "-", token.MUL: "*", token.QUO: "quot", token.REM: "rem",
	token.AND: "and", token.OR: "or", token.XOR: "xor", token.SHL: "shl", token.SHR: "shr",
	token.EQL: "eq", token.NEQ: "ne", token.LSS: "lt", token.LEQ: "le", token.GTR: "gt", token.GEQ: "ge",
	token.LAND: "land", token.LOR: "lor",
}

var glOpName = map[string]string{
	"+": "+", "-": "-", "*": "*", "`quot`": "quot", "`rem`": "rem", "`and`": "and", "`or`": "or", "`xor`": "xor",
	"≪": "shl", "≫": "shr", "=": "eq", "≠": "ne", "<": "lt", "≤": "le", ">": "gt", "≥": "ge", "&&": "land", "||": "lor",
}

func goSkeleton(e ast.Expr) string {
	switch e := e.(type) {
	case *ast.ParenExpr:
		return goSkeleton(e.X)
	case *ast.Ident:
		return e.Name
	case *ast.BasicLit:
		return e.Value
	case *ast.BinaryExpr:
		return "(" + goOpName[e.Op] + " " + goSkeleton(e.X) + " " + goSkeleton(e.Y) + ")"
	case *ast.UnaryExpr:
		if e.Op == token.XOR || e.Op == token.NOT {
			return "(not " + goSkeleton(e.X) + ")"
		}
		return "(?unary " + goSkeleton(e.X) + ")"
	case *ast.SelectorExpr:
		return "(field " + e.Sel.Name + " " + goSkeleton(e.X) + ")"
	case *ast.IndexExpr:
		return "(index " + goSkeleton(e.X) + " " + goSkeleton(e.Index) + ")"
	case *ast.CallExpr:
		if id, ok := e.Fun.(*ast.Ident); ok {
			switch id.Name {
			case "len":
				return "(len " + goSkeleton(e.Args[0]) + ")"
			case "uint64", "uint32", "uint8":
				// a conversion of len(...) is the identity on 64-bit values
				if c, ok := e.Args[0].(*ast.CallExpr); ok {
					if cid, ok := c.Fun.(*ast.Ident); ok && cid.Name == "len" && id.Name == "uint64" {
						return goSkeleton(c)
					}
				}
				return "(conv " + strings.TrimPrefix(id.Name, "uint") + " " + goSkeleton(e.Args[0]) + ")"
			}
			var parts []string
			for _, a := range e.Args {
				parts = append(parts, goSkeleton(a))
			}
			return "(call " + id.Name + " " + strings.Join(parts, " ") + ")"
		}
		if sel, ok := e.Fun.(*ast.SelectorExpr); ok {
			// a method call: the receiver is the first argument of the emitted T__m
			parts := []string{goSkeleton(sel.X)}
			for _, a := range e.Args {
				parts = append(parts, goSkeleton(a))
			}
			return "(mcall " + sel.Sel.Name + " " + strings.Join(parts, " ") + ")"
		}
	}
	return fmt.Sprintf("(?%T)", e)
}

func glSkeleton(e gl.Expr) string {
	switch e := e.(type) {
	case gl.Paren:
		return glSkeleton(e.X)
	case gl.Var:
		return e.Name
	case gl.Global:
		return e.Name
	case gl.Lit:
		switch e.Kind {
		case "int", "u32", "u8":
			return fmt.Sprintf("%d", e.N)
		case "bool":
			return fmt.Sprintf("%v", e.B)
		}
		return "(?lit)"
	case gl.BinOp:
		return "(" + glOpName[e.Op] + " " + glSkeleton(e.L) + " " + glSkeleton(e.R) + ")"
	case gl.Not:
		return "(not " + glSkeleton(e.X) + ")"
	case gl.Load:
		return glSkeleton(e.X)
	case gl.App:
		// (f x) y is f x y
		for {
			inner, ok := gl.Strip(e.Fn).(gl.App)
			if !ok {
				break
			}
			e = gl.App{Fn: inner.Fn, Args: append(append([]gl.Expr{}, inner.Args...), e.Args...)}
		}
		g, ok := gl.Strip(e.Fn).(gl.Global)
		if !ok {
			return "(?app " + gl.Show(e.Fn) + ")"
		}
		arg := func(i int) string {
			if i < len(e.Args) {
				return glSkeleton(e.Args[i])
			}
			return "?"
		}
		switch g.Name {
		case "struct.loadF", "struct.get":
			return "(field " + arg(1) + " " + arg(2) + ")"
		case "SliceGet":
			return "(index " + arg(1) + " " + arg(2) + ")"
		case "slice.len", "MapLen", "StringLength":
			return "(len " + arg(0) + ")"
		case "to_u64", "to_u32", "to_u8":
			return "(conv " + strings.TrimPrefix(g.Name, "to_u") + " " + arg(0) + ")"
		}
		var parts []string
		for i := range e.Args {
			parts = append(parts, arg(i))
		}
		if i := strings.Index(g.Name, "__to__"); i > 0 && len(e.Args) == 1 {
			// the conversion of a struct to an interface wraps the argument it is applied to
			return arg(0)
		}
		if i := strings.Index(g.Name, "__"); i > 0 && i+2 < len(g.Name) && !strings.Contains(g.Name, "__to__") {
			return "(mcall " + g.Name[i+2:] + " " + strings.Join(parts, " ") + ")"
		}
		return "(call " + g.Name + " " + strings.Join(parts, " ") + ")"
	}
	return fmt.Sprintf("(?%T)", e)
}
