package props

import (
	"fmt"
	"os"
	"path/filepath"
	"sort"
	"strings"

	"verif/core"
	"verif/gorun"
)

// witness.go: pinned witness inputs of known findings (/verif/known/<ID>/<sig>/prog.go).
// Every run replays them through the same monitor: a witness that still fails is reported
// under its signature (KNOWN-FINDING if listed in KNOWN_FINDINGS.txt, VIOLATION otherwise);
// one that no longer fails prints nothing.

type witness struct {
	Sig string
	Pkg *gorun.Pkg
}

func loadWitnesses(prop string) []witness {
	dir := filepath.Join(core.VerifDir, "known", prop)
	ents, err := os.ReadDir(dir)
	if err != nil {
		return nil
	}
	var out []witness
	for _, e := range ents {
		if !e.IsDir() {
			continue
		}
		b, err := os.ReadFile(filepath.Join(dir, e.Name(), "prog.go"))
		if err != nil {
			continue
		}
		name := fmt.Sprintf("w%d", len(out))
		src := strings.Replace(string(b), "package w\n", "package "+name+"\n", 1)
		out = append(out, witness{Sig: e.Name(), Pkg: &gorun.Pkg{Name: name, Files: map[string]string{name + ".go": src}}})
	}
	sort.Slice(out, func(i, j int) bool { return out[i].Sig < out[j].Sig })
	return out
}

// replayWitnesses runs the witnesses of prop through the differential core and reports the
// ones that still fail. failing(p) decides whether the package still shows the finding.
func replayWitnesses(r *core.Run, goose string, prop string, opt tvOptions, failing func(p *tvPkg) (bool, string)) {
	ws := loadWitnesses(prop)
	if len(ws) == 0 {
		return
	}
	var pkgs []*gorun.Pkg
	for _, w := range ws {
		pkgs = append(pkgs, w.Pkg)
	}
	res, err := tvBatch(r, filepath.Join(r.Scratch, "witness-"+prop), goose, pkgs, opt)
	if err != nil {
		fmt.Println("witness batch:", err)
		r.Inconclusive("witness-batch-failed")
		return
	}
	for i, p := range res {
		r.Count("known_witnesses_replayed", 1)
		if bad, why := failing(p); bad {
			r.Violate(ws[i].Sig, why, map[string]interface{}{"witness": ws[i].Sig, "source": p.Source, "v": p.VFile, "cases": p.Cases})
		} else {
			r.Count("known_witnesses_no_longer_failing", 1)
		}
	}
}

// c01Failing: a C01 witness still fails if goose rejects it, its output cannot be read, a case
// is missing, or a case disagrees with Go.
func c01Failing(p *tvPkg) (bool, string) {
	if len(p.GooseErrs) > 0 {
		return true, "goose rejects: " + p.GooseErrs[0].Message
	}
	if p.ParseErr != "" {
		return true, "unreadable output: " + p.ParseErr
	}
	for _, c := range p.Cases {
		if c.Verdict == "mismatch" || c.Verdict == "not-emitted" {
			return true, fmt.Sprintf("%s: Go %s, GooseLang %s", c.Case, c.GoValue, c.GL)
		}
	}
	return false, ""
}
