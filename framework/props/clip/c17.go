package clip

import (
	"encoding/json"
	"fmt"
	"os"
	"os/exec"
	"path/filepath"
	"regexp"
	"sort"
	"strings"
	"sync"
	"syscall"
	"time"

	"verif/core"
	"verif/gl"
	"verif/props"
)

// C17: the goose command. Exit status, placement of files under -out,
// partial output with -ignore-errors, write-if-changed, and selection of
// sources by patterns, -dir and the goose build tag. Labels (good / bad /
// broken) are known by construction; `go list -e -tags goose` in the same
// directory with the same patterns is the reference for what is matched.

func init() {
	props.Registry["C17"] = props.Prop{Level: "exploration", Run: runC17}
}

// ---------------------------------------------------------------- generated modules

type c17Pkg struct {
	Dir      string   `json:"dir"` // "" = module root
	Label    string   `json:"label"`
	Path     string   `json:"import_path"`
	GoodDefs []string `json:"translatable_definitions,omitempty"`
	BadDefs  []string `json:"untranslatable_definitions,omitempty"`
	Files    map[string]string
	// build-tag packages
	MustHave    []string `json:"must_define,omitempty"`     // from the //go:build goose file
	MustNotHave []string `json:"must_not_define,omitempty"` // from the //go:build !goose file
	NotGooseSrc string   // path suffix of the !goose file
	Shape       string   `json:"shape,omitempty"`
}

type c17Module struct {
	K       int
	ModPath string
	Dir     string
	Pkgs    []*c17Pkg
	byPath  map[string]*c17Pkg
	// directories that exist but are matched by nothing under -tags goose
	solo   sync.Map // key pkg|flags -> *c17Solo
	listMu sync.Mutex
	lists  map[string]*c17List
}

var c17BadBodies = []struct{ kind, body string }{
	{"switch", "\tswitch x {\n\tcase 1:\n\t\treturn 2\n\t}\n\treturn 3\n"},
	{"defer", "\tdefer func() {}()\n\treturn x\n"},
	{"mul-assign", "\tx *= 2\n\treturn x\n"},
	{"labeled-loop", "L:\n\tfor {\n\t\tbreak L\n\t}\n\treturn x\n"},
	{"if-init", "\tif y := x; y > 1 {\n\t\treturn y\n\t}\n\treturn x\n"},
}

func pkgNameFor(dir string) string {
	if dir == "" {
		return "root"
	}
	n := goNameOf(dir)
	return n
}

// goodDecls writes n translatable declarations (functions, a const, a struct with a method).
func goodDecls(rng *core.Rng, prefix string, n int) (src []string, names []string) {
	for i := 0; i < n; i++ {
		switch rng.Intn(5) {
		case 0:
			nm := fmt.Sprintf("%sK%d", prefix, i)
			src = append(src, fmt.Sprintf("const %s uint64 = %d\n", nm, 10+rng.Intn(1000)))
			names = append(names, nm)
		case 1:
			nm := fmt.Sprintf("%sS%d", prefix, i)
			src = append(src, fmt.Sprintf("type %s struct {\n\ta uint64\n\tb bool\n}\n\nfunc (s *%s) Get%d() uint64 {\n\treturn s.a + %d\n}\n", nm, nm, i, rng.Intn(50)))
			names = append(names, nm, fmt.Sprintf("%s__Get%d", nm, i))
		case 2:
			nm := fmt.Sprintf("%sLoop%d", prefix, i)
			src = append(src, fmt.Sprintf("func %s(n uint64) uint64 {\n\tvar s uint64 = 0\n\tfor i := uint64(0); i < n; i++ {\n\t\ts = s + i + %d\n\t}\n\treturn s\n}\n", nm, rng.Intn(9)))
			names = append(names, nm)
		default:
			nm := fmt.Sprintf("%sF%d", prefix, i)
			src = append(src, fmt.Sprintf("func %s(x uint64) uint64 {\n\tif x > %d {\n\t\treturn x - %d\n\t}\n\treturn x + %d\n}\n", nm, 5+rng.Intn(50), rng.Intn(5), rng.Intn(1000)))
			names = append(names, nm)
		}
	}
	return
}

func (m *c17Module) add(p *c17Pkg) *c17Pkg {
	p.Path = m.ModPath
	if p.Dir != "" {
		p.Path += "/" + p.Dir
	}
	m.Pkgs = append(m.Pkgs, p)
	m.byPath[p.Path] = p
	return p
}

func (m *c17Module) addGood(rng *core.Rng, dir string, imports ...string) *c17Pkg {
	name := pkgNameFor(dir)
	decls, names := goodDecls(rng, "", 2+rng.Intn(3))
	var b strings.Builder
	fmt.Fprintf(&b, "package %s\n\n", name)
	for _, imp := range imports {
		fmt.Fprintf(&b, "import %q\n\n", imp)
	}
	b.WriteString(strings.Join(decls, "\n"))
	for i, imp := range imports {
		q := m.byPath[imp]
		fmt.Fprintf(&b, "\nfunc Use%d(x uint64) uint64 {\n\treturn %s.Entry(x)\n}\n", i, pkgNameFor(q.Dir))
		names = append(names, fmt.Sprintf("Use%d", i))
	}
	b.WriteString("\nfunc Entry(x uint64) uint64 {\n\treturn x + 1\n}\n")
	names = append(names, "Entry")
	return m.add(&c17Pkg{Dir: dir, Label: "good", GoodDefs: names, Files: map[string]string{"a.go": b.String()}})
}

func (m *c17Module) addBad(rng *core.Rng, dir string) *c17Pkg {
	name := pkgNameFor(dir)
	n := 3 + rng.Intn(3)
	decls, names := goodDecls(rng, "", n)
	nbad := 1 + rng.Intn(2)
	var bad []string
	for i := 0; i < nbad; i++ {
		bb := c17BadBodies[rng.Intn(len(c17BadBodies))]
		nm := fmt.Sprintf("Bad%d", i)
		src := fmt.Sprintf("func %s(x uint64) uint64 {\n%s}\n", nm, bb.body)
		at := []int{0, len(decls) / 2, len(decls)}[rng.Intn(3)]
		decls = append(decls[:at], append([]string{src}, decls[at:]...)...)
		bad = append(bad, nm)
	}
	// spread over two files sometimes
	files := map[string]string{}
	if rng.Bool() && len(decls) >= 4 {
		h := len(decls) / 2
		files["a.go"] = fmt.Sprintf("package %s\n\n", name) + strings.Join(decls[:h], "\n")
		files["b.go"] = fmt.Sprintf("package %s\n\n", name) + strings.Join(decls[h:], "\n")
	} else {
		files["a.go"] = fmt.Sprintf("package %s\n\n", name) + strings.Join(decls, "\n")
	}
	return m.add(&c17Pkg{Dir: dir, Label: "bad", GoodDefs: names, BadDefs: bad, Files: files})
}

func (m *c17Module) addBroken(rng *core.Rng, dir string) *c17Pkg {
	name := pkgNameFor(dir)
	decls, _ := goodDecls(rng, "", 2)
	var brk string
	switch rng.Intn(3) {
	case 0:
		brk = "func Broken(x uint64) uint64 {\n\treturn x + \"one\"\n}\n"
	case 1:
		brk = "func Broken(x uint64) uint64 {\n\treturn x + undefinedName\n}\n"
	default:
		brk = "func Broken(x uint64) bool {\n\treturn x\n}\n"
	}
	decls = append(decls, brk)
	return m.add(&c17Pkg{Dir: dir, Label: "broken", Files: map[string]string{"a.go": fmt.Sprintf("package %s\n\n", name) + strings.Join(decls, "\n")}})
}

func c17NewModule(rng *core.Rng, k int) *c17Module {
	m := &c17Module{K: k, ModPath: fmt.Sprintf("example.com/cli-t/m.%d", k), byPath: map[string]*c17Pkg{}, lists: map[string]*c17List{}}
	m.addGood(rng, "")
	alpha := m.addGood(rng, "alpha")
	m.addGood(rng, "alpha/nest", alpha.Path)
	m.addBad(rng, "beta")
	m.addGood(rng, "beta/inner")
	m.addBroken(rng, "gamma")
	m.addGood(rng, "da-sh/dot.ted")
	m.addBad(rng, "sub/bad2")
	m.addGood(rng, "sub/deep/er", alpha.Path)
	// build tags, first kind: both tagged files translatable, distinguished by what they define
	c1 := rng.Intn(100)
	m.add(&c17Pkg{Dir: "tags1", Label: "good", MustHave: []string{"FromGooseFile", "Base"}, MustNotHave: []string{"FromNotGooseFile"}, NotGooseSrc: "tags1/n.go",
		Files: map[string]string{
			"a.go": fmt.Sprintf("package tags1\n\nfunc Base(x uint64) uint64 {\n\treturn x + %d\n}\n", c1),
			"g.go": "//go:build goose\n\npackage tags1\n\nfunc FromGooseFile(x uint64) uint64 {\n\treturn Base(x)\n}\n",
			"n.go": "//go:build !goose\n\npackage tags1\n\nfunc FromNotGooseFile(x uint64) uint64 {\n\treturn Base(x) + 1\n}\n",
		}})
	// second kind: the !goose file re-defines the function of the goose file with an untranslatable body
	m.add(&c17Pkg{Dir: "tags2", Label: "good", MustHave: []string{"Shared", "Base"}, MustNotHave: []string{"WontTranslate"}, NotGooseSrc: "tags2/n.go",
		Files: map[string]string{
			"a.go": "package tags2\n\nfunc Base(x uint64) uint64 {\n\treturn x\n}\n",
			"g.go": "//go:build goose\n\npackage tags2\n\nfunc Shared(x uint64) uint64 {\n\treturn Base(x) + 2\n}\n",
			"n.go": "//go:build !goose\n\npackage tags2\n\nfunc Shared(x uint64) uint64 {\n\tswitch x {\n\tcase 1:\n\t\treturn 0\n\t}\n\treturn Base(x)\n}\n\nfunc WontTranslate(c chan uint64) uint64 {\n\treturn <-c\n}\n",
		}})
	// a package that exists only under the goose tag, and one that exists only without it
	m.add(&c17Pkg{Dir: "onlygoose", Label: "good", MustHave: []string{"Entry"}, Files: map[string]string{"a.go": "//go:build goose\n\npackage onlygoose\n\nfunc Entry(x uint64) uint64 {\n\treturn x + 3\n}\n"}})
	m.add(&c17Pkg{Dir: "onlynot", Label: "excluded", Files: map[string]string{"a.go": "//go:build !goose\n\npackage onlynot\n\nfunc Entry(x uint64) uint64 {\n\treturn x + 4\n}\n"}})
	// seeded extras
	extraDirs := []string{"x1", "alpha/x2", "sub/x3", "da-sh/x4", "sub/deep/x5", "beta/inner/x6"}
	n := 2 + rng.Intn(3)
	for i := 0; i < n; i++ {
		d := extraDirs[rng.Intn(len(extraDirs))]
		if m.byPath[m.ModPath+"/"+d] != nil {
			continue
		}
		switch rng.Intn(4) {
		case 0:
			m.addBad(rng, d)
		case 1:
			m.addBroken(rng, d)
		default:
			m.addGood(rng, d)
		}
	}
	return m
}

const c17ExtMod = "example.org/ext-mod"

func (m *c17Module) write(dir string) error {
	m.Dir = dir
	files := map[string]string{}
	for _, p := range m.Pkgs {
		for fn, src := range p.Files {
			files[filepath.Join(p.Dir, fn)] = src
		}
	}
	files["emptydir/README"] = "no Go files here\n"
	files["stubs/ext/lib/lib.go"] = "package lib\n\nfunc Entry(x uint64) uint64 {\n\treturn x + 7\n}\n"
	ext := &c17Pkg{Dir: "<external>", Label: "good", Path: c17ExtMod + "/lib", GoodDefs: []string{"Entry"}}
	m.byPath[ext.Path] = ext
	return writeModule(dir, m.ModPath, []replaceDir{{Mod: c17ExtMod, Dir: "./stubs/ext"}}, files)
}

// ---------------------------------------------------------------- go list reference

type c17ListEntry struct {
	ImportPath string
	Dir        string
	GoFiles    []string
	Error      *struct{ Err string }
}

type c17List struct {
	Entries []c17ListEntry
	Stderr  string
	Code    int
}

func (m *c17Module) goList(listDir string, patterns []string) *c17List {
	key := listDir + "|" + strings.Join(patterns, " ")
	m.listMu.Lock()
	if l, ok := m.lists[key]; ok {
		m.listMu.Unlock()
		return l
	}
	m.listMu.Unlock()
	args := append([]string{"list", "-e", "-tags", "goose", "-json=ImportPath,Dir,GoFiles,Error"}, patterns...)
	res := core.Exec(listDir, core.GoEnv(), 3*time.Minute, "", "go", args...)
	l := &c17List{Stderr: res.Stderr, Code: res.Code}
	dec := json.NewDecoder(strings.NewReader(res.Stdout))
	for dec.More() {
		var e c17ListEntry
		if dec.Decode(&e) != nil {
			break
		}
		l.Entries = append(l.Entries, e)
	}
	m.listMu.Lock()
	m.lists[key] = l
	m.listMu.Unlock()
	return l
}

// ---------------------------------------------------------------- scenarios

type c17Scenario struct {
	Class    string   `json:"pattern_class"`
	Cwd      string   `json:"cwd"`     // relative to the module ("" = root), or "<elsewhere>"
	UseDir   bool     `json:"use_dir"` // pass -dir <module dir>
	Patterns []string `json:"patterns"`
	Flags    []string `json:"flags"`
	Ignore   bool     `json:"ignore_errors"`
	Prior    string   `json:"prior_state"` // empty | identical | stale | readonly-identical | file-for-dir | stale-bad | relative-out | foreign-files
	// OutForm is how -out is spelled: "" (absolute, clean) | abs-trailing-slash | abs-unclean | relative |
	// rel-dot-slash-trailing | rel-nested (intermediate directories do not exist) | rel-parent (../x from a subdirectory)
	OutForm string `json:"out_form,omitempty"`
	Strace  bool   `json:"under_strace,omitempty"`
}

func c17FlagSets() [][]string {
	var out [][]string
	for mask := 0; mask < 8; mask++ {
		var f []string
		if mask&1 != 0 {
			f = append(f, "-typecheck")
		}
		if mask&2 != 0 {
			f = append(f, "-source-comments")
		}
		if mask&4 != 0 {
			f = append(f, "-skip-interfaces")
		}
		out = append(out, f)
	}
	return out
}

type c17Checker struct {
	r       *core.Run
	bin     string
	seq     int
	mu      sync.Mutex
	strace  string
	sampled map[string]int
}

func (c *c17Checker) fresh(tag string) string {
	c.mu.Lock()
	c.seq++
	n := c.seq
	c.mu.Unlock()
	return filepath.Join(c.r.Scratch, "c17out", fmt.Sprintf("%s%d", tag, n))
}

type c17Solo struct {
	once sync.Once
	file string
	has  bool
	iv   *invocation
}

// solo translates one package alone with the given flags (reference bytes).
func (c *c17Checker) solo(m *c17Module, p *c17Pkg, flags []string, ignore bool) *c17Solo {
	key := p.Path + "|" + strings.Join(flags, " ") + fmt.Sprint(ignore)
	v, _ := m.solo.LoadOrStore(key, &c17Solo{})
	s := v.(*c17Solo)
	s.once.Do(func() {
		out := c.fresh("solo")
		args := append([]string{"-out", out}, flags...)
		if ignore {
			args = append(args, "-ignore-errors")
		}
		args = append(args, p.Path)
		s.iv = runGoose(c.bin, m.Dir, nil, args...)
		c.r.Count("solo_reference_invocations", 1)
		t := readTree(out)
		s.file, s.has = t[outputRel(p.Path)]
		os.RemoveAll(out)
	})
	return s
}

type c17Verdict struct {
	Module   string            `json:"module"`
	Scenario c17Scenario       `json:"scenario"`
	Command  string            `json:"command"`
	Matched  map[string]string `json:"matched_packages_by_go_list"`
	Exit     int               `json:"exit_status"`
	Expected int               `json:"expected_exit_status"`
	Written  []string          `json:"files_under_out"`
	Stderr   string            `json:"stderr,omitempty"`
	Problems []string          `json:"problems"`
	Tree     []string          `json:"module_tree,omitempty"`
}

type fileID struct {
	ino   uint64
	mtime time.Time
	size  int64
	mode  os.FileMode
}

func statTree(root string) map[string]fileID {
	out := map[string]fileID{}
	filepath.Walk(root, func(p string, info os.FileInfo, err error) error {
		if err != nil || info.IsDir() {
			return nil
		}
		rel, _ := filepath.Rel(root, p)
		id := fileID{mtime: info.ModTime(), size: info.Size(), mode: info.Mode()}
		if st, ok := info.Sys().(*syscall.Stat_t); ok {
			id.ino = st.Ino
		}
		out[filepath.ToSlash(rel)] = id
		return nil
	})
	return out
}

var c17Old = time.Date(2001, 2, 3, 4, 5, 6, 0, time.UTC)

func ageTree(root string) {
	filepath.Walk(root, func(p string, info os.FileInfo, err error) error {
		if err == nil && !info.IsDir() {
			os.Chtimes(p, c17Old, c17Old)
		}
		return nil
	})
}

func defNames(src string) (map[string]bool, error) {
	f, err := gl.ParseFile(src)
	if err != nil {
		return nil, err
	}
	out := map[string]bool{}
	for _, d := range f.Defs() {
		out[d.Name] = true
	}
	return out, nil
}

func (m *c17Module) treeListing() []string {
	var out []string
	for _, p := range m.Pkgs {
		var fs []string
		for f := range p.Files {
			fs = append(fs, f)
		}
		sort.Strings(fs)
		d := p.Dir
		if d == "" {
			d = "."
		}
		out = append(out, fmt.Sprintf("%s [%s] %v", d, p.Label, fs))
	}
	return out
}

var straceOpenRe = regexp.MustCompile(`^\d+\s+(openat|rename|renameat|renameat2|unlink|unlinkat)\((.*)$`)

// runScenario runs one command line and judges everything the statement says about it.
func (c *c17Checker) runScenario(m *c17Module, sc c17Scenario) {
	r := c.r
	elsewhere := filepath.Join(r.Scratch, "elsewhere")
	os.MkdirAll(elsewhere, 0o755)
	cwd := filepath.Join(m.Dir, sc.Cwd)
	listDir := cwd
	if sc.Cwd == "<elsewhere>" {
		cwd = elsewhere
	}
	if sc.UseDir {
		listDir = m.Dir
	}
	out := c.fresh("o")
	outArg := out
	outForm := sc.OutForm
	if sc.Prior == "relative-out" {
		outForm = "relative"
	}
	switch outForm {
	case "abs-trailing-slash":
		outArg = out + "/"
	case "abs-unclean":
		// <parent>/../<parent's name>/./<base>/ : every component exists or is created by goose, so the
		// spelling names the same directory whether it is cleaned lexically or resolved by the kernel
		parent := filepath.Dir(out)
		os.MkdirAll(parent, 0o755)
		outArg = parent + "/../" + filepath.Base(parent) + "/./" + filepath.Base(out) + "/"
	case "relative":
		outArg = "Goose-" + filepath.Base(out)
	case "rel-dot-slash-trailing":
		outArg = "./Goose-" + filepath.Base(out) + "/"
	case "rel-nested":
		outArg = "Goose-build-" + filepath.Base(out) + "/coq/lib"
		defer os.RemoveAll(filepath.Join(cwd, "Goose-build-"+filepath.Base(out)))
	case "rel-parent":
		outArg = "../Goose-" + filepath.Base(out)
	}
	if outForm != "" && !filepath.IsAbs(outArg) {
		out = filepath.Join(cwd, outArg)
		defer os.RemoveAll(out)
	}
	args := []string{"-out", outArg}
	if sc.UseDir {
		args = append(args, "-dir", m.Dir)
	}
	args = append(args, sc.Flags...)
	if sc.Ignore {
		args = append(args, "-ignore-errors")
	}
	args = append(args, sc.Patterns...)

	// ---- reference: what the Go toolchain matches
	list := m.goList(listDir, sc.Patterns)
	matched := map[string]string{} // import path (or pattern) -> label
	var order []string
	for _, e := range list.Entries {
		label := ""
		if p := m.byPath[e.ImportPath]; p != nil {
			label = p.Label
			if label == "excluded" {
				label = "unloadable"
			}
		} else if e.Error != nil {
			label = "unloadable"
		} else {
			r.Inconclusive("go-list-reports-unknown-package")
			return
		}
		matched[e.ImportPath] = label
		order = append(order, e.ImportPath)
	}
	has := map[string]bool{}
	for _, l := range matched {
		has[l] = true
	}
	mix := "all-good"
	switch {
	case len(matched) == 0:
		mix = "matches-nothing"
	case has["unloadable"] && (has["bad"] || has["broken"]):
		mix = "failing-and-unloadable"
	case has["unloadable"]:
		mix = "unloadable"
	case has["bad"] && has["broken"]:
		mix = "bad-and-broken"
	case has["bad"]:
		mix = "bad"
	case has["broken"]:
		mix = "broken"
	}
	if sc.Ignore {
		mix += "+ignore-errors"
	}

	// ---- prior state of -out
	preExisting := map[string]fileID{}
	expectTouched := map[string]bool{} // files that must be replaced
	staleBadRel := ""
	var foreign map[string]fileID
	var foreignBytes tree
	prepare := func() bool {
		pre := append([]string{}, args...)
		iv0 := runGoose(c.bin, cwd, nil, pre...)
		r.Count("goose_invocations", 1)
		if cr, _ := iv0.crashed(); cr || iv0.res.TimedOut {
			return false
		}
		return true
	}
	switch sc.Prior {
	case "identical", "readonly-identical", "stale":
		if !prepare() {
			r.Inconclusive("prior-state-run-failed")
			return
		}
		if sc.Prior == "stale" {
			names := readTree(out).names()
			for i, n := range names {
				if i%3 == 0 {
					f := filepath.Join(out, n)
					cur, _ := os.ReadFile(f)
					// the ways an existing file can differ from the translation: other content, a longer file
					// with the translation as its prefix, an empty file, a strict prefix of the translation (an
					// interrupted write, or a source file that has since grown), one byte short, one byte changed
					switch (i / 3) % 6 {
					case 0:
						os.WriteFile(f, []byte("(* stale *)\n"), 0o644)
					case 1:
						fh, _ := os.OpenFile(f, os.O_APPEND|os.O_WRONLY, 0)
						fh.WriteString("\n(* stale tail *)\n")
						fh.Close()
					case 2:
						os.WriteFile(f, nil, 0o644)
					case 3:
						os.WriteFile(f, cur[:len(cur)/2], 0o644)
					case 4:
						if len(cur) > 0 {
							os.WriteFile(f, cur[:len(cur)-1], 0o644)
						}
					case 5:
						if len(cur) > 10 {
							mod := append([]byte{}, cur...)
							mod[len(mod)/2] ^= 1
							os.WriteFile(f, mod, 0o644)
						}
					}
					r.Count(fmt.Sprintf("stale_form_%d", (i/3)%6), 1)
					expectTouched[n] = true
				}
			}
		}
		if sc.Prior == "readonly-identical" {
			for n := range readTree(out) {
				os.Chmod(filepath.Join(out, n), 0o444)
			}
		}
		ageTree(out)
		preExisting = statTree(out)
	case "file-for-dir":
		os.MkdirAll(out, 0o755)
		top := strings.Split(outputRel(m.ModPath), "/")[0]
		os.WriteFile(filepath.Join(out, top), []byte("not a directory\n"), 0o644)
		if len(sc.Patterns) > 0 && strings.HasPrefix(sc.Patterns[0], c17ExtMod) {
			os.WriteFile(filepath.Join(out, strings.Split(outputRel(c17ExtMod), "/")[0]), []byte("not a directory\n"), 0o644)
		}
	case "foreign-files":
		// -out already holds files of packages that are not translated now, and files that are not goose's
		k := 0
		for _, p := range m.Pkgs {
			if _, isMatched := matched[p.Path]; isMatched || p.Label == "excluded" {
				continue
			}
			body := fmt.Sprintf("(* output of %s, which is not translated by this invocation *)\n", p.Path)
			if k%2 == 1 {
				if so := c.solo(m, p, sc.Flags, sc.Ignore); so.has {
					body = so.file
				}
			}
			k++
			core.WriteFile(filepath.Join(out, outputRel(p.Path)), body)
		}
		core.WriteFile(filepath.Join(out, "README.txt"), "not a goose file\n")
		core.WriteFile(filepath.Join(out, "_CoqProject"), "-Q . Goose\n")
		for _, ip := range order {
			if matched[ip] == "good" {
				core.WriteFile(filepath.Join(out, filepath.Dir(outputRel(ip)), "notes.txt"), "sibling of an output file\n")
				core.WriteFile(filepath.Join(out, strings.TrimSuffix(outputRel(ip), ".v")+".vo"), "compiled earlier\n")
				break
			}
		}
		ageTree(out)
		foreign = statTree(out)
		foreignBytes = readTree(out)
	case "stale-bad":
		for _, ip := range order {
			if matched[ip] == "bad" {
				staleBadRel = outputRel(ip)
				f := filepath.Join(out, staleBadRel)
				core.WriteFile(f, "(* left over from an earlier run *)\n")
				break
			}
		}
		ageTree(out)
		preExisting = statTree(out)
	}

	// ---- the run itself
	var iv *invocation
	straceLog := ""
	if sc.Strace && c.strace != "" {
		straceLog = c.fresh("strace") + ".log"
		os.MkdirAll(filepath.Dir(straceLog), 0o755)
		sargs := append([]string{"-f", "-qq", "-e", "trace=openat,rename,renameat,renameat2,unlink,unlinkat", "-o", straceLog, c.bin}, args...)
		iv = runGoose(c.strace, cwd, nil, sargs...)
		iv.Args = append([]string{"strace -f -e trace=openat,rename,… goose"}, args...)
	} else {
		iv = runGoose(c.bin, cwd, nil, args...)
	}
	r.Count("goose_invocations", 1)
	if iv.res.TimedOut {
		r.Inconclusive("goose-watchdog")
		return
	}
	t := readTree(out)
	after := statTree(out)
	v := &c17Verdict{Module: m.ModPath, Scenario: sc, Command: iv.cmdline(), Matched: matched, Exit: iv.Code, Written: append([]string{}, t.names()...), Stderr: clip(iv.res.Stderr, 1500), Tree: m.treeListing()}
	viol := func(sig, what string) {
		v.Problems = append(v.Problems, sig)
		r.Violate(sig, what+" — "+iv.cmdline(), v)
	}
	defer func() {
		r.Eval(1)
		r.Distinct(fmt.Sprintf("%s|%s|flags=%v|cwd=%s|dir=%v|prior=%s|out=%s", sc.Class, mix, sc.Flags, sc.Cwd, sc.UseDir, sc.Prior, outForm))
		if outForm != "" {
			r.Count("out_form_"+outForm, 1)
		}
		if v.Problems == nil {
			v.Problems = []string{}
		}
		c.mu.Lock()
		k := sc.Class + "|" + sc.Prior + "|" + outForm
		c.sampled[k]++
		take := c.sampled[k] == 1
		for _, pr := range v.Problems {
			c.sampled["problem|"+pr]++
			if c.sampled["problem|"+pr] <= 2 {
				take = true
			}
		}
		c.mu.Unlock()
		if take {
			v.Stderr = clip(v.Stderr, 500)
			r.Sample(40, v)
		}
	}()

	// crash?
	if cr, why := iv.crashed(); cr {
		viol("crash-"+sc.Class+"-"+mix, fmt.Sprintf("goose crashed (%s)", why))
		return
	}
	rep := parseStderr(iv.res.Stderr)

	// pattern matching nothing: goose deliberately reports an error; only "no crash, nothing written" is judged
	if len(matched) == 0 {
		r.Count("matched_nothing_exit_"+fmt.Sprint(iv.Code), 1)
		if len(t) > 0 {
			viol("files-written-although-nothing-matched", fmt.Sprintf("patterns match no package but %v was written", t.names()))
		}
		return
	}

	// exit status
	v.Expected = 0
	for _, l := range matched {
		if l != "good" {
			v.Expected = 1
		}
	}
	if sc.Prior == "file-for-dir" {
		willWrite := false
		for _, l := range matched {
			if l == "good" || (l == "bad" && sc.Ignore) {
				willWrite = true
			}
		}
		if willWrite {
			v.Expected = 1
			if iv.Code == 0 {
				viol("exit-status-1-got-0-output-directory-is-a-file", "a regular file sits where an output directory is needed, the files cannot have been written, yet goose exits 0")
			}
			return
		}
	}
	if iv.Code != v.Expected {
		viol(fmt.Sprintf("exit-status-%d-got-%d-%s", v.Expected, iv.Code, mix), fmt.Sprintf("exit status %d, expected %d (matched packages: %v)", iv.Code, v.Expected, matched))
	}

	// per package
	expectedFiles := map[string]bool{}
	reported := map[string]bool{}
	for _, lf := range rep.LoadFailed {
		reported[lf] = true
	}
	for _, sf := range rep.SrcFiles {
		for _, p := range m.Pkgs {
			if filepath.Dir(sf) == filepath.Join(m.Dir, p.Dir) {
				reported[p.Path] = true
			}
		}
	}
	for _, ip := range order {
		label := matched[ip]
		p := m.byPath[ip]
		rel := outputRel(ip)
		src, wrote := t[rel]
		_, pre := preExisting[rel]
		switch label {
		case "good":
			expectedFiles[rel] = true
			if !wrote {
				if p.NotGooseSrc != "" && strings.Contains(iv.res.Stderr, p.NotGooseSrc) {
					viol("build-tag-notgoose-file-included", fmt.Sprintf("%s failed with an error located in its `//go:build !goose` file %s", ip, p.NotGooseSrc))
				}
				viol("good-package-file-missing", fmt.Sprintf("package %s translates without error but %s was not written", ip, rel))
				continue
			}
			solo := c.solo(m, p, sc.Flags, sc.Ignore)
			if !solo.has {
				r.Inconclusive("solo-reference-run-wrote-no-file")
			} else if solo.file != src {
				viol("good-package-file-differs-from-solo-run", fmt.Sprintf("%s differs from the bytes of a solo run with the same flags: %s", rel, firstDiff(solo.file, src)))
			}
			r.Count("good_package_files_compared_with_solo_run", 1)
			if reported[ip] {
				viol("good-package-reported-as-failed", fmt.Sprintf("stderr reports an error for %s", ip))
			}
			if len(p.MustHave)+len(p.MustNotHave) > 0 {
				defs, err := defNames(src)
				if err != nil {
					r.Inconclusive("coq-reader-rejects-emitted-file")
					continue
				}
				for _, n := range p.MustHave {
					if !defs[n] {
						viol("build-tag-goose-file-excluded", fmt.Sprintf("%s: definition %s (from the file tagged `//go:build goose`, or its untagged sibling) is missing from %s", ip, n, rel))
					}
				}
				for _, n := range p.MustNotHave {
					if defs[n] {
						viol("build-tag-notgoose-file-included", fmt.Sprintf("%s: definition %s from the file tagged `//go:build !goose` appears in %s", ip, n, rel))
					}
				}
				r.Count("build_tag_packages_judged", 1)
			}
		case "bad":
			if !reported[ip] {
				viol("failed-package-not-reported", fmt.Sprintf("package %s has a conversion error but stderr has no error located in it", ip))
			}
			if !sc.Ignore {
				if wrote && !pre {
					viol("bad-package-file-written-without-ignore-errors", fmt.Sprintf("package %s has a conversion error, -ignore-errors is absent, yet %s was written", ip, rel))
				}
				if wrote && pre && rel == staleBadRel {
					if after[rel].mtime != preExisting[rel].mtime || after[rel].ino != preExisting[rel].ino {
						viol("bad-package-file-written-without-ignore-errors", fmt.Sprintf("package %s has a conversion error, -ignore-errors is absent, yet the existing %s was overwritten", ip, rel))
					}
					r.Count("stale_file_of_failed_package_left_alone_checks", 1)
				}
				continue
			}
			expectedFiles[rel] = true
			if !wrote {
				viol("ignore-errors-partial-file-missing", fmt.Sprintf("-ignore-errors given but %s of the partially translatable package %s was not written", rel, ip))
				continue
			}
			defs, err := defNames(src)
			if err != nil {
				viol("ignore-errors-partial-file-unreadable", fmt.Sprintf("the partial file %s is not readable by Coq's rules: %v", rel, err))
				continue
			}
			if strings.Count(src, "\nSection code.") != strings.Count(src, "\nEnd code.") {
				viol("ignore-errors-partial-file-section-not-closed", fmt.Sprintf("the partial file %s opens `Section code.` %d times and closes it %d times", rel, strings.Count(src, "\nSection code."), strings.Count(src, "\nEnd code.")))
			}
			want := map[string]bool{}
			for _, n := range p.GoodDefs {
				want[n] = true
				if !defs[n] {
					viol("ignore-errors-missing-good-decl", fmt.Sprintf("%s: translatable declaration %s is missing from the partial file", ip, n))
				}
			}
			for _, n := range p.BadDefs {
				if defs[n] {
					viol("ignore-errors-contains-bad-decl", fmt.Sprintf("%s: untranslatable declaration %s appears in the partial file", ip, n))
				}
			}
			for n := range defs {
				if !want[n] {
					isBad := false
					for _, b := range p.BadDefs {
						if b == n {
							isBad = true
						}
					}
					if !isBad {
						viol("ignore-errors-unexpected-decl", fmt.Sprintf("%s: the partial file defines %s, which is not a declaration of the package", ip, n))
					}
				}
			}
			r.Count("partial_files_judged", 1)
		default: // broken, unloadable
			if !reported[ip] {
				// goose names a nonexistent directory by the pattern, go list -e likewise
				viol("failed-package-not-reported", fmt.Sprintf("package %s cannot be loaded but stderr does not say so", ip))
			}
			if wrote && !pre && m.byPath[ip] != nil {
				viol("unloadable-package-file-written", fmt.Sprintf("package %s does not load, yet %s was written", ip, rel))
			}
		}
	}
	// files that belong to nothing matched
	for _, n := range t.names() {
		if expectedFiles[n] {
			continue
		}
		if _, pre := preExisting[n]; pre {
			continue
		}
		if _, fo := foreign[n]; fo {
			continue
		}
		if sc.Prior == "file-for-dir" && !strings.Contains(n, "/") {
			continue
		}
		if n == "..v" && sc.Ignore && (has["broken"] || has["unloadable"]) {
			viol("ignore-errors-stray-file-for-unloadable-package", "with -ignore-errors a package that cannot be loaded makes goose write the file `..v` directly under -out (derived from an empty package path), content: "+fmt.Sprintf("%q", clip(t[n], 120)))
			continue
		}
		known := false
		for _, p := range m.Pkgs {
			if _, isMatched := matched[p.Path]; isMatched && outputRel(p.Path) == n {
				known = true // judged above under its own clause
				continue
			}
			if outputRel(p.Path) == n {
				known = true
				viol("pattern-set-differs-from-go-list", fmt.Sprintf("%s (package %s, label %s) was written although `go list -tags goose %s` in %s does not match that package", n, p.Path, p.Label, strings.Join(sc.Patterns, " "), listDir))
			}
		}
		if !known {
			viol("unexpected-output-file", fmt.Sprintf("file %s under -out is not the mapped path of any matched package", n))
		}
	}
	for name := range reported {
		if l, ok := matched[name]; !ok {
			viol("pattern-set-differs-from-go-list", fmt.Sprintf("stderr reports a failure of %s, which `go list -tags goose` does not match", name))
		} else if l == "good" {
			viol("good-package-reported-as-failed", fmt.Sprintf("stderr reports an error for %s", name))
		}
	}

	// files under -out that belong to no matched package: goose writes one file per translated package, nothing else
	for n, before := range foreign {
		now, ok := after[n]
		r.Count("foreign_files_checked", 1)
		switch {
		case !ok:
			viol("foreign-file-under-out-removed", "file "+n+" under -out belongs to no matched package, existed before the run and is gone")
		case t[n] != foreignBytes[n]:
			viol("foreign-file-under-out-changed", fmt.Sprintf("file %s under -out belongs to no matched package and its content changed: %s", n, firstDiff(foreignBytes[n], t[n])))
		case now.mtime != before.mtime || now.ino != before.ino:
			viol("foreign-file-under-out-rewritten", fmt.Sprintf("file %s under -out belongs to no matched package and was rewritten (mtime %v -> %v, inode %d -> %d)", n, before.mtime.UTC().Format(time.RFC3339), now.mtime.UTC().Format(time.RFC3339), before.ino, now.ino))
		}
	}

	// write-if-changed
	if len(preExisting) > 0 {
		for n, before := range preExisting {
			now, ok := after[n]
			if !ok {
				viol("existing-output-file-removed", "file "+n+" existed before the run and is gone")
				continue
			}
			if expectTouched[n] {
				if p := c.pkgOfRel(m, n); p != nil {
					solo := c.solo(m, p, sc.Flags, sc.Ignore)
					if solo.has && t[n] != solo.file {
						viol("stale-file-not-replaced", "file "+n+" had stale content before the run and does not have the translation afterwards")
					}
					r.Count("stale_files_checked", 1)
				}
				continue
			}
			if n == staleBadRel {
				continue
			}
			r.Count("identical_files_checked", 1)
			if now.mtime != before.mtime || now.ino != before.ino {
				viol("identical-file-rewritten", fmt.Sprintf("file %s already had the content goose produces (prior state %s) but was rewritten: mtime %v -> %v, inode %d -> %d", n, sc.Prior, before.mtime.UTC().Format(time.RFC3339), now.mtime.UTC().Format(time.RFC3339), before.ino, now.ino))
			}
		}
	}
	if straceLog != "" {
		b, err := os.ReadFile(straceLog)
		if err != nil {
			r.Inconclusive("strace-log-missing")
		} else {
			lines := 0
			for _, line := range strings.Split(string(b), "\n") {
				mm := straceOpenRe.FindStringSubmatch(line)
				if mm == nil || !strings.Contains(mm[2], out+"/") {
					continue
				}
				lines++
				writeOpen := mm[1] != "openat" || strings.Contains(mm[2], "O_WRONLY") || strings.Contains(mm[2], "O_RDWR") || strings.Contains(mm[2], "O_TRUNC") || strings.Contains(mm[2], "O_CREAT")
				if writeOpen && strings.Contains(mm[2], ".v\"") {
					// which file?
					rel := ""
					for n := range preExisting {
						if strings.Contains(mm[2], "\""+filepath.Join(out, n)+"\"") {
							rel = n
						}
					}
					if rel != "" && !expectTouched[rel] {
						viol("identical-file-opened-for-writing", fmt.Sprintf("strace: %s on %s although the file already had the content goose produces: %s", mm[1], rel, clip(line, 300)))
					}
				}
			}
			r.Count("strace_syscalls_on_out_tree_inspected", int64(lines))
			if lines == 0 {
				r.Inconclusive("strace-saw-no-access-to-out-tree")
			}
		}
	}
	os.RemoveAll(out)
}

func (c *c17Checker) pkgOfRel(m *c17Module, rel string) *c17Pkg {
	for _, p := range m.byPath {
		if outputRel(p.Path) == rel {
			return p
		}
	}
	return nil
}

// scenarios lists the command lines for one module. full = every pattern class x every flag set.
func (c *c17Checker) scenarios(m *c17Module, rng *core.Rng, full bool) []c17Scenario {
	flagsets := c17FlagSets()
	var goodDirs, allDirs []string
	for _, p := range m.Pkgs {
		if p.Dir == "" || p.Label == "excluded" {
			continue
		}
		allDirs = append(allDirs, p.Dir)
		if p.Label == "good" {
			goodDirs = append(goodDirs, p.Dir)
		}
	}
	pick := func(from []string, n int) []string {
		perm := append([]string{}, from...)
		for a := len(perm) - 1; a > 0; a-- {
			b := rng.Intn(a + 1)
			perm[a], perm[b] = perm[b], perm[a]
		}
		if n > len(perm) {
			n = len(perm)
		}
		return perm[:n]
	}
	rel := func(ds []string) []string {
		var o []string
		for _, d := range ds {
			o = append(o, "./"+d)
		}
		return o
	}
	abs := func(ds []string) []string {
		var o []string
		for _, d := range ds {
			o = append(o, m.ModPath+"/"+d)
		}
		return o
	}
	type pc struct {
		class    string
		cwd      string
		useDir   bool
		patterns []string
	}
	classes := []pc{
		{"no-pattern", "", false, nil},
		{"dot", "", false, []string{"."}},
		{"all", "", false, []string{"./..."}},
		{"relative-dirs", "", false, rel(pick(allDirs, 2+rng.Intn(2)))},
		{"relative-dirs-good-only", "", false, rel(pick(goodDirs, 2+rng.Intn(3)))},
		{"import-paths", "", false, abs(pick(allDirs, 2+rng.Intn(3)))},
		{"subtree", "", false, []string{"./sub/..."}},
		{"subtree-good-only", "", false, []string{"./alpha/...", "./da-sh/..."}},
		{"external-module", "", false, []string{c17ExtMod + "/lib"}},
		{"external-and-local", "", false, append([]string{c17ExtMod + "/lib"}, rel(pick(goodDirs, 1))...)},
		{"nonexistent", "", false, []string{"./nope"}},
		{"good-and-nonexistent", "", false, append(rel(pick(goodDirs, 2)), "./nope/nada")},
		{"matches-nothing", "", false, []string{"./emptydir/..."}},
		{"empty-directory", "", false, []string{"./emptydir"}},
		{"excluded-by-tag", "", false, []string{"./onlynot", "./onlygoose"}},
		{"build-tags", "", false, []string{"./tags1", "./tags2", "./onlygoose"}},
		{"no-pattern-in-subdir", "alpha", false, nil},
		{"all-in-subdir", "alpha", false, []string{"./..."}},
		{"parent-relative", "beta", false, []string{"..", "../alpha", "./inner"}},
		{"dir-flag-no-pattern", "<elsewhere>", true, nil},
		{"dir-flag-all", "<elsewhere>", true, []string{"./..."}},
		{"dir-flag-paths", "<elsewhere>", true, append(abs(pick(allDirs, 2)), "./"+pick(goodDirs, 1)[0])},
		{"dir-flag-from-subdir", "sub", true, []string{"./alpha/...", "./tags1"}},
		// shapes of the pattern list: the Go toolchain matches a SET of packages, however many patterns select one
		{"repeated-pattern", "", false, []string{"./beta", "./alpha", "./beta", "./alpha", "./beta"}},
		{"all-plus-members", "", false, []string{"./...", "./beta", "./alpha/nest"}},
		{"members-before-all", "", false, []string{"./sub/bad2", "./da-sh/dot.ted", "./..."}},
		{"import-path-plus-relative", "", false, []string{m.ModPath + "/beta", "./beta", "./alpha/nest", m.ModPath + "/alpha/nest"}},
		{"nested-subtrees", "", false, []string{"./sub/...", "./...", "./sub/deep/..."}},
		{"nested-subtrees-import-paths", "", false, []string{m.ModPath + "/sub/...", "./sub/deep/...", m.ModPath + "/sub/bad2"}},
		{"respelled-directory", "", false, []string{"./beta/", "./beta/../beta", filepath.Join(m.Dir, "alpha"), "./alpha"}},
		{"parent-relative-overlap", "beta", false, []string{"..", "../...", "./inner", "../beta/inner", "."}},
		{"subdir-parent-recursive", "sub/deep", false, []string{"../...", "./er", "../../alpha", "../bad2"}},
		{"tag-only-overlap", "", false, []string{"./onlygoose", m.ModPath + "/onlygoose", "./tags1", "./tags1"}},
		{"tag-only-through-recursive", "", false, []string{"./only...", "./tags..."}},
		{"dir-flag-overlap", "<elsewhere>", true, []string{"./...", m.ModPath + "/beta", "./beta"}},
		{"dir-flag-tag-only", "<elsewhere>", true, []string{m.ModPath + "/onlygoose", "./tags2", "./onlygoose"}},
		{"dir-flag-from-subdir-overlap", "sub", true, []string{"./sub/...", "./sub/bad2", "./alpha"}},
		{"external-and-local-overlap", "", false, []string{c17ExtMod + "/...", c17ExtMod + "/lib", "./beta", "./beta"}},
	}
	var out []c17Scenario
	i := rng.Intn(16)
	for _, cl := range classes {
		n := 1
		if full {
			n = 16
		} else if cl.class == "all" {
			n = 16 // every flag combination on ./...
		} else if cl.class == "relative-dirs" || cl.class == "import-paths" || cl.class == "build-tags" {
			n = 2
		}
		for k := 0; k < n; k++ {
			fs := flagsets[i%8]
			ign := (i/8)%2 == 1
			i++
			out = append(out, c17Scenario{Class: cl.class, Cwd: cl.cwd, UseDir: cl.useDir, Patterns: cl.patterns, Flags: fs, Ignore: ign, Prior: "empty"})
		}
	}
	// prior states
	priors := []struct {
		prior    string
		class    string
		patterns []string
		ignore   bool
	}{
		{"identical", "all", []string{"./..."}, false},
		{"identical", "all", []string{"./..."}, true},
		{"identical", "subtree-good-only", []string{"./alpha/...", "./da-sh/...", "./tags1"}, false},
		{"stale", "all", []string{"./..."}, false},
		{"stale", "subtree-good-only", []string{"./alpha/...", "./da-sh/...", "./tags2"}, true},
		{"readonly-identical", "subtree-good-only", []string{"./alpha/...", "./da-sh/..."}, false},
		{"readonly-identical", "all", []string{"./..."}, true},
		{"file-for-dir", "subtree-good-only", []string{"./alpha/..."}, false},
		{"file-for-dir", "all", []string{"./..."}, true},
		{"file-for-dir", "external-module", []string{c17ExtMod + "/lib"}, false},
		{"stale-bad", "all", []string{"./..."}, false},
		{"stale-bad", "relative-dirs", []string{"./beta", "./alpha"}, false},
		{"relative-out", "all", []string{"./..."}, false},
		{"relative-out", "no-pattern", nil, false},
	}
	for k, p := range priors {
		fs := flagsets[(i+k)%8]
		if !full && k%2 == 1 {
			fs = nil
		}
		out = append(out, c17Scenario{Class: p.class, Patterns: p.patterns, Flags: fs, Ignore: p.ignore, Prior: p.prior})
	}
	// second run into the same -out with an overlapping pattern list; -out that already holds other files
	out = append(out, c17Scenario{Class: "all-plus-members", Patterns: []string{"./...", "./alpha", "./beta"}, Prior: "identical", Ignore: true, Flags: flagsets[(i+1)%8]})
	out = append(out, c17Scenario{Class: "repeated-pattern", Patterns: []string{"./alpha", "./alpha", "./beta", "./beta"}, Prior: "stale", Ignore: true})
	out = append(out, c17Scenario{Class: "subtree-good-only", Patterns: []string{"./alpha/...", "./da-sh/..."}, Prior: "foreign-files", Flags: flagsets[(i+2)%8]})
	out = append(out, c17Scenario{Class: "relative-dirs", Patterns: []string{"./beta", "./alpha", "./sub/bad2"}, Prior: "foreign-files", Ignore: true})
	out = append(out, c17Scenario{Class: "relative-dirs", Patterns: []string{"./beta", "./alpha/nest"}, Prior: "foreign-files"})
	// spellings of -out
	out = append(out, c17Scenario{Class: "subtree-good-only", Patterns: []string{"./alpha/...", "./da-sh/..."}, Prior: "empty", OutForm: "abs-trailing-slash"})
	out = append(out, c17Scenario{Class: "all", Patterns: []string{"./..."}, Prior: "identical", OutForm: "abs-trailing-slash", Ignore: true})
	out = append(out, c17Scenario{Class: "relative-dirs", Patterns: []string{"./beta", "./alpha", "./tags1"}, Prior: "empty", OutForm: "abs-unclean", Ignore: true})
	out = append(out, c17Scenario{Class: "subtree-good-only", Patterns: []string{"./alpha/...", "./da-sh/..."}, Prior: "identical", OutForm: "abs-unclean"})
	out = append(out, c17Scenario{Class: "subtree-good-only", Patterns: []string{"./alpha/...", "./da-sh/..."}, Prior: "identical", OutForm: "relative", Flags: flagsets[(i+3)%8]})
	out = append(out, c17Scenario{Class: "relative-dirs", Patterns: []string{"./beta", "./alpha"}, Prior: "empty", OutForm: "rel-dot-slash-trailing", Ignore: true})
	out = append(out, c17Scenario{Class: "relative-dirs", Patterns: []string{"./beta", "./alpha"}, Prior: "stale", OutForm: "rel-dot-slash-trailing", Ignore: true})
	out = append(out, c17Scenario{Class: "build-tags", Patterns: []string{"./tags1", "./tags2", "./onlygoose"}, Prior: "empty", OutForm: "rel-nested"})
	out = append(out, c17Scenario{Class: "all-in-subdir", Cwd: "alpha", Patterns: []string{"./..."}, Prior: "empty", OutForm: "rel-parent"})
	out = append(out, c17Scenario{Class: "parent-relative", Cwd: "beta", Patterns: []string{"..", "../alpha", "./inner"}, Prior: "identical", OutForm: "rel-parent", Ignore: true})
	out = append(out, c17Scenario{Class: "dir-flag-paths", Cwd: "<elsewhere>", UseDir: true, Patterns: []string{m.ModPath + "/alpha", "./beta/inner"}, Prior: "identical", OutForm: "rel-nested"})
	// -dir from another working directory combined with a relative -out: the output belongs under the
	// invocation directory, not under the module
	out = append(out, c17Scenario{Class: "all", Cwd: "<elsewhere>", UseDir: true, Patterns: []string{"./..."}, Prior: "relative-out", Ignore: true})
	out = append(out, c17Scenario{Class: "subtree-good-only", Cwd: "<elsewhere>", UseDir: true, Patterns: []string{"./alpha/...", "./da-sh/..."}, Prior: "relative-out", Flags: flagsets[i%8]})
	// the syscall monitor on the identical state
	out = append(out, c17Scenario{Class: "all", Patterns: []string{"./..."}, Prior: "identical", Strace: true, Ignore: true})
	out = append(out, c17Scenario{Class: "subtree-good-only", Patterns: []string{"./alpha/...", "./tags1"}, Prior: "stale", Strace: true})
	return out
}

func runC17(r *core.Run) (bool, string) {
	r.SetRule("one evaluation = one goose command line (patterns x cwd/-dir x flags x prior state of -out) on a generated module whose packages are labelled good/bad/broken by construction, judged on exit status, files under -out (placement, bytes vs a solo run, partial output by definition names read with the Coq reader), " +
		"mtime+inode of files that already had the right content (and an strace write-open monitor on some), and the matched set given by `go list -e -tags goose` with the same patterns in the same directory; " +
		"pattern-spelling family (c17patterns.go): directories named like standard-library packages, like a dependency's path, like the module's own path, each named bare / with a trailing slash / ./dir / dir/... / absolute / by import path / several at once / with -dir / from a subdirectory; a matched standard-library package is labelled by a goose run on the same import path in a module without such a directory; " +
		"distinct = (pattern class, good/bad/broken mix, flags, cwd, -dir, prior state)")
	r.Assume("`go list -e -tags goose <patterns>` run in the directory goose loads from is the reference for which packages and files a pattern selects")
	r.Assume("a pattern that matches no package at all: goose's deliberate `patterns matched no packages` failure is accepted (either exit status); only no-crash and nothing-written are judged")
	r.Assume("the checks run as root, so a read-only output file does not by itself make a write fail; the read-only state is judged on mtime/inode only")
	bin, err := gooseBin(r, false)
	if err != nil {
		return false, "cannot build goose: " + err.Error()
	}
	c := &c17Checker{r: r, bin: bin, sampled: map[string]int{}}
	if p, err := exec.LookPath("strace"); err == nil {
		c.strace = p
	} else {
		r.Inconclusive("strace-not-available")
	}
	// the pattern-spelling family (c17patterns.go) has modules and a random stream of its own and runs beside the rest
	patDone := make(chan bool, 1)
	go func() { patDone <- c.runPatternSpellings(r, core.NewRng(r.Seed, "c17-pattern-spellings")) }()
	nmods := r.Pick(3, 10)
	rng := core.NewRng(r.Seed, "c17")
	for k := 0; k < nmods; k++ {
		mr := rng.Fork(fmt.Sprintf("module%d", k))
		m := c17NewModule(mr, k)
		if err := m.write(filepath.Join(r.Scratch, "c17mod", fmt.Sprintf("m%d", k))); err != nil {
			return false, "cannot write module: " + err.Error()
		}
		if out, ok := settle(m.Dir, "./...", c17ExtMod+"/..."); !ok {
			return false, "go list failed in the generated module: " + firstLines(out, 10)
		}
		// calibration of the labels: every good package must translate alone, every bad one must fail with a
		// conversion error and every broken one with a load error; otherwise the generator is wrong, not goose
		okLabels := true
		var lmu sync.Mutex
		var calib []*c17Pkg
		for _, p := range m.Pkgs {
			if p.Label != "excluded" {
				calib = append(calib, p)
			}
		}
		core.Parallel(len(calib), 16, func(i int) {
			p := calib[i]
			s := c.solo(m, p, nil, false)
			rep := parseStderr(s.iv.res.Stderr)
			good := s.iv.Code == 0 && s.has
			bad := s.iv.Code == 1 && len(rep.SrcFiles) > 0 && len(rep.LoadFailed) == 0
			broken := s.iv.Code == 1 && len(rep.LoadFailed) > 0
			if cr, _ := s.iv.crashed(); cr || (p.Label == "good" && !good) || (p.Label == "bad" && !bad) || (p.Label == "broken" && !broken) {
				lmu.Lock()
				okLabels = false
				r.Set("label_calibration_failure", map[string]interface{}{"package": p.Path, "label": p.Label, "command": s.iv.cmdline(), "exit_status": s.iv.Code, "stderr": clip(s.iv.res.Stderr, 1200), "sources": p.Files})
				lmu.Unlock()
			}
		})
		if !okLabels {
			// The labels are what every verdict rests on. A goose that fails good packages (or accepts bad
			// ones) when run alone is itself the finding only if the generator is right, which cannot be
			// told apart here, so the module is judged anyway and the mismatch is visible as violations.
			r.Count("modules_with_label_calibration_failure", 1)
		}
		scs := c.scenarios(m, mr, !r.Quick())
		// scenarios that create a directory inside the module (relative -out) run alone: a directory that
		// appears and disappears under the module root while other invocations walk `./...` would disturb them
		var par, seq []c17Scenario
		for _, sc := range scs {
			if sc.Prior == "relative-out" || strings.HasPrefix(sc.OutForm, "rel") {
				seq = append(seq, sc)
			} else {
				par = append(par, sc)
			}
		}
		core.Parallel(len(par), 12, func(i int) { c.runScenario(m, par[i]) })
		for _, sc := range seq {
			c.runScenario(m, sc)
		}
		r.Count("modules", 1)
		r.Count("scenarios", int64(len(scs)))
	}
	// ---- families on modules of their own: build constraints; sibling output directories that are string prefixes
	c.runConstraints(r, rng.Fork("constraints"))
	if !c.runPrefixSiblings(r, rng.Fork("prefix-siblings")) {
		return false, "cannot write the prefix-sibling module"
	}
	if !c.runFractions(r) {
		return false, "cannot write the fraction module"
	}
	if !<-patDone {
		return false, "cannot write the pattern-spelling module"
	}
	n := r.Evals()
	if n < 30 {
		return false, fmt.Sprintf("only %d invocations judged (floor 30)", n)
	}
	if r.GetCount("identical_files_checked") < 5 || r.GetCount("partial_files_judged") < 3 || r.GetCount("build_tag_packages_judged") < 3 {
		return false, "too few write-if-changed / partial-output / build-tag observations"
	}
	if r.GetCount("build_constraint_files_selected_and_translated") < 10 || r.GetCount("build_constraint_pairs_judged") < 5 || r.GetCount("prefix_sibling_scenarios") < 5 || r.GetCount("fraction_scenarios") < 10 {
		return false, "too few build-constraint / prefix-sibling observations"
	}
	if r.GetCount("pattern_family_command_lines_judged") < 15 || r.GetCount("pattern_family_std_packages_matched") < 4 {
		return false, "too few pattern-spelling observations (command lines judged / standard-library packages matched)"
	}
	return true, ""
}
