package clip

import (
	"fmt"
	"os"
	"path/filepath"
	"strings"

	"verif/core"
)

// C06, packages whose import paths map to the same Coq path ('.' and '-' both become '_'). No statement says
// which of two such packages owns the file, or whether that is an error; what C06 does say is that the files,
// the error list and (with C17) the exit status of one command line are the same in every run, whatever the
// scheduling of the per-package workers and GOMAXPROCS. The colliding packages live in a module of their own
// (they are not part of the corpus the other C06 comparisons use) and only that is judged: every command line
// is run once as the reference and then again under GOMAXPROCS 1, 1, 2, 4, 16, 16; every byte must agree.
// The packages of a colliding set differ a lot in size, so that "whoever finishes first" and "whoever was
// started last" are different packages.

const c06CollMod = "example.com/c06/coll-m"

func c06CollFuncs(prefix string, n, salt int) string {
	var b strings.Builder
	for i := 0; i < n; i++ {
		fmt.Fprintf(&b, "\nfunc %s%d(x uint64) uint64 {\n\tvar s uint64 = %d\n\tfor i := uint64(0); i < x; i++ {\n\t\ts = s + i + %d\n\t}\n\tif s > %d {\n\t\treturn s - x\n\t}\n\treturn s\n}\n", prefix, i, salt, i, salt+i)
	}
	return b.String()
}

type c06CollSet struct {
	Name string
	Dirs []string // in sorted order of their import paths; sizes given below
	Size []int
}

var c06CollSets = []c06CollSet{
	{"dash-vs-underscore", []string{"coll/log-store", "coll/log_store"}, []int{1, 400}},
	{"dash-vs-underscore-small-last", []string{"coll/idx-map", "coll/idx_map"}, []int{400, 1}},
	{"dash-dot-underscore", []string{"coll/a-b", "coll/a.b", "coll/a_b"}, []int{1, 60, 400}},
	{"inner-element", []string{"coll/x-y/inner", "coll/x_y/inner"}, []int{2, 300}},
	{"dot-vs-underscore-with-errors", []string{"coll/v.2", "coll/v_2"}, []int{1, 300}},
}

func (s *c06State) runCollisions() {
	r := s.r
	dir := filepath.Join(r.Scratch, "c06coll")
	files := map[string]string{}
	for si, set := range c06CollSets {
		for di, d := range set.Dirs {
			name := goNameOf(d)
			if name == "inner" {
				name = "inner"
			}
			src := fmt.Sprintf("package %s\n\n// Which tells the packages of a colliding set apart.\nfunc Which() uint64 {\n\treturn %d\n}\n", name, 1000*(si+1)+di) + c06CollFuncs("F", set.Size[di], si*10+di)
			if strings.Contains(set.Name, "with-errors") {
				src += c06BadFunc
			}
			files[d+"/p.go"] = src
		}
	}
	files["plain/one/p.go"] = "package one\n" + c06CollFuncs("G", 5, 3)
	files["plain/two/p.go"] = "package two\n" + c06CollFuncs("H", 50, 4) + c06BadFunc
	if err := writeModule(dir, c06CollMod, nil, files); err != nil {
		r.Inconclusive("collision-module-setup-failed")
		return
	}
	if _, ok := settle(dir, "./..."); !ok {
		r.Inconclusive("collision-module-setup-failed")
		return
	}
	type cmd struct {
		set      string
		patterns []string
		flags    c06FlagSet
	}
	var cmds []cmd
	rel := func(ds []string) []string {
		var o []string
		for _, d := range ds {
			o = append(o, "./"+d)
		}
		return o
	}
	for i, set := range c06CollSets {
		fs := c06FlagSets[i%2]
		for _, p := range permutations(set.Dirs) {
			cmds = append(cmds, cmd{set.Name, rel(p), fs})
		}
		// by import path, with unrelated packages around
		cmds = append(cmds, cmd{set.Name, append([]string{"./plain/..."}, func() []string {
			var o []string
			for _, d := range set.Dirs {
				o = append(o, c06CollMod+"/"+d)
			}
			return o
		}()...), c06FlagSets[(i+1)%2]})
	}
	cmds = append(cmds, cmd{"all-sets", []string{"./..."}, c06FlagSets[0]}, cmd{"all-sets", []string{"./..."}, c06FlagSets[1]}, cmd{"all-sets", []string{"./coll/..."}, c06FlagSets[0]})
	gmps := []int{1, 1, 2, 4, 16, 16}
	if !r.Quick() {
		gmps = append(gmps, 1, 2, 3, 8, 16, 1)
	}
	core.Parallel(len(cmds), 4, func(i int) {
		c := cmds[i]
		run := func(gmp int) c06RunResult {
			out := s.outDir("coll")
			args := append([]string{"-out", out}, c.flags.Flags...)
			args = append(args, c.patterns...)
			iv := runGoose(s.bin, dir, []string{fmt.Sprintf("GOMAXPROCS=%d", gmp)}, args...)
			r.Count("goose_invocations", 1)
			r.Count("colliding_path_invocations", 1)
			t := readTree(out)
			os.RemoveAll(out)
			return c06RunResult{iv, t}
		}
		ref := run(16)
		if ref.iv.res.TimedOut {
			r.Inconclusive("goose-watchdog")
			return
		}
		what := fmt.Sprintf("packages whose import paths map to one Coq path (%s), patterns %v, flags %v", c.set, c.patterns, c.flags.Flags)
		if cr, why := ref.iv.crashed(); cr {
			r.Violate("colliding-output-paths-crash", what+": goose crashed ("+why+")", map[string]interface{}{"command": ref.iv.cmdline(), "stderr": clip(ref.iv.res.Stderr, 3000)})
			return
		}
		r.Distinct(fmt.Sprintf("collision|%s|%s|%s", c.set, c.flags.Name, strings.Join(c.patterns, " ")))
		for _, g := range gmps {
			got := run(g)
			if got.iv.res.TimedOut {
				r.Inconclusive("goose-watchdog")
				continue
			}
			r.Eval(1)
			r.Count("bytes_compared", ref.tree.bytes()+int64(len(ref.iv.res.Stderr)))
			detail := map[string]interface{}{"reference_command": ref.iv.cmdline(), "command": got.iv.cmdline(), "reference_exit_status": ref.iv.Code, "exit_status": got.iv.Code,
				"reference_stderr": clip(ref.iv.res.Stderr, 2000), "stderr": clip(got.iv.res.Stderr, 2000), "reference_files": ref.tree.names(), "files": got.tree.names()}
			if d := diffTrees(ref.tree, got.tree); len(d) > 0 {
				detail["first_difference"] = firstDiff(ref.tree[d[0]], got.tree[d[0]])
				r.Violate("colliding-output-paths-nondeterministic-output", fmt.Sprintf("%s: two runs of the same command (GOMAXPROCS 16 vs %d) differ in %d file(s), first %s", what, g, len(d), d[0]), detail)
			}
			if ref.iv.res.Stderr != got.iv.res.Stderr {
				detail["first_difference_stderr"] = firstDiff(ref.iv.res.Stderr, got.iv.res.Stderr)
				r.Violate("colliding-output-paths-nondeterministic-stderr", fmt.Sprintf("%s: two runs of the same command (GOMAXPROCS 16 vs %d) print different error lists: %s", what, g, firstDiff(ref.iv.res.Stderr, got.iv.res.Stderr)), detail)
			}
			if ref.iv.Code != got.iv.Code {
				r.Violate("colliding-output-paths-nondeterministic-exit-status", fmt.Sprintf("%s: exit status %d vs %d for the same command (GOMAXPROCS 16 vs %d)", what, ref.iv.Code, got.iv.Code, g), detail)
			}
		}
		if i < 2 {
			r.Sample(30, map[string]interface{}{"kind": "colliding-output-paths", "command": ref.iv.cmdline(), "exit_status": ref.iv.Code, "files_written": ref.tree.names(), "stderr_bytes": len(ref.iv.res.Stderr), "repetitions": len(gmps)})
		}
	})
}
