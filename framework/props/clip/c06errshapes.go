package clip

import (
	"fmt"
	"os"
	"path/filepath"
	"regexp"
	"sort"
	"strings"

	"verif/core"
)

// C06 corpus family "every rejecting construct x operand shape". An error message may mention any part of the
// rejected syntax; whatever it prints must be the same text in every run, under every GOMAXPROCS and whatever
// else is translated in the invocation. Every rejecting construct below is instantiated with its operands
// (callee, value, assignment target, slice, string, map, pointer, float, map key type) in seven shapes: identifier,
// selector, nested selector through a field, call result, index expression, parenthesised, composite literal.
// Several cells per file, several files per package. The oracle is the existing one (byte equality of stderr
// across repetitions, GOMAXPROCS and groupings) plus the amplifier in runErrAmplifier.

var c06ShapeNames = []string{"ident", "selector", "nested-selector", "call-result", "index", "paren", "composite-literal"}

// operand kind -> the seven shapes
var c06Operands = map[string][7]string{
	"U":   {"x", "s.n", "s.in.n", "mkS().n", "xs[i]", "(x)", "In{n: x}.n"},
	"L":   {"v", "s.n", "s.in.n", "mkS().n", "xs[i]", "(s.n)", "(&In{n: x}).n"},
	"SL":  {"xs", "s.xs", "s.in.xs", "mkS().xs", "xss[i]", "(xs)", "[]uint64{x, i}"},
	"CAL": {"variadic", "l.Record", "s.log.Record", "mkS().log.Record", "logs[i].Record", "(l.Record)", "(&Log{n: x}).Record"},
	"FN":  {"f", "s.fn", "s.in.fn", "mkF()", "fs[i]", "(f)", "func(y uint64) uint64 { return y + 1 }"},
	"F":   {"gfl", "fl.v", "s.fl.v", "mkFL().v", "fls[i].v", "(fl.v)", "FL{v: 1.5}.v"},
	"STR": {"str", "s.name", "s.in.name", "mkS().name", "strs[i]", "(str)", "In{name: \"a\"}.name"},
	"M":   {"m", "s.m", "s.in.m", "mkS().m", "ms[i]", "(m)", "map[uint64]uint64{x: i}"},
	"P":   {"l", "s.log", "s.in.log", "mkS().log", "logs[i]", "(l)", "&Log{n: x}"},
	"KEY": {"[2]uint64", "struct{ a uint64 }", "*uint64", "*In", "FL", "[1][2]bool", "Log"},
}

type c06Construct struct {
	Name string
	Body string // placeholders {U} {U2} {L} {SL} {SL2} {CAL} {FN} {F} {STR} {M} {P} {KEY}
}

var c06Constructs = []c06Construct{
	{"variadic-call", "\treturn {CAL}(1, {U})\n"},
	{"variadic-call-statement", "\t{CAL}({U}, 2)\n\treturn x\n"},
	{"variadic-call-spread", "\treturn {CAL}({SL}...)\n"},
	{"variadic-call-no-arguments", "\treturn {CAL}() + {U}\n"},
	{"map-key-type", "\tmm := make(map[{KEY}]uint64)\n\treturn uint64(len(mm)) + {U}\n"},
	{"map-key-type-in-var", "\tvar mm map[{KEY}][]uint64\n\treturn uint64(len(mm))\n"},
	{"conversion-to-float", "\treturn uint64(float64({U}))\n"},
	{"conversion-to-int32", "\treturn uint64(int32({U}))\n"},
	{"conversion-from-float", "\treturn uint64({F})\n"},
	{"conversion-to-string", "\treturn uint64(len(string(rune({U}))))\n"},
	{"binary-operator-andnot", "\treturn {U} &^ {U2}\n"},
	{"string-ordered-comparison", "\tif ({STR} < \"b\") {\n\t\treturn {U}\n\t}\n\treturn 0\n"},
	{"assign-op-mul", "\tvar v uint64 = x\n\t{L} *= 2\n\treturn v\n"},
	{"assign-op-shift", "\tvar v uint64 = x\n\t{L} <<= {U}\n\treturn v\n"},
	{"assign-op-add-through-call", "\tvar v uint64 = x\n\txs[mkS().n] += {U}\n\t{L} += 1\n\treturn v\n"},
	{"multiple-assignment", "\tvar v uint64 = x\n\tvar w uint64 = i\n\t{L}, w = w, {U}\n\treturn v + w\n"},
	{"nil-comparison-of-map", "\tif ({M} == nil) {\n\t\treturn 1\n\t}\n\treturn 0\n"},
	{"call-of-function-value", "\treturn {FN}({U})\n"},
	{"index-into-string", "\treturn uint64({STR}[{U}])\n"},
	{"copy-from-string", "\tb := make([]byte, 8)\n\treturn uint64(copy(b, {STR}))\n"},
	{"array-literal", "\ta := [2]uint64{{U}, {U2}}\n\treturn a[0]\n"},
	{"array-index-update", "\tvar a [4]uint64\n\ta[{U}%4] = {U2}\n\treturn a[0]\n"},
	{"capacity-of-map-len-of-array", "\tvar a [4]uint64\n\treturn uint64(len(a)) + {U}\n"},
	{"unary-minus", "\treturn -{U}\n"},
	{"unary-complement", "\treturn ^{U} + +{U2}\n"},
	{"switch", "\tswitch ({U}) {\n\tcase 1:\n\t\treturn 2\n\t}\n\treturn 3\n"},
	{"defer", "\tdefer ({P}).Self()\n\treturn {U}\n"},
	{"range-over-string", "\tvar t uint64 = 0\n\tfor _, c := range ({STR}) {\n\t\tt = t + uint64(c)\n\t}\n\treturn t\n"},
	{"three-index-slice", "\tt := {SL}[0:1:2]\n\treturn uint64(len(t))\n"},
	{"slice-of-string", "\tt := {STR}[1:]\n\treturn uint64(len(t))\n"},
	{"type-assertion", "\tvar e interface{} = {U}\n\treturn e.(uint64)\n"},
	{"channel", "\tc := make(chan uint64, 1)\n\tc <- {U}\n\treturn <-c\n"},
	{"method-value", "\tg := ({P}).Self\n\treturn g().n\n"},
	{"struct-comparison", "\tif (*({P}) == Log{n: {U}}) {\n\t\treturn 1\n\t}\n\treturn 0\n"},
	{"address-of-operand", "\tvar v uint64 = x\n\tp := &{L}\n\treturn *p + v\n"},
	{"if-with-init", "\tif y := ({U}); y > 1 {\n\t\treturn y\n\t}\n\treturn 0\n"},
	{"append-spread", "\tt := append({SL}, {SL2}...)\n\treturn uint64(len(t))\n"},
	{"go-statement-with-method-value", "\tgo ({P}).Self()\n\treturn {U}\n"},
	{"labeled-break", "L:\n\tfor {\n\t\tif ({U} > 1) {\n\t\t\tbreak L\n\t\t}\n\t}\n\treturn 0\n"},
	{"select-statement", "\tc := make(chan uint64)\n\tselect {\n\tcase v := <-c:\n\t\treturn v + {U}\n\tdefault:\n\t}\n\treturn 0\n"},
}

const c06ErrPrelude = `
type Log struct {
	n uint64
}

func (l *Log) Record(args ...uint64) uint64 {
	return uint64(len(args)) + l.n
}

func (l *Log) Self() *Log {
	return l
}

type FL struct {
	v float64
}

type In struct {
	n    uint64
	xs   []uint64
	m    map[uint64]uint64
	name string
	log  *Log
	fn   func(uint64) uint64
	fl   *FL
}

type S struct {
	in   *In
	log  *Log
	n    uint64
	xs   []uint64
	m    map[uint64]uint64
	name string
	fn   func(uint64) uint64
	fl   *FL
}

var gfl float64

func variadic(args ...uint64) uint64 {
	return uint64(len(args))
}

func mkS() *S {
	return new(S)
}

func mkFL() *FL {
	return new(FL)
}

func mkF() func(uint64) uint64 {
	return func(y uint64) uint64 {
		return y
	}
}
`

const c06ErrSig = "(x uint64, i uint64, s *S, l *Log, xs []uint64, xss [][]uint64, logs []*Log, str string, strs []string, m map[uint64]uint64, ms []map[uint64]uint64, f func(uint64) uint64, fs []func(uint64) uint64, fl *FL, fls []*FL) uint64"

var c06PlaceholderRe = regexp.MustCompile(`\{([A-Z]+)(2?)\}`)

// c06ErrCell is one (construct, shape) function.
func c06ErrCell(ci, shape int) string {
	c := c06Constructs[ci]
	body := c06PlaceholderRe.ReplaceAllStringFunc(c.Body, func(ph string) string {
		m := c06PlaceholderRe.FindStringSubmatch(ph)
		ops, ok := c06Operands[m[1]]
		if !ok {
			return ph
		}
		sh := shape
		if m[2] == "2" {
			sh = (shape + 3) % 7
		}
		return ops[sh]
	})
	return fmt.Sprintf("// %s, operands in shape %s\nfunc C%02dS%d%s {\n%s}\n", c.Name, c06ShapeNames[shape], ci, shape, c06ErrSig, body)
}

const c06ErrShapePkgs = 10

// c06ErrShapeFiles lays the cells out: package k gets the constructs ci with ci % npkgs == k, all seven shapes
// each, spread over three files (so one file holds several constructs and several shapes), plus the prelude.
func c06ErrShapeFiles() (files map[string]string, classes map[string]string) {
	files, classes = map[string]string{}, map[string]string{}
	for k := 0; k < c06ErrShapePkgs; k++ {
		name := fmt.Sprintf("es%02d", k)
		var parts [3]strings.Builder
		for fi := range parts {
			fmt.Fprintf(&parts[fi], "package %s\n", name)
		}
		n := 0
		for ci := range c06Constructs {
			if ci%c06ErrShapePkgs != k {
				continue
			}
			for shape := 0; shape < 7; shape++ {
				b := &parts[n%3]
				b.WriteString("\n" + c06ErrCell(ci, shape))
				n++
			}
		}
		files["errshapes/"+name+"/prelude.go"] = "package " + name + "\n" + c06ErrPrelude
		for fi, fn := range []string{"a_cells.go", "m_cells.go", "z_cells.go"} {
			files["errshapes/"+name+"/"+fn] = parts[fi].String()
		}
		classes[c06Mod+"/errshapes/"+name] = "error-shapes"
	}
	return
}

// ---------------------------------------------------------------- amplifier

var nErrorsLineRe = regexp.MustCompile(`(?m)^\d+ errors\n`)
var hexAddrRe = regexp.MustCompile(`0x[0-9a-f]{6,}`)

// c06BlocksOf cuts stderr after every "N errors" trailer and returns, in order, the blocks that name the
// package (a `src:` line under its directory, or its import path in a load failure).
func c06BlocksOf(stderr, pkgDir, pkgPath string) string {
	var out strings.Builder
	start := 0
	for _, loc := range nErrorsLineRe.FindAllStringIndex(stderr, -1) {
		blk := stderr[start:loc[1]]
		start = loc[1]
		if strings.Contains(blk, "  src: "+pkgDir+"/") || strings.Contains(blk, "could not load package "+pkgPath+":") {
			out.WriteString(blk)
		}
	}
	return out.String()
}

// runErrAmplifier: every failing package whose messages quote source text is run alone under GOMAXPROCS 1, 2
// and 16 and together with 5, 20 and 40 other packages; its error text must be byte-identical every time.
func (s *c06State) runErrAmplifier() {
	r := s.r
	var targets []*c06Pkg
	for _, p := range s.pkgs {
		so := p.solo["plain"]
		if so == nil || so.stderr == "" {
			continue
		}
		if p.Class == "error-shapes" || strings.Contains(p.Path, "/msgs/") || strings.Contains(p.Path, "/multi/mf0") {
			targets = append(targets, p)
		}
	}
	if len(targets) == 0 {
		r.Inconclusive("no-failing-package-for-the-error-text-amplifier")
		return
	}
	rng := core.NewRng(r.Seed, "c06-error-amplifier")
	type job struct {
		p      *c06Pkg
		gmp    int
		others []*c06Pkg
		at     int
	}
	var jobs []job
	local := []*c06Pkg{}
	for _, p := range s.pkgs {
		if strings.HasPrefix(p.Path, c06Mod+"/") {
			local = append(local, p)
		}
	}
	for _, p := range targets {
		reps := 1
		if hexAddrRe.MatchString(p.solo["plain"].stderr) {
			// not a verdict: text that looks like an address only buys the package more repetitions
			reps = 4
			r.Count("error_amplifier_packages_given_extra_repetitions", 1)
		}
		for rep := 0; rep < reps; rep++ {
			for _, g := range []int{1, 2, 16} {
				jobs = append(jobs, job{p: p, gmp: g})
			}
			for _, n := range []int{5, 20, 40} {
				perm := append([]*c06Pkg{}, local...)
				for a := len(perm) - 1; a > 0; a-- {
					b := rng.Intn(a + 1)
					perm[a], perm[b] = perm[b], perm[a]
				}
				var others []*c06Pkg
				for _, q := range perm {
					if q != p && len(others) < n {
						others = append(others, q)
					}
				}
				jobs = append(jobs, job{p: p, gmp: []int{16, 4, 2}[rng.Intn(3)], others: others, at: rng.Intn(len(others) + 1)})
			}
		}
	}
	core.Parallel(len(jobs), 8, func(i int) {
		j := jobs[i]
		ref := j.p.solo["plain"].stderr
		var pats []string
		for k, q := range j.others {
			if k == j.at {
				pats = append(pats, c06Rel(j.p))
			}
			pats = append(pats, c06Rel(q))
		}
		if j.at >= len(j.others) {
			pats = append(pats, c06Rel(j.p))
		}
		out := s.outDir("amp")
		iv := runGoose(s.bin, s.dir, []string{fmt.Sprintf("GOMAXPROCS=%d", j.gmp)}, append([]string{"-out", out}, pats...)...)
		os.RemoveAll(out)
		r.Count("goose_invocations", 1)
		r.Count("packages_in_invocations_total", int64(len(pats)))
		r.Count("error_amplifier_invocations", 1)
		if iv.res.TimedOut {
			r.Inconclusive("goose-watchdog")
			return
		}
		if cr, _ := iv.crashed(); cr {
			return // crashes of groupings are judged by the regrouping check
		}
		r.Eval(1)
		dir := filepath.Join(s.dir, strings.TrimPrefix(j.p.Path, c06Mod+"/"))
		got := c06BlocksOf(iv.res.Stderr, dir, j.p.Path)
		r.Count("error_amplifier_bytes_compared", int64(len(ref)))
		r.Distinct(fmt.Sprintf("amplifier|%s|gomaxprocs=%d|with=%d", j.p.Path, j.gmp, len(j.others)))
		if got == ref {
			return
		}
		sig, what := "error-text-varies-with-gomaxprocs", fmt.Sprintf("the error list of %s translated alone under GOMAXPROCS=%d differs from the one of the reference run of the same package alone", j.p.Path, j.gmp)
		if len(j.others) > 0 {
			sig, what = "error-text-varies-with-cotranslated-packages", fmt.Sprintf("the error list of %s translated together with %d other packages (GOMAXPROCS=%d) differs from the one it gives alone", j.p.Path, len(j.others), j.gmp)
		}
		r.Violate(sig, what+": "+firstDiff(ref, got), map[string]interface{}{"package": j.p.Path, "command": clip(iv.cmdline(), 1500), "first_difference": firstDiff(ref, got),
			"alone": clip(ref, 2500), "observed_blocks_of_the_package": clip(got, 2500)})
	})
	sort.Slice(targets, func(a, b int) bool { return targets[a].Path < targets[b].Path })
	r.Set("error_amplifier_packages", len(targets))
}
