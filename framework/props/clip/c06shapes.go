package clip

import (
	"fmt"
	"os"
	"path"
	"path/filepath"
	"sort"
	"strings"
	"time"

	"verif/core"
)

// C06, dimension "shape of the pattern list". The statement says that the
// files and the error list of a package are independent of which other
// packages are translated in the same invocation; which patterns happen to
// select a package (one, several, a recursive one plus an explicit one, an
// import path plus a relative path, ...) is part of that. Every shape below is
// judged like a regrouping: per package of the DE-DUPLICATED set the shape
// selects, the output file has the bytes of the singleton run and stderr holds
// the singleton run's error block exactly once (blocks in any order, which is
// the notion of "same error list" the regrouping check already uses).

type c06Shape struct {
	Family   string   `json:"family"`
	Cwd      string   `json:"cwd"` // relative to the module root, "" = root
	Patterns []string `json:"patterns"`
}

// c06ShapeSet is the reference for what a pattern list selects: every pattern
// is resolved on its own against the corpus (relative and absolute directory
// patterns against cwd, everything else as an import path; a trailing /...
// selects the package and everything below it) and the union is a SET.
func (s *c06State) c06ShapeSet(sh c06Shape) []*c06Pkg {
	sel := map[string]bool{}
	for _, pat := range sh.Patterns {
		rec := false
		p := pat
		if p == "..." {
			continue // not generated
		}
		if strings.HasSuffix(p, "/...") {
			rec = true
			p = strings.TrimSuffix(p, "/...")
		}
		var ip string
		switch {
		case filepath.IsAbs(p):
			rel, err := filepath.Rel(s.dir, filepath.Clean(p))
			if err != nil {
				continue
			}
			ip = path.Join(c06Mod, filepath.ToSlash(rel))
		case p == "." || p == ".." || strings.HasPrefix(p, "./") || strings.HasPrefix(p, "../"):
			ip = path.Join(c06Mod, sh.Cwd, p)
		default:
			ip = strings.TrimSuffix(p, "/")
		}
		for _, q := range s.pkgs {
			if q.Path == ip || (rec && strings.HasPrefix(q.Path, ip+"/")) {
				sel[q.Path] = true
			}
		}
	}
	var out []*c06Pkg
	for _, q := range s.pkgs {
		if sel[q.Path] {
			out = append(out, q)
		}
	}
	return out
}

func c06Rel(p *c06Pkg) string { return "./" + strings.TrimPrefix(p.Path, c06Mod+"/") }

// c06Shapes generates the pattern lists. The list is a function of the seed only.
func (s *c06State) c06Shapes(rng *core.Rng, scale int) []c06Shape {
	var errPkgs, goodPkgs []*c06Pkg
	byDir := map[string][]*c06Pkg{} // first directory -> packages with conversion errors below it
	for _, p := range s.pkgs {
		if !strings.HasPrefix(p.Path, c06Mod+"/") {
			continue
		}
		so := p.solo["plain"]
		if so == nil {
			continue
		}
		top := strings.SplitN(strings.TrimPrefix(p.Path, c06Mod+"/"), "/", 2)[0]
		switch {
		case p.Class == "generated-broken":
		case so.stderr != "" && so.code != 0:
			errPkgs = append(errPkgs, p)
			byDir[top] = append(byDir[top], p)
		case so.code == 0:
			goodPkgs = append(goodPkgs, p)
		}
	}
	if len(errPkgs) < 4 || len(goodPkgs) < 4 {
		return nil
	}
	var dirs []string
	for d := range byDir {
		dirs = append(dirs, d)
	}
	sort.Strings(dirs)
	E := func() *c06Pkg { return errPkgs[rng.Intn(len(errPkgs))] }
	G := func() *c06Pkg { return goodPkgs[rng.Intn(len(goodPkgs))] }
	// a package with several errors in several files is in every run
	var multi []*c06Pkg
	for _, p := range errPkgs {
		if strings.Contains(p.Path, "/multi/") {
			multi = append(multi, p)
		}
	}
	M := func() *c06Pkg {
		if len(multi) == 0 {
			return E()
		}
		return multi[rng.Intn(len(multi))]
	}
	var out []c06Shape
	add := func(fam, cwd string, pats ...string) {
		out = append(out, c06Shape{Family: fam, Cwd: cwd, Patterns: pats})
	}
	for k := 0; k < scale; k++ {
		// 1. the same pattern more than once
		e, g, mf := E(), G(), M()
		add("repeated-pattern", "", c06Rel(mf), c06Rel(mf))
		add("repeated-pattern", "", e.Path, e.Path)
		add("repeated-pattern", "", c06Rel(e), c06Rel(g), c06Rel(e), c06Rel(g), c06Rel(e))
		add("repeated-pattern", "", c06Rel(g), c06Rel(g), c06Rel(mf))
		// 2. a recursive pattern plus explicit members of it
		for n := 0; n < 2; n++ {
			d := dirs[rng.Intn(len(dirs))]
			m := byDir[d][rng.Intn(len(byDir[d]))]
			add("recursive-plus-member", "", "./"+d+"/...", c06Rel(m))
			add("recursive-plus-member", "", c06Rel(m), "./"+d+"/...")
		}
		add("recursive-plus-member", "", "./...", c06Rel(M()), c06Rel(E()), c06Rel(G()))
		add("recursive-plus-member", "", c06Mod+"/multi/...", c06Mod+"/multi/mf1", c06Rel(G()))
		// 3. import path and relative path of the same package
		e, g, mf = E(), G(), M()
		add("import-path-plus-relative-path", "", mf.Path, c06Rel(mf))
		add("import-path-plus-relative-path", "", c06Rel(e), e.Path, c06Rel(g), g.Path)
		add("import-path-plus-relative-path", "", c06Mod+"/multi/...", "./multi/...")
		// 4. a recursive pattern nested in another
		d := dirs[rng.Intn(len(dirs))]
		add("nested-recursive", "", "./...", "./"+d+"/...")
		add("nested-recursive", "", "./same/...", "./same/e/...", "./same/a/...")
		add("nested-recursive", "", "./multi/...", "./...", "./gen/...")
		// 5. the same directory spelled differently
		e, mf = E(), M()
		add("respelled-directory", "", c06Rel(mf), c06Rel(mf)+"/", "./multi/../"+strings.TrimPrefix(c06Rel(mf), "./"))
		add("respelled-directory", "", filepath.Join(s.dir, strings.TrimPrefix(c06Rel(e), "./")), c06Rel(e))
		add("respelled-directory", "", "./"+"./"+strings.TrimPrefix(c06Rel(e), "./"), e.Path, c06Rel(G()))
		// 6. one overlapping list in several orders
		base := []string{"./multi/...", c06Rel(M()), E().Path, c06Rel(G()), "./msgs/...", c06Rel(E())}
		add("reordered-overlapping-list", "", base...)
		for n := 0; n < 3; n++ {
			perm := append([]string{}, base...)
			for a := len(perm) - 1; a > 0; a-- {
				b := rng.Intn(a + 1)
				perm[a], perm[b] = perm[b], perm[a]
			}
			add("reordered-overlapping-list", "", perm...)
		}
		// 7. from a subdirectory, with ../ patterns
		mf = M()
		mfDir := strings.TrimPrefix(c06Rel(mf), "./")
		other := "mf0"
		if strings.HasSuffix(mfDir, "mf0") {
			other = "mf2"
		}
		add("from-subdirectory", mfDir, ".", "../"+other, "../../"+mfDir)
		add("from-subdirectory", mfDir, "../...", ".", "../"+other)
		// (no recursive pattern below gen/: the Go toolchain words the type errors of the two ill-typed
		// packages there relative to the working directory, which is not goose's text)
		add("from-subdirectory", "gen", "./g02", "../gen/g02", "../msgs/m0", "./g07", "../multi/...", "./g00")
		add("from-subdirectory", "multi", "./...", "./mf1", "../multi/mf2", "../msgs/...")
		add("from-subdirectory", "same/e", "./util", "../...", "../../same/e/util")
		// 8. packages of another module
		add("external-module-overlap", "", c06Examples+"/...", c06Examples+"/unittest", c06Rel(M()), c06Examples+"/unittest")
	}
	return out
}

// c06Blocks splits stderr into the error texts the packages give alone.
// Returns how often each package's text occurs and the first part of stderr
// that is none of them.
func c06Blocks(stderr string, texts map[string]*c06Pkg) (map[string]int, string) {
	counts := map[string]int{}
	rest := stderr
	for rest != "" {
		found := ""
		for e := range texts {
			if strings.HasPrefix(rest, e) && len(e) > len(found) {
				found = e
			}
		}
		if found == "" {
			break
		}
		rest = rest[len(found):]
		counts[texts[found].Path]++
	}
	return counts, rest
}

func (s *c06State) runShapes() {
	r := s.r
	rng := core.NewRng(r.Seed, "c06-pattern-shapes")
	shapes := s.c06Shapes(rng, r.Pick(2, 8))
	if len(shapes) == 0 {
		r.Inconclusive("pattern-shapes-corpus-lacks-failing-packages")
		return
	}
	core.Parallel(len(shapes), 8, func(i int) {
		sh := shapes[i]
		fs := c06FlagSets[i%2]
		gmp := []int{16, 1, 4, 2}[(i/2)%4]
		want := s.c06ShapeSet(sh)
		cwd := filepath.Join(s.dir, sh.Cwd)
		// cross-check of the reference set with the Go toolchain (which de-duplicates)
		lres := core.Exec(cwd, core.GoEnv(), 3*time.Minute, "", "go", append([]string{"list", "-e", "-tags", "goose"}, sh.Patterns...)...)
		var listed []string
		for _, l := range strings.Split(strings.TrimSpace(lres.Stdout), "\n") {
			if l = strings.TrimSpace(l); l != "" {
				listed = append(listed, l)
			}
		}
		sort.Strings(listed)
		var wantPaths []string
		for _, p := range want {
			wantPaths = append(wantPaths, p.Path)
		}
		sort.Strings(wantPaths)
		if strings.Join(listed, "\n") != strings.Join(wantPaths, "\n") {
			r.Inconclusive("pattern-shape-reference-set-differs-from-go-list")
			r.Set("pattern_shape_reference_mismatch", map[string]interface{}{"shape": sh, "go_list": listed, "reference": wantPaths, "go_list_stderr": clip(lres.Stderr, 500)})
			return
		}
		out := s.outDir("shape")
		args := append([]string{"-out", out}, fs.Flags...)
		args = append(args, sh.Patterns...)
		iv := runGoose(s.bin, cwd, []string{fmt.Sprintf("GOMAXPROCS=%d", gmp)}, args...)
		r.Count("goose_invocations", 1)
		r.Count("packages_in_invocations_total", int64(len(want)))
		r.Count("pattern_shape_invocations", 1)
		r.Count("pattern_shape_"+sh.Family, 1)
		got := c06RunResult{iv, readTree(out)}
		os.RemoveAll(out)
		r.Distinct(fmt.Sprintf("shape|%s|%s|gomaxprocs=%d|cwd=%s|%s", sh.Family, fs.Name, gmp, sh.Cwd, strings.Join(sh.Patterns, " ")))
		what := fmt.Sprintf("pattern list of shape %s (%d patterns selecting %d distinct packages, cwd %q, GOMAXPROCS=%d, flags %v)", sh.Family, len(sh.Patterns), len(want), sh.Cwd, gmp, fs.Flags)
		s.compareShapeWithSolo(fs, sh, want, got, what)
		if i < 4 || i%9 == 0 {
			r.Sample(24, map[string]interface{}{"kind": "pattern-shape", "shape": sh, "command": clip(iv.cmdline(), 700), "distinct_packages_selected": len(want), "exit_status": iv.Code,
				"files_written": len(got.tree), "stderr_bytes": len(iv.res.Stderr)})
		}
	})
}

// compareShapeWithSolo judges one invocation whose pattern list selects the
// set `want`: per package the file of the singleton run, its error text
// exactly once, nothing else on stderr, no other file, the exit status the
// singleton runs imply.
func (s *c06State) compareShapeWithSolo(fs c06FlagSet, sh c06Shape, want []*c06Pkg, got c06RunResult, what string) {
	r := s.r
	if got.iv.res.TimedOut {
		r.Inconclusive("goose-watchdog")
		return
	}
	detail := func(extra map[string]interface{}) map[string]interface{} {
		d := map[string]interface{}{"shape": sh, "command": got.iv.cmdline(), "exit_status": got.iv.Code, "stderr": clip(got.iv.res.Stderr, 3000)}
		for k, v := range extra {
			d[k] = v
		}
		return d
	}
	if cr, why := got.iv.crashed(); cr {
		r.Violate("pattern-shape-crash-"+sh.Family, fmt.Sprintf("%s: goose crashed (%s) although each selected package alone did not", what, why), detail(nil))
		return
	}
	r.Eval(1)
	inSet := map[string]bool{}
	for _, p := range want {
		inSet[outputRel(p.Path)] = true
		solo := p.solo[fs.Name]
		f, has := got.tree[outputRel(p.Path)]
		r.Count("files_compared_with_singleton_run", 1)
		r.Count("bytes_compared", int64(len(f)))
		if has != solo.has || f != solo.file {
			r.Violate("pattern-shape-changes-output-"+sh.Family, fmt.Sprintf("%s: the file of %s (%s) differs from the one produced when the package is translated alone (present %v vs %v)", what, p.Path, p.Class, has, solo.has),
				detail(map[string]interface{}{"package": p.Path, "first_difference": firstDiff(solo.file, f), "alone": clip(solo.file, 2000), "observed": clip(f, 2000)}))
		}
	}
	for name := range got.tree {
		if !inSet[name] {
			r.Violate("pattern-shape-extra-file-"+sh.Family, fmt.Sprintf("%s: file %s belongs to no package the patterns select", what, name), detail(nil))
		}
	}
	// error blocks: attribute every part of stderr to the singleton text of some corpus package
	texts := map[string]*c06Pkg{}
	for _, p := range s.pkgs {
		if so := p.solo[fs.Name]; so != nil && so.stderr != "" {
			texts[so.stderr] = p
		}
	}
	counts, rest := c06Blocks(got.iv.res.Stderr, texts)
	var repeated, missing, foreign []string
	for _, p := range want {
		n := counts[p.Path]
		has := p.solo[fs.Name].stderr != ""
		switch {
		case has && n > 1:
			repeated = append(repeated, fmt.Sprintf("%s x%d", p.Path, n))
		case has && n == 0:
			missing = append(missing, p.Path)
		}
		if has {
			r.Count("pattern_shape_error_blocks_matched", int64(n))
		}
		delete(counts, p.Path)
	}
	for pth := range counts {
		foreign = append(foreign, pth)
	}
	sort.Strings(foreign)
	if len(repeated) > 0 {
		r.Violate("overlapping-patterns-error-block-repeated", fmt.Sprintf("%s: the error list of a package selected by more than one pattern is printed more than once (%s); alone, and under any pattern list selecting the same packages once each, it is printed once",
			what, strings.Join(repeated, ", ")), detail(map[string]interface{}{"repeated": repeated}))
	}
	if len(missing) > 0 || len(foreign) > 0 || rest != "" {
		r.Violate("pattern-shape-changes-stderr-"+sh.Family, fmt.Sprintf("%s: stderr is not made of the error texts the selected packages give alone (missing: %v, of packages not selected: %v, unattributed text: %q)", what, missing, foreign, clip(rest, 200)),
			detail(map[string]interface{}{"missing": missing, "not_selected": foreign, "unmatched_rest": clip(rest, 2000)}))
	}
	wantCode := 0
	for _, p := range want {
		if p.solo[fs.Name].code != 0 {
			wantCode = 1
		}
	}
	if got.iv.Code != wantCode {
		r.Violate("pattern-shape-changes-exit-status-"+sh.Family, fmt.Sprintf("%s: exit status %d, expected %d from the singleton runs", what, got.iv.Code, wantCode), detail(nil))
	}
}
