package clip

import (
	"encoding/json"
	"fmt"
	"os"
	"path/filepath"
	"strings"
	"sync"
	"time"

	"verif/core"
)

// C17, dimension "how a package pattern is SPELLED relative to what exists on disk".
//
// The modules of c17.go name their packages ./dir or by full import path, and no directory of theirs is named
// like anything else the Go toolchain knows. Here the module has directories named like standard-library
// packages (errors, sync, io/fs, ...; also below another directory), like the last elements of a dependency's
// import path (lib), a directory TREE spelling a dependency's whole import path and one spelling the module's own
// path, and ordinary ones; and every directory is named in every way a command line can name it: bare, with a
// trailing slash, ./dir, dir/..., absolute, by import path, several of these at once, with -dir from elsewhere and
// from a subdirectory.
//
// Oracle (nothing of goose's): the matched set is what `go list -e -tags goose <patterns>` says in the directory
// goose loads from. A matched package of the module (or of the local dependency) has its label by construction; a
// matched standard-library package has the outcome goose gives for the same import path in a module that has NO
// directory of that name (where every reading of the pattern agrees). Then the statement's placement rule is
// applied to every matched import path: file at <out>/<mapped path>.v iff it translates (or partially, with
// -ignore-errors), exit status 0 iff all translated, no other file.

var c17StdTop = []string{"errors", "sync", "sort", "log", "fmt", "os", "io", "strings", "bytes", "time"}
var c17StdNested = []string{"io/fs", "encoding/json", "math/bits", "path/filepath", "sync/atomic", "os/signal"}

type c17PatDir struct {
	Dir       string `json:"dir"`
	Collision string `json:"named_like"`
	Label     string `json:"label"`
	HasPkg    bool   `json:"holds_a_package"`
}

type c17PatModule struct {
	m    *c17Module
	ref  *c17Module // same module path and requirements, no directory that collides with anything
	dirs []c17PatDir
	sub  string // directory below "alpha" named like a standard-library package
}

func c17NewPatModule(rng *core.Rng, k int) *c17PatModule {
	mp := fmt.Sprintf("example.com/pat-t/m.%d", k)
	pm := &c17PatModule{
		m:   &c17Module{K: 300 + k, ModPath: mp, byPath: map[string]*c17Pkg{}, lists: map[string]*c17List{}},
		ref: &c17Module{K: 400 + k, ModPath: mp, byPath: map[string]*c17Pkg{}, lists: map[string]*c17List{}},
	}
	m := pm.m
	m.addGood(rng, "")
	pm.ref.addGood(rng, "")
	shuffled := func(xs []string) []string {
		o := append([]string{}, xs...)
		for a := len(o) - 1; a > 0; a-- {
			b := rng.Intn(a + 1)
			o[a], o[b] = o[b], o[a]
		}
		return o
	}
	nb := 0
	add := func(dir, collision string, forceGood bool) {
		if m.byPath[mp+"/"+dir] != nil {
			return
		}
		label := "good"
		if !forceGood && (nb%3 == 1 || rng.Chance(25)) {
			m.addBad(rng, dir)
			label = "bad"
		} else {
			m.addGood(rng, dir)
		}
		nb++
		pm.dirs = append(pm.dirs, c17PatDir{Dir: dir, Collision: collision, Label: label, HasPkg: true})
	}
	top := shuffled(c17StdTop)
	nested := shuffled(c17StdNested)
	add(top[0], "std-package", true)
	add(top[1], "std-package", false)
	add(top[2], "std-package", false)
	for _, n := range nested[:2] {
		add(n, "nested-std-package", false)
		parent := strings.SplitN(n, "/", 2)[0]
		if m.byPath[mp+"/"+parent] == nil {
			// the parent directory exists, is named like a standard-library package too, and holds no package
			pm.dirs = append(pm.dirs, c17PatDir{Dir: parent, Collision: "std-package-dir-without-go-files", Label: "none"})
		}
	}
	add("alpha", "nothing-else", true)
	add("wal", "nothing-else", false)
	pm.sub = top[3]
	add("alpha/"+pm.sub, "std-package-below-another-directory", false)
	add("lib", "last-element-of-a-dependency-path", false)
	add(c17ExtMod+"/lib", "whole-import-path-of-a-dependency", false)
	add(mp+"/alpha", "import-path-of-a-package-of-this-module", false)
	return pm
}

// ---------------------------------------------------------------- go list with the Standard flag

type c17PatEntry struct {
	ImportPath string
	Dir        string
	Standard   bool
	Error      *struct{ Err string }
}

type c17PatState struct {
	c     *c17Checker
	mu    sync.Mutex
	lists map[string][]c17PatEntry
	refs  sync.Map
	seen  map[string]int
}

func (s *c17PatState) goList(dir string, patterns []string) ([]c17PatEntry, bool) {
	key := dir + "|" + strings.Join(patterns, "\x00")
	s.mu.Lock()
	if l, ok := s.lists[key]; ok {
		s.mu.Unlock()
		return l, true
	}
	s.mu.Unlock()
	args := append([]string{"list", "-e", "-tags", "goose", "-json=ImportPath,Dir,Standard,Error"}, patterns...)
	res := core.Exec(dir, core.GoEnv(), 3*time.Minute, "", "go", args...)
	if res.TimedOut {
		return nil, false
	}
	var l []c17PatEntry
	dec := json.NewDecoder(strings.NewReader(res.Stdout))
	for dec.More() {
		var e c17PatEntry
		if dec.Decode(&e) != nil {
			break
		}
		l = append(l, e)
	}
	s.mu.Lock()
	s.lists[key] = l
	s.mu.Unlock()
	return l, true
}

// c17PatRef: what goose gives for an import path outside the module, in the module without colliding directories.
type c17PatRef struct {
	once  sync.Once
	label string // good | bad | unloadable | crashed
	file  string
	has   bool
	iv    *invocation
}

func (s *c17PatState) reference(ref *c17Module, ip string, flags []string, ignore bool) *c17PatRef {
	key := ref.Dir + "|" + ip + "|" + strings.Join(flags, " ") + fmt.Sprint(ignore)
	v, _ := s.refs.LoadOrStore(key, &c17PatRef{})
	rf := v.(*c17PatRef)
	rf.once.Do(func() {
		c := s.c
		out := c.fresh("patref")
		args := append([]string{"-out", out}, flags...)
		if ignore {
			args = append(args, "-ignore-errors")
		}
		args = append(args, ip)
		rf.iv = runGoose(c.bin, ref.Dir, nil, args...)
		c.r.Count("pattern_family_reference_invocations", 1)
		t := readTree(out)
		rf.file, rf.has = t[outputRel(ip)]
		rep := parseStderr(rf.iv.res.Stderr)
		cr, _ := rf.iv.crashed()
		switch {
		case cr || rf.iv.res.TimedOut:
			rf.label = "crashed"
		case rf.iv.Code == 0 && rf.has:
			rf.label = "good"
		case rf.iv.Code != 0 && len(rep.SrcFiles) > 0 && len(rep.LoadFailed) == 0:
			rf.label = "bad"
		default:
			rf.label = "unloadable"
		}
		os.RemoveAll(out)
	})
	return rf
}

// ---------------------------------------------------------------- cases

type c17PatCase struct {
	sc        c17Scenario
	Spelling  string
	Collision string
	Dirs      []string
}

func (pm *c17PatModule) cases(rng *core.Rng, full bool) []c17PatCase {
	m := pm.m
	var out []c17PatCase
	flagsets := c17FlagSets()
	n := 0
	add := func(d c17PatDir, spelling string, cwd string, useDir bool, pats ...string) {
		ignores := []bool{n%2 == 1}
		if full || spelling == "bare" {
			ignores = []bool{false, true}
		}
		for _, ign := range ignores {
			var fs []string
			if full {
				fs = flagsets[(n/2)%8]
			}
			of := []string{"", "abs-trailing-slash", "", "relative"}[n%4]
			if cwd != "" && cwd != "<elsewhere>" {
				of = ""
			}
			cls := spelling
			if useDir {
				cls += "+dir-flag"
			}
			out = append(out, c17PatCase{Spelling: cls, Collision: d.Collision, Dirs: []string{d.Dir},
				sc: c17Scenario{Class: "pattern-spelling " + cls + " | directory named like " + d.Collision, Cwd: cwd, UseDir: useDir, Patterns: pats, Flags: fs, Ignore: ign, Prior: "empty", OutForm: of}})
			n++
		}
	}
	type sp struct {
		name string
		pats func(d string) []string
	}
	always := []sp{
		{"bare", func(d string) []string { return []string{d} }},
		{"dot-slash", func(d string) []string { return []string{"./" + d} }},
		{"import-path", func(d string) []string { return []string{m.ModPath + "/" + d} }},
	}
	others := []sp{
		{"bare-trailing-slash", func(d string) []string { return []string{d + "/"} }},
		{"dot-slash-trailing-slash", func(d string) []string { return []string{"./" + d + "/"} }},
		{"bare-recursive", func(d string) []string { return []string{d + "/..."} }},
		{"dot-slash-recursive", func(d string) []string { return []string{"./" + d + "/..."} }},
		{"absolute", func(d string) []string { return []string{filepath.Join(m.Dir, d)} }},
		{"absolute-trailing-slash", func(d string) []string { return []string{filepath.Join(m.Dir, d) + "/"} }},
		{"import-path-recursive", func(d string) []string { return []string{m.ModPath + "/" + d + "/..."} }},
		{"bare-and-dot-slash", func(d string) []string { return []string{d, "./" + d} }},
		{"dot-slash-and-bare", func(d string) []string { return []string{"./" + d, d} }},
		{"import-path-and-bare", func(d string) []string { return []string{m.ModPath + "/" + d, d + "/"} }},
	}
	withDir := []sp{always[0], always[1], others[0], others[2], others[7]}
	for _, d := range pm.dirs {
		for _, s := range always {
			add(d, s.name, "", false, s.pats(d.Dir)...)
		}
		pick := others
		pickDir := withDir
		if !full {
			g := rng.Fork("spellings " + d.Dir)
			perm := append([]sp{}, others...)
			for a := len(perm) - 1; a > 0; a-- {
				b := g.Intn(a + 1)
				perm[a], perm[b] = perm[b], perm[a]
			}
			pick = perm[:2]
			pickDir = []sp{withDir[g.Intn(len(withDir))]}
		}
		for _, s := range pick {
			add(d, s.name, "", false, s.pats(d.Dir)...)
		}
		for _, s := range pickDir {
			add(d, s.name, "<elsewhere>", true, s.pats(d.Dir)...)
		}
	}
	// from the subdirectory "alpha": its child named like a standard-library package
	subd := c17PatDir{Dir: "alpha/" + pm.sub, Collision: "std-package-below-another-directory"}
	add(subd, "bare-from-the-parent-directory", "alpha", false, pm.sub)
	add(subd, "dot-slash-from-the-parent-directory", "alpha", false, "./"+pm.sub)
	add(subd, "bare-trailing-slash-from-the-parent-directory", "alpha", false, pm.sub+"/")
	// two colliding directories and an ordinary one in one command line
	var std []c17PatDir
	for _, d := range pm.dirs {
		if d.Collision == "std-package" {
			std = append(std, d)
		}
	}
	if len(std) >= 2 {
		add(c17PatDir{Dir: std[0].Dir + "," + std[1].Dir, Collision: "std-package"}, "several-bare-and-dot-slash", "", false, std[0].Dir, "./"+std[1].Dir, "./alpha", std[1].Dir+"/")
	}
	return out
}

// ---------------------------------------------------------------- judging one command line

func (s *c17PatState) run(pm *c17PatModule, pc c17PatCase) {
	c, r, m, sc := s.c, s.c.r, pm.m, pc.sc
	elsewhere := filepath.Join(r.Scratch, "elsewhere-pat")
	os.MkdirAll(elsewhere, 0o755)
	cwd := filepath.Join(m.Dir, sc.Cwd)
	listDir := cwd
	if sc.Cwd == "<elsewhere>" {
		cwd = elsewhere
	}
	if sc.UseDir {
		listDir = m.Dir
	}
	out := c.fresh("pat")
	outArg := out
	switch sc.OutForm {
	case "abs-trailing-slash":
		outArg = out + "/"
	case "relative":
		outArg = "Goose-" + filepath.Base(out)
		out = filepath.Join(cwd, outArg)
	}
	defer os.RemoveAll(out)
	args := []string{"-out", outArg}
	if sc.UseDir {
		args = append(args, "-dir", m.Dir)
	}
	args = append(args, sc.Flags...)
	if sc.Ignore {
		args = append(args, "-ignore-errors")
	}
	args = append(args, sc.Patterns...)

	// ---- reference: the matched set
	entries, ok := s.goList(listDir, sc.Patterns)
	if !ok {
		r.Inconclusive("go-list-watchdog")
		return
	}
	type match struct {
		label, kind string
		p           *c17Pkg
		ref         *c17PatRef
	}
	matched := map[string]*match{}
	var order []string
	shown := map[string]string{}
	for _, e := range entries {
		if matched[e.ImportPath] != nil {
			continue
		}
		mt := &match{}
		switch p := m.byPath[e.ImportPath]; {
		case p != nil:
			mt.p, mt.label, mt.kind = p, p.Label, "package of the module"
			if p.Dir == "<external>" {
				mt.kind = "package of the dependency"
			}
		case e.Error != nil:
			mt.label, mt.kind = "unloadable", "nothing (go list reports an error)"
		case e.Standard:
			// label without flags and without -ignore-errors; bytes with the flags of the case
			base := s.reference(pm.ref, e.ImportPath, nil, false)
			if base.label == "crashed" {
				r.Inconclusive("reference-run-crashed")
				return
			}
			mt.label, mt.kind = base.label, "standard-library package"
			mt.ref = s.reference(pm.ref, e.ImportPath, sc.Flags, sc.Ignore)
			r.Count("pattern_family_std_packages_matched", 1)
		default:
			r.Inconclusive("go-list-reports-unknown-package")
			return
		}
		matched[e.ImportPath] = mt
		order = append(order, e.ImportPath)
		shown[e.ImportPath] = mt.label + " (" + mt.kind + ")"
	}

	iv := runGoose(c.bin, cwd, nil, args...)
	r.Count("goose_invocations", 1)
	if iv.res.TimedOut {
		r.Inconclusive("goose-watchdog")
		return
	}
	t := readTree(out)
	v := &c17Verdict{Module: m.ModPath, Scenario: sc, Command: iv.cmdline(), Matched: shown, Exit: iv.Code, Written: append([]string{}, t.names()...), Stderr: clip(iv.res.Stderr, 700), Tree: m.treeListing()}
	class := pc.Spelling + " " + pc.Collision
	viol := func(problem, what string) {
		v.Problems = append(v.Problems, problem)
		r.Violate(problem+"["+class+"]", fmt.Sprintf("pattern(s) %q in a module with the directory %s (named like: %s): %s — `go list -tags goose` in %s matches %v — %s", sc.Patterns, strings.Join(pc.Dirs, ", "), pc.Collision, what, listDir, shown, iv.cmdline()), v)
	}
	kinds := map[string]bool{}
	for _, mt := range matched {
		kinds[mt.label+"/"+strings.Fields(mt.kind)[0]] = true
	}
	defer func() {
		r.Eval(1)
		r.Count("pattern_family_command_lines_judged", 1)
		r.Count("pattern_family_spelling_"+pc.Spelling, 1)
		r.Distinct(fmt.Sprintf("%s|matched=%v|ignore=%v|flags=%v|out=%s", sc.Class, sortedKeys(kinds), sc.Ignore, sc.Flags, sc.OutForm))
		if v.Problems == nil {
			v.Problems = []string{}
		}
		s.mu.Lock()
		s.seen[class]++
		take := s.seen[class] == 1 && len(s.seen) <= 14
		for _, pr := range v.Problems {
			s.seen["problem|"+pr]++
			if s.seen["problem|"+pr] <= 2 {
				take = true
			}
		}
		s.mu.Unlock()
		if take {
			r.Sample(60, v)
		}
	}()
	if cr, why := iv.crashed(); cr {
		viol("crash", fmt.Sprintf("goose crashed (%s)", why))
		return
	}
	if len(matched) == 0 {
		r.Count("pattern_family_matched_nothing", 1)
		if len(t) > 0 {
			viol("files-written-although-nothing-matched", fmt.Sprintf("the patterns match no package but %v was written", t.names()))
		}
		return
	}
	v.Expected = 0
	for _, mt := range matched {
		if mt.label != "good" {
			v.Expected = 1
		}
	}
	if (iv.Code == 0) != (v.Expected == 0) {
		viol(fmt.Sprintf("exit-status-%d-got-%d", v.Expected, iv.Code), fmt.Sprintf("exit status %d, expected %d", iv.Code, v.Expected))
	}
	rep := parseStderr(iv.res.Stderr)
	expectedFiles := map[string]bool{}
	matchedRel := map[string]bool{}
	for _, ip := range order {
		mt := matched[ip]
		rel := outputRel(ip)
		matchedRel[rel] = true
		src, wrote := t[rel]
		partial := mt.label == "bad" && sc.Ignore
		switch {
		case mt.label == "good" || partial:
			expectedFiles[rel] = true
			if !wrote {
				viol("matched-package-file-missing", fmt.Sprintf("%s (%s) is matched and %s must be written (files under -out: %v)", ip, shown[ip], rel, t.names()))
				continue
			}
			var want string
			have := false
			if mt.ref != nil {
				want, have = mt.ref.file, mt.ref.has
			} else if mt.label == "good" {
				so := c.solo(m, mt.p, sc.Flags, sc.Ignore)
				want, have = so.file, so.has
			}
			if have && want != src {
				viol("matched-package-file-has-other-content", fmt.Sprintf("%s differs from what goose writes for %s when nothing else is named like it: %s", rel, ip, firstDiff(want, src)))
			}
			if have {
				r.Count("pattern_family_files_compared_with_reference", 1)
			}
			if partial && mt.p != nil {
				defs, err := defNames(src)
				if err != nil {
					viol("ignore-errors-partial-file-unreadable", fmt.Sprintf("the partial file %s is not readable by Coq's rules: %v", rel, err))
					continue
				}
				for _, n := range mt.p.GoodDefs {
					if !defs[n] {
						viol("ignore-errors-missing-good-decl", fmt.Sprintf("%s: translatable declaration %s is missing from the partial file", ip, n))
					}
				}
				for _, n := range mt.p.BadDefs {
					if defs[n] {
						viol("ignore-errors-contains-bad-decl", fmt.Sprintf("%s: untranslatable declaration %s appears in the partial file", ip, n))
					}
				}
				r.Count("pattern_family_partial_files_judged", 1)
			}
		default: // bad without -ignore-errors, unloadable
			if wrote {
				viol("failed-package-file-written", fmt.Sprintf("%s (%s) does not translate, yet %s was written", ip, shown[ip], rel))
			}
		}
	}
	for _, n := range t.names() {
		if expectedFiles[n] {
			continue
		}
		owner := ""
		for _, p := range m.Pkgs {
			if outputRel(p.Path) == n {
				owner = fmt.Sprintf("package %s in ./%s (label %s)", p.Path, p.Dir, p.Label)
			}
		}
		if matchedRel[n] {
			continue // judged above under its own clause
		}
		if owner != "" {
			viol("unmatched-package-written", fmt.Sprintf("%s was written: it is the output of %s, which the patterns do not match", n, owner))
		} else {
			viol("unexpected-output-file", fmt.Sprintf("file %s under -out is not the mapped path of any matched package", n))
		}
	}
	// a failure reported for a package of the module that is not matched
	for _, sf := range rep.SrcFiles {
		for _, p := range m.Pkgs {
			if filepath.Dir(sf) == filepath.Join(m.Dir, p.Dir) {
				if matched[p.Path] == nil {
					viol("failure-reported-for-unmatched-package", fmt.Sprintf("stderr locates an error in %s, a file of %s, which the patterns do not match", sf, p.Path))
				}
			}
		}
	}
}

// runPatternSpellings is called from runC17.
func (c *c17Checker) runPatternSpellings(r *core.Run, rng *core.Rng) bool {
	start := time.Now()
	s := &c17PatState{c: c, lists: map[string][]c17PatEntry{}, seen: map[string]int{}}
	nmods := r.Pick(1, 3)
	var trees []interface{}
	for k := 0; k < nmods; k++ {
		mr := rng.Fork(fmt.Sprint("patmod", k))
		pm := c17NewPatModule(mr, k)
		if err := pm.m.write(filepath.Join(r.Scratch, "c17mod", fmt.Sprintf("pat%d", k))); err != nil {
			return false
		}
		if err := pm.ref.write(filepath.Join(r.Scratch, "c17mod", fmt.Sprintf("patref%d", k))); err != nil {
			return false
		}
		if _, ok := settle(pm.m.Dir, "./...", c17ExtMod+"/..."); !ok {
			r.Inconclusive("pattern-module-setup-failed")
			return true
		}
		if _, ok := settle(pm.ref.Dir, "./...", c17ExtMod+"/..."); !ok {
			r.Inconclusive("pattern-module-setup-failed")
			return true
		}
		// labels of the module's own packages: each one alone, named by its import path
		okLabels := true
		var lmu sync.Mutex
		core.Parallel(len(pm.m.Pkgs), 12, func(i int) {
			p := pm.m.Pkgs[i]
			so := c.solo(pm.m, p, nil, false)
			rep := parseStderr(so.iv.res.Stderr)
			good := so.iv.Code == 0 && so.has
			bad := so.iv.Code == 1 && len(rep.SrcFiles) > 0 && len(rep.LoadFailed) == 0
			if (p.Label == "good" && !good) || (p.Label == "bad" && !bad) {
				lmu.Lock()
				okLabels = false
				r.Set("pattern_family_label_calibration_failure", map[string]interface{}{"package": p.Path, "label": p.Label, "command": so.iv.cmdline(), "exit_status": so.iv.Code, "stderr": clip(so.iv.res.Stderr, 800)})
				lmu.Unlock()
			}
		})
		if !okLabels {
			r.Count("modules_with_label_calibration_failure", 1)
		}
		cs := pm.cases(mr, !r.Quick())
		core.Parallel(len(cs), 12, func(i int) { s.run(pm, cs[i]) })
		trees = append(trees, map[string]interface{}{"module": pm.m.ModPath, "directories": pm.dirs, "command_lines": len(cs)})
	}
	r.Set("pattern_family", map[string]interface{}{"modules": trees, "wall_s": time.Since(start).Seconds(),
		"rule": "matched set = `go list -e -tags goose <patterns>` in the directory goose loads from; a matched standard-library package is labelled (and its bytes taken) from a goose run on the same import path in a module without a directory of that name; then exit status, one file per translated matched package at its mapped path, no other file"})
	return true
}
