// Package clip holds the black-box monitors of the goose command line:
// C06 (determinism, independence of co-translated packages, race freedom),
// C08 (file header: FFI prelude, imports, output path mapping) and
// C17 (exit status, file placement, partial output, write-if-changed,
// pattern / -dir / build-tag selection).
//
// All three run the goose binary built from /repo's working tree on scratch
// Go modules generated here and inspect exit status, stderr and the -out tree.
//
// Mutation confirmation: when the environment variable VERIF_GOOSE_BIN is set
// the checks use that binary instead of building cmd/goose from /repo (and
// VERIF_GOOSE_BIN_RACE for the -race build). This is only meant for running
// the monitors against a goose built from a deliberately broken scratch copy
// of /repo; normal runs never set it.
package clip

import (
	"fmt"
	"os"
	"path/filepath"
	"regexp"
	"sort"
	"strings"
	"time"

	"verif/core"
)

// gooseBin returns the goose binary under test.
func gooseBin(r *core.Run, race bool) (string, error) {
	if race {
		if b := os.Getenv("VERIF_GOOSE_BIN_RACE"); b != "" {
			r.Set("goose_binary_race_override", b)
			return b, nil
		}
		return r.BuildGoose("-race")
	}
	if b := os.Getenv("VERIF_GOOSE_BIN"); b != "" {
		r.Set("goose_binary_override", b)
		return b, nil
	}
	return r.BuildGoose()
}

// ---------------------------------------------------------------- path mapping (specification)

// coqComponent maps one path component: '.' and '-' become '_'.
func coqComponent(c string) string {
	return strings.Map(func(r rune) rune {
		if r == '.' || r == '-' {
			return '_'
		}
		return r
	}, c)
}

// logicalPath is the Coq logical path of a Go import path: '/' -> '.', and
// '.' and '-' -> '_' in every component.
func logicalPath(importPath string) string {
	cs := strings.Split(importPath, "/")
	for i := range cs {
		cs[i] = coqComponent(cs[i])
	}
	return strings.Join(cs, ".")
}

// outputRel is the path of the output file relative to -out.
func outputRel(importPath string) string {
	cs := strings.Split(importPath, "/")
	for i := range cs {
		cs[i] = coqComponent(cs[i])
	}
	return filepath.Join(cs...) + ".v"
}

// ---------------------------------------------------------------- scratch modules

const indirectReqs = "require (\n\tgithub.com/pkg/errors v0.9.1 // indirect\n\tgolang.org/x/sys v0.22.0 // indirect\n)\n"

type replaceDir struct {
	Mod string // module path
	Dir string // directory relative to the module root (./stubs/x)
}

// writeModule lays out a scratch module: go.mod (goose replaced by /repo,
// primitive v0.1.0 from the module cache, local stub modules), go.sum copied
// from /repo, and the given files.
func writeModule(dir, modPath string, stubs []replaceDir, files map[string]string) error {
	var b strings.Builder
	fmt.Fprintf(&b, "module %s\n\ngo 1.22\n\nrequire github.com/goose-lang/goose v0.0.0\n\nrequire github.com/goose-lang/primitive v0.1.0\n\n", modPath)
	for _, s := range stubs {
		fmt.Fprintf(&b, "require %s v0.0.0\n\n", s.Mod)
	}
	b.WriteString(indirectReqs)
	fmt.Fprintf(&b, "\nreplace github.com/goose-lang/goose => %s\n", gooseRepoDir())
	for _, s := range stubs {
		fmt.Fprintf(&b, "\nreplace %s => %s\n", s.Mod, s.Dir)
	}
	if err := core.WriteFile(filepath.Join(dir, "go.mod"), b.String()); err != nil {
		return err
	}
	sum, err := os.ReadFile(filepath.Join(core.RepoDir, "go.sum"))
	if err != nil {
		return err
	}
	if err := core.WriteFile(filepath.Join(dir, "go.sum"), string(sum)); err != nil {
		return err
	}
	for _, s := range stubs {
		sm := fmt.Sprintf("module %s\n\ngo 1.22\n\nrequire github.com/goose-lang/goose v0.0.0\n\nrequire github.com/goose-lang/primitive v0.1.0\n", s.Mod)
		if err := core.WriteFile(filepath.Join(dir, s.Dir, "go.mod"), sm); err != nil {
			return err
		}
	}
	names := make([]string, 0, len(files))
	for n := range files {
		names = append(names, n)
	}
	sort.Strings(names)
	for _, n := range names {
		if err := core.WriteFile(filepath.Join(dir, n), files[n]); err != nil {
			return err
		}
	}
	return nil
}

// gooseRepoDir is the directory the scratch modules resolve
// github.com/goose-lang/goose to (the FFI packages machine/disk etc. are only
// imported, never translated, so this is /repo also in mutation runs unless
// VERIF_GOOSE_REPO says otherwise).
func gooseRepoDir() string {
	if d := os.Getenv("VERIF_GOOSE_REPO"); d != "" {
		return d
	}
	return core.RepoDir
}

// settle runs `go list` once so that go.mod/go.sum are in their final form
// before many goose processes (each spawning `go list`) run in parallel.
func settle(dir string, patterns ...string) (string, bool) {
	args := append([]string{"list", "-tags", "goose", "-e"}, patterns...)
	res := core.Exec(dir, core.GoEnv(), 3*time.Minute, "", "go", args...)
	return res.Stdout + res.Stderr, res.Code == 0
}

// ---------------------------------------------------------------- running goose

type invocation struct {
	Cwd    string   `json:"cwd"`
	Args   []string `json:"args"`
	Env    []string `json:"env,omitempty"`
	Code   int      `json:"exit_status"`
	Stderr string   `json:"stderr,omitempty"`
	res    core.ExecResult
}

func runGoose(bin, cwd string, extraEnv []string, args ...string) *invocation {
	env := append(core.GoEnv(), "NO_COLOR=1")
	env = append(env, extraEnv...)
	res := core.Exec(cwd, env, 5*time.Minute, "", bin, args...)
	return &invocation{Cwd: cwd, Args: append([]string{"goose"}, args...), Env: extraEnv, Code: res.Code, Stderr: clip(res.Stderr, 4000), res: res}
}

func (iv *invocation) cmdline() string {
	s := ""
	if len(iv.Env) > 0 {
		s = strings.Join(iv.Env, " ") + " "
	}
	return "(cd " + iv.Cwd + " && " + s + strings.Join(iv.Args, " ") + ")"
}

var crashRe = regexp.MustCompile(`(?m)^(panic: |fatal error: |goroutine \d+ \[)`)

// crashed reports whether the process died rather than refusing: exit status 2
// (Go's status for an uncaught panic; goose itself only ever calls os.Exit(1)
// and the flag package's exit 2 cannot occur because only defined flags are
// passed), a signal, or a panic / fatal error / goroutine dump on stderr.
func (iv *invocation) crashed() (bool, string) {
	switch {
	case iv.res.TimedOut:
		return false, ""
	case iv.res.Signaled:
		return true, "killed by a signal"
	case crashRe.MatchString(iv.res.Stderr):
		m := crashRe.FindStringIndex(iv.res.Stderr)
		line := iv.res.Stderr[m[0]:]
		if i := strings.IndexByte(line, '\n'); i >= 0 {
			line = line[:i]
		}
		return true, line
	case iv.Code == 2:
		return true, "exit status 2"
	}
	return false, ""
}

func clip(s string, n int) string {
	if len(s) > n {
		return s[:n] + "…"
	}
	return s
}

// ---------------------------------------------------------------- trees

// tree maps slash-separated relative paths of regular files to their bytes.
type tree map[string]string

func readTree(root string) tree {
	t := tree{}
	filepath.Walk(root, func(p string, info os.FileInfo, err error) error {
		if err != nil || info.IsDir() {
			return nil
		}
		rel, _ := filepath.Rel(root, p)
		b, err := os.ReadFile(p)
		if err != nil {
			return nil
		}
		t[filepath.ToSlash(rel)] = string(b)
		return nil
	})
	return t
}

func (t tree) names() []string {
	var ns []string
	for n := range t {
		ns = append(ns, n)
	}
	sort.Strings(ns)
	return ns
}

func (t tree) bytes() int64 {
	var n int64
	for _, v := range t {
		n += int64(len(v))
	}
	return n
}

// diffTrees lists the relative paths whose presence or bytes differ.
func diffTrees(a, b tree) []string {
	var out []string
	for n, v := range a {
		if w, ok := b[n]; !ok || w != v {
			out = append(out, n)
		}
	}
	for n := range b {
		if _, ok := a[n]; !ok {
			out = append(out, n)
		}
	}
	sort.Strings(out)
	return out
}

// ---------------------------------------------------------------- stderr of goose

var ansiRe = regexp.MustCompile("\x1b\\[[0-9;]*m")

// errReport is what goose's stderr says about failed packages.
type errReport struct {
	SrcFiles    []string // files named by "  src: file:line:col" lines (conversion errors)
	LoadFailed  []string // package paths / patterns named by "could not load package X:"
	Categories  []string // [category] of each conversion error
	NoPackages  bool     // "patterns matched no packages"
	OtherLines  int
	ErrorCounts []int // the "N errors" trailer of each failed package
}

var (
	srcRe     = regexp.MustCompile(`^  src: (.*):\d+:\d+$`)
	loadRe    = regexp.MustCompile(`^could not load package (.*):$`)
	catRe     = regexp.MustCompile(`^(?:conversion failed: )?\[([a-z()\-]+)\]: `)
	nerrorsRe = regexp.MustCompile(`^(\d+) errors$`)
)

func parseStderr(stderr string) errReport {
	var rep errReport
	s := ansiRe.ReplaceAllString(stderr, "")
	for _, line := range strings.Split(s, "\n") {
		switch {
		case srcRe.MatchString(line):
			rep.SrcFiles = append(rep.SrcFiles, srcRe.FindStringSubmatch(line)[1])
		case loadRe.MatchString(line):
			rep.LoadFailed = append(rep.LoadFailed, loadRe.FindStringSubmatch(line)[1])
		case catRe.MatchString(line):
			rep.Categories = append(rep.Categories, catRe.FindStringSubmatch(line)[1])
		case nerrorsRe.MatchString(line):
			var n int
			fmt.Sscanf(line, "%d", &n)
			rep.ErrorCounts = append(rep.ErrorCounts, n)
		case line == "patterns matched no packages":
			rep.NoPackages = true
		case strings.TrimSpace(line) != "":
			rep.OtherLines++
		}
	}
	return rep
}

// ---------------------------------------------------------------- header of an emitted file

type header struct {
	Prelude   int      // count of the generic prelude line
	Ffi       []string // x of each "ffi.x_prelude" line
	Goose     []string // logical paths of "From Goose Require p." lines, in file order
	Trusted   []string // logical paths of the trusted imports, in file order
	Order     []string // "G:"/"T:"-tagged paths in file order
	Unknown   []string // other From-lines
	Section   bool     // the three-line generic section header, contiguous
	SectionAt int      // line index of "Section code." (-1)
	EndCode   bool     // last non-blank line is "End code."
	EndCount  int
	FirstDecl int // line index of the first Definition/Notation/Theorem line (-1)
	ImportsAt []int
	FfiAt     []int
}

var fromRe = regexp.MustCompile(`^From (\S+) Require (Import )?(.*)\.$`)
var ffiRe = regexp.MustCompile(`^ffi\.(.+)_prelude$`)

const (
	secLine1 = "Section code."
	secLine2 = "Context `{ext_ty: ext_types}."
	secLine3 = "Local Coercion Var' s: expr := Var s."
)

// readHeader reads the line-oriented header and footer of an emitted file.
// It does not try to lex the logical paths: they are kept as raw text so that
// a path Coq could not even lex is still reported for what it is.
func readHeader(src string) header {
	h := header{SectionAt: -1, FirstDecl: -1}
	lines := strings.Split(src, "\n")
	for i, l := range lines {
		if h.FirstDecl < 0 && (strings.HasPrefix(l, "Definition ") || strings.HasPrefix(l, "Notation ") || strings.HasPrefix(l, "Theorem ")) {
			h.FirstDecl = i
		}
		if l == secLine1 && h.SectionAt < 0 {
			h.SectionAt = i
			if i+2 < len(lines) && lines[i+1] == secLine2 && lines[i+2] == secLine3 {
				h.Section = true
			}
		}
		if l == "End code." {
			h.EndCount++
		}
		m := fromRe.FindStringSubmatch(l)
		if m == nil || (h.FirstDecl >= 0 && i > h.FirstDecl) {
			continue
		}
		from, imp, p := m[1], m[2] != "", m[3]
		switch {
		case from == "Perennial.goose_lang" && imp && p == "prelude":
			h.Prelude++
		case from == "Perennial.goose_lang" && imp && ffiRe.MatchString(p):
			h.Ffi = append(h.Ffi, ffiRe.FindStringSubmatch(p)[1])
			h.FfiAt = append(h.FfiAt, i)
		case from == "Goose" && !imp:
			h.Goose = append(h.Goose, p)
			h.Order = append(h.Order, "G:"+p)
			h.ImportsAt = append(h.ImportsAt, i)
		case from == "Perennial.goose_lang.trusted" && imp:
			h.Trusted = append(h.Trusted, p)
			h.Order = append(h.Order, "T:"+p)
			h.ImportsAt = append(h.ImportsAt, i)
		default:
			h.Unknown = append(h.Unknown, l)
		}
	}
	for i := len(lines) - 1; i >= 0; i-- {
		if strings.TrimSpace(lines[i]) == "" {
			continue
		}
		h.EndCode = lines[i] == "End code."
		break
	}
	return h
}

func firstLines(s string, n int) string {
	ls := strings.SplitN(s, "\n", n+1)
	if len(ls) > n {
		ls = ls[:n]
	}
	return strings.Join(ls, "\n")
}

func sortedKeys(m map[string]bool) []string {
	var ks []string
	for k := range m {
		ks = append(ks, k)
	}
	sort.Strings(ks)
	return ks
}
