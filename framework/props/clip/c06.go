package clip

import (
	"fmt"
	"os"
	"path/filepath"
	"regexp"
	"sort"
	"strings"
	"sync"

	"verif/core"
	"verif/gen"
	"verif/props"
)

// C06: translating the same sources gives byte-identical files and the same
// stderr whatever the run, GOMAXPROCS and the set of co-translated packages;
// the -race build of cmd/goose reports no data race on multi-package runs.

func init() {
	props.Registry["C06"] = props.Prop{Level: "exploration", Run: runC06}
}

const c06Mod = "example.com/c06/corp"
const c06Examples = "github.com/goose-lang/goose/internal/examples"

type c06Pkg struct {
	Path  string // import path
	Class string // example | generated-good | generated-bad | generated-broken | lib | hub
	solo  map[string]*c06Solo
}

type c06Solo struct {
	file   string // bytes of the single output file ("" if none)
	has    bool
	stderr string
	code   int
}

type c06FlagSet struct {
	Name  string
	Flags []string
}

var c06FlagSets = []c06FlagSet{
	{"plain", nil},
	{"ignore-errors+typecheck+source-comments", []string{"-ignore-errors", "-typecheck", "-source-comments"}},
}

const c06BadFunc = `
func zzUntranslatable(x uint64) uint64 {
	switch x {
	case 1:
		return 2
	}
	return 3
}
`

const c06BrokenFunc = `
func zzIllTyped(x uint64) uint64 {
	return x + "one"
}
`

func c06WriteCorpus(r *core.Run, dir string) (map[string]string, error) {
	files := map[string]string{}
	classes := map[string]string{}
	rng := core.NewRng(r.Seed, "c06-corpus")
	for i := 0; i < 40; i++ {
		name := fmt.Sprintf("g%02d", i)
		p := gen.RandomPackage(rng.Fork(name), name, gen.DefaultOptions())
		src := p.Source
		class := "generated-good"
		switch {
		case i%5 == 2: // 8 packages fail conversion
			src += c06BadFunc
			if i%10 == 7 {
				src += strings.Replace(c06BadFunc, "zzUntranslatable", "zzUntranslatable2", 1)
			}
			class = "generated-bad"
		case i == 13 || i == 29: // 2 packages do not type-check
			src += c06BrokenFunc
			class = "generated-broken"
		}
		files["gen/"+name+"/"+name+".go"] = src
		classes[c06Mod+"/gen/"+name] = class
	}
	for i := 0; i < 6; i++ {
		files[fmt.Sprintf("lib/l%d/l.go", i)] = fmt.Sprintf("package l%d\n\ntype T struct {\n\ta uint64\n\tb uint64\n}\n\nfunc F(x uint64) uint64 {\n\treturn x + %d\n}\n\nfunc (t *T) Sum() uint64 {\n\treturn t.a + t.b\n}\n", i, i)
		classes[fmt.Sprintf("%s/lib/l%d", c06Mod, i)] = "lib"
	}
	for h := 0; h < 4; h++ {
		// several non-builtin imports, in unsorted order, repeated across two files
		a, b, c := (h+3)%6, (h+5)%6, (h+1)%6
		f0 := fmt.Sprintf("package hub%d\n\nimport (\n\t\"%s/lib/l%d\"\n\t\"%s/lib/l%d\"\n\t\"%s/lib/l%d\"\n)\n\nfunc A(x uint64) uint64 {\n\treturn l%d.F(x) + l%d.F(x) + l%d.F(x)\n}\n\nfunc B(x uint64) uint64 {\n\treturn A(x) + D(x)\n}\n",
			h, c06Mod, a, c06Mod, b, c06Mod, c, a, b, c)
		f1 := fmt.Sprintf("package hub%d\n\nimport (\n\t\"%s/lib/l%d\"\n\t\"%s/lib/l%d\"\n)\n\ntype S struct {\n\tt *l%d.T\n\tn uint64\n}\n\nfunc D(x uint64) uint64 {\n\treturn l%d.F(x) + l%d.F(x)\n}\n\nfunc (s *S) Get() uint64 {\n\treturn s.t.Sum() + s.n\n}\n",
			h, c06Mod, c, c06Mod, a, c, c, a)
		files[fmt.Sprintf("hub/hub%d/a.go", h)] = f0
		files[fmt.Sprintf("hub/hub%d/b.go", h)] = f1
		classes[fmt.Sprintf("%s/hub/hub%d", c06Mod, h)] = "hub"
	}
	// forward references: one declaration mentions many names declared later in the file (and in
	// a later file), so the order in which its dependencies are emitted is exercised
	for f := 0; f < 6; f++ {
		var a, b strings.Builder
		name := fmt.Sprintf("fwd%d", f)
		fmt.Fprintf(&a, "package %s\n\nfunc Top(x uint64) uint64 {\n\ts := &S1{a: x}\n\tt := T2{b: K2}\n\treturn h1(x) + h2(x) + h3(x) + h4(x) + K1 + K2 + K3 + s.a + t.b + uint64(len(mk(x))) + g1(x)\n}\n\n", name)
		fmt.Fprintf(&a, "func Second(x uint64) uint64 {\n\treturn g2(x) + g1(x) + h4(x) + K3 + Top(x)\n}\n\n")
		for _, h := range []string{"h3", "h1", "h4", "h2"} {
			fmt.Fprintf(&a, "func %s(x uint64) uint64 {\n\treturn x + %d\n}\n\n", h, f)
		}
		a.WriteString("const K2 uint64 = 2\n\nconst K1 uint64 = 1\n\ntype T2 struct {\n\tb uint64\n}\n\ntype S1 struct {\n\ta uint64\n}\n\nconst K3 uint64 = 3\n\nfunc mk(x uint64) []uint64 {\n\treturn make([]uint64, x%4)\n}\n")
		fmt.Fprintf(&b, "package %s\n\nfunc g2(x uint64) uint64 {\n\treturn x * 2\n}\n\nfunc g1(x uint64) uint64 {\n\treturn x * 3\n}\n", name)
		files["fwd/"+name+"/a_top.go"] = a.String()
		files["fwd/"+name+"/z_later.go"] = b.String()
		classes[c06Mod+"/fwd/"+name] = "generated-good"
	}
	// packages with an unsupported construct in each of several files: the order of the error list must not
	// depend on how the files were parsed
	for k := 0; k < 3; k++ {
		name := fmt.Sprintf("mf%d", k)
		for fi, fn := range []string{"a.go", "b.go", "c.go", "d.go", "e.go", "f.go"} {
			files["multi/"+name+"/"+fn] = fmt.Sprintf("package %s\n\nfunc Ok%d(x uint64) uint64 {\n\treturn x + %d\n}\n\nfunc Bad%d(x uint64) uint64 {\n\tswitch x {\n\tcase %d:\n\t\treturn 1\n\t}\n\treturn x\n}\n", name, fi, k, fi, fi)
		}
		classes[c06Mod+"/multi/"+name] = "generated-bad"
	}
	// error messages that mention a syntax node or a type of the input (every run must print the same text)
	files["msgs/m0/m.go"] = "package m0\n\nfunc KeyArray() uint64 {\n\tm := make(map[[2]uint64]uint64)\n\treturn uint64(len(m))\n}\n\nfunc KeyStruct() uint64 {\n\tm := make(map[struct{ a uint64 }]bool)\n\treturn uint64(len(m))\n}\n\nfunc KeyPtr(p *uint64) uint64 {\n\tm := make(map[*uint64]uint64)\n\tm[p] = 1\n\treturn m[p]\n}\n\nfunc Lit() uint64 {\n\tx := struct{ a uint64 }{a: 1}\n\treturn x.a\n}\n\nfunc Conv(f float64) uint64 {\n\treturn uint64(f)\n}\n"
	classes[c06Mod+"/msgs/m0"] = "generated-bad"
	// packages that share their NAME (not their path) and differ in FFI, imports and contents: whatever is
	// remembered per package must be keyed by the path
	same := map[string]string{
		"same/a/util": "package util\n\nimport \"github.com/goose-lang/goose/machine/disk\"\n\nfunc ReadFirst() uint64 {\n\tb := disk.Read(0)\n\treturn uint64(len(b))\n}\n\nfunc Twice(x uint64) uint64 {\n\treturn x * 2\n}\n",
		"same/b/util": "package util\n\nfunc Twice(x uint64) uint64 {\n\treturn x * 3\n}\n\nfunc Other(x uint64) uint64 {\n\treturn Twice(x) + 1\n}\n",
		"same/c/util": "package util\n\nimport \"github.com/goose-lang/goose/machine/async_disk\"\n\nfunc Size(d async_disk.Disk) uint64 {\n\treturn d.Size()\n}\n\nfunc Twice(x uint64) uint64 {\n\treturn x * 4\n}\n",
		"same/d/util": fmt.Sprintf("package util\n\nimport \"%s/lib/l2\"\n\ntype T struct {\n\tv uint64\n}\n\nfunc Twice(x uint64) uint64 {\n\treturn l2.F(x) * 5\n}\n", c06Mod),
		"same/e/util": "package util\n\ntype T struct {\n\tw bool\n\tv uint64\n}\n\nfunc (t *T) Twice(x uint64) uint64 {\n\treturn x + t.v\n}\n" + c06BadFunc,
	}
	for rel, src := range same {
		files[rel+"/util.go"] = src
		classes[c06Mod+"/"+rel] = "same-name"
	}
	// every rejecting construct x operand shape (error messages that quote varied source text)
	ef, ec := c06ErrShapeFiles()
	for n, src := range ef {
		files[n] = src
	}
	for n, c := range ec {
		classes[n] = c
	}
	return classes, writeModule(dir, c06Mod, nil, files)
}

type c06State struct {
	r       *core.Run
	bin     string
	dir     string
	pkgs    []*c06Pkg
	byPath  map[string]*c06Pkg
	byFile  map[string]*c06Pkg // output-relative file -> package
	mu      sync.Mutex
	nextOut int
	groups  map[string]bool
}

func (s *c06State) outDir(tag string) string {
	s.mu.Lock()
	s.nextOut++
	n := s.nextOut
	s.mu.Unlock()
	return filepath.Join(s.r.Scratch, "c06out", fmt.Sprintf("%s-%d", tag, n))
}

type c06RunResult struct {
	iv   *invocation
	tree tree
}

func (s *c06State) run(bin, tag string, env []string, flags []string, patterns []string, npkgs int) c06RunResult {
	out := s.outDir(tag)
	args := append([]string{"-out", out}, flags...)
	args = append(args, patterns...)
	iv := runGoose(bin, s.dir, env, args...)
	s.r.Count("goose_invocations", 1)
	s.r.Count("packages_in_invocations_total", int64(npkgs))
	t := readTree(out)
	os.RemoveAll(out)
	return c06RunResult{iv, t}
}

func (s *c06State) classOfFile(rel string) string {
	if p := s.byFile[rel]; p != nil {
		return p.Class
	}
	return "unknown-file"
}

// compareRuns reports differences between a reference run and another run of the same command.
func (s *c06State) compareRuns(what string, ref, got c06RunResult) {
	r := s.r
	if got.iv.res.TimedOut || ref.iv.res.TimedOut {
		r.Inconclusive("goose-watchdog")
		return
	}
	r.Eval(1)
	r.Count("bytes_compared", ref.tree.bytes()+int64(len(ref.iv.res.Stderr)))
	if d := diffTrees(ref.tree, got.tree); len(d) > 0 {
		class := s.classOfFile(d[0])
		r.Violate("nondeterministic-output-"+class, fmt.Sprintf("%s: two runs on identical sources differ in %d file(s), first %s", what, len(d), d[0]),
			map[string]interface{}{"reference_command": ref.iv.cmdline(), "command": got.iv.cmdline(), "differing_files": d,
				"reference": clip(ref.tree[d[0]], 3000), "observed": clip(got.tree[d[0]], 3000), "first_difference": firstDiff(ref.tree[d[0]], got.tree[d[0]])})
	}
	if ref.iv.res.Stderr != got.iv.res.Stderr {
		r.Violate("nondeterministic-stderr", fmt.Sprintf("%s: two runs on identical sources print different error lists", what),
			map[string]interface{}{"reference_command": ref.iv.cmdline(), "command": got.iv.cmdline(),
				"first_difference": firstDiff(ref.iv.res.Stderr, got.iv.res.Stderr), "reference_stderr": clip(ref.iv.res.Stderr, 3000), "observed_stderr": clip(got.iv.res.Stderr, 3000)})
	}
	if ref.iv.Code != got.iv.Code {
		r.Violate("nondeterministic-exit-status", fmt.Sprintf("%s: exit status %d vs %d on identical sources", what, ref.iv.Code, got.iv.Code),
			map[string]interface{}{"reference_command": ref.iv.cmdline(), "command": got.iv.cmdline(), "observed_stderr": clip(got.iv.res.Stderr, 3000)})
	}
}

func firstDiff(a, b string) string {
	al, bl := strings.Split(a, "\n"), strings.Split(b, "\n")
	for i := 0; i < len(al) || i < len(bl); i++ {
		var x, y string
		if i < len(al) {
			x = al[i]
		}
		if i < len(bl) {
			y = bl[i]
		}
		if x != y {
			return fmt.Sprintf("line %d: %q vs %q", i+1, clip(x, 200), clip(y, 200))
		}
	}
	return ""
}

// compareWithSolo: every package of a grouped run must give the file and the
// error text it gives when translated alone.
func (s *c06State) compareWithSolo(fs c06FlagSet, group []*c06Pkg, got c06RunResult, what string) {
	r := s.r
	if got.iv.res.TimedOut {
		r.Inconclusive("goose-watchdog")
		return
	}
	if cr, why := got.iv.crashed(); cr {
		// a crash of the grouped run when every solo run ended normally
		r.Violate("cotranslation-crash", fmt.Sprintf("%s: the grouped invocation crashed (%s) although each package alone did not", what, why),
			map[string]interface{}{"command": got.iv.cmdline(), "stderr": clip(got.iv.res.Stderr, 3000)})
		return
	}
	r.Eval(1)
	inGroup := map[string]bool{}
	for _, p := range group {
		inGroup[outputRel(p.Path)] = true
		solo := p.solo[fs.Name]
		f, has := got.tree[outputRel(p.Path)]
		r.Count("files_compared_with_singleton_run", 1)
		r.Count("bytes_compared", int64(len(f)))
		if has != solo.has || f != solo.file {
			r.Violate("cotranslation-changes-output", fmt.Sprintf("%s: the file of %s (%s) differs from the one produced when the package is translated alone (present %v vs %v)", what, p.Path, p.Class, has, solo.has),
				map[string]interface{}{"command": got.iv.cmdline(), "package": p.Path, "first_difference": firstDiff(solo.file, f), "alone": clip(solo.file, 3000), "grouped": clip(f, 3000)})
		}
	}
	for name := range got.tree {
		if name == "..v" && fs.Name != "plain" {
			// with -ignore-errors an unloadable package makes goose write `..v` under -out; that is a
			// finding of C17 (sig ignore-errors-stray-file-for-unloadable-package), not a co-translation effect
			r.Count("stray_dotdot_v_files_ignored_(C17_finding)", 1)
			continue
		}
		if !inGroup[name] {
			r.Violate("cotranslation-extra-file", fmt.Sprintf("%s: file %s belongs to no package of the invocation", what, name), map[string]interface{}{"command": got.iv.cmdline()})
		}
	}
	// stderr must be the concatenation, in some order, of the packages' own error texts
	rest := got.iv.res.Stderr
	pending := map[string]int{}
	for _, p := range group {
		if e := p.solo[fs.Name].stderr; e != "" {
			pending[e]++
		}
	}
	for rest != "" {
		found := ""
		for e := range pending {
			if strings.HasPrefix(rest, e) && len(e) > len(found) {
				found = e
			}
		}
		if found == "" {
			break
		}
		rest = rest[len(found):]
		pending[found]--
		if pending[found] == 0 {
			delete(pending, found)
		}
	}
	if rest != "" || len(pending) > 0 {
		r.Violate("cotranslation-changes-stderr", fmt.Sprintf("%s: stderr is not the concatenation of the error texts the packages give alone", what),
			map[string]interface{}{"command": got.iv.cmdline(), "unmatched_rest": clip(rest, 2000), "missing_blocks": len(pending), "stderr": clip(got.iv.res.Stderr, 3000)})
	}
	wantCode := 0
	for _, p := range group {
		if p.solo[fs.Name].code != 0 {
			wantCode = 1
		}
	}
	if got.iv.Code != wantCode {
		r.Violate("cotranslation-changes-exit-status", fmt.Sprintf("%s: exit status %d, expected %d from the singleton runs", what, got.iv.Code, wantCode), map[string]interface{}{"command": got.iv.cmdline()})
	}
}

var raceBlockRe = regexp.MustCompile(`(?s)WARNING: DATA RACE\n.*?\n==================`)
var raceFrameRe = regexp.MustCompile(`(?m)^\s+(\S+)\(\)\n\s+(\S+):(\d+)`)

// raceSig reduces a race report to the pair of outermost goose frames of the
// two conflicting accesses; reports without any goose frame are not counted.
func raceSig(block string) (string, bool) {
	parts := regexp.MustCompile(`(?m)^(Previous |)(?:[Rr]ead|[Ww]rite|[Aa]tomic \w+) (?:at|of) .*$`).Split(block, -1)
	var frames []string
	for _, part := range parts[1:] {
		// stop at "Goroutine ... created at"
		if i := strings.Index(part, "\nGoroutine "); i >= 0 {
			part = part[:i]
		}
		last := ""
		for _, m := range raceFrameRe.FindAllStringSubmatch(part, -1) {
			if strings.Contains(m[1], "github.com/goose-lang/goose") || strings.HasPrefix(m[2], "/repo/") {
				fn := m[1]
				if i := strings.LastIndex(fn, "/"); i >= 0 {
					fn = fn[i+1:]
				}
				last = fn // keep going: the outermost goose frame of this stack wins
			}
		}
		if last != "" {
			frames = append(frames, last)
		}
	}
	if len(frames) == 0 {
		return "", false
	}
	sort.Strings(frames)
	return strings.Join(frames, "+"), true
}

func runC06(r *core.Run) (bool, string) {
	r.SetRule("one evaluation = one goose invocation compared byte-for-byte (whole -out tree, stderr, exit status) with the reference invocation of the same command, " +
		"or one regrouped invocation compared file-by-file and error-block-by-error-block with the singleton runs of its packages; " +
		"distinct = distinct (flag set, GOMAXPROCS, package set and order) groupings judged; race evidence = DATA RACE blocks with a goose frame in the logs of the -race build")
	r.Assume("`go list` (spawned by goose through go/packages) is deterministic; only goose's own output is judged")
	s := &c06State{r: r, byPath: map[string]*c06Pkg{}, byFile: map[string]*c06Pkg{}, groups: map[string]bool{}}
	var raceBin string
	var raceErr, binErr error
	var wg sync.WaitGroup
	wg.Add(1)
	go func() { defer wg.Done(); raceBin, raceErr = gooseBin(r, true) }()
	s.bin, binErr = gooseBin(r, false)
	if binErr != nil {
		wg.Wait()
		return false, "cannot build goose: " + binErr.Error()
	}
	s.dir = filepath.Join(r.Scratch, "c06mod")
	classes, err := c06WriteCorpus(r, s.dir)
	if err != nil {
		wg.Wait()
		return false, "cannot write corpus: " + err.Error()
	}
	allPatterns := []string{"./...", c06Examples + "/..."}
	listing, ok := settle(s.dir, allPatterns...)
	if !ok {
		wg.Wait()
		return false, "go list on the corpus failed: " + firstLines(listing, 10)
	}
	for _, line := range strings.Split(strings.TrimSpace(listing), "\n") {
		line = strings.TrimSpace(line)
		if line == "" || strings.Contains(line, " ") {
			continue
		}
		class := classes[line]
		if class == "" {
			if strings.HasPrefix(line, c06Examples) {
				class = "example"
			} else {
				continue
			}
		}
		p := &c06Pkg{Path: line, Class: class, solo: map[string]*c06Solo{}}
		s.pkgs = append(s.pkgs, p)
		s.byPath[line] = p
		s.byFile[outputRel(line)] = p
	}
	r.Set("corpus_packages", len(s.pkgs))
	cc := map[string]int{}
	for _, p := range s.pkgs {
		cc[p.Class]++
	}
	r.Set("corpus_by_class", cc)
	if len(s.pkgs) < 40 {
		wg.Wait()
		return false, fmt.Sprintf("corpus has only %d packages", len(s.pkgs))
	}

	// ---- 1. repetitions of ./... under each GOMAXPROCS
	reps := r.Pick(6, 50)
	refs := map[string]c06RunResult{}
	for _, fs := range c06FlagSets {
		ref := s.run(s.bin, "ref", nil, fs.Flags, allPatterns, len(s.pkgs))
		if cr, why := ref.iv.crashed(); cr {
			wg.Wait()
			// every package of the corpus translates (or fails with errors) on its own; an abort of the
			// invocation that takes them all is the packages influencing each other, or a race
			r.Violate("all-packages-invocation-crashed", "goose aborts when all "+fmt.Sprint(len(s.pkgs))+" corpus packages are translated in one invocation: "+why, map[string]interface{}{"command": ref.iv.cmdline(), "stderr": clip(ref.iv.res.Stderr, 6000)})
			// the usual reason is a data race between the per-package workers: let the race detector name it
			if raceErr == nil {
				s.racePhase(raceBin, map[string]c06RunResult{}, allPatterns)
			}
			return true, ""
		}
		refs[fs.Name] = ref
		r.Count("goose_invocations_all_packages", 1)
	}
	r.Set("reference_tree_files", len(refs["plain"].tree))
	r.Set("reference_stderr_bytes", len(refs["plain"].iv.res.Stderr))
	type job struct {
		fs  c06FlagSet
		gmp int
		rep int
	}
	var jobs []job
	for _, gmp := range []int{1, 2, 4, 16} {
		for rep := 0; rep < reps; rep++ {
			jobs = append(jobs, job{c06FlagSets[rep%2], gmp, rep})
		}
	}
	core.Parallel(len(jobs), 4, func(i int) {
		j := jobs[i]
		env := []string{fmt.Sprintf("GOMAXPROCS=%d", j.gmp)}
		got := s.run(s.bin, "rep", env, j.fs.Flags, allPatterns, len(s.pkgs))
		r.Count("goose_invocations_all_packages", 1)
		r.Distinct(fmt.Sprintf("all|%s|gomaxprocs=%d", j.fs.Name, j.gmp))
		s.compareRuns(fmt.Sprintf("repetition %d of all %d packages with GOMAXPROCS=%d, flags %v", j.rep, len(s.pkgs), j.gmp, j.fs.Flags), refs[j.fs.Name], got)
		if i == 0 {
			r.Sample(10, map[string]interface{}{"kind": "repetition", "command": got.iv.cmdline(), "exit_status": got.iv.Code, "files": len(got.tree), "tree_bytes": got.tree.bytes(),
				"stderr_bytes": len(got.iv.res.Stderr), "identical_to_reference": len(diffTrees(refs[j.fs.Name].tree, got.tree)) == 0 && refs[j.fs.Name].iv.res.Stderr == got.iv.res.Stderr})
		}
	})

	// ---- 2. singleton runs, then random regroupings
	type sj struct {
		p  *c06Pkg
		fs c06FlagSet
	}
	var sjobs []sj
	for _, p := range s.pkgs {
		for _, fs := range c06FlagSets {
			sjobs = append(sjobs, sj{p, fs})
		}
	}
	var smu sync.Mutex
	soloCrash := 0
	core.Parallel(len(sjobs), 16, func(i int) {
		j := sjobs[i]
		got := s.run(s.bin, "solo", nil, j.fs.Flags, []string{j.p.Path}, 1)
		f, has := got.tree[outputRel(j.p.Path)]
		so := &c06Solo{file: f, has: has, stderr: got.iv.res.Stderr, code: got.iv.Code}
		smu.Lock()
		j.p.solo[j.fs.Name] = so
		if cr, _ := got.iv.crashed(); cr || got.iv.res.TimedOut {
			soloCrash++
		}
		smu.Unlock()
		r.Count("singleton_invocations", 1)
	})
	if soloCrash > 0 {
		r.Inconclusive("singleton-run-crashed-or-timed-out")
	}
	// the all-packages reference is itself a grouping
	for _, fs := range c06FlagSets {
		s.compareWithSolo(fs, s.pkgs, refs[fs.Name], "all packages in one invocation, flags "+fmt.Sprint(fs.Flags))
		r.Distinct("group|" + fs.Name + "|all")
	}
	rng := core.NewRng(r.Seed, "c06-groups")
	ngroups := r.Pick(20, 200)
	type gj struct {
		fs    c06FlagSet
		group []*c06Pkg
		gmp   int
	}
	var gjobs []gj
	for g := 0; g < ngroups; g++ {
		n := 2 + rng.Intn(len(s.pkgs)-2)
		if rng.Chance(40) {
			n = 2 + rng.Intn(6)
		}
		perm := make([]*c06Pkg, len(s.pkgs))
		copy(perm, s.pkgs)
		for a := len(perm) - 1; a > 0; a-- {
			b := rng.Intn(a + 1)
			perm[a], perm[b] = perm[b], perm[a]
		}
		gjobs = append(gjobs, gj{c06FlagSets[g%2], perm[:n], []int{1, 2, 4, 16}[rng.Intn(4)]})
	}
	core.Parallel(len(gjobs), 4, func(i int) {
		j := gjobs[i]
		var pats, key []string
		for k, p := range j.group {
			pat := p.Path
			if strings.HasPrefix(p.Path, c06Mod+"/") && (k+i)%2 == 0 {
				pat = "./" + strings.TrimPrefix(p.Path, c06Mod+"/")
			}
			pats = append(pats, pat)
			key = append(key, p.Path)
		}
		got := s.run(s.bin, "group", []string{fmt.Sprintf("GOMAXPROCS=%d", j.gmp)}, j.fs.Flags, pats, len(pats))
		r.Count("regrouped_invocations", 1)
		r.Count("packages_in_regrouped_invocations", int64(len(pats)))
		r.Distinct(fmt.Sprintf("group|%s|gomaxprocs=%d|%s", j.fs.Name, j.gmp, strings.Join(key, ",")))
		what := fmt.Sprintf("%d packages in one invocation (GOMAXPROCS=%d, flags %v)", len(pats), j.gmp, j.fs.Flags)
		s.compareWithSolo(j.fs, j.group, got, what)
		if i < 3 {
			r.Sample(10, map[string]interface{}{"kind": "regrouping", "command": clip(got.iv.cmdline(), 700), "packages": len(pats), "exit_status": got.iv.Code, "files_written": got.tree.names()})
		}
	})

	// ---- 2a. the error text of failing packages, alone under several GOMAXPROCS and inside groups of several sizes
	s.runErrAmplifier()

	// ---- 2b. shapes of the pattern list (repeated / overlapping / nested / respelled / reordered patterns)
	s.runShapes()

	// ---- 2c. packages whose import paths map to one Coq path: the outcome of a command line is the same in every run
	s.runCollisions()

	// ---- 3. the race build over the same workload
	wg.Wait()
	if raceErr != nil {
		r.Inconclusive("race-build-failed")
		return false, "cannot build goose -race: " + raceErr.Error()
	}
	s.racePhase(raceBin, refs, allPatterns)

	inv := r.GetCount("goose_invocations")
	r.Set("distinct_groupings", r.DistinctCount())
	if inv < 20 {
		return false, fmt.Sprintf("only %d invocations (floor 20)", inv)
	}
	if r.GetCount("race_build_invocations") < 1 {
		return false, "the race build did not run"
	}
	if r.GetCount("files_compared_with_singleton_run") < 50 {
		return false, "fewer than 50 files compared with singleton runs"
	}
	if r.GetCount("pattern_shape_invocations") < 5 || r.GetCount("pattern_shape_error_blocks_matched") < 10 {
		return false, "fewer than 5 pattern-list shapes judged / fewer than 10 error blocks of failing packages attributed under them"
	}
	return true, ""
}

// racePhase runs the -race build of goose over all packages and reports the data races with a goose frame.
func (s *c06State) racePhase(raceBin string, refs map[string]c06RunResult, allPatterns []string) {
	r := s.r
	nrace := r.Pick(6, 100)
	raceDir := filepath.Join(r.Scratch, "c06race")
	os.MkdirAll(raceDir, 0o755)
	core.Parallel(nrace, 3, func(i int) {
		fs := c06FlagSets[i%2]
		gmp := []int{16, 4, 16, 2, 8}[i%5]
		env := []string{fmt.Sprintf("GOMAXPROCS=%d", gmp), fmt.Sprintf("GORACE=halt_on_error=0 log_path=%s", filepath.Join(raceDir, fmt.Sprintf("run%03d", i)))}
		got := s.run(raceBin, "race", env, fs.Flags, allPatterns, len(s.pkgs))
		r.Count("race_build_invocations", 1)
		r.Distinct(fmt.Sprintf("race|%s|gomaxprocs=%d", fs.Name, gmp))
		if got.iv.res.TimedOut {
			r.Inconclusive("goose-watchdog")
			return
		}
		// the race build must also produce the reference output (exit status 66 would
		// only appear with halt_on_error; it is not trusted either way)
		if _, haveRef := refs[fs.Name]; !haveRef {
			return
		}
		if d := diffTrees(refs[fs.Name].tree, got.tree); len(d) > 0 {
			r.Violate("nondeterministic-output-"+s.classOfFile(d[0]), fmt.Sprintf("race build run %d differs from the reference tree in %d files, first %s", i, len(d), d[0]),
				map[string]interface{}{"command": got.iv.cmdline(), "first_difference": firstDiff(refs[fs.Name].tree[d[0]], got.tree[d[0]])})
		}
		if i == 0 {
			r.Sample(10, map[string]interface{}{"kind": "race-build", "command": got.iv.cmdline(), "exit_status": got.iv.Code, "files": len(got.tree)})
		}
	})
	logs, _ := filepath.Glob(filepath.Join(raceDir, "run*"))
	blocks, gooseBlocks := 0, 0
	bySig := map[string]string{}
	for _, l := range logs {
		b, err := os.ReadFile(l)
		if err != nil {
			continue
		}
		for _, blk := range raceBlockRe.FindAllString(string(b), -1) {
			blocks++
			if sig, ok := raceSig(blk); ok {
				gooseBlocks++
				if _, seen := bySig[sig]; !seen {
					bySig[sig] = blk
				}
			}
		}
		// a truncated last block (no closing line) still counts
		if n := strings.Count(string(b), "WARNING: DATA RACE") - len(raceBlockRe.FindAllString(string(b), -1)); n > 0 {
			blocks += n
			gooseBlocks += n
			if _, seen := bySig["unparsed-report"]; !seen {
				bySig["unparsed-report"] = clip(string(b), 4000)
			}
		}
	}
	r.Set("race_blocks_total", blocks)
	r.Set("race_blocks_with_goose_frame", gooseBlocks)
	r.Set("race_log_files", len(logs))
	for sig, blk := range bySig {
		r.Violate("race-"+sig, "the race detector reports a data race in goose while translating many packages in one invocation",
			map[string]interface{}{"report": clip(blk, 6000), "workload": fmt.Sprintf("goose(-race) %v on %d packages", allPatterns, len(s.pkgs))})
	}
}
