package clip

import (
	"encoding/json"
	"fmt"
	"os"
	"path"
	"path/filepath"
	"sort"
	"strings"
	"sync"
	"time"

	"verif/core"
	"verif/gl"
	"verif/props"
)

// C08: the header of each emitted file names exactly the FFI and the imports
// the package uses, and the output path is the mapped import path.
//
// The expectation is computed here from the generated import graph with the
// two tables below written out as the specification (they are NOT imported
// from /repo), and cross-checked against the graph `go list -deps` reports.

func init() {
	props.Registry["C08"] = props.Prop{Level: "exploration", Run: runC08}
}

const (
	pMD    = "github.com/goose-lang/goose/machine/disk"
	pMAD   = "github.com/goose-lang/goose/machine/async_disk"
	pPD    = "github.com/goose-lang/primitive/disk"
	pPAD   = "github.com/goose-lang/primitive/async_disk"
	pGROVE = "github.com/mit-pdos/gokv/grove_ffi"
	// builtin (never required) but not FFI; local stubs as well
	pGOKVTIME = "github.com/mit-pdos/gokv/time"
	pCFMUTEX  = "github.com/mit-pdos/vmvcc/cfmutex"
)

// specFfi: import path -> FFI selected (specification table).
var specFfi = map[string]string{
	pMD:    "disk",
	pMAD:   "async_disk",
	pPD:    "disk",
	pPAD:   "async_disk",
	pGROVE: "grove",
}

// specBuiltin: imports modelled by the prelude, never required (specification table).
var specBuiltin = map[string]bool{
	"fmt":                                 true,
	"log":                                 true,
	"sync":                                true,
	"github.com/goose-lang/goose/machine": true,
	pMD:                                   true,
	pMAD:                                  true,
	"github.com/goose-lang/goose/machine/filesys": true,
	"github.com/goose-lang/primitive":             true,
	pPD:                                           true,
	pPAD:                                          true,
	pGROVE:                                        true,
	pGOKVTIME:                                     true,
	pCFMUTEX:                                      true,
}

var c08FfiShort = map[string]string{"md": pMD, "mad": pMAD, "pd": pPD, "pad": pPAD, "grove": pGROVE}
var c08FfiKeys = []string{"none", "md", "mad", "pd", "pad", "grove"}

// refFfis is the reference: the FFIs reachable from root through imports
// without passing through an FFI package.
func refFfis(graph map[string][]string, root string) []string {
	seen := map[string]bool{}
	ffis := map[string]bool{}
	var visit func(p string)
	visit = func(p string) {
		if seen[p] {
			return
		}
		seen[p] = true
		if f, ok := specFfi[p]; ok {
			ffis[f] = true
			return // what an FFI package itself depends on is hidden
		}
		for _, q := range graph[p] {
			visit(q)
		}
	}
	visit(root)
	return sortedKeys(ffis)
}

type c08Import struct {
	Trusted bool
	Logical string
	Go      string
}

// refImports is the reference list of Require lines of a package.
func refImports(imports []string) []c08Import {
	seen := map[string]bool{}
	var out []c08Import
	for _, p := range imports {
		if specBuiltin[p] || seen[p] {
			continue
		}
		seen[p] = true
		out = append(out, c08Import{Trusted: strings.HasPrefix(path.Base(p), "trusted_"), Logical: logicalPath(p), Go: p})
	}
	sort.Slice(out, func(i, j int) bool { return out[i].Logical < out[j].Logical })
	return out
}

// ---------------------------------------------------------------- generated modules

type c08Pkg struct {
	Dir   string     `json:"dir"`
	Name  string     `json:"package_name"`
	Files [][]string `json:"imports_per_file"`
	Shape string     `json:"shape"`
	Atom  string     `json:"atom,omitempty"` // "base-name": some import has '.'/'-' in its last component
	// Partial: the package has one unsupported function and is translated with -ignore-errors; header, footer
	// and Require lines of the partial file are judged like those of a complete one
	Partial bool `json:"partial,omitempty"`

	importPath string
	expFfis    []string
	expImports []c08Import
}

type c08Module struct {
	Name        string
	ModPath     string
	GroveHides  []string // imports of the grove_ffi stub
	Pkgs        []*c08Pkg
	byPath      map[string]*c08Pkg
	dir         string
	goListGraph map[string][]string
}

func goNameOf(dir string) string {
	b := path.Base(dir)
	var sb strings.Builder
	for _, c := range b {
		if c == '-' || c == '.' {
			continue
		}
		sb.WriteRune(c)
	}
	return sb.String()
}

func (m *c08Module) add(dir, shape string, files ...[]string) *c08Pkg {
	p := &c08Pkg{Dir: dir, Name: goNameOf(dir), Files: files, Shape: shape, importPath: m.ModPath + "/" + dir}
	if len(p.Files) == 0 {
		p.Files = [][]string{nil}
	}
	for _, f := range p.Files {
		for _, imp := range f {
			if strings.ContainsAny(path.Base(imp), ".-") {
				p.Atom = "base-name"
			}
		}
	}
	m.Pkgs = append(m.Pkgs, p)
	if m.byPath == nil {
		m.byPath = map[string]*c08Pkg{}
	}
	m.byPath[p.importPath] = p
	return p
}

func (m *c08Module) local(dir string) string { return m.ModPath + "/" + dir }

// goBase is the identifier a file uses for an import.
func (m *c08Module) goBase(imp string) string {
	if p, ok := m.byPath[imp]; ok {
		return p.Name
	}
	return path.Base(imp)
}

// splitClashes makes sure no file imports two packages with the same Go name
// (or the same path twice) by moving the later one to a following file.
func (m *c08Module) splitClashes(files [][]string) [][]string {
	var out [][]string
	for _, f := range files {
		cur := []string{}
		names := map[string]bool{}
		var spill []string
		for _, imp := range f {
			n := m.goBase(imp)
			if names[n] {
				spill = append(spill, imp)
				continue
			}
			names[n] = true
			cur = append(cur, imp)
		}
		out = append(out, cur)
		for len(spill) > 0 {
			names = map[string]bool{}
			var next, cur2 []string
			for _, imp := range spill {
				n := m.goBase(imp)
				if names[n] {
					next = append(next, imp)
					continue
				}
				names[n] = true
				cur2 = append(cur2, imp)
			}
			out = append(out, cur2)
			spill = next
		}
	}
	return out
}

func (m *c08Module) source(p *c08Pkg, fi int) string {
	var b strings.Builder
	fmt.Fprintf(&b, "package %s\n\n", p.Name)
	imps := p.Files[fi]
	if len(imps) > 0 {
		b.WriteString("import (\n")
		for _, imp := range imps {
			fmt.Fprintf(&b, "\t%q\n", imp)
		}
		b.WriteString(")\n\n")
	}
	var stmts, terms, extra []string
	for _, imp := range imps {
		switch imp {
		case pMD, pPD:
			terms = append(terms, "disk.BlockSize")
		case pMAD, pPAD:
			terms = append(terms, "async_disk.BlockSize")
		case pGROVE:
			terms = append(terms, "grove_ffi.G()")
		case "github.com/goose-lang/goose/machine":
			terms = append(terms, "machine.RandomUint64()")
		case "github.com/goose-lang/primitive":
			terms = append(terms, "primitive.RandomUint64()")
		case pGOKVTIME:
			terms = append(terms, "time.Stamp()")
		case pCFMUTEX:
			terms = append(terms, "cfmutex.Mark()")
		case "github.com/goose-lang/goose/machine/filesys":
			stmts = append(stmts, `filesys.Delete("d", "f")`)
		case "fmt":
			stmts = append(stmts, `fmt.Println("y")`)
		case "log":
			stmts = append(stmts, `log.Println("x")`)
		case "sync":
			extra = append(extra, fmt.Sprintf("func Sync%d(x uint64) uint64 {\n\tm := new(sync.Mutex)\n\tm.Lock()\n\tm.Unlock()\n\treturn x\n}\n", fi))
		default:
			terms = append(terms, m.goBase(imp)+".F(x)")
		}
	}
	fn := "F"
	if fi > 0 {
		fn = fmt.Sprintf("F%d", fi)
	}
	fmt.Fprintf(&b, "func %s(x uint64) uint64 {\n", fn)
	for _, s := range stmts {
		fmt.Fprintf(&b, "\t%s\n", s)
	}
	ret := "x + 1"
	for _, t := range terms {
		ret += " + " + t
	}
	fmt.Fprintf(&b, "\treturn %s\n}\n", ret)
	if p.Partial && fi == 0 {
		b.WriteString("\nfunc Unsupported(x uint64) uint64 {\n\tswitch x {\n\tcase 1:\n\t\treturn 2\n\t}\n\treturn x\n}\n\nfunc After(x uint64) uint64 {\n\treturn x + 2\n}\n")
	}
	for _, e := range extra {
		b.WriteString("\n" + e)
	}
	return b.String()
}

func (m *c08Module) write(dir string) error {
	m.dir = dir
	files := map[string]string{}
	// grove_ffi stub: an FFI package (by import path) that itself imports other FFI packages
	files["stubs/gokv/grove_ffi/g.go"] = "package grove_ffi\n\nfunc G() uint64 {\n\treturn 7\n}\n"
	files["stubs/gokv/time/t.go"] = "package time\n\nfunc Stamp() uint64 {\n\treturn 3\n}\n"
	files["stubs/vmvcc/cfmutex/c.go"] = "package cfmutex\n\nfunc Mark() uint64 {\n\treturn 5\n}\n"
	for i, h := range m.GroveHides {
		use := path.Base(h) + ".BlockSize"
		files[fmt.Sprintf("stubs/gokv/grove_ffi/h%d.go", i)] = fmt.Sprintf("package grove_ffi\n\nimport %q\n\nfunc H%d() uint64 {\n\treturn %s\n}\n", h, i, use)
	}
	for _, p := range m.Pkgs {
		for fi := range p.Files {
			files[fmt.Sprintf("%s/f%d.go", p.Dir, fi)] = m.source(p, fi)
		}
	}
	return writeModule(dir, m.ModPath, []replaceDir{{Mod: "github.com/mit-pdos/gokv", Dir: "./stubs/gokv"}, {Mod: "github.com/mit-pdos/vmvcc", Dir: "./stubs/vmvcc"}}, files)
}

// generatedGraph is the import graph known by construction.
func (m *c08Module) generatedGraph() map[string][]string {
	g := map[string][]string{
		pMAD:   {pMD},
		pPAD:   {pPD},
		pGROVE: append([]string{}, m.GroveHides...),
	}
	for _, p := range m.Pkgs {
		for _, f := range p.Files {
			g[p.importPath] = append(g[p.importPath], f...)
		}
	}
	return g
}

func (p *c08Pkg) allImports() []string {
	var out []string
	for _, f := range p.Files {
		out = append(out, f...)
	}
	return out
}

// ---- the directed workload

var c08Decor = [][]string{
	nil,
	{"lib/zeta", "lib/alpha"},
	{"github.com/goose-lang/goose/machine", "lib/mid_dle", "lib/alpha"},
	{"lib/trusted_t1", "lib/zeta", "sync"},
	{"in-ner/trusted_t2", "lib/alpha", "fmt", "log"},
	{"lib/zeta", "in-ner/d.ot/plain", "lib/trusted_t1", "github.com/goose-lang/primitive"},
	{"lib/mid_dle", "github.com/goose-lang/goose/machine/filesys", pGOKVTIME},
	{pCFMUTEX, "lib/zeta", "lib/trusted_t1", "lib/alpha"},
	{"in-ner/trusted_t2", "lib/trusted_t1", "lib/zeta", "lib/alpha", "lib/mid_dle"},
	// an ordinary package below a trusted_* directory, a package whose name merely contains "trusted_"
	{"lib/trusted_t1/inner", "lib/trusted_t1", "lib/alpha"},
	{"lib/not_trusted_x", "lib/trusted_t1/inner", "lib/zeta"},
}

type c08Carrier struct {
	Ffi   string // key of c08FfiKeys
	Depth int    // 0 = the FFI package itself (or nothing for none), 1, 2 = behind that many plain packages
}

func (c c08Carrier) String() string { return fmt.Sprintf("%s@%d", c.Ffi, c.Depth) }

func (m *c08Module) carrierImport(c c08Carrier) string {
	if c.Depth == 0 {
		if c.Ffi == "none" {
			return ""
		}
		return c08FfiShort[c.Ffi]
	}
	return m.local(fmt.Sprintf("in-ner/d.ot/c%d_%s", c.Depth, c.Ffi))
}

func (m *c08Module) decor(i int) []string {
	var out []string
	for _, d := range c08Decor[i%len(c08Decor)] {
		if strings.Contains(d, ".com/") || !strings.Contains(d, "/") {
			out = append(out, d)
		} else {
			out = append(out, m.local(d))
		}
	}
	return out
}

// layout distributes imports a, b (either may be "") and decoration over 1-3
// files in different orders, repeating some imports across files.
func (m *c08Module) layout(idx int, a, b string, decor []string) [][]string {
	ne := func(xs ...string) []string {
		var o []string
		for _, x := range xs {
			if x != "" {
				o = append(o, x)
			}
		}
		return o
	}
	rev := func(xs []string) []string {
		o := make([]string, len(xs))
		for i, x := range xs {
			o[len(xs)-1-i] = x
		}
		return o
	}
	var files [][]string
	switch idx % 6 {
	case 0:
		files = [][]string{append(ne(a, b), decor...)}
	case 1:
		files = [][]string{append(append([]string{}, decor...), ne(b, a)...)}
	case 2:
		files = [][]string{append(ne(a), decor...), ne(b)}
	case 3:
		files = [][]string{ne(b), append(rev(decor), ne(a)...)}
	case 4:
		files = [][]string{append(ne(a, b), decor...), append(ne(b), rev(decor)...), ne(a)}
	default:
		files = [][]string{ne(b), append(append([]string{}, decor...), ne(a, b)...), append(rev(decor), ne(a)...)}
	}
	return m.splitClashes(files)
}

func c08MainModule() *c08Module {
	m := &c08Module{Name: "main", ModPath: "example.com/m-x/y.z", GroveHides: []string{pMD, pMAD, pPD, pPAD}}
	// plain library packages (no FFI), some in the trusted namespace, some below
	// directories with '.'/'-'
	for _, d := range []string{"lib/zeta", "lib/alpha", "lib/mid_dle", "lib/trusted_t1", "in-ner/trusted_t2", "in-ner/d.ot/plain", "lib/trusted_t1/inner", "lib/not_trusted_x"} {
		m.add(d, "leaf")
	}
	// packages whose own last component has '.'/'-' (importing them is the known-defect atom)
	for _, d := range []string{"odd/my-pkg", "odd/v2.1", "in-ner/a.b-c", "odd/trusted_d-x", "odd/x.y/leaf"} {
		m.add(d, "leaf-odd-name")
	}
	// carriers
	var carriers []c08Carrier
	for _, f := range c08FfiKeys {
		for d := 0; d <= 2; d++ {
			carriers = append(carriers, c08Carrier{f, d})
		}
	}
	for _, f := range c08FfiKeys {
		var imp0 []string
		if f != "none" {
			imp0 = []string{c08FfiShort[f]}
		}
		m.add("in-ner/d.ot/c1_"+f, "carrier-1-"+f, imp0)
		m.add("in-ner/d.ot/c2_"+f, "carrier-2-"+f, []string{m.local("in-ner/d.ot/c1_" + f)})
	}
	// every unordered pair of carriers (with repetition): same FFI twice via
	// different paths, two different FFIs, FFI + none, ...
	type pair struct{ a, b c08Carrier }
	var pairs []pair
	for i := 0; i < len(carriers); i++ {
		for j := i; j < len(carriers); j++ {
			pairs = append(pairs, pair{carriers[i], carriers[j]})
		}
	}
	for idx, pr := range pairs {
		files := m.layout(idx, m.carrierImport(pr.a), m.carrierImport(pr.b), m.decor(idx))
		m.add(fmt.Sprintf("t/p%03d", idx), fmt.Sprintf("pair %s + %s layout %d", pr.a, pr.b, idx%6), files...)
	}
	// a second layout of every other pair (imports repeated across files in other orders)
	for k := 0; k < len(pairs); k += 2 {
		pr := pairs[k]
		files := m.layout(k+3, m.carrierImport(pr.a), m.carrierImport(pr.b), m.decor(k+5))
		m.add(fmt.Sprintf("t/q%03d", k), fmt.Sprintf("pair %s + %s layout %d'", pr.a, pr.b, (k+3)%6), files...)
	}
	// diamonds: two plain packages sharing one carrier
	for _, f := range c08FfiKeys {
		c1 := m.local("in-ner/d.ot/c1_" + f)
		m.add("dia/l_"+f, "diamond-side-"+f, []string{c1})
		m.add("dia/r_"+f, "diamond-side-"+f, []string{c1, m.local("lib/alpha")})
		m.add("dia/top_"+f, "diamond "+f, []string{m.local("dia/r_" + f)}, []string{m.local("dia/l_" + f)})
	}
	// diamond whose sides reach different things: one side plain, other side FFI
	for _, f := range c08FfiKeys[1:] {
		m.add("dia/mix_"+f, "diamond none|"+f, []string{m.local("dia/l_none"), m.local("dia/r_" + f)})
	}
	// partial outputs: one unsupported function among good ones, per FFI and for two import layouts
	for fi, f := range c08FfiKeys {
		var imp0 []string
		if f != "none" {
			imp0 = []string{c08FfiShort[f]}
		}
		m.add("part/a_"+f, "partial output, ffi "+f, imp0).Partial = true
		files := m.layout(fi, m.carrierImport(c08Carrier{f, 1}), "", m.decor(fi+1))
		m.add("part/b_"+f, "partial output, ffi "+f+" behind a plain package, decorated", files...).Partial = true
	}
	// the known-defect atom: imports whose LAST component has '.'/'-'
	odd := []string{m.local("odd/my-pkg"), m.local("odd/v2.1"), m.local("in-ner/a.b-c"), m.local("odd/trusted_d-x")}
	for i, o := range odd {
		m.add(fmt.Sprintf("t/n%02d", i), "odd-base-name direct", []string{o})
		m.add(fmt.Sprintf("t/n%02d", i+4), "odd-base-name + ffi + decor", append([]string{o, c08FfiShort[c08FfiKeys[1+i]]}, m.decor(i+1)...))
	}
	m.add("t/n08", "odd-base-name all, repeated", odd, []string{odd[1], odd[0]})
	// order-sensitive characters: sibling import paths that share a prefix and continue with '/', '-', '.', '_', a
	// digit, an upper-case and a lower-case letter. The Require lines must be in sorted order of what is PRINTED
	// ('-' and '.' become '_', '/' becomes '.'), which is not the order of the Go paths. Paths that would map to
	// the same logical path (a-b / a.b / a_b) are not generated: the statement does not say what two packages
	// with one logical path should give.
	ordA := []string{"ord/order/items", "ord/order-log", "ord/order.v2", "ord/order_x", "ord/order9", "ord/orderZ", "ord/orderq"}
	ordB := []string{"ord/store.v2/idx", "ord/store/index", "ord/store_a/idx", "ord/store9/idx", "ord/storeZ/idx", "ord/stores/idx"}
	ordT := []string{"ord/trusted_q-r", "ord/trusted_q/r", "ord/trusted_q.s", "ord/trusted_q9", "ord/sub/trusted_q"}
	for _, d := range append(append(append([]string{}, ordA...), ordB...), ordT...) {
		m.add(d, "leaf-order-sibling")
	}
	on := 0
	addOrd := func(shape string, imps []string) {
		// the imports in 1-3 files, in different orders, some repeated across files
		var files [][]string
		rev := func(xs []string) []string {
			o := make([]string, len(xs))
			for i, x := range xs {
				o[len(xs)-1-i] = m.local(x)
			}
			return o
		}
		fwd := rev(rev0(imps))
		switch on % 4 {
		case 0:
			files = [][]string{fwd}
		case 1:
			files = [][]string{rev(imps)}
		case 2:
			files = [][]string{fwd[:1], rev(imps)}
		default:
			files = [][]string{rev(imps)[:1], fwd, rev(imps)}
		}
		m.add(fmt.Sprintf("ord/t/o%03d", on), shape, m.splitClashes(files)...)
		on++
	}
	for _, grp := range [][]string{ordA, ordB} {
		for i := 0; i < len(grp); i++ {
			for j := i + 1; j < len(grp); j++ {
				addOrd(fmt.Sprintf("order-pair %s | %s", path.Base(path.Dir(grp[i]))+"/"+path.Base(grp[i]), path.Base(path.Dir(grp[j]))+"/"+path.Base(grp[j])), []string{grp[i], grp[j]})
			}
		}
		addOrd("order-group all siblings", grp)
		addOrd("order-group all siblings", grp)
		addOrd("order-group all siblings", grp)
	}
	for i, t := range ordT {
		addOrd("order-trusted-mix", []string{t, ordA[i%len(ordA)], ordT[(i+1)%len(ordT)], ordB[i%len(ordB)]})
	}
	addOrd("order-trusted-mix all", append(append(append([]string{}, ordT...), ordA...), ordB...))
	// odd INNER component only (must work): x.y is a directory, "in" the base
	m.add("t/i00", "odd-inner-component", []string{m.local("odd/x.y/leaf"), m.local("in-ner/d.ot/plain")})
	return m
}

func rev0(xs []string) []string {
	o := make([]string, len(xs))
	for i, x := range xs {
		o[len(xs)-1-i] = x
	}
	return o
}

// c08ModulePathShapes: module paths of every shape a go.mod accepts. What a package's header must be does not
// depend on how its module is named (the statement speaks of the package's transitive imports and of mapping
// '.' and '-'), in particular not on whether the first element looks like a domain name.
var c08ModulePathShapes = []string{
	"kvstore",                  // one element, no dot
	"corp/kvstore",             // no dot, two elements
	"net2/x",                   // first element resembles a standard-library directory
	"a9/internal/b-c",          // an `internal` element, a dash
	"Corp-1/kv.store",          // upper case and dash in the first element, dot in a later one
	"x.y",                      // one element with a dot
	"deep/er/path/to/a/mod/v2", // deep, no dot anywhere
	"go-tool.dev/X_y/v3.1",     // dots, dashes, upper case, underscore, digits
	"trusted_corp/ts",          // the trusted_ prefix in an element that is not the last
}

// c08PathShapeModule crosses one module path with the FFI-reachability scenarios: every FFI (and none)
// direct, behind one / two / three plain packages, a diamond, hidden behind the grove_ffi package, the same FFI
// twice on different routes, two different FFIs (must be refused).
func c08PathShapeModule(k int, modPath string) *c08Module {
	hides := [][]string{{pMD}, {pPAD}, nil}[k%3]
	m := &c08Module{Name: fmt.Sprintf("modpath%d", k), ModPath: modPath, GroveHides: hides}
	tag := "modpath[" + modPath + "] "
	m.add("lib/alpha", tag+"leaf")
	m.add("lib/trusted_t1", tag+"leaf")
	m.add("in-ner/d.ot/plain", tag+"leaf")
	for _, f := range c08FfiKeys {
		var imp0 []string
		if f != "none" {
			imp0 = []string{c08FfiShort[f]}
		}
		m.add("r/c1_"+f, tag+"direct "+f, imp0)
		m.add("r/c2_"+f, tag+"via one plain package "+f, []string{m.local("r/c1_" + f)})
		m.add("r/c3_"+f, tag+"via two plain packages "+f, []string{m.local("r/c2_" + f), m.local("lib/alpha")})
		m.add("r/c4_"+f, tag+"via three plain packages "+f, []string{m.local("in-ner/d.ot/plain")}, []string{m.local("r/c3_" + f), m.local("lib/trusted_t1")})
		m.add("r/dl_"+f, tag+"diamond-side "+f, []string{m.local("r/c1_" + f)})
		m.add("r/dr_"+f, tag+"diamond-side "+f, []string{m.local("r/c2_" + f), m.local("lib/trusted_t1")})
		m.add("r/dtop_"+f, tag+"diamond "+f, []string{m.local("r/dl_" + f)}, []string{m.local("r/dr_" + f), m.local("lib/alpha")})
	}
	// same FFI on two routes (translated), two different FFIs (refused)
	m.add("two/same_disk", tag+"same FFI twice", []string{m.local("r/c2_md")}, []string{m.local("r/c3_pd")})
	m.add("two/same_async", tag+"same FFI twice", []string{m.local("r/c3_mad"), m.local("r/c1_pad")})
	m.add("two/none_and_disk", tag+"none + FFI", []string{m.local("r/c3_none"), m.local("r/c4_md")})
	m.add("two/disk_async", tag+"two FFIs behind plain packages", []string{m.local("r/c2_md")}, []string{m.local("r/c2_mad")})
	m.add("two/disk_grove", tag+"two FFIs behind plain packages", []string{m.local("r/c3_pd"), m.local("r/c2_grove")})
	m.add("two/deep_async_grove", tag+"two FFIs behind plain packages", []string{m.local("r/c4_pad"), m.local("r/dtop_grove")})
	m.add("two/direct_and_deep", tag+"two FFIs, one direct one behind plain packages", []string{pMD}, []string{m.local("r/c3_mad")})
	for i, h := range hides {
		// the FFI hidden behind grove_ffi reached openly too, behind plain packages
		key := map[string]string{pMD: "md", pMAD: "mad", pPD: "pd", pPAD: "pad"}[h]
		m.add(fmt.Sprintf("two/hidden_and_open%d", i), tag+"hidden FFI also reached openly behind plain packages", []string{m.local("r/c3_grove")}, []string{m.local("r/c2_" + key)})
	}
	return m
}

// c08HiddenModule: the grove_ffi stub imports exactly `hides`.
func c08HiddenModule(k int, hides []string) *c08Module {
	m := &c08Module{Name: fmt.Sprintf("hidden%d", k), ModPath: fmt.Sprintf("example.org/h-%d/v.0", k), GroveHides: hides}
	m.add("lib/alpha", "leaf")
	m.add("c1", "hidden: via one plain package", []string{pGROVE})
	m.add("c2", "hidden: via two plain packages", []string{m.local("c1")})
	m.add("direct", "hidden: direct", []string{pGROVE, m.local("lib/alpha")})
	m.add("dl", "diamond-side", []string{m.local("c1")})
	m.add("dr", "diamond-side", []string{m.local("c1")})
	m.add("dtop", "hidden: diamond", []string{m.local("dl"), m.local("dr")})
	for i, h := range hides {
		// reaching the hidden FFI also on a path that does not pass through grove_ffi
		m.add(fmt.Sprintf("also%d", i), "hidden + same FFI reached openly", []string{pGROVE}, []string{h})
		m.add(fmt.Sprintf("alsovia%d", i), "hidden + same FFI reached openly via plain", []string{m.local("c2")}, []string{m.local(fmt.Sprintf("open%d", i))})
		m.add(fmt.Sprintf("open%d", i), "carrier", []string{h})
	}
	return m
}

// c08RandomModule: a random DAG of local packages with FFI/builtin leaves.
func c08RandomModule(rng *core.Rng, k, n int) *c08Module {
	m := &c08Module{Name: fmt.Sprintf("random%d", k), ModPath: fmt.Sprintf("example.net/r-%d/g.r", k)}
	ffis := []string{pMD, pMAD, pPD, pPAD, pGROVE}
	if rng.Bool() {
		m.GroveHides = []string{ffis[rng.Intn(4)]}
	}
	builtins := []string{"github.com/goose-lang/goose/machine", "github.com/goose-lang/primitive", "sync", "fmt", "log", "github.com/goose-lang/goose/machine/filesys", pGOKVTIME, pCFMUTEX}
	// bias each module to one or two FFI names so that not everything is refused
	fav := ffis[rng.Intn(5)]
	var dirs []string
	for i := 0; i < n; i++ {
		dir := fmt.Sprintf("g%02d/n%03d", i%7, i)
		if i%11 == 3 {
			dir = fmt.Sprintf("g-%d/d.%d/trusted_n%03d", i%3, i%2, i)
		}
		nf := 1 + rng.Intn(3)
		files := make([][]string, nf)
		ni := rng.Intn(5)
		for j := 0; j < ni && i > 0; j++ {
			f := rng.Intn(nf)
			lo := 0
			if i > 12 && rng.Chance(70) {
				lo = i - 12
			}
			files[f] = append(files[f], m.local(dirs[lo+rng.Intn(i-lo)]))
			if rng.Chance(25) {
				g := rng.Intn(nf)
				files[g] = append(files[g], files[f][len(files[f])-1])
			}
		}
		if rng.Chance(9) {
			f := rng.Intn(nf)
			if rng.Chance(75) {
				files[f] = append(files[f], fav)
			} else {
				files[f] = append(files[f], ffis[rng.Intn(5)])
			}
		}
		if rng.Chance(40) {
			f := rng.Intn(nf)
			files[f] = append(files[f], builtins[rng.Intn(len(builtins))])
		}
		// shuffle each file's imports
		for _, f := range files {
			for a := len(f) - 1; a > 0; a-- {
				b := rng.Intn(a + 1)
				f[a], f[b] = f[b], f[a]
			}
		}
		// the directory must be registered before goBase is used on it
		dirs = append(dirs, dir)
		p := m.add(dir, "random-dag")
		p.Files = m.splitClashes(files)
		for a := len(p.Files) - 1; a >= 0; a-- { // drop import-less extra files
			if len(p.Files[a]) == 0 && len(p.Files) > 1 {
				p.Files = append(p.Files[:a], p.Files[a+1:]...)
			}
		}
		if len(p.Files) == 0 {
			p.Files = [][]string{nil}
		}
	}
	return m
}

// ---------------------------------------------------------------- go list cross-check

func (m *c08Module) loadGoList() error {
	res := core.Exec(m.dir, core.GoEnv(), 5*time.Minute, "", "go", "list", "-tags", "goose", "-deps", "-json=ImportPath,Imports,Error,DepsErrors", "./...")
	if res.Code != 0 {
		return fmt.Errorf("go list failed: %s", firstLines(res.Stderr, 15))
	}
	g := map[string][]string{}
	dec := json.NewDecoder(strings.NewReader(res.Stdout))
	for dec.More() {
		var e struct {
			ImportPath string
			Imports    []string
			Error      *struct{ Err string }
		}
		if err := dec.Decode(&e); err != nil {
			return err
		}
		if e.Error != nil {
			return fmt.Errorf("go list: %s: %s", e.ImportPath, e.Error.Err)
		}
		g[e.ImportPath] = e.Imports
	}
	m.goListGraph = g
	return nil
}

// ---------------------------------------------------------------- judging

type c08Verdict struct {
	Module   string     `json:"module"`
	Package  string     `json:"package"`
	Shape    string     `json:"shape"`
	Files    [][]string `json:"imports_per_file"`
	ExpFfi   []string   `json:"expected_ffis"`
	ExpReq   []string   `json:"expected_requires"`
	Cmd      string     `json:"command"`
	Exit     int        `json:"exit_status"`
	Head     string     `json:"emitted_header,omitempty"`
	Tail     string     `json:"emitted_last_line,omitempty"`
	Problems []string   `json:"problems"`
}

func fmtImport(i c08Import) string {
	if i.Trusted {
		return "From Perennial.goose_lang.trusted Require Import " + i.Logical + "."
	}
	return "From Goose Require " + i.Logical + "."
}

type c08Run struct {
	r   *core.Run
	bin string
	mu  sync.Mutex
	// samples kept per shape family
	sampled map[string]int
}

func (c *c08Run) violate(sig, what string, v *c08Verdict) {
	v.Problems = append(v.Problems, sig)
	c.r.Violate(sig, what, v)
}

// judgeFile checks header, footer and imports of one emitted file.
func (c *c08Run) judgeFile(m *c08Module, p *c08Pkg, src string, v *c08Verdict) {
	r := c.r
	h := readHeader(src)
	if h.FirstDecl >= 0 {
		ls := strings.Split(src, "\n")
		v.Head = strings.Join(ls[:h.FirstDecl], "\n")
	} else {
		v.Head = clip(src, 600)
	}
	if h.EndCode {
		v.Tail = "End code."
	}
	exp := "none"
	if len(p.expFfis) == 1 {
		exp = p.expFfis[0]
	}
	got := "none"
	switch {
	case len(h.Ffi) == 1:
		got = h.Ffi[0]
	case len(h.Ffi) > 1:
		got = "multiple"
	}
	if got != exp {
		c.violate(fmt.Sprintf("wrong-ffi-expected-%s-got-%s", exp, got),
			fmt.Sprintf("package %s (%s) reaches FFI %s but the header selects %s", p.importPath, p.Shape, exp, got), v)
	}
	if got == "none" {
		if !h.Section {
			c.violate("generic-section-header-missing", fmt.Sprintf("package %s uses no FFI but the `Section code. / Context / Local Coercion` header is absent or incomplete", p.importPath), v)
		}
		if !h.EndCode || h.EndCount != 1 {
			c.violate("section-footer-missing", fmt.Sprintf("package %s: `End code.` is not the last sentence (count %d)", p.importPath, h.EndCount), v)
		}
	} else {
		if h.SectionAt >= 0 {
			c.violate("section-header-with-ffi-prelude", fmt.Sprintf("package %s: both an ffi prelude and `Section code.`", p.importPath), v)
		}
		if h.EndCount != 0 {
			c.violate("footer-without-section", fmt.Sprintf("package %s: `End code.` although an ffi prelude is imported", p.importPath), v)
		}
	}
	if h.Prelude != 1 {
		c.violate("generic-prelude-line-count", fmt.Sprintf("package %s: %d copies of `From Perennial.goose_lang Require Import prelude.`", p.importPath, h.Prelude), v)
	}
	for _, u := range h.Unknown {
		c.violate("unexpected-require-line", fmt.Sprintf("package %s: unexpected header line %q", p.importPath, u), v)
	}
	// the import list comes before the ffi prelude / section header
	limit := -1
	if len(h.FfiAt) > 0 {
		limit = h.FfiAt[0]
	} else if h.SectionAt >= 0 {
		limit = h.SectionAt
	}
	for _, at := range h.ImportsAt {
		if limit >= 0 && at > limit {
			c.violate("require-after-header", fmt.Sprintf("package %s: a Require line follows the ffi prelude / section header", p.importPath), v)
		}
	}

	// imports: exactly once each, right namespace, right logical path
	type key struct {
		t bool
		p string
	}
	obs := map[key]int{}
	for _, g := range h.Goose {
		obs[key{false, g}]++
	}
	for _, t := range h.Trusted {
		obs[key{true, t}]++
	}
	expSet := map[key]bool{}
	for _, e := range p.expImports {
		k := key{e.Trusted, e.Logical}
		expSet[k] = true
		switch n := obs[k]; {
		case n == 1:
		case n > 1:
			c.violate("import-duplicated", fmt.Sprintf("package %s: `%s` appears %d times", p.importPath, fmtImport(e), n), v)
		default:
			// the known way of getting it wrong: directory mapped, base name raw
			unm := logicalPath(path.Dir(e.Go)) + "." + path.Base(e.Go)
			if obs[key{e.Trusted, unm}] > 0 && unm != e.Logical {
				_, perr := gl.ParseFile(src)
				what := fmt.Sprintf("import %q must be required as `%s` (the output file of that package is %s) but the header says `%s` — the last path component is printed unmapped",
					e.Go, fmtImport(e), outputRel(e.Go), fmtImport(c08Import{Trusted: e.Trusted, Logical: unm}))
				if perr != nil {
					what += fmt.Sprintf("; the Coq reader rejects the file: %v", perr)
				}
				c.violate("import-base-name-unmapped", what, v)
				expSet[key{e.Trusted, unm}] = true
			} else if obs[key{!e.Trusted, e.Logical}] > 0 {
				c.violate("import-in-wrong-namespace", fmt.Sprintf("package %s: %q expected as `%s`", p.importPath, e.Go, fmtImport(e)), v)
				expSet[key{!e.Trusted, e.Logical}] = true
			} else {
				c.violate("import-missing", fmt.Sprintf("package %s imports %q but `%s` is absent", p.importPath, e.Go, fmtImport(e)), v)
			}
		}
	}
	for k, n := range obs {
		if expSet[k] {
			continue
		}
		isBuiltin := false
		for b := range specBuiltin {
			if logicalPath(b) == k.p {
				isBuiltin = true
			}
		}
		if isBuiltin {
			c.violate("builtin-import-required", fmt.Sprintf("package %s: builtin package required as `%s` (%d times)", p.importPath, fmtImport(c08Import{Trusted: k.t, Logical: k.p}), n), v)
		} else {
			c.violate("import-unexpected", fmt.Sprintf("package %s: `%s` corresponds to no import of the package", p.importPath, fmtImport(c08Import{Trusted: k.t, Logical: k.p})), v)
		}
	}
	// sorted within each namespace
	if !sort.StringsAreSorted(h.Goose) || !sort.StringsAreSorted(h.Trusted) {
		c.violate("imports-unsorted", fmt.Sprintf("package %s: Require lines are not in sorted order: %v", p.importPath, h.Order), v)
	}
	r.Count("require_lines_checked", int64(len(h.Goose)+len(h.Trusted)))

	// the Coq reader must see the same header (packages of the base-name atom excepted: the line does not lex)
	if p.Atom == "" {
		f, err := gl.ParseFile(src)
		if err != nil {
			c.violate("emitted-file-unreadable", fmt.Sprintf("package %s: the Coq reader rejects the emitted file: %v", p.importPath, err), v)
			return
		}
		nreq, nsec, nend := 0, 0, 0
		for _, it := range f.Items {
			switch it.Kind {
			case "require":
				nreq++
			case "section", "context", "coercion":
				nsec++
			case "end":
				nend++
			}
		}
		wantSec := 0
		if h.Section {
			wantSec = 3
		}
		if nreq != h.Prelude+len(h.Ffi)+len(h.Goose)+len(h.Trusted)+len(h.Unknown) || nsec != wantSec || nend != h.EndCount {
			r.Inconclusive("line-reader-and-coq-reader-disagree")
		}
		r.Count("files_read_by_coq_reader", 1)
	}
}

// runBatch translates pkgs (which must all translate) in one invocation and judges them.
func (c *c08Run) runBatch(m *c08Module, pkgs []*c08Pkg, tag string, depth int) {
	c.runBatchFlags(m, pkgs, tag, depth, nil)
}

func (c *c08Run) runBatchFlags(m *c08Module, pkgs []*c08Pkg, tag string, depth int, flags []string) {
	c.runBatchInv(m, pkgs, tag, depth, flags, nil)
}

// c08Inv is the form of one invocation: working directory, how -out is spelled, arguments before the
// patterns, and the patterns (which must select exactly pkgs). nil = from the module root, one ./dir per package.
type c08Inv struct {
	Shape    string
	Cwd      string
	OutArg   func(out string) string // spelling of the absolute directory `out` ("" = as is)
	Pre      []string
	Patterns []string
}

func (c *c08Run) runBatchInv(m *c08Module, pkgs []*c08Pkg, tag string, depth int, flags []string, inv *c08Inv) {
	r := c.r
	out := filepath.Join(r.Scratch, "c08out", m.Name, tag)
	cwd := m.dir
	outArg := out
	var pre, patterns []string
	if inv != nil {
		cwd, pre, patterns = inv.Cwd, inv.Pre, inv.Patterns
		if inv.OutArg != nil {
			outArg = inv.OutArg(out)
		}
		r.Count("invocation_shape_"+inv.Shape, 1)
		r.Count("packages_judged_under_invocation_shapes", int64(len(pkgs)))
	} else {
		for _, p := range pkgs {
			patterns = append(patterns, "./"+p.Dir)
		}
	}
	args := append([]string{"-out", outArg}, pre...)
	args = append(args, flags...)
	args = append(args, patterns...)
	iv := runGoose(c.bin, cwd, nil, args...)
	r.Count("goose_invocations", 1)
	if iv.res.TimedOut {
		r.Inconclusive("goose-watchdog")
		return
	}
	if cr, why := iv.crashed(); cr {
		if len(pkgs) > 1 {
			// find the package(s) responsible: every package on its own
			r.Count("batches_crashed_and_split", 1)
			core.Parallel(len(pkgs), 16, func(i int) {
				c.runBatchFlags(m, pkgs[i:i+1], fmt.Sprintf("%s-solo%d", tag, i), depth+1, flags)
			})
			return
		}
		p := pkgs[0]
		v := c.verdict(m, p, iv)
		exp := "none"
		if len(p.expFfis) == 1 {
			exp = p.expFfis[0]
		}
		c.violate("unexpected-crash-expected-ffi-"+exp, fmt.Sprintf("goose crashed (%s) on package %s (%s), which reaches exactly one FFI (%s) and must be translated", why, p.importPath, p.Shape, exp), v)
		c.judged(p, v)
		return
	}
	t := readTree(out)
	rep := parseStderr(iv.res.Stderr)
	expected := map[string]*c08Pkg{}
	for _, p := range pkgs {
		expected[outputRel(p.importPath)] = p
	}
	for name := range t {
		if expected[name] == nil {
			v := &c08Verdict{Module: m.Name, Package: name, Cmd: iv.cmdline(), Exit: iv.Code}
			c.violate("output-file-at-unexpected-path", fmt.Sprintf("file %s under -out corresponds to no translated package", name), v)
		}
	}
	failedDirs := map[string]bool{}
	for _, f := range rep.SrcFiles {
		failedDirs[filepath.Dir(f)] = true
	}
	for _, p := range pkgs {
		v := c.verdict(m, p, iv)
		src, ok := t[outputRel(p.importPath)]
		if !ok {
			if failedDirs[filepath.Join(m.dir, p.Dir)] || len(rep.LoadFailed) > 0 {
				if blk := c06BlocksOf(iv.res.Stderr, filepath.Join(m.dir, p.Dir), p.importPath); len(pkgs) > 1 && strings.Contains(blk, "package uses multiple ffis") {
					// refused inside a multi-package invocation: the package reaches at most one FFI by construction, and
					// what goose decides for a package does not depend on what else is translated with it, so this is
					// judged here and not after a retry of the package alone
					c.violate("one-ffi-package-refused-as-multiple-ffis", fmt.Sprintf("package %s reaches the FFIs %v (reference walk of its import graph) but goose refuses it when it is translated together with %d other packages: %s", p.importPath, refFfis(m.generatedGraph(), p.importPath), len(pkgs)-1, firstLines(blk, 2)), v)
					c.judged(p, v)
					continue
				}
				if depth == 0 && len(pkgs) > 1 {
					// once more on its own (a transient `go list` failure must not cost the case)
					r.Count("untranslated_packages_retried_alone", 1)
					c.runBatchFlags(m, []*c08Pkg{p}, fmt.Sprintf("%s-retry-%s", tag, strings.ReplaceAll(p.Dir, "/", "_")), depth+1, flags)
					continue
				}
				if strings.Contains(iv.res.Stderr, "package uses multiple ffis") {
					// this batch holds only packages whose import graph reaches at most one FFI (by construction,
					// cross-checked with go list): the refusal reserved for two FFIs is wrong here
					c.violate("one-ffi-package-refused-as-multiple-ffis", fmt.Sprintf("package %s reaches the FFIs %v (reference walk of its import graph) but goose refuses it: %s", p.importPath, refFfis(m.generatedGraph(), p.importPath), firstLines(iv.res.Stderr, 2)), v)
					c.judged(p, v)
					continue
				}
				if strings.Contains(iv.res.Stderr, "imported from a path that ends in") || strings.Contains(iv.res.Stderr, "does not map to a Coq identifier") {
					// (since fix fabb596) an import whose package name differs from the last element of its path, or
					// whose path has an element that is no Coq identifier, is refused: the Require line could not name
					// what the body says. A refusal is a legitimate outcome, not a missing observation.
					r.Count("packages_refused_for_import_name_or_path", 1)
					continue
				}
				// the generated package itself did not translate: says nothing about headers
				r.Inconclusive("generated-package-did-not-translate")
				r.Set("untranslated_example", map[string]interface{}{"package": p.importPath, "command": iv.cmdline(), "stderr": clip(iv.res.Stderr, 1500)})
				if os.Getenv("VERIF_DEBUG") != "" {
					fmt.Fprintf(os.Stderr, "DEBUG did not translate: %s\n%s\n", p.importPath, clip(iv.res.Stderr, 3000))
				}
				continue
			}
			c.violate("output-file-missing", fmt.Sprintf("package %s translated without error but %s does not exist under -out", p.importPath, outputRel(p.importPath)), v)
			c.judged(p, v)
			continue
		}
		c.judgeFile(m, p, src, v)
		c.judged(p, v)
	}
	if iv.Code != 0 && len(rep.SrcFiles) == 0 && len(rep.LoadFailed) == 0 {
		r.Inconclusive("nonzero-exit-without-diagnostic")
	}
}

func (c *c08Run) verdict(m *c08Module, p *c08Pkg, iv *invocation) *c08Verdict {
	v := &c08Verdict{Module: m.Name + " (module " + m.ModPath + ", grove_ffi stub imports " + fmt.Sprint(m.GroveHides) + ")", Package: p.importPath, Shape: p.Shape, Files: p.Files, ExpFfi: p.expFfis, Cmd: iv.cmdline(), Exit: iv.Code}
	cmd := iv.cmdline()
	if len(cmd) > 400 {
		v.Cmd = cmd[:400] + "… (" + fmt.Sprint(len(iv.Args)-3) + " patterns)"
	}
	for _, e := range p.expImports {
		v.ExpReq = append(v.ExpReq, fmtImport(e))
	}
	return v
}

func (c *c08Run) judged(p *c08Pkg, v *c08Verdict) {
	r := c.r
	r.Eval(1)
	r.Count("packages_judged", 1)
	nimp := len(p.expImports)
	if nimp > 3 {
		nimp = 3
	}
	shape := p.Shape
	r.Distinct(fmt.Sprintf("%s|ffis=%v|files=%d|imports=%d", shape, p.expFfis, len(p.Files), nimp))
	if len(v.Problems) == 0 {
		v.Problems = []string{}
	}
	want := 4
	if strings.HasPrefix(p.Shape, "pair") {
		want = 10
	}
	c.mu.Lock()
	defer c.mu.Unlock()
	fam := strings.SplitN(p.Shape, " ", 2)[0]
	if i := strings.IndexAny(fam, "-:"); i > 0 {
		fam = fam[:i]
	}
	if len(v.Problems) > 0 || c.sampled[fam] < want {
		c.sampled[fam]++
		r.Sample(40, v)
	}
}

// runRefused handles a package reaching two different FFIs: it must be refused, by a diagnostic, not a crash.
func (c *c08Run) runRefused(m *c08Module, p *c08Pkg, tag string, companion *c08Pkg) {
	r := c.r
	out := filepath.Join(r.Scratch, "c08out", m.Name, tag)
	args := []string{"-out", out, "./" + p.Dir}
	if companion != nil {
		args = append(args, "./"+companion.Dir)
	}
	iv := runGoose(c.bin, m.dir, nil, args...)
	r.Count("goose_invocations", 1)
	if iv.res.TimedOut {
		r.Inconclusive("goose-watchdog")
		return
	}
	v := c.verdict(m, p, iv)
	t := readTree(out)
	_, wrote := t[outputRel(p.importPath)]
	r.Count("two_ffi_packages_judged", 1)
	if cr, why := iv.crashed(); cr {
		what := fmt.Sprintf("package %s (%s) reaches two different FFIs %v; goose does not refuse it with a diagnostic but crashes (%s, exit status %d)", p.importPath, p.Shape, p.expFfis, why, iv.Code)
		if companion != nil {
			_, cw := t[outputRel(companion.importPath)]
			what += fmt.Sprintf("; the co-translated plain package %s was written: %v", companion.importPath, cw)
		}
		v.Head = firstLines(iv.res.Stderr, 8)
		c.violate("two-ffis-crash", what, v)
	} else if wrote {
		v.Head = firstLines(t[outputRel(p.importPath)], 10)
		c.violate("two-ffis-translated", fmt.Sprintf("package %s (%s) reaches two different FFIs %v and is translated instead of refused", p.importPath, p.Shape, p.expFfis), v)
	} else if iv.Code == 0 {
		c.violate("two-ffis-silently-dropped", fmt.Sprintf("package %s reaches two FFIs %v: no file, but exit status 0 and no diagnostic", p.importPath, p.expFfis), v)
	} else {
		r.Count("two_ffi_packages_refused_cleanly", 1)
		if companion != nil {
			if src, ok := t[outputRel(companion.importPath)]; ok {
				cv := c.verdict(m, companion, iv)
				c.judgeFile(m, companion, src, cv)
			}
		}
	}
	c.judged(p, v)
}

func (c *c08Run) runModule(m *c08Module) error {
	r := c.r
	dir := filepath.Join(r.Scratch, "c08mod", m.Name)
	if err := m.write(dir); err != nil {
		return err
	}
	if out, ok := settle(dir, "./..."); !ok {
		return fmt.Errorf("go list in generated module %s failed: %s", m.Name, firstLines(out, 10))
	}
	res := core.Exec(dir, core.GoEnv(), 5*time.Minute, "", "go", "build", "-tags", "goose", "./...")
	if res.Code != 0 {
		return fmt.Errorf("generated module %s does not compile (generator defect, not a finding): %s", m.Name, firstLines(res.Stdout+res.Stderr, 15))
	}
	if err := m.loadGoList(); err != nil {
		return err
	}
	gen := m.generatedGraph()
	var normal, refused, partial []*c08Pkg
	var companion *c08Pkg
	for _, p := range m.Pkgs {
		p.expFfis = refFfis(gen, p.importPath)
		p.expImports = refImports(p.allImports())
		// cross-check the by-construction graph with go list's
		real := refFfis(m.goListGraph, p.importPath)
		li := map[string]bool{}
		for _, i := range m.goListGraph[p.importPath] {
			li[i] = true
		}
		same := fmt.Sprint(real) == fmt.Sprint(p.expFfis) && len(m.goListGraph[p.importPath]) > 0 == (len(p.allImports()) > 0)
		for _, i := range p.allImports() {
			if !li[i] {
				same = false
			}
		}
		if !same {
			r.Inconclusive("generated-graph-differs-from-go-list")
			continue
		}
		r.Count("packages_cross_checked_with_go_list", 1)
		if len(p.expFfis) >= 2 {
			refused = append(refused, p)
		} else if p.Partial {
			partial = append(partial, p)
		} else {
			normal = append(normal, p)
			if companion == nil && len(p.allImports()) == 0 && p.Atom == "" {
				companion = p
			}
		}
	}
	// normal packages: few invocations with many packages each
	const chunk = 64
	var batches [][]*c08Pkg
	for i := 0; i < len(normal); i += chunk {
		j := i + chunk
		if j > len(normal) {
			j = len(normal)
		}
		batches = append(batches, normal[i:j])
	}
	core.Parallel(len(batches), 8, func(i int) { c.runBatch(m, batches[i], fmt.Sprintf("b%d", i), 0) })
	core.Parallel(len(refused), 16, func(i int) { c.runRefused(m, refused[i], fmt.Sprintf("r%d", i), companion) })
	if len(partial) > 0 {
		c.runBatchFlags(m, partial, "partial", 0, []string{"-ignore-errors"})
	}
	c.runShapes(m, normal)
	c.runFfiClientPairs(m, normal)
	return nil
}

// runFfiClientPairs: the FFI decision for a package must not depend on which other packages are translated in
// the invocation nor on their order. Every client of every FFI (direct, and behind one plain package) is
// translated together with every other client, in both orders (2-package invocations), and all clients
// together in sorted and in reverse order; each file is judged against the reference of its own package.
func (c *c08Run) runFfiClientPairs(m *c08Module, normal []*c08Pkg) {
	var direct, via []*c08Pkg
	for _, p := range normal {
		b := path.Base(p.Dir)
		switch {
		case strings.HasPrefix(b, "c1_"):
			direct = append(direct, p)
		case strings.HasPrefix(b, "c2_"):
			via = append(via, p)
		}
	}
	if len(direct) < 3 {
		return
	}
	type job struct{ a, b *c08Pkg }
	var jobs []job
	for _, a := range direct {
		for _, b := range direct {
			if a != b {
				jobs = append(jobs, job{a, b})
			}
		}
	}
	// a client behind a plain package with every direct client of another FFI, both orders (main module only:
	// the other modules repeat the direct pairs under their module paths)
	if m.Name == "main" {
		for _, a := range via {
			for _, b := range direct {
				if strings.TrimPrefix(path.Base(a.Dir), "c2_") != strings.TrimPrefix(path.Base(b.Dir), "c1_") {
					jobs = append(jobs, job{a, b}, job{b, a})
				}
			}
		}
	} else if m.Name != "modpath0" {
		jobs = jobs[:0]
	}
	mk := func(pkgs []*c08Pkg, shape string) *c08Inv {
		inv := &c08Inv{Shape: shape, Cwd: m.dir}
		for _, p := range pkgs {
			inv.Patterns = append(inv.Patterns, "./"+p.Dir)
		}
		return inv
	}
	core.Parallel(len(jobs), 8, func(i int) {
		set := []*c08Pkg{jobs[i].a, jobs[i].b}
		c.runBatchInv(m, set, fmt.Sprintf("pair%d", i), 1, nil, mk(set, "ffi-client-pair-in-both-orders"))
	})
	all := append(append([]*c08Pkg{}, direct...), via...)
	rev := make([]*c08Pkg, len(all))
	for i, p := range all {
		rev[len(all)-1-i] = p
	}
	c.runBatchInv(m, all, "clients-fwd", 1, nil, mk(all, "all-ffi-clients-one-invocation"))
	c.runBatchInv(m, rev, "clients-rev", 1, nil, mk(rev, "all-ffi-clients-one-invocation"))
}

// runShapes judges the same headers under other forms of the command line: what a file's header and path
// must be follows from the package alone, not from how the package was selected or where goose was started.
func (c *c08Run) runShapes(m *c08Module, normal []*c08Pkg) {
	r := c.r
	if len(normal) < 4 {
		return
	}
	// a spread of the module's packages (every 5th, at most 48), always including the first ones (the leaves)
	var sample []*c08Pkg
	step := len(normal)/48 + 1
	for i := 0; i < len(normal); i += step {
		sample = append(sample, normal[i])
	}
	elsewhere := filepath.Join(r.Scratch, "c08elsewhere", m.Name)
	os.MkdirAll(elsewhere, 0o755)
	sub := filepath.Join(m.dir, sample[0].Dir)
	var invs []*c08Inv
	var sets [][]*c08Pkg
	add := func(inv *c08Inv, pkgs []*c08Pkg) {
		invs = append(invs, inv)
		sets = append(sets, pkgs)
	}
	// import paths, -dir, started in an unrelated directory, -out relative to that directory with a trailing slash
	{
		inv := &c08Inv{Shape: "import-paths-with-dir-flag-from-elsewhere-relative-out", Cwd: elsewhere, Pre: []string{"-dir", m.dir},
			OutArg: func(out string) string { rel, _ := filepath.Rel(elsewhere, out); return "./" + rel + "/" }}
		for _, p := range sample {
			inv.Patterns = append(inv.Patterns, p.importPath)
		}
		add(inv, sample)
	}
	// started in a package directory of the module, ../ patterns
	{
		inv := &c08Inv{Shape: "from-subdirectory-with-parent-patterns", Cwd: sub, OutArg: func(out string) string { return out + "/" }}
		for _, p := range sample {
			rel, err := filepath.Rel(sub, filepath.Join(m.dir, p.Dir))
			if err != nil {
				return
			}
			if !strings.HasPrefix(rel, ".") {
				rel = "./" + rel
			}
			inv.Patterns = append(inv.Patterns, rel)
		}
		add(inv, sample)
	}
	// every package selected several times: relative path, import path, relative path with a trailing slash
	{
		inv := &c08Inv{Shape: "each-package-selected-three-times", Cwd: m.dir}
		for _, p := range sample {
			inv.Patterns = append(inv.Patterns, "./"+p.Dir)
		}
		for i := len(sample) - 1; i >= 0; i-- {
			inv.Patterns = append(inv.Patterns, sample[i].importPath, "./"+sample[i].Dir+"/")
		}
		add(inv, sample)
	}
	// recursive patterns: a directory all of whose packages are translatable, plus an explicit member
	byTop := map[string][]*c08Pkg{}
	okTop := map[string]bool{}
	for _, p := range m.Pkgs {
		okTop[strings.SplitN(p.Dir, "/", 2)[0]] = true
	}
	isNormal := map[*c08Pkg]bool{}
	for _, p := range normal {
		isNormal[p] = true
	}
	for _, p := range m.Pkgs {
		top := strings.SplitN(p.Dir, "/", 2)[0]
		if !isNormal[p] || !strings.Contains(p.Dir, "/") {
			okTop[top] = false
		}
		byTop[top] = append(byTop[top], p)
	}
	var tops []string
	for t, ok := range okTop {
		if ok && len(byTop[t]) >= 2 {
			tops = append(tops, t)
		}
	}
	sort.Strings(tops)
	if len(tops) > 3 {
		tops = tops[:3]
	}
	if len(tops) > 0 {
		inv := &c08Inv{Shape: "recursive-patterns-plus-members", Cwd: m.dir}
		var set []*c08Pkg
		for _, t := range tops {
			inv.Patterns = append(inv.Patterns, "./"+t+"/...", "./"+byTop[t][0].Dir, m.ModPath+"/"+t+"/...")
			set = append(set, byTop[t]...)
		}
		add(inv, set)
	}
	core.Parallel(len(invs), 4, func(i int) {
		c.runBatchInv(m, sets[i], fmt.Sprintf("shape%d", i), 1, nil, invs[i])
	})
}

func runC08(r *core.Run) (bool, string) {
	r.SetRule("one evaluation = one generated package whose emitted header, footer, Require lines and output path were compared with the reference computed from its import graph " +
		"(FFI table and builtin table written out in the checker; graph known by construction and cross-checked with `go list -deps`); " +
		"packages reaching two FFIs are judged on refusal (own invocation each). " +
		"Library-package family (c08libs.go): one client per exported member of every importable package of the goose, primitive and std modules and of look-alike user packages, " +
		"then import forms, a second FFI import and combinations; a client goose refuses counts as one evaluation (rejected), a translated one is also judged by the qualified identifiers of its body. distinct = (graph shape incl. carrier pair and file layout, expected FFI set, number of files, number of required imports capped at 3)")
	r.Assume("`go list -deps` reports the import graph the Go toolchain uses")
	r.Assume("the grove_ffi package is a local stub module at import path github.com/mit-pdos/gokv/grove_ffi (FFI-ness is by import path)")
	bin, err := gooseBin(r, false)
	if err != nil {
		return false, "cannot build goose: " + err.Error()
	}
	c := &c08Run{r: r, bin: bin, sampled: map[string]int{}}
	mods := []*c08Module{c08MainModule()}
	hides := [][]string{nil, {pMD}, {pMAD}, {pPD}, {pPAD}}
	for k, h := range hides {
		mods = append(mods, c08HiddenModule(k, h))
	}
	for k, mp := range c08ModulePathShapes {
		mods = append(mods, c08PathShapeModule(k, mp))
	}
	rng := core.NewRng(r.Seed, "c08-random")
	nrand := r.Pick(1, 30)
	for k := 0; k < nrand; k++ {
		mods = append(mods, c08RandomModule(rng.Fork(fmt.Sprint(k)), k, r.Pick(40, 90)))
	}
	var errs []string
	var emu sync.Mutex
	// the library-package family (c08libs.go) runs beside the generated modules
	libsDone := make(chan struct{})
	go func() {
		defer close(libsDone)
		if err := c.runLibraryFamily(); err != nil {
			emu.Lock()
			errs = append(errs, err.Error())
			emu.Unlock()
			r.Inconclusive("module-setup-failed")
		}
	}()
	core.Parallel(len(mods), 4, func(i int) {
		if err := c.runModule(mods[i]); err != nil {
			emu.Lock()
			errs = append(errs, err.Error())
			emu.Unlock()
			r.Inconclusive("module-setup-failed")
		}
	})
	<-libsDone
	r.Set("modules", len(mods))
	if len(errs) > 0 {
		r.Set("module_setup_errors", errs)
		fmt.Fprintln(os.Stderr, "C08: module setup errors:", strings.Join(errs, "\n"))
	}
	judged := r.GetCount("packages_judged")
	if judged < 100 {
		return false, fmt.Sprintf("only %d packages judged (floor 100) %v", judged, errs)
	}
	if r.GetCount("two_ffi_packages_judged") < 5 {
		return false, "fewer than 5 two-FFI packages judged"
	}
	if n := r.GetCount("library_family_library_packages_enumerated"); n < 4 {
		return false, fmt.Sprintf("only %d importable packages found in the support-library modules (floor 4) %v", n, errs)
	}
	if n := r.GetCount("library_family_clients_translated"); n < 30 {
		return false, fmt.Sprintf("only %d clients of the library-package family translated (floor 30) %v", n, errs)
	}
	return true, ""
}
