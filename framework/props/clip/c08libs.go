package clip

import (
	"encoding/json"
	"fmt"
	"go/ast"
	"go/parser"
	"go/token"
	"os"
	"path"
	"path/filepath"
	"regexp"
	"sort"
	"strings"
	"time"

	"verif/core"
	"verif/gl"
)

// C08, dimension "WHICH package of the support libraries (and of their look-alikes) is imported".
//
// The packages are not written out here: they are enumerated from the modules the way the go command sees
// them from a client module (github.com/goose-lang/goose = the tree under test, github.com/goose-lang/primitive
// and github.com/goose-lang/std from the module cache), together with user packages whose import paths merely
// share a prefix or a suffix with them (packages of the client's own module, and local modules whose paths are
// siblings of, or nested below, the library roots). For every importable package and every exported member with
// a renderable signature a small client is generated and translated; a client goose refuses is judged
// "rejected", a translated one is judged twice:
//
//   - by the reference of c08.go (FFI of the import graph, Require lines = imports minus the builtin table);
//   - by its own BODY, independently of any import table: a qualified identifier `pkg.Name` after the header
//     whose package is not the FFI package the prelude line provides needs the Require line of that package,
//     and a Require line of a package whose function / constant the client uses needs such an identifier.
//
// Then the import FORM (renamed, renamed to its own name, blank, blank + plain, dot) and a second, FFI, import
// are varied per package, and random combinations of several packages are imported together.

const c08Q = "\x00Q." // qualifier placeholder in rendered member types

type c08Member struct {
	Kind    string   `json:"kind"` // func | const | type
	Name    string   `json:"name"`
	Params  []string `json:"-"`
	Results []string `json:"-"`
}

func (mb c08Member) String() string {
	q := func(xs []string) string { return strings.ReplaceAll(strings.Join(xs, ", "), c08Q, "") }
	switch mb.Kind {
	case "func":
		return fmt.Sprintf("func %s(%s) (%s)", mb.Name, q(mb.Params), q(mb.Results))
	case "const":
		return fmt.Sprintf("const %s %s", mb.Name, q(mb.Results))
	}
	return "type " + mb.Name
}

// c08Importee is one package a client can import.
type c08Importee struct {
	Path    string
	Name    string
	Module  string
	Class   string // library | look-alike in the client's module | look-alike in a local module
	Imports []string
	Members []c08Member // usable members in preference order (functions, constants, types; by name)
	Chosen  []int       // indices of the members the sweep uses in this run
	NotUsed int         // exported members without a renderable use
	best    int         // member the second phase uses (first chosen one whose sweep client translated)

	// what the sweep saw
	translated, rejected int
	withRequire          int // translated clients whose header has the Require line of this package
	withRefs             int // translated clients whose body has qualified references into it
	ffiSeen              map[string]bool
	refExamples          map[string]bool
}

func (im *c08Importee) short() string {
	for _, pre := range []string{"github.com/goose-lang/"} {
		if im.Class == "library" && strings.HasPrefix(im.Path, pre) {
			return strings.TrimPrefix(im.Path, pre)
		}
	}
	return im.Path
}

type c08LibImport struct {
	Path   string `json:"path"`
	Name   string `json:"package_name"`
	Form   string `json:"form"` // plain | renamed | renamed-own-name | blank | dot
	Alias  string `json:"alias,omitempty"`
	Member string `json:"member,omitempty"`
	File   int    `json:"file"`
	im     *c08Importee
	mb     *c08Member
}

type c08LibClient struct {
	p       *c08Pkg
	Family  string
	Imports []c08LibImport
	primary *c08Importee
	srcs    []string
	outcome string
}

var c08LibModules = []string{"github.com/goose-lang/goose", "github.com/goose-lang/primitive", "github.com/goose-lang/std"}

type c08StubModule struct {
	Mod, Dir string
	Pkgs     []string // "" = the module's root package
}

// look-alikes in local modules: siblings of the library roots, and modules NESTED below them (what a future
// sub-package of the library would look like to a rule that goes by path prefix)
var c08LookalikeModules = []c08StubModule{
	{"github.com/goose-lang/goosefoo", "./stubs/goosefoo", []string{"machine", "machine/disk"}},
	{"github.com/goose-lang/primitivex", "./stubs/primitivex", []string{"", "filesys"}},
	{"github.com/goose-lang/primitive/extra", "./stubs/prim_extra", []string{"", "filesys"}},
	{"github.com/goose-lang/goose/machine/extra", "./stubs/machine_extra", []string{"", "trusted_fs"}},
	{"github.com/goose-lang/goose/machinex", "./stubs/machinex", []string{"", "disk"}},
	{"github.com/goose-lang/std/extra", "./stubs/std_extra", []string{""}},
	{"github.com/mit-pdos/gokv", "./stubs/gokv", []string{"timex", "time/sub", "grove_ffi/sub"}},
	{"github.com/mit-pdos/vmvcc", "./stubs/vmvcc", []string{"cfmutexx", "cfmutex/sub"}},
}

// look-alikes in the client's own module (import path = module path + "/" + this)
var c08LookalikeDirs = []string{
	"machine", "machine/disk", "machine/filesys", "machine/async_disk",
	"primitive", "primitive/filesys", "primitive/disk",
	"goose/machine", "goose/machine/disk",
	"github.com/goose-lang/primitive/filesys", "github.com/goose-lang/goose/machine",
	"std", "sync", "fmt", "log",
}

const c08LibModPath = "example.com/x"

func c08LookalikeSource(name string) string {
	return fmt.Sprintf("package %s\n\ntype T struct {\n\tV uint64\n}\n\nconst K uint64 = 7\n\nfunc F(x uint64) uint64 {\n\treturn x + 1\n}\n", name)
}

// ---------------------------------------------------------------- members of a package, from its source

var c08Basic = map[string]bool{"bool": true, "string": true, "byte": true, "uint8": true, "uint32": true, "uint64": true, "int": true, "error": true, "any": true}

func c08RenderType(e ast.Expr, local map[string]bool) (string, bool) {
	switch t := e.(type) {
	case *ast.Ident:
		if c08Basic[t.Name] {
			return t.Name, true
		}
		if local[t.Name] && ast.IsExported(t.Name) {
			return c08Q + t.Name, true
		}
	case *ast.ParenExpr:
		return c08RenderType(t.X, local)
	case *ast.StarExpr:
		if s, ok := c08RenderType(t.X, local); ok {
			return "*" + s, true
		}
	case *ast.ArrayType:
		if t.Len == nil {
			if s, ok := c08RenderType(t.Elt, local); ok {
				return "[]" + s, true
			}
		}
	case *ast.MapType:
		k, ok1 := c08RenderType(t.Key, local)
		v, ok2 := c08RenderType(t.Value, local)
		if ok1 && ok2 {
			return "map[" + k + "]" + v, true
		}
	case *ast.FuncType:
		if t.TypeParams != nil {
			return "", false
		}
		ps, ok1 := c08RenderFields(t.Params, local)
		rs, ok2 := c08RenderFields(t.Results, local)
		if ok1 && ok2 {
			s := "func(" + strings.Join(ps, ", ") + ")"
			if len(rs) == 1 {
				s += " " + rs[0]
			} else if len(rs) > 1 {
				s += " (" + strings.Join(rs, ", ") + ")"
			}
			return s, true
		}
	case *ast.InterfaceType:
		if t.Methods == nil || len(t.Methods.List) == 0 {
			return "interface{}", true
		}
	}
	return "", false
}

func c08RenderFields(fl *ast.FieldList, local map[string]bool) ([]string, bool) {
	var out []string
	if fl == nil {
		return out, true
	}
	for _, f := range fl.List {
		if _, variadic := f.Type.(*ast.Ellipsis); variadic {
			return nil, false
		}
		s, ok := c08RenderType(f.Type, local)
		if !ok {
			return nil, false
		}
		n := len(f.Names)
		if n == 0 {
			n = 1
		}
		for i := 0; i < n; i++ {
			out = append(out, s)
		}
	}
	return out, true
}

// c08ParseMembers reads the exported functions, constants and types of a package from its files.
func c08ParseMembers(dir string, goFiles []string) (members []c08Member, notUsed int) {
	fset := token.NewFileSet()
	var files []*ast.File
	for _, gf := range goFiles {
		f, err := parser.ParseFile(fset, filepath.Join(dir, gf), nil, parser.SkipObjectResolution)
		if err != nil {
			continue
		}
		files = append(files, f)
	}
	local := map[string]bool{}
	for _, f := range files {
		for _, d := range f.Decls {
			if gd, ok := d.(*ast.GenDecl); ok && gd.Tok == token.TYPE {
				for _, s := range gd.Specs {
					ts := s.(*ast.TypeSpec)
					if ts.TypeParams == nil {
						local[ts.Name.Name] = true
					}
				}
			}
		}
	}
	var funcs, consts, types []c08Member
	for _, f := range files {
		for _, d := range f.Decls {
			switch d := d.(type) {
			case *ast.FuncDecl:
				if d.Recv != nil || !ast.IsExported(d.Name.Name) {
					continue
				}
				ps, ok1 := c08RenderFields(d.Type.Params, local)
				rs, ok2 := c08RenderFields(d.Type.Results, local)
				if d.Type.TypeParams != nil || !ok1 || !ok2 {
					notUsed++
					continue
				}
				funcs = append(funcs, c08Member{Kind: "func", Name: d.Name.Name, Params: ps, Results: rs})
			case *ast.GenDecl:
				switch d.Tok {
				case token.CONST:
					for _, s := range d.Specs {
						vs := s.(*ast.ValueSpec)
						for i, n := range vs.Names {
							if !ast.IsExported(n.Name) {
								continue
							}
							ty := ""
							if vs.Type != nil {
								if s, ok := c08RenderType(vs.Type, local); ok {
									ty = s
								}
							} else if i < len(vs.Values) {
								if bl, ok := vs.Values[i].(*ast.BasicLit); ok {
									switch bl.Kind {
									case token.INT:
										ty = "uint64"
									case token.STRING:
										ty = "string"
									}
								}
							}
							if ty == "" {
								notUsed++
								continue
							}
							consts = append(consts, c08Member{Kind: "const", Name: n.Name, Results: []string{ty}})
						}
					}
				case token.TYPE:
					for _, s := range d.Specs {
						ts := s.(*ast.TypeSpec)
						if !ast.IsExported(ts.Name.Name) {
							continue
						}
						if ts.TypeParams != nil {
							notUsed++
							continue
						}
						types = append(types, c08Member{Kind: "type", Name: ts.Name.Name})
					}
				case token.VAR:
					for _, s := range d.Specs {
						for _, n := range s.(*ast.ValueSpec).Names {
							if ast.IsExported(n.Name) {
								notUsed++
							}
						}
					}
				}
			}
		}
	}
	for _, l := range [][]c08Member{funcs, consts, types} {
		sort.Slice(l, func(i, j int) bool { return l[i].Name < l[j].Name })
		members = append(members, l...)
	}
	return members, notUsed
}

// ---------------------------------------------------------------- the family

type c08Libs struct {
	c     *c08Run
	m     *c08Module
	graph map[string][]string // import graph of everything a client can import (go list -deps)
	ims   []*c08Importee
	byP   map[string]*c08Importee
	nCl   int

	notImportable []string
	rejectedBy    map[string]int
	examples      []interface{}
	dangling      []string
	exN           map[string]int
}

func hasInternalElem(p string) bool {
	for _, e := range strings.Split(p, "/") {
		if e == "internal" {
			return true
		}
	}
	return false
}

var c08StdReqRe = regexp.MustCompile(`github\.com/goose-lang/std (v\S+)`)

// setup writes the module with the look-alike packages and enumerates what can be imported.
func (L *c08Libs) setup() error {
	r := L.c.r
	dir := filepath.Join(r.Scratch, "c08mod", "libs")
	L.m = &c08Module{Name: "libs", ModPath: c08LibModPath, dir: dir}
	files := map[string]string{}
	for _, d := range c08LookalikeDirs {
		files[d+"/l.go"] = c08LookalikeSource(path.Base(d))
	}
	var stubs []replaceDir
	for _, sm := range c08LookalikeModules {
		stubs = append(stubs, replaceDir{Mod: sm.Mod, Dir: sm.Dir})
		for _, p := range sm.Pkgs {
			name := path.Base(sm.Mod)
			if p != "" {
				name = path.Base(p)
			}
			files[path.Join(sm.Dir, p, "l.go")] = c08LookalikeSource(name)
		}
	}
	if err := writeModule(dir, c08LibModPath, stubs, files); err != nil {
		return err
	}
	// the std module is not among the requirements writeModule knows: same version as the tree under test uses
	mods := append([]string{}, c08LibModules...)
	rm, _ := os.ReadFile(filepath.Join(core.RepoDir, "go.mod"))
	if mt := c08StdReqRe.FindStringSubmatch(string(rm)); mt != nil {
		gm, err := os.ReadFile(filepath.Join(dir, "go.mod"))
		if err != nil {
			return err
		}
		if err := core.WriteFile(filepath.Join(dir, "go.mod"), string(gm)+"\nrequire github.com/goose-lang/std "+mt[1]+"\n"); err != nil {
			return err
		}
	} else {
		mods = mods[:2]
		r.Count("library_module_std_not_required_by_the_tree", 1)
	}
	patterns := []string{"./..."}
	isLib := map[string]bool{}
	for _, mp := range mods {
		patterns = append(patterns, mp+"/...")
		isLib[mp] = true
	}
	isStub := map[string]bool{}
	for _, sm := range c08LookalikeModules {
		patterns = append(patterns, sm.Mod+"/...")
		isStub[sm.Mod] = true
	}
	args := append([]string{"list", "-e", "-deps", "-tags", "goose", "-json=ImportPath,Name,Dir,GoFiles,Imports,Module,Error,Standard"}, patterns...)
	res := core.Exec(dir, core.GoEnv(), 5*time.Minute, "", "go", args...)
	if res.TimedOut {
		r.Inconclusive("go-list-watchdog")
		return fmt.Errorf("go list (library enumeration) timed out")
	}
	if res.Code != 0 {
		return fmt.Errorf("go list (library enumeration) failed: %s", firstLines(res.Stderr, 12))
	}
	L.graph = map[string][]string{}
	L.byP = map[string]*c08Importee{}
	dec := json.NewDecoder(strings.NewReader(res.Stdout))
	for dec.More() {
		var e struct {
			ImportPath, Name, Dir string
			GoFiles, Imports      []string
			Standard              bool
			Module                *struct{ Path string }
			Error                 *struct{ Err string }
		}
		if err := dec.Decode(&e); err != nil {
			return err
		}
		L.graph[e.ImportPath] = e.Imports
		if e.Standard || e.Module == nil || L.byP[e.ImportPath] != nil {
			continue
		}
		class := ""
		switch {
		case isLib[e.Module.Path]:
			class = "library"
		case isStub[e.Module.Path]:
			class = "look-alike in a local module"
		case e.Module.Path == c08LibModPath:
			class = "look-alike in the client's module"
		default:
			continue
		}
		if e.Name == "main" || hasInternalElem(e.ImportPath) || e.Error != nil || len(e.GoFiles) == 0 {
			if class == "library" {
				why := "package main"
				switch {
				case hasInternalElem(e.ImportPath):
					why = "internal"
				case e.Error != nil:
					why = "go list: " + clip(e.Error.Err, 80)
				case len(e.GoFiles) == 0:
					why = "no Go files"
				}
				L.notImportable = append(L.notImportable, e.ImportPath+" ("+why+")")
			}
			continue
		}
		im := &c08Importee{Path: e.ImportPath, Name: e.Name, Module: e.Module.Path, Class: class, Imports: e.Imports, ffiSeen: map[string]bool{}, refExamples: map[string]bool{}}
		im.Members, im.NotUsed = c08ParseMembers(e.Dir, e.GoFiles)
		if len(im.Members) == 0 {
			if class == "library" {
				L.notImportable = append(L.notImportable, e.ImportPath+" (no exported member with a renderable use)")
			}
			continue
		}
		L.ims = append(L.ims, im)
		L.byP[im.Path] = im
	}
	sort.Slice(L.ims, func(i, j int) bool { return L.ims[i].Path < L.ims[j].Path })
	sort.Strings(L.notImportable)
	return nil
}

func (L *c08Libs) newClient(family, dir, shape string, primary *c08Importee, imports []c08LibImport) *c08LibClient {
	nf := 0
	for _, i := range imports {
		if i.File+1 > nf {
			nf = i.File + 1
		}
	}
	files := make([][]string, nf)
	for _, i := range imports {
		files[i.File] = append(files[i.File], i.Path)
	}
	p := &c08Pkg{Dir: dir, Name: path.Base(dir), Files: files, Shape: shape, importPath: c08LibModPath + "/" + dir}
	cl := &c08LibClient{p: p, Family: family, Imports: imports, primary: primary}
	for fi := 0; fi < nf; fi++ {
		cl.srcs = append(cl.srcs, cl.source(fi))
	}
	// reference: FFIs of the import graph, Require lines = imports minus the builtin table (c08.go)
	g := map[string][]string{}
	for k, v := range L.graph {
		g[k] = v
	}
	g[p.importPath] = p.allImports()
	p.expFfis = refFfis(g, p.importPath)
	p.expImports = refImports(p.allImports())
	L.nCl++
	return cl
}

func (cl *c08LibClient) source(fi int) string {
	var b strings.Builder
	fmt.Fprintf(&b, "package %s\n\nimport (\n", cl.p.Name)
	for _, im := range cl.Imports {
		if im.File != fi {
			continue
		}
		switch im.Form {
		case "plain":
			fmt.Fprintf(&b, "\t%q\n", im.Path)
		case "blank":
			fmt.Fprintf(&b, "\t_ %q\n", im.Path)
		case "dot":
			fmt.Fprintf(&b, "\t. %q\n", im.Path)
		default:
			fmt.Fprintf(&b, "\t%s %q\n", im.Alias, im.Path)
		}
	}
	b.WriteString(")\n\n")
	fmt.Fprintf(&b, "func Pad%d(x uint64) uint64 {\n\treturn x + %d\n}\n", fi, fi+1)
	for k, im := range cl.Imports {
		if im.File != fi || im.mb == nil || im.Form == "blank" {
			continue
		}
		q := im.Name + "."
		switch im.Form {
		case "dot":
			q = ""
		case "renamed", "renamed-own-name":
			q = im.Alias + "."
		}
		ty := func(s string) string { return strings.ReplaceAll(s, c08Q, q) }
		mb := im.mb
		switch mb.Kind {
		case "func":
			var ps, as, rs []string
			for i, p := range mb.Params {
				ps = append(ps, fmt.Sprintf("a%d %s", i, ty(p)))
				as = append(as, fmt.Sprintf("a%d", i))
			}
			for _, r := range mb.Results {
				rs = append(rs, ty(r))
			}
			call := fmt.Sprintf("%s%s(%s)", q, mb.Name, strings.Join(as, ", "))
			switch len(rs) {
			case 0:
				fmt.Fprintf(&b, "\nfunc Use%d(%s) {\n\t%s\n}\n", k, strings.Join(ps, ", "), call)
			case 1:
				fmt.Fprintf(&b, "\nfunc Use%d(%s) %s {\n\treturn %s\n}\n", k, strings.Join(ps, ", "), rs[0], call)
			default:
				fmt.Fprintf(&b, "\nfunc Use%d(%s) (%s) {\n\treturn %s\n}\n", k, strings.Join(ps, ", "), strings.Join(rs, ", "), call)
			}
		case "const":
			fmt.Fprintf(&b, "\nfunc Use%d() %s {\n\treturn %s%s\n}\n", k, ty(mb.Results[0]), q, mb.Name)
		case "type":
			fmt.Fprintf(&b, "\ntype Hold%d struct {\n\tV %s%s\n}\n\nfunc Use%d(h *Hold%d) %s%s {\n\treturn h.V\n}\n", k, q, mb.Name, k, k, q, mb.Name)
		}
	}
	return b.String()
}

func c08Ident(s string) string {
	s = strings.ToLower(s)
	return strings.Map(func(r rune) rune {
		if r >= 'a' && r <= 'z' || r >= '0' && r <= '9' {
			return r
		}
		return '_'
	}, s)
}

func (L *c08Libs) imp(im *c08Importee, mi int, form string, file int) c08LibImport {
	li := c08LibImport{Path: im.Path, Name: im.Name, Form: form, File: file, im: im}
	if form != "blank" {
		li.mb = &im.Members[mi]
		li.Member = li.mb.String()
	}
	switch form {
	case "renamed":
		li.Alias = "al" + c08Ident(im.Name)
	case "renamed-own-name":
		li.Alias = im.Name
	}
	return li
}

// sweepClients: one client per chosen member of every importee.
func (L *c08Libs) sweepClients(rng *core.Rng) []*c08LibClient {
	r := L.c.r
	var out []*c08LibClient
	for ii, im := range L.ims {
		max := r.Pick(8, 1<<30)
		if im.Class != "library" {
			max = 3
		}
		idx := make([]int, len(im.Members))
		for i := range idx {
			idx[i] = i
		}
		if len(idx) > max {
			g := rng.Fork(im.Path)
			for a := len(idx) - 1; a > 0; a-- {
				b := g.Intn(a + 1)
				idx[a], idx[b] = idx[b], idx[a]
			}
			idx = idx[:max]
			sort.Ints(idx)
		}
		im.Chosen = idx
		im.best = idx[0]
		for _, mi := range idx {
			mb := im.Members[mi]
			dir := fmt.Sprintf("sweep/p%02d_%s/%s%02d_%s", ii, c08Ident(im.Name), mb.Kind[:1], mi, c08Ident(mb.Name))
			shape := fmt.Sprintf("libs member-sweep [%s] %s %s", im.Class, im.Path, mb.Kind+" "+mb.Name)
			out = append(out, L.newClient("member-sweep", dir, shape, im, []c08LibImport{L.imp(im, mi, "plain", 0)}))
		}
	}
	return out
}

var c08ImportForms = []string{"renamed", "renamed-own-name", "blank", "blank+plain", "dot"}

func (L *c08Libs) ffiImportees() []*c08Importee {
	var out []*c08Importee
	for _, im := range L.ims {
		if im.Class == "library" && specFfi[im.Path] != "" {
			out = append(out, im)
		}
	}
	return out
}

func (im *c08Importee) memberNamed(name string) int {
	for i, mb := range im.Members {
		if mb.Name == name {
			return i
		}
	}
	return im.best
}

// secondPhase: import forms, a second (FFI) import, combinations of several packages.
func (L *c08Libs) secondPhase(rng *core.Rng) []*c08LibClient {
	r := L.c.r
	var out []*c08LibClient
	// which look-alikes get the full treatment in the quick tier
	full := map[*c08Importee]bool{}
	var looks []*c08Importee
	for _, im := range L.ims {
		if im.Class == "library" {
			full[im] = true
		} else {
			looks = append(looks, im)
		}
	}
	g := rng.Fork("lookalike-sample")
	for a := len(looks) - 1; a > 0; a-- {
		b := g.Intn(a + 1)
		looks[a], looks[b] = looks[b], looks[a]
	}
	for i, im := range looks {
		if i < r.Pick(8, len(looks)) {
			full[im] = true
		}
	}
	ffis := L.ffiImportees()
	for ii, im := range L.ims {
		id := fmt.Sprintf("p%02d_%s", ii, c08Ident(im.Name))
		if full[im] {
			for _, form := range c08ImportForms {
				var imps []c08LibImport
				if form == "blank+plain" {
					imps = []c08LibImport{L.imp(im, im.best, "blank", 0), L.imp(im, im.best, "plain", 1)}
				} else {
					imps = []c08LibImport{L.imp(im, im.best, form, 0)}
				}
				dir := fmt.Sprintf("form/%s/%s", id, c08Ident(form))
				out = append(out, L.newClient("import-form", dir, fmt.Sprintf("libs import-form %s [%s] %s", form, im.Class, im.Path), im, imps))
			}
		}
		// a second import: every FFI package (library packages and the sampled look-alikes), one FFI package by
		// seed for the others
		also := ffis
		if !full[im] && len(ffis) > 0 {
			also = []*c08Importee{ffis[rng.Fork("also"+im.Path).Intn(len(ffis))]}
		}
		for _, f := range also {
			if f == im {
				continue
			}
			imps := []c08LibImport{L.imp(im, im.best, "plain", 0), L.imp(f, f.memberNamed("BlockSize"), "plain", 1)}
			dir := fmt.Sprintf("also/%s/%s", id, c08Ident(strings.TrimPrefix(f.short(), "goose/")))
			cl := L.newClient("also-ffi", dir, fmt.Sprintf("libs also-ffi %s + [%s] %s", f.short(), im.Class, im.Path), im, imps)
			if len(cl.p.expFfis) >= 2 {
				r.Count("library_family_two_ffi_combinations_left_to_the_directed_workload", 1)
				L.nCl--
				continue
			}
			out = append(out, cl)
		}
	}
	// combinations: 2-4 packages, one file each where the names clash, at most one FFI
	ncombo := r.Pick(32, 300)
	for k := 0; k < ncombo; k++ {
		g := rng.Fork(fmt.Sprint("combo", k))
		n := 2 + g.Intn(3)
		var imps []c08LibImport
		seenP := map[string]bool{}
		names := []map[string]bool{{}}
		ffi := ""
		for tries := 0; len(imps) < n && tries < 40; tries++ {
			im := L.ims[g.Intn(len(L.ims))]
			if g.Chance(50) { // half of the picks from the libraries
				var libs []*c08Importee
				for _, x := range L.ims {
					if x.Class == "library" {
						libs = append(libs, x)
					}
				}
				im = libs[g.Intn(len(libs))]
			}
			if seenP[im.Path] {
				continue
			}
			fs := refFfis(L.graph, im.Path)
			if len(fs) > 1 || (len(fs) == 1 && ffi != "" && fs[0] != ffi) {
				continue
			}
			if len(fs) == 1 {
				ffi = fs[0]
			}
			seenP[im.Path] = true
			file := -1
			for fi := range names {
				if !names[fi][im.Name] {
					file = fi
					break
				}
			}
			if file < 0 {
				names = append(names, map[string]bool{})
				file = len(names) - 1
			}
			names[file][im.Name] = true
			imps = append(imps, L.imp(im, im.best, "plain", file))
		}
		if len(imps) < 2 {
			continue
		}
		var what []string
		for _, i := range imps {
			what = append(what, i.im.short())
		}
		cl := L.newClient("combination", fmt.Sprintf("combo/c%03d", k), "libs combination "+strings.Join(what, " + "), imps[0].im, imps)
		if len(cl.p.expFfis) >= 2 {
			L.nCl--
			continue
		}
		out = append(out, cl)
	}
	return out
}

// ---------------------------------------------------------------- running and judging

var c08RejectRe = regexp.MustCompile(`(?m)^(?:conversion failed: )?\[([a-z()\-]+)\]: (.*)$`)

func (L *c08Libs) run(clients []*c08LibClient, tag string) {
	r := L.c.r
	for _, cl := range clients {
		for fi, s := range cl.srcs {
			if err := core.WriteFile(filepath.Join(L.m.dir, cl.p.Dir, fmt.Sprintf("f%d.go", fi)), s); err != nil {
				r.Inconclusive("module-setup-failed")
				return
			}
		}
	}
	const chunk = 48
	var batches [][]*c08LibClient
	for i := 0; i < len(clients); i += chunk {
		j := i + chunk
		if j > len(clients) {
			j = len(clients)
		}
		batches = append(batches, clients[i:j])
	}
	core.Parallel(len(batches), 8, func(i int) { L.runBatch(batches[i], fmt.Sprintf("%s-b%d", tag, i), 0) })
}

func (L *c08Libs) runBatch(clients []*c08LibClient, tag string, depth int) {
	c, r, m := L.c, L.c.r, L.m
	out := filepath.Join(r.Scratch, "c08out", m.Name, tag)
	args := []string{"-out", out}
	for _, cl := range clients {
		args = append(args, "./"+cl.p.Dir)
	}
	iv := runGoose(c.bin, m.dir, nil, args...)
	r.Count("goose_invocations", 1)
	if iv.res.TimedOut {
		r.Inconclusive("goose-watchdog")
		return
	}
	if cr, why := iv.crashed(); cr {
		if len(clients) > 1 {
			r.Count("batches_crashed_and_split", 1)
			core.Parallel(len(clients), 16, func(i int) { L.runBatch(clients[i:i+1], fmt.Sprintf("%s-solo%d", tag, i), depth+1) })
			return
		}
		// a crash is not a clean refusal, but whether goose may crash on an input is C07's question: recorded,
		// nothing judged
		cl := clients[0]
		cl.outcome = "crashed"
		r.Inconclusive("library-client-crashed-goose")
		L.example("crashed", cl, iv, map[string]interface{}{"crash": why, "stderr": firstLines(iv.res.Stderr, 12)})
		return
	}
	t := readTree(out)
	expected := map[string]bool{}
	for _, cl := range clients {
		expected[outputRel(cl.p.importPath)] = true
	}
	for name := range t {
		if !expected[name] {
			v := &c08Verdict{Module: m.Name, Package: name, Cmd: clip(iv.cmdline(), 400), Exit: iv.Code}
			c.violate("output-file-at-unexpected-path", fmt.Sprintf("file %s under -out corresponds to no translated package", name), v)
		}
	}
	for _, cl := range clients {
		p := cl.p
		src, ok := t[outputRel(p.importPath)]
		blk := c06BlocksOf(iv.res.Stderr, filepath.Join(m.dir, p.Dir), p.importPath)
		switch {
		case ok:
			cl.outcome = "translated"
			v := c.verdict(m, p, iv)
			c.judgeFile(m, p, src, v)
			L.judgeBody(cl, src, v)
			c.judged(p, v)
			r.Count("library_family_clients_translated", 1)
			r.Count("library_family_clients_translated_"+cl.Family, 1)
			if strings.TrimSpace(blk) != "" {
				// a file AND a diagnostic for the same package without -ignore-errors
				r.Inconclusive("library-client-translated-with-diagnostic")
			}
		case strings.Contains(blk, "could not load package "+p.importPath+":"):
			// the client is not type-correct (or an import did not resolve): a defect of the generator, says
			// nothing about goose; once more alone in case the go command was disturbed
			if depth == 0 && len(clients) > 1 {
				L.runBatch([]*c08LibClient{cl}, tag+"-retry-"+strings.ReplaceAll(p.Dir, "/", "_"), depth+1)
				continue
			}
			cl.outcome = "not-loaded"
			r.Inconclusive("library-client-not-type-correct")
			L.example("not-loaded", cl, iv, map[string]interface{}{"stderr": clip(blk, 600)})
		case strings.Contains(blk, "  src: "):
			cl.outcome = "rejected"
			reason := "?"
			if mt := c08RejectRe.FindStringSubmatch(ansiRe.ReplaceAllString(blk, "")); mt != nil {
				reason = "[" + mt[1] + "] " + clip(mt[2], 70)
			}
			if strings.Contains(blk, "package uses multiple ffis") && len(p.expFfis) < 2 {
				v := c.verdict(m, p, iv)
				c.violate("one-ffi-package-refused-as-multiple-ffis", fmt.Sprintf("package %s (%s) reaches the FFIs %v but goose refuses it: %s", p.importPath, p.Shape, p.expFfis, firstLines(blk, 2)), v)
			}
			L.c.mu.Lock()
			L.rejectedBy[cl.Family+": "+reason]++
			L.c.mu.Unlock()
			r.Count("library_family_clients_rejected", 1)
			r.Count("library_family_clients_rejected_"+cl.Family, 1)
			r.Eval(1)
			r.Distinct(p.Shape + "|rejected")
			if cl.Family == "member-sweep" {
				L.c.mu.Lock()
				cl.primary.rejected++
				L.c.mu.Unlock()
			}
			L.example("rejected:"+cl.Family, cl, iv, map[string]interface{}{"diagnostic": firstLines(strings.TrimSpace(blk), 3)})
		default:
			if depth == 0 && len(clients) > 1 {
				L.runBatch([]*c08LibClient{cl}, tag+"-retry-"+strings.ReplaceAll(p.Dir, "/", "_"), depth+1)
				continue
			}
			cl.outcome = "no-file-no-diagnostic"
			v := c.verdict(m, p, iv)
			if strings.Contains(iv.res.Stderr, "package uses multiple ffis") && len(p.expFfis) < 2 {
				c.violate("one-ffi-package-refused-as-multiple-ffis", fmt.Sprintf("package %s (%s) reaches the FFIs %v but goose refuses it: %s", p.importPath, p.Shape, p.expFfis, firstLines(iv.res.Stderr, 2)), v)
			} else if iv.Code == 0 {
				c.violate("output-file-missing", fmt.Sprintf("package %s translated without error but %s does not exist under -out", p.importPath, outputRel(p.importPath)), v)
			} else {
				r.Inconclusive("library-client-neither-file-nor-diagnostic")
				L.example("undecided", cl, iv, map[string]interface{}{"stderr": clip(iv.res.Stderr, 800)})
			}
		}
	}
}

func (L *c08Libs) example(kind string, cl *c08LibClient, iv *invocation, extra map[string]interface{}) {
	L.c.mu.Lock()
	defer L.c.mu.Unlock()
	if L.exN[kind] >= 3 {
		return
	}
	L.exN[kind]++
	e := map[string]interface{}{"case": kind, "package": cl.p.importPath, "shape": cl.p.Shape, "imports": cl.Imports, "source_f0": cl.srcs[0]}
	for k, v := range extra {
		e[k] = v
	}
	L.examples = append(L.examples, e)
}

// judgeBody is the oracle that knows no import table: it reads the qualified identifiers of the emitted body.
func (L *c08Libs) judgeBody(cl *c08LibClient, src string, v *c08Verdict) {
	c, r := L.c, L.c.r
	h := readHeader(src)
	bodyAt := len(src)
	if h.FirstDecl >= 0 {
		bodyAt = 0
		for i, l := range strings.Split(src, "\n") {
			if i == h.FirstDecl {
				break
			}
			bodyAt += len(l) + 1
		}
	}
	toks, _, err := gl.Lex(src)
	if err != nil {
		r.Inconclusive("library-client-body-not-lexed")
		return
	}
	var idents []string
	for _, t := range toks {
		if t.Kind == gl.TIdent && t.Pos >= bodyAt && strings.Contains(t.Text, ".") {
			idents = append(idents, t.Text)
		}
	}
	required := map[string]bool{}
	for _, g := range h.Goose {
		required[g] = true
	}
	for _, g := range h.Trusted {
		required[g] = true
	}
	r.Count("library_family_header_lines_judged", int64(h.Prelude+len(h.Ffi)+len(h.Goose)+len(h.Trusted)+len(h.Unknown)))
	r.Count("library_family_qualified_identifiers_read", int64(len(idents)))
	byName := map[string]map[string]bool{}
	for _, im := range cl.Imports {
		if byName[im.Name] == nil {
			byName[im.Name] = map[string]bool{}
		}
		byName[im.Name][im.Path] = true
	}
	for _, im := range cl.Imports {
		if im.Form == "blank" || im.Form == "dot" {
			continue
		}
		quals := []string{im.Name + "."}
		if im.Alias != "" && im.Alias != im.Name {
			quals = append(quals, im.Alias+".")
		}
		var refs []string
		for _, id := range idents {
			for _, q := range quals {
				if strings.HasPrefix(id, q) {
					refs = append(refs, id)
				}
			}
		}
		provided := false
		if f := specFfi[im.Path]; f != "" {
			for _, hf := range h.Ffi {
				if hf == f {
					provided = true
				}
			}
		}
		req := required[logicalPath(im.Path)]
		if cl.Family == "member-sweep" {
			c.mu.Lock()
			st := im.im
			st.translated++
			if req {
				st.withRequire++
			}
			if len(refs) > 0 {
				st.withRefs++
				if len(st.refExamples) < 4 {
					st.refExamples[refs[0]] = true
				}
			}
			for _, hf := range h.Ffi {
				st.ffiSeen[hf] = true
			}
			if len(h.Ffi) == 0 {
				st.ffiSeen["none"] = true
			}
			c.mu.Unlock()
		}
		if len(byName[im.Name]) > 1 {
			// two imported packages with one Go name (in different files): which of them an identifier means is
			// not decided here
			r.Count("library_family_body_rule_skipped_same_named_imports", 1)
			continue
		}
		class := im.im.short()
		if im.Form != "plain" {
			class += "|" + im.Form
		}
		r.Count("library_family_imports_judged_by_body_rule", 1)
		if len(refs) > 0 && !provided && !req && specBuiltin[im.Path] {
			// a package the statement counts among the builtin ones (modelled by the prelude, never required), used
			// through a member goose has no model for: the header is what the statement says, the identifier in the
			// body has no provider. Not a header defect (the use should have been refused): recorded, not judged.
			r.Count("library_family_unmodelled_members_of_builtin_packages_left_as_qualified_names", 1)
			c.mu.Lock()
			if len(L.dangling) < 12 {
				L.dangling = append(L.dangling, fmt.Sprintf("%s: %s of %q is emitted as %s; the header has neither a Require line nor a prelude that provides a module %q", cl.p.importPath, im.mb, im.Path, strings.Join(uniq(refs, 3), ", "), im.Name))
			}
			c.mu.Unlock()
		} else if len(refs) > 0 && !provided && !req {
			c.violate("referenced-package-not-required["+class+"]",
				fmt.Sprintf("package %s (%s) imports %q; the emitted body refers to its definitions by qualified name (%s) and the header's preludes (ffi %v) do not provide that module, but there is no `%s` line",
					cl.p.importPath, cl.p.Shape, im.Path, strings.Join(uniq(refs, 3), ", "), h.Ffi, fmtImport(c08Import{Trusted: strings.HasPrefix(path.Base(im.Path), "trusted_"), Logical: logicalPath(im.Path)})), v)
		}
		if req && len(refs) == 0 && im.Form == "plain" && im.mb != nil && im.mb.Kind != "type" {
			c.violate("required-package-never-referenced["+class+"]",
				fmt.Sprintf("package %s (%s) uses %s of %q; the header requires `%s` but no identifier of the emitted body is qualified by %q: the use was translated to something the preludes provide, so the Require names a package the file does not depend on",
					cl.p.importPath, cl.p.Shape, im.mb, im.Path, logicalPath(im.Path), im.Name), v)
		}
	}
}

func uniq(xs []string, max int) []string {
	seen := map[string]bool{}
	var out []string
	for _, x := range xs {
		if !seen[x] && len(out) < max {
			seen[x] = true
			out = append(out, x)
		}
	}
	return out
}

// runLibraryFamily is called from runC08.
func (c *c08Run) runLibraryFamily() error {
	r := c.r
	start := time.Now()
	L := &c08Libs{c: c, rejectedBy: map[string]int{}, exN: map[string]int{}}
	if err := L.setup(); err != nil {
		return err
	}
	rng := core.NewRng(r.Seed, "c08-libs")
	sweep := L.sweepClients(rng.Fork("sweep"))
	L.run(sweep, "sweep")
	// the member the second phase uses: the first chosen one whose own client translated
	for _, im := range L.ims {
		for _, cl := range sweep {
			if cl.primary == im && cl.outcome == "translated" {
				im.best = im.memberNamed(cl.Imports[0].mb.Name)
				break
			}
		}
	}
	second := L.secondPhase(rng.Fork("second"))
	L.run(second, "second")

	// evidence
	var rows []map[string]interface{}
	nlib := 0
	for _, im := range L.ims {
		if im.Class == "library" {
			nlib++
		}
		var chosen []string
		for _, mi := range im.Chosen {
			chosen = append(chosen, im.Members[mi].String())
		}
		rows = append(rows, map[string]interface{}{
			"import_path": im.Path, "package_name": im.Name, "module": im.Module, "class": im.Class,
			"usable_members": len(im.Members), "exported_members_without_renderable_use": im.NotUsed, "members_swept": chosen,
			"in_builtin_table_of_the_checker": specBuiltin[im.Path], "ffi_of_the_checker_table": specFfi[im.Path],
			"sweep_clients_translated": im.translated, "sweep_clients_rejected": im.rejected,
			"translated_with_require_line": im.withRequire, "translated_with_qualified_references_in_body": im.withRefs,
			"qualified_references_seen": sortedKeys(im.refExamples), "prelude_seen": sortedKeys(im.ffiSeen),
		})
	}
	r.Set("library_family", map[string]interface{}{
		"importable_packages":               rows,
		"library_packages_not_importable":   L.notImportable,
		"clients_generated":                 L.nCl,
		"rejected_by_family_and_diagnostic": L.rejectedBy,
		"examples":                          L.examples,
		"builtin_package_members_emitted_as_qualified_names_nothing_provides": L.dangling,
		"wall_s":    time.Since(start).Seconds(),
		"body_rule": "for every non-blank, non-dot import: identifiers `pkg.X` after the header, with pkg the Go name (or alias) of the import; if there are any and the import is neither the FFI package whose prelude line the header has nor one of the non-FFI builtin packages of the statement (recorded only), the Require line of the import path must be present; if the Require line is present and the client uses a function or constant of the package, such an identifier must exist",
	})
	r.Count("library_family_packages_enumerated", int64(len(L.ims)))
	r.Count("library_family_library_packages_enumerated", int64(nlib))
	return nil
}
