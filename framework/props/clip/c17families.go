package clip

import (
	"encoding/json"
	"fmt"
	"os"
	"path/filepath"
	"regexp"
	"sort"
	"strings"
	"time"

	"verif/core"
)

// ---------------------------------------------------------------- build constraints
//
// "… the 'goose' build tag select the same sources the Go toolchain would": every file of the generated
// packages carries a build constraint (a //go:build line, a legacy +build line, a file-name constraint, or a
// combination) and defines a function of its own, so the definitions of the emitted file say which files were
// translated. The reference is the file list of `go list -tags goose -json` run in the SAME environment
// (CGO_ENABLED, GOOS, GOARCH, GOFLAGS) as goose. No file imports "C".

type c17ConsFile struct {
	Name  string // file name
	Head  string // lines before the package clause
	Label string // what the constraint is, for the signature
	Func  string // the function only this file defines
}

func c17ConsFiles() []c17ConsFile {
	var fs []c17ConsFile
	id := func(s string) string {
		return strings.Map(func(r rune) rune {
			if (r >= 'a' && r <= 'z') || (r >= 'A' && r <= 'Z') || (r >= '0' && r <= '9') {
				return r
			}
			return '_'
		}, s)
	}
	add := func(name, head, label string) {
		fs = append(fs, c17ConsFile{Name: name, Head: head, Label: label, Func: "Sel_" + id(strings.TrimSuffix(name, ".go"))})
	}
	add("always.go", "", "no constraint")
	exprs := []struct{ file, expr string }{
		{"goose", "goose"}, {"notgoose", "!goose"}, {"cgo", "cgo"}, {"notcgo", "!cgo"}, {"linux", "linux"}, {"notlinux", "!linux"},
		{"windows", "windows"}, {"amd64", "amd64"}, {"arm64", "arm64"}, {"go118", "go1.18"}, {"go199", "go1.99"}, {"notgo199", "!go1.99"},
		{"ignore", "ignore"}, {"custom", "mytag"}, {"notcustom", "!mytag"}, {"unix", "unix"}, {"gc", "gc"}, {"gccgo", "gccgo"}, {"unknown", "purego_zz"},
		{"goose_and_cgo", "goose && cgo"}, {"goose_and_notcgo", "goose && !cgo"}, {"notgoose_or_cgo", "!goose || cgo"}, {"linux_and_amd64", "linux && amd64"},
		{"os_or_and_goose", "(linux || windows) && goose"}, {"not_goose_and_cgo", "!(goose && cgo)"}, {"cgo_or_custom", "cgo || mytag"},
		{"notcgo_or_windows", "!cgo || windows"}, {"goose_and_go118_and_notarm64", "goose && go1.18 && !arm64"}, {"custom_and_goose", "mytag && goose"},
	}
	for _, e := range exprs {
		add("tag_"+e.file+".go", "//go:build "+e.expr+"\n\n", "go:build "+e.expr)
	}
	add("legacy_goose_cgo.go", "// +build goose,cgo\n\n", "+build goose,cgo")
	add("legacy_notcgo.go", "// +build !cgo\n\n", "+build !cgo")
	add("legacy_or.go", "// +build windows mytag\n// +build goose\n\n", "+build (windows mytag) AND goose")
	for _, n := range []string{"f_linux.go", "f_windows.go", "f_amd64.go", "f_arm64.go", "f_linux_amd64.go", "f_windows_arm64.go", "f_test.go", "f_linux_test.go", "_under.go", ".dot.go", "f_goose.go", "f_cgo.go", "f_unix.go"} {
		add(n, "", "file name "+n)
	}
	add("g_linux.go", "//go:build !cgo\n\n", "file name g_linux.go + go:build !cgo")
	add("g_windows.go", "//go:build goose\n\n", "file name g_windows.go + go:build goose")
	add("g_amd64.go", "//go:build cgo && goose\n\n", "file name g_amd64.go + go:build cgo && goose")
	return fs
}

var c17PairTags = []string{"goose", "cgo", "linux", "windows", "amd64", "arm64", "go1.18", "go1.99", "mytag", "unix"}

type c17ConsModule struct {
	ModPath string
	Dir     string
	Files   []c17ConsFile
}

func c17WriteConsModule(dir string, k int, rng *core.Rng) (*c17ConsModule, error) {
	m := &c17ConsModule{ModPath: fmt.Sprintf("example.com/cli-t/cons.%d", k), Dir: dir, Files: c17ConsFiles()}
	files := map[string]string{}
	for i, f := range m.Files {
		files["cons/"+f.Name] = fmt.Sprintf("%spackage cons\n\nfunc %s() uint64 {\n\treturn %d\n}\n", f.Head, f.Func, 100+i*7+rng.Intn(5))
	}
	// pairs: the same function in a file for T and in a file for !T, with different constants
	for i, t := range c17PairTags {
		n := strings.ReplaceAll(t, ".", "")
		files["cons/pairs/p_"+n+"_yes.go"] = fmt.Sprintf("//go:build %s\n\npackage pairs\n\nfunc Pick_%s() uint64 {\n\treturn %d\n}\n", t, n, 1001+i)
		files["cons/pairs/p_"+n+"_no.go"] = fmt.Sprintf("//go:build !%s\n\npackage pairs\n\nfunc Pick_%s() uint64 {\n\treturn %d\n}\n", t, n, 2001+i)
	}
	files["cons/pairs/base.go"] = "package pairs\n\nfunc Base(x uint64) uint64 {\n\treturn x\n}\n"
	return m, writeModule(dir, m.ModPath, nil, files)
}

type c17GoListFiles struct {
	ImportPath     string
	GoFiles        []string
	CgoFiles       []string
	IgnoredGoFiles []string
	TestGoFiles    []string
	Error          *struct{ Err string }
}

var c17DefBodyRe = regexp.MustCompile(`(?s)Definition (Pick_\w+)\b(.*?)\n\n`)

func (c *c17Checker) runConstraints(r *core.Run, rng *core.Rng) {
	nmods := r.Pick(1, 3)
	envs := []struct {
		name string
		env  []string
	}{
		{"default", nil},
		{"CGO_ENABLED=1", []string{"CGO_ENABLED=1"}},
		{"CGO_ENABLED=0", []string{"CGO_ENABLED=0"}},
		{"GOOS=windows", []string{"GOOS=windows"}},
		{"GOARCH=arm64", []string{"GOARCH=arm64"}},
		{"GOOS=windows GOARCH=arm64 CGO_ENABLED=0", []string{"GOOS=windows", "GOARCH=arm64", "CGO_ENABLED=0"}},
		{"GOFLAGS=-tags=mytag", []string{"GOFLAGS=-mod=mod -tags=mytag"}},
	}
	elsewhere := filepath.Join(r.Scratch, "elsewhere-cons")
	os.MkdirAll(elsewhere, 0o755)
	for k := 0; k < nmods; k++ {
		m, err := c17WriteConsModule(filepath.Join(r.Scratch, "c17mod", fmt.Sprintf("cons%d", k)), k, rng.Fork(fmt.Sprint("cons", k)))
		if err != nil {
			r.Inconclusive("constraint-module-setup-failed")
			return
		}
		if _, ok := settle(m.Dir, "./..."); !ok {
			r.Inconclusive("constraint-module-setup-failed")
			return
		}
		type job struct {
			envName string
			env     []string
			form    int
		}
		var jobs []job
		for _, e := range envs {
			for form := 0; form < 3; form++ {
				if !r.Quick() || form == 0 || (len(e.env) <= 1 && form == (len(e.name)+k)%2+1) {
					jobs = append(jobs, job{e.name, e.env, form})
				}
			}
		}
		core.Parallel(len(jobs), 8, func(i int) {
			j := jobs[i]
			cwd := m.Dir
			var pre, patterns []string
			switch j.form {
			case 0:
				patterns = []string{"./cons/..."}
			case 1:
				patterns = []string{m.ModPath + "/cons/pairs", "./cons", "./cons/pairs"}
			case 2:
				cwd = elsewhere
				pre = []string{"-dir", m.Dir}
				patterns = []string{m.ModPath + "/cons", "./cons/pairs"}
			}
			c.runConstraintCase(r, m, j.envName, j.env, cwd, pre, patterns)
		})
	}
}

func (c *c17Checker) runConstraintCase(r *core.Run, m *c17ConsModule, envName string, env []string, cwd string, pre, patterns []string) {
	// reference: the toolchain's file selection in the same environment, same directory, same patterns
	lenv := append(core.GoEnv(), "NO_COLOR=1")
	lenv = append(lenv, env...)
	largs := append([]string{"list", "-tags", "goose", "-json=ImportPath,GoFiles,CgoFiles,IgnoredGoFiles,TestGoFiles,Error"}, patterns...)
	lres := core.Exec(m.Dir, lenv, 3*time.Minute, "", "go", largs...)
	if lres.Code != 0 || lres.TimedOut {
		r.Inconclusive("go-list-failed-on-constraint-module")
		r.Set("constraint_go_list_failure", map[string]interface{}{"env": envName, "stderr": clip(lres.Stderr, 800)})
		return
	}
	want := map[string][]string{} // import path -> GoFiles
	dec := json.NewDecoder(strings.NewReader(lres.Stdout))
	for dec.More() {
		var e c17GoListFiles
		if dec.Decode(&e) != nil {
			break
		}
		if e.Error != nil || len(e.CgoFiles) > 0 {
			r.Inconclusive("go-list-reports-error-on-constraint-package")
			return
		}
		want[e.ImportPath] = e.GoFiles
	}
	if len(want) != 2 {
		r.Inconclusive("constraint-module-go-list-unexpected-package-count")
		return
	}
	out := c.fresh("cons")
	args := append([]string{"-out", out}, pre...)
	args = append(args, patterns...)
	iv := runGoose(c.bin, cwd, env, args...)
	r.Count("goose_invocations", 1)
	r.Count("build_constraint_invocations", 1)
	if iv.res.TimedOut {
		r.Inconclusive("goose-watchdog")
		return
	}
	t := readTree(out)
	os.RemoveAll(out)
	r.Eval(1)
	r.Distinct(fmt.Sprintf("build-constraints|env=%s|cwd-is-module=%v|patterns=%d", envName, cwd == m.Dir, len(patterns)))
	detail := map[string]interface{}{"command": iv.cmdline(), "environment": envName, "exit_status": iv.Code, "stderr": clip(iv.res.Stderr, 1200), "go_list_GoFiles": want, "files_under_out": t.names()}
	viol := func(sig, what string) {
		r.Violate(sig, what+" — "+iv.cmdline(), detail)
	}
	if cr, why := iv.crashed(); cr {
		viol("crash-build-constraints", "goose crashed ("+why+")")
		return
	}
	if iv.Code != 0 {
		viol("build-constraint-package-fails", fmt.Sprintf("the files `go list -tags goose` selects (%s) are all translatable, yet goose exits %d: %s", envName, iv.Code, firstLines(iv.res.Stderr, 4)))
		return
	}
	// package cons: one function per file
	consSrc, ok1 := t[outputRel(m.ModPath+"/cons")]
	pairSrc, ok2 := t[outputRel(m.ModPath+"/cons/pairs")]
	if !ok1 || !ok2 {
		viol("good-package-file-missing", "an output file of the build-constraint packages is missing")
		return
	}
	defs, err := defNames(consSrc)
	if err != nil {
		r.Inconclusive("coq-reader-rejects-emitted-file")
		return
	}
	selected := map[string]bool{}
	for _, f := range want[m.ModPath+"/cons"] {
		selected[f] = true
	}
	var wrong []string
	firstLabel := ""
	for _, f := range m.Files {
		r.Count("build_constraint_files_judged", 1)
		if defs[f.Func] == selected[f.Name] {
			if selected[f.Name] {
				r.Count("build_constraint_files_selected_and_translated", 1)
			}
			continue
		}
		how := "translated by goose but NOT selected by go list"
		if selected[f.Name] {
			how = "selected by go list but NOT translated by goose"
		}
		wrong = append(wrong, fmt.Sprintf("%s (%s): %s", f.Name, f.Label, how))
		if firstLabel == "" {
			firstLabel = f.Label
		}
	}
	if len(wrong) > 0 {
		sig := "build-constraint-selection-differs-from-go-list-" + strings.Map(func(r rune) rune {
			if r == ' ' {
				return '_'
			}
			return r
		}, firstLabel)
		viol(sig, fmt.Sprintf("in the environment %s goose translates other files than `go list -tags goose` selects there: %s", envName, strings.Join(wrong, "; ")))
	}
	// package pairs: which of the two files of each tag was used shows in the constant
	bodies := map[string]string{}
	for _, mm := range c17DefBodyRe.FindAllStringSubmatch(pairSrc+"\n\n", -1) {
		bodies[mm[1]] = mm[2]
	}
	selP := map[string]bool{}
	for _, f := range want[m.ModPath+"/cons/pairs"] {
		selP[f] = true
	}
	for i, tag := range c17PairTags {
		n := strings.ReplaceAll(tag, ".", "")
		yes, no := selP["p_"+n+"_yes.go"], selP["p_"+n+"_no.go"]
		if yes == no {
			r.Inconclusive("go-list-selects-both-or-neither-file-of-a-pair")
			continue
		}
		body, ok := bodies["Pick_"+n]
		r.Count("build_constraint_pairs_judged", 1)
		wantC, otherC := fmt.Sprint(2001+i), fmt.Sprint(1001+i)
		wantFile := "p_" + n + "_no.go"
		if yes {
			wantC, otherC = otherC, wantC
			wantFile = "p_" + n + "_yes.go"
		}
		switch {
		case !ok:
			viol("build-constraint-pair-function-missing-"+tag, fmt.Sprintf("Pick_%s is defined in the file for %s and in the file for !%s; the emitted file has no such definition", n, tag, tag))
		case strings.Contains(body, otherC) || !strings.Contains(body, wantC):
			viol("build-constraint-pair-wrong-file-"+tag, fmt.Sprintf("in the environment %s `go list -tags goose` selects %s (constant %s) but the emitted Pick_%s has the body of the other file: %s", envName, wantFile, wantC, n, clip(strings.TrimSpace(body), 200)))
		}
	}
}

// ---------------------------------------------------------------- sibling directories, one a string prefix of the other

// c17PrefixModule: only good packages, in sibling directories whose mapped names are string prefixes of one
// another (log / log_util / log_v2 / logger / lo), with packages directly in them and 1-3 levels below, also
// below a common parent.
func c17PrefixModule(rng *core.Rng, k int) (*c17Module, []string) {
	m := &c17Module{K: 100 + k, ModPath: fmt.Sprintf("example.com/cli-t/pre.%d", k), byPath: map[string]*c17Pkg{}, lists: map[string]*c17List{}}
	longs := [][]string{{"log-util", "log.v2", "logger"}, {"log_util", "log2", "logX"}, {"log.util", "log-2", "logs"}}[k%3]
	tops := append([]string{"log"}, longs...)
	m.addGood(rng, "lo/x")
	for _, t := range tops {
		m.addGood(rng, t)
		m.addGood(rng, t+"/entry")
		m.addGood(rng, t+"/a/b/deep")
		m.addGood(rng, "svc/"+t+"/fmt")
		m.addGood(rng, "svc/"+t+"/in/ner")
	}
	return m, tops
}

func permutations(xs []string) [][]string {
	if len(xs) <= 1 {
		return [][]string{append([]string{}, xs...)}
	}
	var out [][]string
	for i := range xs {
		rest := append(append([]string{}, xs[:i]...), xs[i+1:]...)
		for _, p := range permutations(rest) {
			out = append(out, append([]string{xs[i]}, p...))
		}
	}
	return out
}

func (c *c17Checker) runPrefixSiblings(r *core.Run, rng *core.Rng) bool {
	nmods := r.Pick(2, 6)
	for k := 0; k < nmods; k++ {
		mr := rng.Fork(fmt.Sprint("prefix", k))
		m, tops := c17PrefixModule(mr, k)
		if err := m.write(filepath.Join(r.Scratch, "c17mod", fmt.Sprintf("pre%d", k))); err != nil {
			return false
		}
		if _, ok := settle(m.Dir, "./..."); !ok {
			r.Inconclusive("prefix-module-setup-failed")
			return true
		}
		var scs []c17Scenario
		add := func(class string, prior string, ignore bool, pats ...string) {
			scs = append(scs, c17Scenario{Class: class, Patterns: pats, Prior: prior, Ignore: ignore})
		}
		sub := func(prefix string, ts []string, suffix string) []string {
			var o []string
			for _, t := range ts {
				o = append(o, "./"+prefix+t+suffix)
			}
			return o
		}
		// subtree patterns: every order of every set of up to three siblings that contains `log`
		n := 0
		for a := 1; a < len(tops); a++ {
			for _, p := range permutations([]string{tops[0], tops[a]}) {
				add("prefix-siblings-subtrees-2", "empty", n%3 == 2, sub("", p, "/...")...)
				n++
			}
			for b := a + 1; b < len(tops); b++ {
				for _, p := range permutations([]string{tops[0], tops[a], tops[b]}) {
					prior := "empty"
					if n%5 == 4 {
						prior = "identical"
					}
					add("prefix-siblings-subtrees-3", prior, false, sub("", p, "/...")...)
					n++
				}
			}
		}
		// explicit packages at each nesting depth, longer name first and shorter name first
		for _, leaf := range []string{"", "/entry", "/a/b/deep"} {
			for a := 1; a < len(tops); a++ {
				add("prefix-siblings-packages-depth"+fmt.Sprint(strings.Count(leaf, "/")), "empty", false, "./"+tops[a]+leaf, "./log"+leaf)
				add("prefix-siblings-packages-depth"+fmt.Sprint(strings.Count(leaf, "/")), "empty", a == 2, "./log"+leaf, "./"+tops[a]+leaf)
			}
		}
		// below a common parent; mixed depths; the parent itself a prefix (lo / log)
		for a := 1; a < len(tops); a++ {
			add("prefix-siblings-below-parent", "empty", false, "./svc/"+tops[a]+"/...", "./svc/log/...")
			add("prefix-siblings-below-parent", "empty", false, "./svc/"+tops[a]+"/in/ner", "./svc/log/fmt", "./svc/"+tops[a]+"/fmt")
			add("prefix-siblings-mixed-depth", "empty", false, "./"+tops[a]+"/a/b/deep", "./log/entry", "./"+tops[a], "./log")
		}
		add("prefix-siblings-parent-prefix", "empty", false, "./log/...", "./lo/...")
		add("prefix-siblings-parent-prefix", "empty", false, "./"+tops[len(tops)-1]+"/...", "./log/entry", "./lo/x")
		// all of it, fresh and into a populated -out, by import path
		add("prefix-siblings-all", "empty", false, "./...")
		add("prefix-siblings-all", "identical", true, "./...")
		rev := append([]string{}, tops...)
		sort.Sort(sort.Reverse(sort.StringSlice(rev)))
		var ips []string
		for _, t := range rev {
			ips = append(ips, m.ModPath+"/"+t+"/...")
		}
		add("prefix-siblings-import-path-subtrees-reverse-sorted", "empty", false, ips...)
		add("prefix-siblings-import-path-subtrees-reverse-sorted", "stale", false, ips...)
		core.Parallel(len(scs), 12, func(i int) { c.runScenario(m, scs[i]) })
		r.Count("prefix_sibling_scenarios", int64(len(scs)))
		r.Count("modules", 1)
	}
	return true
}

// ---------------------------------------------------------------- fraction of translatable declarations under -ignore-errors

// c17FractionModule: packages with a conversion error, crossed over
//   - how many of the declarations translate: none, exactly one, half, all but one;
//   - package doc comment or not, other comments or not;
//   - one file or three;
//   - no import, a builtin import (sync), an import of another package of the module.
//
// With -ignore-errors the file of each must exist and hold exactly the declarations that translate (possibly
// none: header and footer only); without the flag nothing is written for any of them.
func c17FractionModule(k int) *c17Module {
	m := &c17Module{K: 200 + k, ModPath: fmt.Sprintf("example.com/cli-t/frac.%d", k), byPath: map[string]*c17Pkg{}, lists: map[string]*c17List{}}
	lib := m.add(&c17Pkg{Dir: "lib", Label: "good", GoodDefs: []string{"Entry"}, Files: map[string]string{"a.go": "package lib\n\nfunc Entry(x uint64) uint64 {\n\treturn x + 1\n}\n"}})
	fractions := []struct {
		name      string
		good, bad int
	}{{"none", 0, 3}, {"none-single-decl", 0, 1}, {"one", 1, 3}, {"half", 2, 2}, {"all-but-one", 3, 1}}
	n := 0
	for _, fr := range fractions {
		for _, doc := range []bool{false, true} {
			for _, comments := range []bool{false, true} {
				for _, nfiles := range []int{1, 3} {
					for _, imp := range []string{"", "sync", lib.Path} {
						if fr.good+fr.bad < nfiles && nfiles > 1 {
							continue
						}
						dir := fmt.Sprintf("fr/p%03d", n)
						name := fmt.Sprintf("p%03d", n)
						bodyOf := func(i int) string {
							return c17BadBodies[(n+i)%len(c17BadBodies)].body
						}
						use := ""
						switch imp {
						case "sync":
							use = "\tmu := new(sync.Mutex)\n\tmu.Lock()\n\tmu.Unlock()\n"
						case lib.Path:
							use = "\tx2 := lib.Entry(x)\n\tif x2 > 100 {\n\t\treturn x2\n\t}\n"
						}
						var decls, good, bad []string
						for i := 0; i < fr.bad; i++ {
							nm := fmt.Sprintf("Bad%d", i)
							cm := ""
							if comments {
								cm = fmt.Sprintf("// %s cannot be translated.\n", nm)
							}
							decls = append(decls, fmt.Sprintf("%sfunc %s(x uint64) uint64 {\n%s%s}\n", cm, nm, use, bodyOf(i)))
							bad = append(bad, nm)
						}
						for i := 0; i < fr.good; i++ {
							nm := fmt.Sprintf("Good%d", i)
							cm := ""
							if comments {
								cm = fmt.Sprintf("// %s is fine.\n", nm)
							}
							// interleave: good declarations go between the bad ones
							d := fmt.Sprintf("%sfunc %s(x uint64) uint64 {\n%s\treturn x + %d\n}\n", cm, nm, use, i+n)
							at := (i * 2) % (len(decls) + 1)
							decls = append(decls[:at], append([]string{d}, decls[at:]...)...)
							good = append(good, nm)
						}
						files := map[string]string{}
						per := (len(decls) + nfiles - 1) / nfiles
						for fi := 0; fi < nfiles; fi++ {
							lo, hi := fi*per, (fi+1)*per
							if lo > len(decls) {
								lo = len(decls)
							}
							if hi > len(decls) {
								hi = len(decls)
							}
							var b strings.Builder
							if doc && fi == 0 {
								fmt.Fprintf(&b, "// Package %s has declarations outside the subset.\n", name)
							}
							fmt.Fprintf(&b, "package %s\n\n", name)
							if imp != "" && hi > lo {
								fmt.Fprintf(&b, "import %q\n\n", imp)
							}
							if comments {
								b.WriteString("// a comment that belongs to no declaration\n\n")
							}
							b.WriteString(strings.Join(decls[lo:hi], "\n"))
							files[fmt.Sprintf("f%d.go", fi)] = b.String()
						}
						p := m.add(&c17Pkg{Dir: dir, Label: "bad", GoodDefs: good, BadDefs: bad, Files: files})
						p.Shape = fmt.Sprintf("translatable=%s doc=%v comments=%v files=%d import=%q", fr.name, doc, comments, nfiles, imp)
						n++
					}
				}
			}
		}
	}
	return m
}

func (c *c17Checker) runFractions(r *core.Run) bool {
	m := c17FractionModule(0)
	if err := m.write(filepath.Join(r.Scratch, "c17mod", "frac0")); err != nil {
		return false
	}
	if _, ok := settle(m.Dir, "./..."); !ok {
		r.Inconclusive("fraction-module-setup-failed")
		return true
	}
	var bad []*c17Pkg
	for _, p := range m.Pkgs {
		if p.Label == "bad" {
			bad = append(bad, p)
		}
	}
	// calibration: each package alone, without the flag, must fail with conversion errors only
	okLabels := true
	core.Parallel(len(bad), 16, func(i int) {
		s := c.solo(m, bad[i], nil, false)
		rep := parseStderr(s.iv.res.Stderr)
		if cr, _ := s.iv.crashed(); cr || s.iv.Code != 1 || len(rep.SrcFiles) == 0 || len(rep.LoadFailed) > 0 {
			okLabels = false
			r.Set("fraction_calibration_failure", map[string]interface{}{"package": bad[i].Path, "shape": bad[i].Shape, "exit_status": s.iv.Code, "stderr": clip(s.iv.res.Stderr, 800), "sources": bad[i].Files})
		}
	})
	if !okLabels {
		r.Inconclusive("fraction-module-label-calibration-failed")
		return true
	}
	var scs []c17Scenario
	flagsets := c17FlagSets()
	for i, p := range bad {
		// every package alone with -ignore-errors; some also without, some by import path, some with flags
		sc := c17Scenario{Class: "fraction-alone", Patterns: []string{"./" + p.Dir}, Ignore: true, Prior: "empty"}
		if i%4 == 1 {
			sc.Patterns = []string{p.Path}
		}
		if i%5 == 2 {
			sc.Flags = flagsets[(i/5)%8]
		}
		scs = append(scs, sc)
		if i%6 == 0 {
			scs = append(scs, c17Scenario{Class: "fraction-alone", Patterns: []string{"./" + p.Dir}, Ignore: false, Prior: "empty"})
		}
		if i%7 == 3 {
			// second run into the same -out: the (possibly declaration-less) file is not rewritten
			scs = append(scs, c17Scenario{Class: "fraction-alone", Patterns: []string{"./" + p.Dir}, Ignore: true, Prior: "identical"})
		}
	}
	scs = append(scs, c17Scenario{Class: "fraction-all", Patterns: []string{"./..."}, Ignore: true, Prior: "empty"})
	scs = append(scs, c17Scenario{Class: "fraction-all", Patterns: []string{"./..."}, Ignore: false, Prior: "empty"})
	scs = append(scs, c17Scenario{Class: "fraction-all", Patterns: []string{"./fr/...", "./lib"}, Ignore: true, Prior: "identical", Flags: flagsets[3]})
	scs = append(scs, c17Scenario{Class: "fraction-all", Patterns: []string{"./..."}, Ignore: false, Prior: "stale-bad"})
	core.Parallel(len(scs), 12, func(i int) { c.runScenario(m, scs[i]) })
	r.Count("fraction_packages", int64(len(bad)))
	r.Count("fraction_scenarios", int64(len(scs)))
	r.Count("modules", 1)
	return true
}
