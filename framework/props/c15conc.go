package props

import (
	"fmt"
	"os"
	"path/filepath"
	"regexp"
	"runtime"
	"sort"
	"strconv"
	"strings"
	"sync"
	"time"

	"verif/core"

	"github.com/goose-lang/goose/machine"
)

// c15conc.go: the encoding primitives called from many goroutines at once, each goroutine on its OWN
// buffers (the statement is about values and buffers; an implementation that keeps hidden shared state —
// a scratch array, a pool — is correct sequentially and wrong here). Two children: a plain build in
// which every goroutine checks the exact bytes of its own canaried array after each Put and the value of
// each Get, and a -race build of the same workload whose report blocks with a frame of the library
// are violations. More goroutines than processors, so preemption inside a call happens.

func init() {
	Children["c15-conc"] = c15ConcChild
}

// c15ConcChild args: <goroutines> <calls per goroutine> <seed>
func c15ConcChild(args []string) int {
	g, _ := strconv.Atoi(args[0])
	n, _ := strconv.Atoi(args[1])
	seed, _ := strconv.ParseInt(args[2], 10, 64)
	var wg sync.WaitGroup
	var mu sync.Mutex
	bad := []string{}
	start := make(chan struct{})
	var calls int64
	for t := 0; t < g; t++ {
		wg.Add(1)
		go func(t int) {
			defer wg.Done()
			rng := core.NewRng(seed, fmt.Sprintf("c15-conc-%d", t))
			const N = 32
			var arr, want [N]byte
			<-start
			local := []string{}
			for i := 0; i < n && len(local) < 3; i++ {
				off := rng.Intn(8)
				v := rng.U64()
				if i%3 == 0 {
					v = uint64(t)<<56 | uint64(i) // self-identifying
				}
				copy(arr[:], rng.Bytes(N))
				want = arr
				if i%2 == 0 {
					machine.UInt64Put(arr[off:off+8+rng.Intn(8)], v)
					for k := 0; k < 8; k++ {
						want[off+k] = byte(v >> (8 * uint(k)))
					}
					if arr != want {
						local = append(local, fmt.Sprintf("MISMATCH put64 goroutine=%d call=%d value=%#x array=%x want=%x", t, i, v, arr, want))
					}
					if got := machine.UInt64Get(arr[off:]); got != v && arr == want {
						local = append(local, fmt.Sprintf("MISMATCH get64 goroutine=%d call=%d got=%#x want=%#x", t, i, got, v))
					}
				} else {
					v32 := uint32(v)
					machine.UInt32Put(arr[off:off+4+rng.Intn(8)], v32)
					for k := 0; k < 4; k++ {
						want[off+k] = byte(v32 >> (8 * uint(k)))
					}
					if arr != want {
						local = append(local, fmt.Sprintf("MISMATCH put32 goroutine=%d call=%d value=%#x array=%x want=%x", t, i, v32, arr, want))
					}
					if got := machine.UInt32Get(arr[off:]); got != v32 && arr == want {
						local = append(local, fmt.Sprintf("MISMATCH get32 goroutine=%d call=%d got=%#x want=%#x", t, i, got, v32))
					}
				}
				if i%64 == 0 {
					runtime.Gosched()
				}
			}
			mu.Lock()
			bad = append(bad, local...)
			calls += int64(n) * 2
			mu.Unlock()
		}(t)
	}
	close(start)
	wg.Wait()
	sort.Strings(bad)
	for _, b := range bad {
		fmt.Println(b)
	}
	fmt.Printf("DONE goroutines=%d calls=%d mismatches=%d\n", g, calls, len(bad))
	return 0
}

var c15RepoFrame = regexp.MustCompile(`(github\.com/goose-lang/goose/machine\.[A-Za-z0-9_.()*]+)`)

func c15Concurrent(r *core.Run) {
	self, err := os.Executable()
	if err != nil {
		r.Inconclusive("no-self-executable")
		return
	}
	raceBin, rerr := r.BuildSelf("-race")
	type round struct {
		g, n int
	}
	rounds := []round{{2, 40000}, {4, 40000}, {16, 20000}, {64, 8000}, {256, 2000}}
	if !r.Quick() {
		rounds = append(rounds, round{3, 400000}, round{32, 100000}, round{128, 40000}, round{1024, 2000})
	}
	for ri, rd := range rounds {
		for _, procs := range []string{"2", "16"} {
			env := append(core.GoEnv(), "GOMAXPROCS="+procs)
			res := core.Exec(r.Scratch, env, 3*time.Minute, "", self, "child", "c15-conc", fmt.Sprint(rd.g), fmt.Sprint(rd.n), fmt.Sprint(r.Seed+int64(ri)))
			r.Eval(1)
			if res.TimedOut {
				r.Inconclusive("concurrent-child-watchdog")
				continue
			}
			if !strings.Contains(res.Stdout, "DONE ") {
				r.Violate("concurrent-callers-child-died", fmt.Sprintf("the encoding primitives called from %d goroutines on private buffers: the process died: %s", rd.g, firstLines(res.Stderr, 8)), map[string]interface{}{"goroutines": rd.g, "stderr": tail2(res.Stderr)})
				continue
			}
			r.Count("concurrent_calls_plain", int64(rd.g*rd.n*2))
			r.Count("concurrent_rounds_plain", 1)
			r.Distinct(fmt.Sprintf("conc/%d/%s", rd.g, procs))
			if i := strings.Index(res.Stdout, "MISMATCH "); i >= 0 {
				line := strings.SplitN(res.Stdout[i:], "\n", 2)[0]
				kind := strings.Fields(line)[1]
				r.Violate("concurrent-callers-"+kind+"-wrong", fmt.Sprintf("with %d goroutines each encoding into its own buffer, a call produced bytes/values of another call: %s", rd.g, line), map[string]interface{}{"goroutines": rd.g, "gomaxprocs": procs, "first": line})
			}
		}
		if rerr != nil {
			r.Inconclusive("race-build-failed")
			continue
		}
		logp := filepath.Join(r.Scratch, fmt.Sprintf("c15race%d", ri))
		env := append(core.GoEnv(), "GOMAXPROCS=8", "GORACE=halt_on_error=0 log_path="+logp)
		n := rd.n / 10
		res := core.Exec(r.Scratch, env, 5*time.Minute, "", raceBin, "child", "c15-conc", fmt.Sprint(rd.g), fmt.Sprint(n), fmt.Sprint(r.Seed+int64(ri)))
		if res.TimedOut || !strings.Contains(res.Stdout, "DONE ") {
			r.Inconclusive("race-child-did-not-finish")
			continue
		}
		r.Count("concurrent_calls_race", int64(rd.g*n*2))
		files, _ := filepath.Glob(logp + ".*")
		for _, f := range files {
			bs, _ := os.ReadFile(f)
			for _, blk := range strings.Split(string(bs), "WARNING: DATA RACE")[1:] {
				r.Count("race_blocks", 1)
				fr := c15RepoFrame.FindAllString(blk, -1)
				if len(fr) == 0 {
					r.Inconclusive("race-report-without-library-frame")
					continue
				}
				sort.Strings(fr)
				sig := strings.TrimPrefix(fr[0], "github.com/goose-lang/goose/machine.")
				r.Violate("concurrent-callers-race-"+sig, "data race inside the encoding primitives although every goroutine uses its own buffers: "+firstLines(blk, 14), map[string]interface{}{"goroutines": rd.g, "report": firstLines(blk, 40)})
			}
		}
	}
}

func tail2(s string) string {
	if len(s) > 3000 {
		return s[len(s)-3000:]
	}
	return s
}
