package props

import (
	"fmt"
	"go/ast"
	"go/parser"
	"go/token"
	"os"
	"path/filepath"
	"regexp"
	"sort"
	"strings"
	"sync"
	"sync/atomic"
	"time"

	"verif/core"
	"verif/gl"
	"verif/gorun"
)

// tv.go: the differential (translation-validation) core shared by C01–C03:
// run the Go side natively, translate with the freshly built goose, read the
// emitted text with the Coq reader and evaluate each closed case under the
// reference interpreter; compare canonical results.

type tvCase struct {
	Pkg     string `json:"pkg"`
	Case    string `json:"case"`
	GoType  string `json:"go_type"`
	GoValue string `json:"go_value"`
	GL      string `json:"goose_lang_outcome"`
	Verdict string `json:"verdict"` // agree | mismatch | go-panic | inconclusive:<why> | not-emitted
}

type tvPkg struct {
	Name       string
	Source     map[string]string
	GooseErrs  []gooseErr // conversion errors attributed to this package
	VFile      string     // emitted text ("" if none)
	ParseErr   string
	Cases      []tvCase
	LoadFailed bool
	Crashed    bool   // goose died (exit status >= 2, signal, or a Go panic trace)
	Stderr     string // goose's stderr for this package (per-package mode only)
	ExitCode   int
}

type gooseErr struct {
	Category string
	Message  string
	Src      string // file:line:col
	Raw      string
}

var ansiRe = regexp.MustCompile("\x1b\\[[0-9;]*m")

// parseGooseErrors splits goose's stderr into structured error blocks.
func parseGooseErrors(stderr string) (errs []gooseErr, rest []string) {
	s := ansiRe.ReplaceAllString(stderr, "")
	lines := strings.Split(s, "\n")
	hdr := regexp.MustCompile(`^(?:conversion failed: )?\[([a-z()\-]+)\]: (.*)$`)
	for i := 0; i < len(lines); i++ {
		m := hdr.FindStringSubmatch(lines[i])
		if m == nil {
			if strings.TrimSpace(lines[i]) != "" {
				rest = append(rest, lines[i])
			}
			continue
		}
		e := gooseErr{Category: m[1], Message: m[2]}
		raw := []string{lines[i]}
		j := i + 1
		for ; j < len(lines); j++ {
			raw = append(raw, lines[j])
			if strings.HasPrefix(lines[j], "  src: ") {
				e.Src = strings.TrimPrefix(lines[j], "  src: ")
				break
			}
			if hdr.MatchString(lines[j]) {
				j--
				raw = raw[:len(raw)-1]
				break
			}
		}
		e.Raw = strings.Join(raw, "\n")
		errs = append(errs, e)
		i = j
	}
	return
}

// bigBudget: second-stage step budget of the reference interpreter (see evalCase).
const bigBudget = 50_000_000

// bigRuns counts second-stage evaluations of this process (capped: they cost seconds each).
var bigRuns int64

type tvOptions struct {
	NativeNs     map[string]int64 // per case: shortest native running time (set by tvBatch per package)
	CasePrefixes []string
	GooseFlags   []string
	MaxSteps     int64
	Explore      bool // use the schedule explorer (C03) instead of the sequential evaluator
	MaxSchedules int
	GoRuns       int  // native runs (C03: outcome set)
	PerPackage   bool // one goose invocation per package (a crash then costs one package only)
}

// tvBatch runs one batch end to end. dir is a fresh directory under the scratch dir.
func tvBatch(r *core.Run, dir string, gooseBin string, pkgs []*gorun.Pkg, opt tvOptions) ([]*tvPkg, error) {
	if len(opt.CasePrefixes) == 0 {
		opt.CasePrefixes = []string{"case"}
	}
	b, err := gorun.Write(dir, pkgs, opt.CasePrefixes)
	if err != nil {
		return nil, err
	}
	buildErr, runErr := b.RunGo(2*time.Minute, nil)
	if buildErr != "" {
		return nil, fmt.Errorf("generated batch does not compile (generator defect, not a finding):\n%s", firstLines(buildErr, 30))
	}
	if runErr != "" {
		r.Inconclusive("go-run-" + strings.SplitN(runErr, ":", 2)[0])
	}
	flags := append([]string{"-ignore-errors"}, opt.GooseFlags...)
	outDir := filepath.Join(dir, "out")
	type perPkg struct {
		stderr string
		code   int
		signal bool
	}
	per := make([]perPkg, len(pkgs))
	if opt.PerPackage {
		core.Parallel(len(pkgs), 8, func(i int) {
			g := b.RunGoose(gooseBin, outDir, flags, "./cases/"+pkgs[i].Name)
			per[i] = perPkg{g.Stderr, g.Code, g.Signaled}
		})
	} else {
		g := b.RunGoose(gooseBin, outDir, flags)
		for i := range per {
			per[i] = perPkg{g.Stderr, g.Code, g.Signaled}
		}
	}
	// translated files of the batch by package name: a package that imports another package of the batch
	// is evaluated together with it (the Require's last component is the package's directory name)
	batchFiles := map[string]*gl.File{}
	var bfMu sync.Mutex
	resolve := func(mod string) *gl.File {
		bfMu.Lock()
		defer bfMu.Unlock()
		if f, ok := batchFiles[mod]; ok {
			return f
		}
		var f *gl.File
		for _, q := range pkgs {
			if q.Name == mod {
				if vb, err := os.ReadFile(b.VPath(outDir, q.Name)); err == nil {
					if pf, perr := gl.ParseFile(string(vb)); perr == nil {
						f = pf
					}
				}
			}
		}
		batchFiles[mod] = f
		return f
	}
	var out []*tvPkg
	for pi, p := range pkgs {
		tp := &tvPkg{Name: p.Name, Source: p.Files, Stderr: per[pi].stderr, ExitCode: per[pi].code}
		errs, _ := parseGooseErrors(per[pi].stderr)
		for _, e := range errs {
			if strings.Contains(e.Src, "/cases/"+p.Name+"/") {
				tp.GooseErrs = append(tp.GooseErrs, e)
			}
		}
		if per[pi].code >= 2 || per[pi].signal || strings.Contains(per[pi].stderr, "panic:") || strings.Contains(per[pi].stderr, "goroutine 1 [") {
			tp.Crashed = true
		}
		if strings.Contains(per[pi].stderr, "could not load package "+gorun.ModPath+"/cases/"+p.Name) {
			tp.LoadFailed = true
		}
		vb, err := os.ReadFile(b.VPath(outDir, p.Name))
		if err == nil {
			tp.VFile = string(vb)
		}
		out = append(out, tp)
		var prog *gl.Program
		if tp.VFile != "" {
			f, perr := gl.ParseFile(tp.VFile)
			if perr != nil {
				tp.ParseErr = perr.Error()
			} else {
				prog = gl.NewProgramWithImports(f, resolve)
				prog.GoNames = map[string]bool{}
				for _, src := range p.Files {
					for _, n := range goTopLevelNames(src) {
						prog.GoNames[n] = true
					}
				}
			}
		}
		for _, cn := range b.Cases[p.Name] {
			gores, ok := b.Results[p.Name][cn]
			c := tvCase{Pkg: p.Name, Case: cn}
			switch {
			case !ok:
				c.Verdict = "inconclusive:no-go-result"
			case gores.Panicked:
				c.Verdict = "go-panic"
			case prog == nil:
				c.GoType, c.GoValue = gores.Type, gores.Value
				c.Verdict = "not-emitted"
			default:
				c.GoType, c.GoValue = gores.Type, gores.Value
				if len(prog.Index[cn]) == 0 {
					c.Verdict = "not-emitted"
				} else {
					o := opt
					o.NativeNs = b.Elapsed[p.Name]
					c.GL, c.Verdict = evalCase(prog, cn, gores, o)
				}
			}
			tp.Cases = append(tp.Cases, c)
		}
	}
	return out, nil
}

// evalCase evaluates one case under both capacity policies. It agrees if some policy can
// produce Go's result; it is a mismatch if every policy yields a definite different outcome
// (a different value, a value of the wrong shape, or stuck).
func evalCase(prog *gl.Program, name string, gores gorun.CaseResult, opt tvOptions) (string, string) {
	td, err := gl.ParseTDesc(gores.Type)
	if err != nil {
		return "", "inconclusive:type-descriptor"
	}
	dec := func(in *gl.Interp, v gl.Val) (string, error) { return gl.Decode(in, v, td) }
	var outs []gl.Outcome
	for _, pol := range []gl.CapPolicy{gl.CapExact, gl.CapDouble} {
		o, _ := gl.RunSequential(prog, pol, name, opt.MaxSteps, dec, 30)
		outs = append(outs, o)
		if o.Kind == "value" && o.Detail == gores.Value {
			return o.String(), "agree"
		}
	}
	for _, o := range outs {
		if o.Kind == "unsupported" && strings.Contains(o.Detail, "Fork outside the schedule explorer") {
			// the case spawns threads: every interleaving must reproduce Go's (single) result
			ex := gl.Explore(prog, gl.CapExact, name, 3000, 300000, dec, 30)
			bad := ""
			for k := range ex.Outcomes {
				if k != "value:"+gores.Value {
					bad = k
				}
			}
			switch {
			case bad == "":
				return "value:" + gores.Value, "agree"
			case strings.HasPrefix(bad, "unsupported") || strings.HasPrefix(bad, "depth") || strings.HasPrefix(bad, "internal"):
				return bad, "inconclusive:explorer"
			default:
				return fmt.Sprintf("%s in some of %d interleavings (all outcomes: %v)", bad, ex.Schedules, ex.SortedOutcomes()), "mismatch"
			}
		}
	}
	for _, o := range outs {
		switch o.Kind {
		case "unsupported", "diverge", "internal":
			return o.String(), "inconclusive:" + o.Kind
		}
	}
	for _, o := range outs {
		if o.Kind == "budget" {
			// The native run returned. Generated programs are small but not uniformly so (nested ranges over a
			// growing slice reach 10^5 iterations), so the first budget is only a filter: the case is run again
			// with bigBudget steps. Divergence is claimed only if that is exhausted too AND the native run of the
			// case took under 100 microseconds: a program the hardware finishes in 100 us executes < 3*10^5
			// operations, i.e. < 3*10^6 model steps; bigBudget is 16 times that. The clock can only withhold the
			// verdict (slow machine => inconclusive), never produce one.
			if atomic.AddInt64(&bigRuns, 1) > 60 {
				return "no result within the first step budget (second stage capped)", "inconclusive:budget"
			}
			o2, _ := gl.RunSequential(prog, gl.CapExact, name, bigBudget, dec, 30)
			if o2.Kind == "value" && o2.Detail == gores.Value {
				return o2.String(), "agree"
			}
			if o2.Kind != "budget" {
				if o2.Kind == "unsupported" || o2.Kind == "internal" {
					return o2.String(), "inconclusive:" + o2.Kind
				}
				return o2.String(), "mismatch"
			}
			if opt.NativeNs != nil {
				if ns, ok := opt.NativeNs[name]; ok && ns < 100_000 {
					return fmt.Sprintf("diverges: no result within %d steps of the reference interpreter although the native run took %d ns (%s)", bigBudget, ns, o2.Detail), "mismatch"
				}
			}
			return "no result within the step budget (" + o2.Detail + ")", "inconclusive:budget"
		}
	}
	// every policy gave a definite outcome different from Go's
	return outs[0].String(), "mismatch"
}

// goTopLevelNames lists the package-level identifiers a Go source file declares.
func goTopLevelNames(src string) []string {
	fset := token.NewFileSet()
	f, err := parser.ParseFile(fset, "x.go", src, 0)
	if err != nil {
		return nil
	}
	var out []string
	for _, d := range f.Decls {
		switch d := d.(type) {
		case *ast.FuncDecl:
			if d.Recv == nil {
				out = append(out, d.Name.Name)
			}
		case *ast.GenDecl:
			for _, sp := range d.Specs {
				switch sp := sp.(type) {
				case *ast.TypeSpec:
					out = append(out, sp.Name.Name)
				case *ast.ValueSpec:
					for _, n := range sp.Names {
						out = append(out, n.Name)
					}
				}
			}
		}
	}
	return out
}

func firstLines(s string, n int) string {
	ls := strings.Split(s, "\n")
	if len(ls) > n {
		ls = ls[:n]
	}
	return strings.Join(ls, "\n")
}

func sortedKeys(m map[string]int) []string {
	var ks []string
	for k := range m {
		ks = append(ks, k)
	}
	sort.Strings(ks)
	return ks
}

// funcSource extracts the text of one top-level function from a Go source (for messages).
func funcSource(src, name string) string {
	i := strings.Index(src, "func "+name+"(")
	if i < 0 {
		return ""
	}
	j := strings.Index(src[i:], "\n}\n")
	if j < 0 {
		return src[i:]
	}
	return src[i : i+j+3]
}
