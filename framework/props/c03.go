package props

import (
	"fmt"
	"os"
	"path/filepath"
	"sort"
	"strconv"
	"strings"
	"time"

	"verif/core"
	"verif/gen"
	"verif/gl"
	"verif/gorun"
)

// C03: concurrent programs — every outcome Go produces is an outcome of the emitted GooseLang
// program under some interleaving; for schedule-independent programs every complete
// interleaving yields that value with no deadlock and no stuck thread.

func init() {
	Registry["C03"] = Prop{Level: "translation_validation", Run: runC03}
}

type c03Result struct {
	Pkg        string         `json:"pkg"`
	Case       string         `json:"case"`
	Template   string         `json:"template"`
	Det        bool           `json:"schedule_independent"`
	GoOutcomes map[string]int `json:"go_outcomes"`
	Model      map[string]int `json:"model_outcomes"`
	Schedules  int            `json:"interleavings_explored"`
	BoundHit   bool           `json:"bound_hit"`
	MaxThreads int            `json:"threads"`
	MaxChoices int            `json:"max_choice_points"`
	Verdict    string         `json:"verdict"`
}

func runC03(r *core.Run) (bool, string) {
	r.SetRule("programs = generated data-race-free concurrent packages from 11 template families (WaitGroup joins, Cond Signal/Broadcast/Wait loops, WaitTimeout loops, polling with Sleep, struct-held mutexes, nested spawns, first-writer-wins and order-sensitive accumulation); S_go = values printed by R native runs over GOMAXPROCS 1/2/4/16 (plus a -race build confirming race freedom); S_model = terminal outcomes of the emitted program under the schedule explorer (depth-first over all orders of lock acquisitions / waitgroup waits / thread starts, vector-clock race monitor); a program is distinct and non-trivial when it spawned at least one thread and more than one interleaving was explored")
	r.Assume("the reference interpreter and its scheduler implement GooseLang's thread semantics: Fork, lock acquire/release, condWait = release;acquire (signals are no-ops), waitgroup counter; races are stuck")
	r.Assume("Go outcome sets are sampled by repeated native runs, not enumerated")
	goose, err := r.BuildGoose()
	if err != nil {
		fmt.Println(err)
		return false, "goose does not build"
	}
	if !calibrate(r, goose) {
		return false, "interpreter calibration failed: no verdicts issued"
	}
	rng := core.NewRng(r.Seed, "c03")
	npk := r.Pick(5, 70)
	per := r.Pick(6, 10)
	var cps []*gen.ConcPackage
	var pkgs []*gorun.Pkg
	for i := 0; i < npk; i++ {
		name := fmt.Sprintf("c%d", i)
		// the first packages sweep the template families in order (every family in every run), the rest draw at random
		first := -1
		if i*per < gen.NumConcTemplates+per {
			first = i * per
		}
		cp := gen.ConcurrentPackageFrom(rng.Fork(name), name, per, first)
		cps = append(cps, cp)
		pkgs = append(pkgs, &gorun.Pkg{Name: name, Files: map[string]string{name + ".go": cp.Source}})
	}
	// look-alikes just outside the subset (go statements with arguments, bare returns in goroutine bodies):
	// rejected-or-faithful
	{
		cp := gen.ConcurrentLookalikePackage("lk0")
		cps = append(cps, cp)
		pkgs = append(pkgs, &gorun.Pkg{Name: cp.Name, Files: map[string]string{cp.Name + ".go": cp.Source}})
	}
	// the access path through which a synchronisation object is reached (rejected-or-faithful)
	for layout := 0; layout < 4; layout++ {
		cp := gen.ConcurrentPathsPackage(fmt.Sprintf("paths%d", layout), layout)
		cps = append(cps, cp)
		pkgs = append(pkgs, &gorun.Pkg{Name: cp.Name, Files: map[string]string{cp.Name + ".go": cp.Source}})
	}
	// what the body of a go statement's function literal consists of (rejected-or-faithful)
	for part := 0; part < 2; part++ {
		cp := gen.ConcurrentBodyShapesPackage(fmt.Sprintf("bodies%d", part), part)
		cps = append(cps, cp)
		pkgs = append(pkgs, &gorun.Pkg{Name: cp.Name, Files: map[string]string{cp.Name + ".go": cp.Source}})
	}
	// shipped concurrent examples are exercised too (spawn.go / locks.go / condvar.go are in unittest; they
	// have no closed cases, so only generated programs are compared)
	dir := filepath.Join(r.Scratch, "c03")
	b, err := gorun.Write(dir, pkgs, []string{"case"})
	if err != nil {
		fmt.Println(err)
		return false, "cannot write batch"
	}
	bin, berr := b.BuildGo()
	if berr != "" {
		fmt.Println("generated concurrent batch does not compile (generator defect):\n" + firstLines(berr, 20))
		return false, "generated batch does not compile"
	}
	reps := r.Pick(12, 60)
	for _, procs := range []string{"1", "2", "4", "16"} {
		_, rerr := b.RunBin(bin, 5*time.Minute, []string{"GOMAXPROCS=" + procs, fmt.Sprintf("VB_REPEAT=%d", reps)})
		if rerr != "" && strings.Contains(rerr, "all goroutines are asleep - deadlock!") {
			// Go's own deadlock report is a definite outcome of the program that was running (no clock involved):
			// find the case by running the packages one at a time; the case the process died in is the first one
			// of its package without a full set of results in that run
			for _, p := range pkgs {
				before := map[string]int{}
				for _, cn := range b.Cases[p.Name] {
					for _, k := range b.Multi[p.Name][cn] {
						before[cn] += k
					}
				}
				_, perr := b.RunBin(bin, 5*time.Minute, []string{"GOMAXPROCS=" + procs, fmt.Sprintf("VB_REPEAT=%d", reps), "VB_ONLY=" + p.Name})
				r.Count("native_process_runs", 1)
				if !strings.Contains(perr, "all goroutines are asleep - deadlock!") {
					continue
				}
				for _, cn := range b.Cases[p.Name] {
					after := 0
					for _, k := range b.Multi[p.Name][cn] {
						after += k
					}
					if after-before[cn] < reps {
						if b.Multi[p.Name] == nil {
							b.Multi[p.Name] = map[string]map[string]int{}
						}
						if b.Multi[p.Name][cn] == nil {
							b.Multi[p.Name][cn] = map[string]int{}
						}
						b.Multi[p.Name][cn]["DEADLOCK"]++
						r.Count("native_deadlock_reports", 1)
						fmt.Printf("native run: Go's runtime reports a deadlock in %s/%s (GOMAXPROCS=%s)\n", p.Name, cn, procs)
						break
					}
				}
			}
		} else if rerr != "" {
			r.Inconclusive("go-run-" + strings.SplitN(rerr, ":", 2)[0])
			fmt.Println("native run:", firstLines(rerr, 5))
		}
		r.Count("native_process_runs", 1)
	}
	// race freedom of the Go side (a race here is a generator defect: the program is dropped)
	racy := map[string]bool{}
	rbin, berr := b.BuildGo("-race")
	if berr == "" {
		logp := filepath.Join(dir, "race")
		b.RunBin(rbin, 10*time.Minute, []string{"GOMAXPROCS=4", fmt.Sprintf("VB_REPEAT=%d", r.Pick(3, 10)), "GORACE=halt_on_error=0 log_path=" + logp})
		files, _ := filepath.Glob(logp + ".*")
		nrace := 0
		for _, f := range files {
			bs, _ := os.ReadFile(f)
			txt := string(bs)
			nrace += strings.Count(txt, "WARNING: DATA RACE")
			for _, p := range pkgs {
				for _, cn := range b.Cases[p.Name] {
					if strings.Contains(txt, "cases/"+p.Name+"."+cn) {
						racy[p.Name+"/"+cn] = true
					}
				}
			}
		}
		r.Set("go_side_race_reports", nrace)
		r.Count("native_process_runs", 1)
	} else {
		r.Inconclusive("race-build-failed")
	}
	// translate
	gr := b.RunGoose(goose, filepath.Join(dir, "out"), []string{"-ignore-errors"})
	gerrs, _ := parseGooseErrors(gr.Stderr)
	mayReject := map[string]bool{}
	for _, cp := range cps {
		if cp.MayReject {
			mayReject[cp.Name] = true
		}
	}
	// declarations of look-alike packages that goose refused (by package): a case that needs one is not compared
	rejectedDecls := map[string]map[string]bool{}
	for _, e := range gerrs {
		lk := false
		for n := range mayReject {
			if strings.Contains(e.Src, "/cases/"+n+"/") {
				lk = true
				parts := strings.Split(e.Src, ":")
				if len(parts) >= 3 {
					ln, _ := strconv.Atoi(parts[len(parts)-2])
					for _, cp := range cps {
						if cp.Name != n {
							continue
						}
						for _, fr := range funcRanges(cp.Source) {
							if ln >= fr.Start && ln <= fr.End {
								if rejectedDecls[n] == nil {
									rejectedDecls[n] = map[string]bool{}
								}
								bare := fr.Name
								if i := strings.Index(bare, ":"); i >= 0 {
									bare = bare[i+1:]
								}
								rejectedDecls[n][bare] = true
							}
						}
					}
				}
			}
		}
		if lk {
			r.Count("lookalike_cases_rejected_by_goose", 1)
			continue
		}
		r.Violate("c03-rejected-"+sigOf(e.Message), "goose rejects a supported concurrent program: "+e.Raw, map[string]interface{}{"error": e.Raw})
	}
	if gr.Code >= 2 || strings.Contains(gr.Stderr, "panic:") {
		r.Violate("c03-goose-crash", "goose crashed on generated concurrent programs: "+firstLines(gr.Stderr, 8), nil)
		return false, "goose crashed"
	}
	type job struct {
		cp *gen.ConcPackage
		cn string
	}
	var jobs []job
	progs := map[string]*gl.Program{}
	for _, cp := range cps {
		vb, err := os.ReadFile(b.VPath(gr.OutDir, cp.Name))
		if err != nil {
			r.Violate("c03-no-output", "no output file for accepted package "+cp.Name, nil)
			continue
		}
		f, perr := gl.ParseFile(string(vb))
		if perr != nil {
			r.Violate("c03-unreadable-output", "emitted file unreadable: "+perr.Error(), map[string]interface{}{"v": string(vb), "source": cp.Source})
			continue
		}
		progs[cp.Name] = gl.NewProgram(f)
		for _, cn := range cp.Cases {
			jobs = append(jobs, job{cp, cn})
		}
	}
	td, _ := gl.ParseTDesc("u64")
	dec := func(in *gl.Interp, v gl.Val) (string, error) { return gl.Decode(in, v, td) }
	maxSched := r.Pick(20000, 300000)
	core.Parallel(len(jobs), 16, func(i int) {
		j := jobs[i]
		info := j.cp.Info[j.cn]
		res := c03Result{Pkg: j.cp.Name, Case: j.cn, Template: info.Tmpl, Det: info.Det, GoOutcomes: b.Multi[j.cp.Name][j.cn]}
		r.Eval(1)
		if racy[j.cp.Name+"/"+j.cn] {
			r.Inconclusive("go-side-race")
			return
		}
		if len(res.GoOutcomes) == 0 {
			r.Inconclusive("no-go-result")
			return
		}
		if j.cp.MayReject {
			needsRejected := false
			for n := range reachableNames(j.cp.Source, j.cn) {
				if rejectedDecls[j.cp.Name][n] {
					needsRejected = true
				}
			}
			if needsRejected {
				r.Count("lookalike_cases_not_compared", 1)
				return
			}
		}
		prog := progs[j.cp.Name]
		if len(prog.Index[j.cn]) == 0 {
			if j.cp.MayReject {
				r.Count("lookalike_cases_not_compared", 1)
				return
			}
			r.Violate("c03-case-not-emitted", "definition of "+j.cn+" missing", nil)
			return
		}
		ex := gl.Explore(prog, gl.CapExact, j.cn, maxSched, 200000, dec, 4)
		// second exploration under Go's condition-variable semantics (Wait blocks until a
		// Signal/Broadcast reaches it; Signal wakes the longest waiter): the translation must
		// preserve which of Signal / Broadcast / Wait is called on which object
		sprog := *prog
		sprog.StrictCond = true
		sex := gl.Explore(&sprog, gl.CapExact, j.cn, maxSched, 200000, dec, 4)
		r.Count("interleavings_explored_signal_semantics", int64(sex.Schedules))
		res.Model, res.Schedules, res.BoundHit, res.MaxThreads, res.MaxChoices = ex.Outcomes, ex.Schedules, ex.BoundHit, ex.MaxThreads, ex.MaxChoices
		r.Count("interleavings_explored", int64(ex.Schedules))
		r.Count("template_"+info.Tmpl, 1)
		src := funcSource(j.cp.Source, j.cn)
		detail := map[string]interface{}{"result": &res, "go_source": src, "witness_schedules": ex.Witness}
		incon := false
		for k := range ex.Outcomes {
			kind := strings.SplitN(k, ":", 2)[0]
			switch kind {
			case "unsupported", "depth", "internal", "diverge":
				incon = true
			}
		}
		// a generated program is a handful of bounded critical sections: an interleaving that is
		// still running after the step budget spins forever (e.g. holding a lock nobody can get)
		if n := ex.Outcomes["budget:"]; n > 0 && info.Det {
			res.Verdict = "model-diverges"
			r.Violate("c03-"+info.Tmpl+"-model-diverges", fmt.Sprintf("%d interleavings of the emitted program never finish (step budget exhausted) although Go always returns %v", n, keysOf(res.GoOutcomes)), detail)
		}
		// clause 1: every Go outcome is a model outcome
		missing := []string{}
		for gv := range res.GoOutcomes {
			if gv == "PANIC" {
				continue
			}
			if gv == "DEADLOCK" {
				// reported by Go's runtime: a model outcome only if some interleaving of the emitted program deadlocks too
				has := false
				for k := range ex.Outcomes {
					if strings.HasPrefix(k, "deadlock") || strings.Contains(k, "deadlock") {
						has = true
					}
				}
				if !has {
					missing = append(missing, "DEADLOCK (all goroutines asleep, reported by the Go runtime)")
				}
				continue
			}
			if ex.Outcomes["value:"+gv] == 0 {
				missing = append(missing, gv)
			}
		}
		sort.Strings(missing)
		switch {
		case len(missing) > 0 && !ex.BoundHit && !incon:
			res.Verdict = "go-outcome-not-in-model"
			r.Violate("c03-"+info.Tmpl+"-go-outcome-not-in-model", fmt.Sprintf("Go produced %v which no interleaving of the emitted program yields (model outcomes %v over %d interleavings)", missing, keysOf(ex.Outcomes), ex.Schedules), detail)
		case len(missing) > 0:
			res.Verdict = "inconclusive"
			r.Inconclusive("go-outcome-missing-but-exploration-incomplete")
		}
		// clause 2: schedule-independent programs: every complete interleaving yields that value
		if info.Det && res.Verdict == "" {
			for k := range ex.Outcomes {
				kind := strings.SplitN(k, ":", 2)[0]
				switch kind {
				case "stuck", "deadlock", "value-mismatch":
					res.Verdict = "model-" + kind
					r.Violate("c03-"+info.Tmpl+"-model-"+kind, fmt.Sprintf("some interleaving of the emitted program ends in %s although the Go result %v does not depend on the schedule", k, keysOf(res.GoOutcomes)), detail)
				case "value":
					if res.GoOutcomes[strings.TrimPrefix(k, "value:")] == 0 {
						res.Verdict = "model-other-value"
						r.Violate("c03-"+info.Tmpl+"-model-other-value", fmt.Sprintf("some interleaving of the emitted program yields %s, Go always yields %v", k, keysOf(res.GoOutcomes)), detail)
					}
				}
			}
			if len(res.GoOutcomes) > 1 {
				// the generator's claim of schedule independence was wrong: not a finding about goose
				r.Inconclusive("template-not-deterministic-in-go")
			}
		}
		// the same two clauses under signal semantics
		if res.Verdict == "" && !sex.BoundHit {
			sincon := false
			for k := range sex.Outcomes {
				switch strings.SplitN(k, ":", 2)[0] {
				case "budget", "unsupported", "depth", "internal", "diverge":
					sincon = true
				}
			}
			if !sincon {
				var smissing []string
				for gv := range res.GoOutcomes {
					if gv != "PANIC" && gv != "DEADLOCK" && sex.Outcomes["value:"+gv] == 0 {
						smissing = append(smissing, gv)
					}
				}
				sdetail := map[string]interface{}{"result": &res, "go_source": src, "model_outcomes_signal_semantics": sex.Outcomes, "witness_schedules": sex.Witness}
				if len(smissing) > 0 {
					res.Verdict = "go-outcome-not-in-model(signal semantics)"
					r.Violate("c03-"+info.Tmpl+"-go-outcome-not-in-model-under-signal-semantics", fmt.Sprintf("with Wait blocking until signalled, Go produced %v which no interleaving of the emitted program yields (%v)", smissing, keysOf(sex.Outcomes)), sdetail)
				} else if info.Det {
					for k := range sex.Outcomes {
						kind := strings.SplitN(k, ":", 2)[0]
						if kind == "stuck" || kind == "deadlock" || (kind == "value" && res.GoOutcomes[strings.TrimPrefix(k, "value:")] == 0) {
							res.Verdict = "model-" + kind + "(signal semantics)"
							r.Violate("c03-"+info.Tmpl+"-model-"+kind+"-under-signal-semantics", fmt.Sprintf("with Wait blocking until signalled, some interleaving of the emitted program ends in %s; Go always yields %v", k, keysOf(res.GoOutcomes)), sdetail)
						}
					}
				}
			}
		}
		if res.Verdict == "" {
			if ex.BoundHit || incon {
				res.Verdict = "held-on-explored-part (bound hit or unsupported construct)"
				r.Inconclusive("exploration-incomplete")
				r.Count("exploration_incomplete_template_"+info.Tmpl, 1)
			} else {
				res.Verdict = "held"
			}
		}
		if ex.MaxThreads > 1 && ex.Schedules > 1 {
			r.Distinct(j.cp.Name + "/" + j.cn)
		}
		if len(ex.Outcomes) > 1 {
			r.Count("programs_with_several_model_outcomes", 1)
		}
		if len(res.GoOutcomes) > 1 {
			r.Count("programs_with_several_go_outcomes", 1)
		}
		r.Count("cases_compared", 1)
		r.Sample(5, map[string]interface{}{"result": &res, "go_source": src})
	})
	r.Set("programs", len(jobs))
	r.Set("disagreements_checked", r.GetCount("cases_compared"))
	replayWitnessesC03(r, goose)
	return r.GetCount("cases_compared") >= 10 && r.GetCount("interleavings_explored") >= 100, "too few concurrent programs explored"
}

func keysOf(m map[string]int) []string {
	var ks []string
	for k := range m {
		ks = append(ks, k)
	}
	sort.Strings(ks)
	return ks
}

// replayWitnessesC03: pinned witnesses of known C03 findings (none so far) would go here.
func replayWitnessesC03(r *core.Run, goose string) {}
